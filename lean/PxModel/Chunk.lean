import PxModel.Bytes
import PxModel.PyInt
/-
  Model of proxy/http/parser/chunk.py (ChunkParser.parse / process / to_chunks)
  as of the tree with the `fix:` commits for the chunked decoder
  (segmentation independence, chunk extensions, negative sizes).
-/
namespace Px.Chunk

inductive CState | waitingForSize | waitingForData | complete
  deriving DecidableEq, Repr

def CState.num : CState → Nat
  | .waitingForSize => 1 | .waitingForData => 2 | .complete => 3

structure Chunk where
  state : CState := .waitingForSize
  body : Bytes := []      -- parsed chunks
  chunk : Bytes := []     -- partial chunk / carried-over bytes
  size : Option Nat := none
  deriving DecidableEq, Repr

def init : Chunk := {}

inductive Err | valueError
  deriving DecidableEq, Repr

/-- `ChunkParser.process(raw)`: new state, `more` is `len(raw) > 0` of the returned remainder -/
def process (c : Chunk) (raw : Bytes) : Except Err (Chunk × Bytes) :=
  match c.state with
  | .waitingForSize =>
    let raw := c.chunk ++ raw
    let c := { c with chunk := [] }
    match splitCRLF raw with
    | none => .ok ({ c with chunk := raw }, [])                 -- CRLF not received yet
    | some (line, rest) =>
      if (strip line).isEmpty then .ok (c, rest)                 -- blank line: skip
      else
        -- chunk-size [ chunk-ext ]: `int(line.split(b';', 1)[0], 16)`
        let szText := match splitOnce1 59 line with
          | none => line
          | some (l, _) => l
        match pyInt 16 szText with
        | none => .error .valueError
        | some sz =>
          if sz < 0 then .error .valueError
          else
            let size := sz.toNat
            -- last chunk completes only along with the CRLF terminating the body
            if size == 0 && rest.length < 2 && startsWith CRLF rest then
              .ok ({ c with chunk := raw }, [])
            else
              .ok ({ c with size := some size, state := .waitingForData }, rest)
  | .waitingForData =>
    match c.size with
    | none => .error .valueError      -- assert self.size is not None (unreachable)
    | some size =>
      let remaining := size - c.chunk.length
      let chunk := c.chunk ++ raw.take remaining
      let raw := raw.drop remaining
      if chunk.length == size then
        let raw := if raw.take 2 == CRLF then raw.drop 2 else raw
        .ok ({ state := if size == 0 then .complete else .waitingForSize,
               body := c.body ++ chunk, chunk := [], size := none }, raw)
      else .ok ({ c with chunk := chunk }, raw)
  | .complete => .ok (c, raw)

/-- the `while more and self.state != COMPLETE` loop of `ChunkParser.parse`;
    fuel = an upper bound on the number of `process` calls (each call consumes
    at least one byte or stops) -/
def loop : Nat → Chunk → Bytes → Except Err (Chunk × Bytes)
  | 0, c, raw => .ok (c, raw)
  | fuel + 1, c, raw =>
    if raw.isEmpty || c.state == .complete then .ok (c, raw)
    else match process c raw with
      | .error e => .error e
      | .ok (c', raw') => loop fuel c' raw'

/-- `ChunkParser.parse(raw)`: returns the unconsumed remainder.  Fuel: every
    `process` call that does not end the loop shortens stash + input
    (`PxProofs/ChunkLemmas.lean`, `loop_fuel`), so this bound is never reached. -/
def parse (c : Chunk) (raw : Bytes) : Except Err (Chunk × Bytes) :=
  loop (c.chunk.length + raw.length + 1) c raw

/-- `ChunkParser.to_chunks(raw, chunk_size)`; `chunk_size = 0` raises ValueError
    in Python (`range()` step 0) and is rejected here. -/
def toChunksAux (size : Nat) : Nat → Bytes → Bytes
  | 0, _ => []
  | fuel + 1, raw =>
    if raw.isEmpty then []
    else
      let ch := raw.take size
      natToHex ch.length ++ CRLF ++ ch ++ CRLF ++ toChunksAux size fuel (raw.drop size)

def toChunks (raw : Bytes) (size : Nat) : Except Err Bytes :=
  if size == 0 then .error .valueError
  else .ok (toChunksAux size raw.length raw ++ b "0" ++ CRLF ++ CRLF)

end Px.Chunk
