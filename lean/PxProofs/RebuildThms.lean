import PxProofs.Rebuild
/-!
# `parse (rebuild m)` for the three framings, requests and responses (C15)
-/
namespace Px.Codec

open Px.Parser Px.Build
open Px.Url (Url)

/-- the `(name, value)` pairs of a parser's header map -/
def hdrPairs (p : Parser) : HDict := namesOf (p.headers.getD [])

theorem defaultDisable_nil : Px.Gen.defaultDisableHeaders = [] := rfl

theorem build_headers_eq (p : Parser) (hi : hdrInvB (p.headers.getD []) = true) :
    (match p.headers with
      | some h => if h.isEmpty then [] else rebuildHeaders h ((none : Option (List Bytes)).getD Px.Gen.defaultDisableHeaders) none
      | none => []) = hdrPairs p := by
  unfold hdrPairs
  cases hh : p.headers with
  | none => rfl
  | some h =>
    rw [hh] at hi
    simp only [Option.getD_none, Option.getD_some, defaultDisable_nil]
    by_cases he : h.isEmpty = true
    · have : h = [] := by simpa using he
      subst this; rfl
    · simp only [he, Bool.false_eq_true, if_false]
      exact rebuildHeaders_eq h hi

theorem resp_headers_eq (p : Parser) (hi : hdrInvB (p.headers.getD []) = true) :
    (match p.headers with
      | some h => if h.isEmpty then [] else
          h.foldl (fun acc (x : Bytes × Bytes × Bytes) => match x with | (_, name, value) => dSet acc name value) []
      | none => []) = hdrPairs p := by
  unfold hdrPairs
  cases hh : p.headers with
  | none => rfl
  | some h =>
    rw [hh] at hi
    simp only [Option.getD_some]
    by_cases he : h.isEmpty = true
    · have : h = [] := by simpa using he
      subst this; rfl
    · simp only [he, Bool.false_eq_true, if_false]
      exact respHeaders_eq h hi

theorem build_eq (bufSize : Nat) (p : Parser) (meth ver : Bytes) (hty : p.ty = .request)
    (hm : p.method = some meth) (hv : p.version = some ver) (hmne : meth ≠ []) (hvne : ver ≠ [])
    (hi : hdrInvB (p.headers.getD []) = true) :
    Px.Build.build bufSize Px.Gen.defaultDisableHeaders p none none =
      match bodyOrChunks bufSize p with
      | .error e => .error e
      | .ok body => .ok (buildRequest [] meth (pathOf p) ver none (hdrPairs p) body false true) := by
  unfold Px.Build.build hdrPairs
  have h1 : meth.isEmpty = false := by simpa using hmne
  have h2 : ver.isEmpty = false := by simpa using hvne
  simp only [hm, hv, hty, h1, h2, Bool.not_false, beq_self_eq_true, Bool.and_self, Bool.not_true,
    Bool.false_eq_true, if_false, Option.getD_some, Option.getD_none, defaultDisable_nil]
  cases hb : bodyOrChunks bufSize p with
  | error e => rfl
  | ok body =>
    simp only
    rcases hh : p.headers with _ | h
    · rfl
    · rw [hh] at hi
      simp only [Option.getD_some] at hi ⊢
      by_cases he : h.isEmpty = true
      · have : h = [] := by simpa using he
        subst this; rfl
      · simp only [he, Bool.false_eq_true, if_false, rebuildHeaders_eq h hi]
        rfl

theorem reqHeaders_rebuild (ua : Bytes) (L : HDict) (body : Option Bytes) :
    reqHeaders ua none L body false true =
      if bodyTruthy body && !hasKey kTE L then dSet L nCL (natToDec (body.getD []).length) else L := by
  simp [reqHeaders, pktHeaders, reqH3, reqH2, reqH1]

theorem hdrPairs_hdrOK (p : Parser) (hi : hdrInvB (p.headers.getD []) = true) :
    ∀ e ∈ hdrPairs p, HdrOK e.1 e.2 := by
  intro e he
  have := wfHeaders_mem (wfHeaders_namesOf hi) he
  exact hdrOK_of_wf this.1 this.2

theorem wfValue_nil : wfValue [] = true := by decide

/-- common guard of the request rebuild theorems -/
structure ReqGuard (p : Parser) (meth ver : Bytes) : Prop where
  ty : p.ty = .request
  method : p.method = some meth
  version : p.version = some ver
  methodTok : plainTok meth = true
  versionTok : plainTok ver = true
  pathTok : plainTok (pathOf p) = true
  pathOrigin : originPath (pathOf p) = true
  hdrs : hdrInvB (p.headers.getD []) = true

/-- **rebuild → reparse, request without body** -/
theorem build_parse_req_nobody (cfg : Cfg) (bufSize : Nat) (p : Parser) (meth ver : Bytes)
    (g : ReqGuard p meth ver) (hch : p.isChunked = false) (hb : bodyTruthy p.body = false)
    (hte : ∀ e ∈ hdrPairs p, isTEChunked e = false)
    (hcl : ∀ e ∈ hdrPairs p, isCL e = true → pyInt 10 e.2 = some 0) :
    ∃ raw r, Px.Build.build bufSize Px.Gen.defaultDisableHeaders p none none = .ok raw ∧
      parse cfg (init .request) raw = .ok r ∧
      ReqResult r meth ver { remainder := some (pathOf p) } (hdrPairs p) none false := by
  obtain ⟨hty, hm, hv, hmt, hvt, hpt, hpo, hi⟩ := g
  have hbc : bodyOrChunks bufSize p = .ok p.body := by
    unfold bodyOrChunks; cases p.body <;> simp [hch]
  have hbuild : Px.Build.build bufSize Px.Gen.defaultDisableHeaders p none none =
      .ok (buildRequest [] meth (pathOf p) ver none (hdrPairs p) p.body false true) := by
    rw [build_eq bufSize p meth ver hty hm hv (plainTok_spec hmt).1 (plainTok_spec hvt).1 hi, hbc]
  have hte' : (hdrPairs p).any isTEChunked = false := by
    rw [List.any_eq_false]; intro e he; simp [hte e he]
  obtain ⟨r, h1, h2⟩ := req_pkt_nobody cfg (m := meth) (u := pathOf p) (v := ver) (hdrPairs p) hmt hpt hvt
    (fromBytes_origin _ _ hpo) (hdrPairs_hdrOK p hi) hte' hcl
  refine ⟨_, r, hbuild, ?_, h2⟩
  rw [buildRequest_eq, reqHeaders_rebuild, hb, bodyTruthy_false_getD hb]
  simpa using h1

/-- **rebuild → reparse, request with a Content-Length framed body** -/
theorem build_parse_req_cl (cfg : Cfg) (bufSize : Nat) (p : Parser) (meth ver : Bytes)
    (g : ReqGuard p meth ver) (hch : p.isChunked = false) (hb : bodyTruthy p.body = true)
    (hte : ∀ e ∈ hdrPairs p, lower e.1 ≠ kTE)
    (hcl : ∀ e ∈ hdrPairs p, isCL e = true → pyInt 10 e.2 = some (Int.ofNat (p.body.getD []).length))
    (hlen : (p.body.getD []).length < 10 ^ intMaxStrDigits) :
    ∃ raw r, Px.Build.build bufSize Px.Gen.defaultDisableHeaders p none none = .ok raw ∧
      parse cfg (init .request) raw = .ok r ∧
      ReqResult r meth ver { remainder := some (pathOf p) }
        (dSet (hdrPairs p) nCL (natToDec (p.body.getD []).length)) p.body false := by
  obtain ⟨hty, hm, hv, hmt, hvt, hpt, hpo, hi⟩ := g
  have hbc : bodyOrChunks bufSize p = .ok p.body := by
    unfold bodyOrChunks; cases p.body <;> simp [hch]
  obtain ⟨hne, hbeq⟩ := bodyTruthy_getD hb
  have hbuild : Px.Build.build bufSize Px.Gen.defaultDisableHeaders p none none =
      .ok (buildRequest [] meth (pathOf p) ver none (hdrPairs p) p.body false true) := by
    rw [build_eq bufSize p meth ver hty hm hv (plainTok_spec hmt).1 (plainTok_spec hvt).1 hi, hbc]
  have hH := reqHeaders_hdrOK (ua := []) (ct := none) (hs := hdrPairs p) (body := p.body) (cc := false)
    (noUa := true) (wfHeaders_namesOf hi) rfl wfValue_nil
  have hnoTE := reqHeaders_noTE (ua := []) (ct := none) (hs := hdrPairs p) (body := p.body) (cc := false)
    (noUa := true) (fun e he => isTEChunked_false_of (hte e he))
  have hmem := reqHeaders_has_cl (ua := []) (ct := none) (hs := hdrPairs p) (cc := false) (noUa := true) hte hb
  have heq : reqHeaders [] none (hdrPairs p) p.body false true =
      dSet (hdrPairs p) nCL (natToDec (p.body.getD []).length) := by
    rw [reqHeaders_rebuild, hb, hasKey_false hte]; rfl
  have := req_pkt_cl cfg (m := meth) (u := pathOf p) (v := ver) _ (p.body.getD []) hmt hpt hvt
    (fromBytes_origin _ _ hpo) hH hnoTE
    (fun e he hc => by
      rcases reqHeaders_cl' he hc with h | ⟨-, rfl⟩
      · exact hcl e h hc
      · exact pyInt10_natToDec _ hlen)
    ⟨_, hmem, by simp [isCL, lower_builders.2.2.2.2.2.1]⟩ hne
  rw [heq] at this
  obtain ⟨r, h1, h2⟩ := this
  refine ⟨_, r, hbuild, ?_, ?_⟩
  · rw [buildRequest_eq, heq]; exact h1
  · rw [hbeq]; exact h2

/-- **rebuild → reparse, chunked request** (including the empty body: the terminator `0 CRLF CRLF`
    is written, fix D4) -/
theorem build_parse_req_chunked (cfg : Cfg) (bufSize : Nat) (hbs : bufSize ≠ 0) (p : Parser) (meth ver bd : Bytes)
    (g : ReqGuard p meth ver) (hch : p.isChunked = true) (hb : p.body = some bd)
    (hte : ∃ e ∈ hdrPairs p, isTEChunked e = true) (hcl : clValuesOK (hdrPairs p)) :
    ∃ raw r, Px.Build.build bufSize Px.Gen.defaultDisableHeaders p none none = .ok raw ∧
      parse cfg (init .request) raw = .ok r ∧
      ReqResult r meth ver { remainder := some (pathOf p) } (hdrPairs p) (some bd) true := by
  obtain ⟨hty, hm, hv, hmt, hvt, hpt, hpo, hi⟩ := g
  obtain ⟨s, hsv, hsd, hsr⟩ := toChunks_in_grammar bd bufSize hbs
  have hbc : bodyOrChunks bufSize p = .ok (some s.render) := by
    unfold bodyOrChunks; simp [hb, hch, hsr]
  have hbuild : Px.Build.build bufSize Px.Gen.defaultDisableHeaders p none none =
      .ok (buildRequest [] meth (pathOf p) ver none (hdrPairs p) (some s.render) false true) := by
    rw [build_eq bufSize p meth ver hty hm hv (plainTok_spec hmt).1 (plainTok_spec hvt).1 hi, hbc]
  obtain ⟨t, ht, htc⟩ := hte
  have hkey : hasKey kTE (hdrPairs p) = true :=
    List.any_eq_true.2 ⟨t, ht, by simp [isTEChunked_key htc]⟩
  have := req_pkt_chunked cfg (m := meth) (u := pathOf p) (v := ver) (hdrPairs p) s hmt hpt hvt
    (fromBytes_origin _ _ hpo) (hdrPairs_hdrOK p hi) (List.any_eq_true.2 ⟨t, ht, htc⟩) hcl hsv
  rw [hsd] at this
  obtain ⟨r, h1, h2⟩ := this
  refine ⟨_, r, hbuild, ?_, h2⟩
  rw [buildRequest_eq, reqHeaders_rebuild, hkey]
  simpa using h1

end Px.Codec
