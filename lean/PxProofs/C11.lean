import PxModel.Intercept
import PxProofs.InterceptLemmas
import PxProofs.InterceptRelayLemmas
/-!
# C11 — TLS interception issues a valid per-host cert and never trusts a bad upstream

Property theorems only; helper lemmas are in `PxProofs/InterceptLemmas.lean` and
`PxProofs/InterceptRelayLemmas.lean`.  The model (`PxModel/Intercept.lean`,
`PxModel/Pki.lean`) is tied to `proxy/http/proxy/server.py`,
`proxy/core/connection/{server,client}.py` and `proxy/common/pki.py` by the
correspondence check `harness/c11.py`, which performs real TLS handshakes.

What is decided here is the DECISION LOGIC and the DATA FLOW.  OpenSSL — the
handshakes, X.509 path and name validation, record protection, and what the
`openssl` CLI does with an argv — is a parameter (`Env.handshake`,
`Env.clientWrap`, `Env.cmd`) and is trusted; so is `ipaddress.ip_address` (`Env.isIp`).  In that sense the slice is
**partial**; see `C11_property_partial` for the full statement and what is missing.
-/
namespace Px.Intercept
open Px Px.Pki Px.Relay

/-! ## the `do_intercept` chain -/

/-- **Chain semantics.**  Interception happens iff the four CA flags are given, no
plugin answered `False` (the first `False` ends the loop and wins) and the last
answer — `True` for an empty chain — is `True`. -/
theorem C11_chain_semantics (cfg : Cfg) (answers : List (Option Bool)) :
    (tlsInterceptEnabled cfg answers).1 = true ↔
      cfg.enabled = true ∧ some false ∉ answers ∧ answers.getLast?.getD (some true) = some true := by
  unfold tlsInterceptEnabled
  by_cases he : cfg.enabled = true
  · simp only [he, Bool.not_true, Bool.false_eq_true, if_false, true_and]
    rw [chainAux_val]
    by_cases hf : some false ∈ answers
    · simp [hf, isTrue]
    · simp only [hf, if_false, not_false_eq_true, true_and]
      cases h : answers.getLast?.getD (some true) with
      | none => simp [isTrue]
      | some v => cases v <;> simp [isTrue]
  · simp [he]

/-- every plugin up to and including the first one that answers `False` is asked, in order, and no other -/
theorem C11_chain_asks (cfg : Cfg) (answers : List (Option Bool)) :
    ∀ e ∈ (tlsInterceptEnabled cfg answers).2, e.isAsk = true := tlsInterceptEnabled_asks cfg answers

/-! ## opt-out -/

/-- **C11 opt-out is opaque.**  If a plugin answers `do_intercept = False` (or the CA
flags are not all given) the CONNECT is acknowledged and *nothing else happens*:
no TLS context is created on either side, no certificate is looked up or minted,
`on_request_complete` returns `False`, and the relay continues from exactly the
plain-tunnel state `Relay.initTunnel` (kind `tunnel`, acknowledgement queued) — the
state the C01 tunnel theorems (bytes relayed verbatim, in order, both ways) start from. -/
theorem C11_optout_opaque (cfg : Cfg) (answers : List (Option Bool)) (env : Env) (host : Str) (maxSend : Nat)
    (h : some false ∈ answers ∨ cfg.enabled = false) :
    let r := onConnect cfg answers env host
    r.2.res = .plain ∧ r.2.clientTls = false ∧ r.2.upstreamTls = false ∧ r.2.fs = env.fs ∧
    (∀ e ∈ r.1, e = .queueClient ack ∨ e.isAsk = true) ∧
    relayState cfg answers maxSend r.2 = some (Relay.initTunnel maxSend) := by
  have hd : (tlsInterceptEnabled cfg answers).1 = false := by
    cases hv : (tlsInterceptEnabled cfg answers).1 with
    | false => rfl
    | true =>
      have := (C11_chain_semantics cfg answers).mp hv
      rcases h with h | h
      · exact absurd h this.2.1
      · rw [this.1] at h; cases h
  simp only [onConnect, hd]
  refine ⟨rfl, rfl, rfl, rfl, ?_, ?_⟩
  · intro e he
    simp only [Bool.false_eq_true, if_false, List.mem_cons] at he
    rcases he with rfl | he
    · exact Or.inl rfl
    · exact Or.inr (tlsInterceptEnabled_asks cfg answers e he)
  · simp [relayState, relayKind, hd, Relay.initTunnel, Relay.ack, ack]

/-! ## order and settings of the two wraps -/

/-- **C11 order.**  When interception is on, the effect log is: the acknowledgement is
queued; the plugins are asked; the upstream is wrapped (handshake + verification);
only then — and only if that handshake succeeded — come the cache probes, the
openssl invocations and the client-side wrap.  A refused upstream never gets a
leaf minted, never sees the client's TLS. -/
theorem C11_order (cfg : Cfg) (answers : List (Option Bool)) (env : Env) (host : Str)
    (hon : (tlsInterceptEnabled cfg answers).1 = true) :
    ∃ rest, (onConnect cfg answers env host).1 =
        .queueClient ack :: ((tlsInterceptEnabled cfg answers).2 ++
          .wrapUpstream (upstreamParams cfg host) (env.handshake (upstreamParams cfg host)) :: rest) ∧
      (∀ e ∈ rest, e.isGen = true) ∧
      (env.handshake (upstreamParams cfg host) ≠ .ok → rest = []) := by
  by_cases hh : env.handshake (upstreamParams cfg host) = .ok
  · refine ⟨(wrapClient cfg env host).1, ?_, ?_, fun h => absurd hh h⟩
    · rw [onConnect_ok cfg answers env host hon hh, hh]
    · intro e he
      rcases wrapClient_spec cfg env host with ⟨_, h0, _⟩ | ⟨effs, fs, g, hg, _, ⟨_, h1, _⟩ | ⟨_, h1⟩⟩
      · rw [h0] at he; cases he
      · rw [h1] at he; exact Eff.isCache_isGen e (generate_gen cfg env host effs fs g hg e he)
      · rw [h1] at he
        simp only [List.mem_append, List.mem_singleton] at he
        rcases he with he | rfl
        · exact Eff.isCache_isGen e (generate_gen cfg env host effs fs g hg e he)
        · rfl
  · exact ⟨[], (onConnect_fail cfg answers env host hon hh).1, by simp, fun _ => rfl⟩

/-- **C11 verification settings.**  The upstream TLS context is configured with:
`server_hostname` = the CONNECT host without the brackets of an IPv6 literal (so that
OpenSSL matches the bare address against `iPAddress` entries), the configured `--ca-file` as trust store,
`CERT_NONE` iff `--insecure-tls-interception` (else `CERT_REQUIRED`), and
`check_hostname` iff not insecure (the host name is always given). -/
theorem C11_verify_settings (cfg : Cfg) (host : Str) :
    (upstreamParams cfg host).serverHostname = some (stripBrackets host) ∧
    (upstreamParams cfg host).caFile = cfg.caFile ∧
    ((upstreamParams cfg host).verifyNone = true ↔ cfg.insecure = true) ∧
    ((upstreamParams cfg host).checkHostname = true ↔ cfg.insecure = false) := by
  unfold upstreamParams serverWrapParams
  cases cfg.insecure <;> simp

/-- the same at the level of `TcpServerConnection.wrap`: `check_hostname` iff the mode is
not `CERT_NONE` and a host name was given -/
theorem C11_verify_settings_wrap (hostname caFile : Option Str) (verifyNone : Bool) :
    ((serverWrapParams hostname caFile verifyNone).checkHostname = true ↔
      verifyNone = false ∧ hostname.isSome = true) ∧
    (serverWrapParams hostname caFile verifyNone).verifyNone = verifyNone ∧
    (serverWrapParams hostname caFile verifyNone).serverHostname = hostname ∧
    (serverWrapParams hostname caFile verifyNone).caFile = caFile := by
  unfold serverWrapParams
  cases verifyNone <;> simp

/-- every upstream wrap in the log is the one with these settings, and its outcome is
OpenSSL's verdict for exactly these settings -/
theorem C11_verify_settings_log (cfg : Cfg) (answers : List (Option Bool)) (env : Env) (host : Str)
    (p : WrapParams) (out : HsOut) (h : Eff.wrapUpstream p out ∈ (onConnect cfg answers env host).1) :
    p = upstreamParams cfg host ∧ out = env.handshake p := by
  by_cases hon : (tlsInterceptEnabled cfg answers).1 = true
  · obtain ⟨rest, heq, hgen, _⟩ := C11_order cfg answers env host hon
    rw [heq] at h
    simp only [List.mem_cons, reduceCtorEq, List.mem_append, false_or] at h
    rcases h with h | h | h
    · have := tlsInterceptEnabled_asks cfg answers _ h; simp [Eff.isAsk] at this
    · simp only [Eff.wrapUpstream.injEq] at h; obtain ⟨rfl, rfl⟩ := h; exact ⟨rfl, rfl⟩
    · have := hgen _ h; simp [Eff.isGen] at this
  · have hd : (tlsInterceptEnabled cfg answers).1 = false := by simpa using hon
    simp only [onConnect, hd, Bool.false_eq_true, if_false, List.mem_cons, reduceCtorEq, false_or] at h
    have := tlsInterceptEnabled_asks cfg answers _ h; simp [Eff.isAsk] at this

/-! ## a bad upstream is never trusted -/

/-- OpenSSL's contract as the code relies on it, with the X.509 verdict `verify` as a
parameter: under `CERT_NONE` the certificate is not judged; under `CERT_REQUIRED`
the handshake completes iff `verify` accepts the certificate situation under the
settings in force (trust store, reference name, whether the name is checked). -/
def opensslSpec {σ : Type} (verify : WrapParams → σ → Bool) (sit : σ) (p : WrapParams) : HsOut :=
  if p.verifyNone then .ok else if verify p sit then .ok else .certVerification

/-- **C11 no relay on a bad upstream (decision level).**  Interception on, the upstream
handshake fails with a certificate-verification error or any other TLS error under
the settings the code passes: `on_request_complete` returns `True` (teardown; no
error response — the client has already been promised `200`), the only thing ever
queued to the client is the acknowledgement, the client side is never wrapped, no
certificate is probed or minted, nothing is queued to the upstream, whose socket is
left detached (descriptor closed). -/
theorem C11_no_relay_on_bad_upstream_log (cfg : Cfg) (answers : List (Option Bool)) (env : Env) (host : Str)
    (hon : (tlsInterceptEnabled cfg answers).1 = true)
    (hbad : env.handshake (upstreamParams cfg host) = .certVerification ∨
            env.handshake (upstreamParams cfg host) = .sslError) :
    let r := onConnect cfg answers env host
    r.2.res = .teardown ∧ r.2.clientBuf = [ack] ∧ r.2.clientTls = false ∧ r.2.upstreamTls = false ∧
    r.2.upstreamDetached = true ∧ r.2.fs = env.fs ∧
    (∀ e ∈ r.1, e = .queueClient ack ∨ e.isAsk = true ∨
       e = .wrapUpstream (upstreamParams cfg host) (env.handshake (upstreamParams cfg host))) := by
  have hne : env.handshake (upstreamParams cfg host) ≠ .ok := by rcases hbad with h | h <;> simp [h]
  have hno : env.handshake (upstreamParams cfg host) ≠ .osError := by rcases hbad with h | h <;> simp [h]
  obtain ⟨h1, h2, h3, h4, h5, h6, _, h8⟩ := onConnect_fail cfg answers env host hon hne
  refine ⟨h8 hno, h3, h4, h5, h6, h2, ?_⟩
  intro e he
  rw [h1] at he
  simp only [List.mem_cons, List.mem_append, List.not_mem_nil, or_false] at he
  rcases he with rfl | he | rfl
  · exact Or.inl rfl
  · exact Or.inr (Or.inl (tlsInterceptEnabled_asks cfg answers e he))
  · exact Or.inr (Or.inr rfl)

/-- **C11 no relay on a bad upstream.**  `¬insecure`, and OpenSSL's X.509 verdict
(`verify`, a parameter) on the origin's certificate situation is `false` under the
settings the code passes.  Then for **every** later schedule of the connection
(`ticks`: readiness subsets, every send / recv outcome), in the relay state the
handler is left in:

* no byte is ever read from the client again (`recvC = []`; client reads are off:
  `must_flush_before_shutdown`), so nothing is ever queued or sent to the upstream;
* the bytes delivered to the client plus those still queued are the acknowledgement
  followed by whatever is read *raw* off the upstream descriptor — and since that
  socket object is detached (`fileno() == -1`, never registered by the executor:
  `Detached ticks`), that is nothing: the client gets the `200` acknowledgement, or a
  prefix of it, and nothing else. -/
theorem C11_no_relay_on_bad_upstream {σ : Type} (verify : WrapParams → σ → Bool) (sit : σ)
    (cfg : Cfg) (answers : List (Option Bool)) (env : Env) (host : Str) (maxSend : Nat) (ticks : List Tick)
    (hon : (tlsInterceptEnabled cfg answers).1 = true)
    (hsec : cfg.insecure = false)
    (hssl : env.handshake = opensslSpec verify sit)
    (hbad : verify (upstreamParams cfg host) sit = false) :
    let r := onConnect cfg answers env host
    r.2.res = .teardown ∧
    ∃ s0, relayState cfg answers maxSend r.2 = some s0 ∧ s0.mustFlush = true ∧ s0.client.buffer = [ack] ∧
      let s := (Relay.run s0 ticks).1
      s.recvC = [] ∧ s.sentU = [] ∧ s.upstream.buffer = [] ∧
      s.sentC ++ s.client.buffer.flatten = ack ++ s.recvU ∧
      ((∀ t ∈ ticks, t.uR = false) → s.recvU = [] ∧ s.sentC ++ s.client.buffer.flatten = ack) := by
  have hv : (upstreamParams cfg host).verifyNone = false := by simp [upstreamParams, serverWrapParams, hsec]
  have hhs : env.handshake (upstreamParams cfg host) = .certVerification := by
    rw [hssl]; simp [opensslSpec, hv, hbad]
  obtain ⟨h1, h2, -, -, -, -, -⟩ :=
    C11_no_relay_on_bad_upstream_log cfg answers env host hon (Or.inl hhs)
  refine ⟨h1, ?_⟩
  refine ⟨Relay.st0 (relayKind cfg answers) maxSend [ack] [] true false, ?_, rfl, rfl, ?_⟩
  · simp [relayState, h1, h2]
  · have hq : Quiet ack (Relay.st0 (relayKind cfg answers) maxSend [ack] [] true false) :=
      ⟨rfl, rfl, rfl, by simp [Relay.st0]⟩
    obtain ⟨q, r, _⟩ := run_quiet ack ticks _ rfl hq
    refine ⟨q.recvC, q.sentU, q.ubuf, q.acct, ?_⟩
    intro hall
    have hr : (Relay.run (Relay.st0 (relayKind cfg answers) maxSend [ack] [] true false) ticks).1.recvU = [] :=
      r hall
    refine ⟨hr, ?_⟩
    rw [q.acct, hr]; simp

/-- …and the connection is closed as soon as the acknowledgement has been delivered:
the first round in which the client is writable and takes it returns teardown. -/
theorem C11_bad_upstream_closes (k : Relay.Kind) (t : Tick) (n : Nat)
    (hw : t.cW = true) (hs : t.cSend = .sent n) (hn : ack.length ≤ n) :
    (Relay.step (Relay.st0 k 0 [ack] [] true false) t).2 = .teardown ∧
    (Relay.step (Relay.st0 k 0 [ack] [] true false) t).1.sentC = ack := by
  have hl : ack.length = 39 := by decide
  have he : Conn.effMax 0 = 65536 := by decide
  have hm2 : min n 39 = 39 := by omega
  have ht : List.take 65536 ack = ack := List.take_of_length_le (by omega)
  have ht2 : List.take 39 ack = ack := List.take_of_length_le (by omega)
  simp [Relay.step, Relay.tick, Relay.mask, Relay.events, Relay.st0, Relay.phaseCW, Relay.afterCW, Conn.hasBuffer,
    hw, hs, Conn.flush, FlushRes.wire, he, hl, hm2, ht, ht2]

/-! ## the leaf: names exactly the CONNECT host; the cache -/

/-- the entry prefixes `get_ext_config` writes are `DNS:` and `IP:` (re-proved against the constants
observed in the code on every run) -/
theorem C11_san_prefixes : Gen.pkiSanEntryPrefix = b "DNS:" ∧ Gen.pkiSanIpEntryPrefix = b "IP:" ∧
    Gen.pkiSanHeader = b "\nsubjectAltName=" := by decide +kernel

/-- what the ext-file of the signing call says: one line, one entry, for the bare host
(brackets of an IPv6 literal removed), of the kind `ipaddress` assigns to it -/
theorem C11_ext_file_bytes (isIp : Str → Bool) (name : Str) :
    extConfig isIp (some [name]) none = Gen.pkiSanHeader ++ (kindPrefix (kindOf isIp name) ++ name) ∧
    sanEntries isIp [name] = [(kindOf isIp name, name)] := by
  simp [extConfig, hasNames, sanLine, sanEntries, join]

/-- **C11 SAN, address literals.**  For a CONNECT target whose bare form is an address
literal (`127.0.0.1`, `[::1]` → `::1`) the signing ext-file is exactly
`subjectAltName=IP:<bare address>` — the entry kind a verifying client needs. -/
theorem C11_san_ip_literal (isIp : Str → Bool) (host : Str) (h : isIp (stripBrackets host) = true) :
    extConfig isIp (some [stripBrackets host]) none = b "\nsubjectAltName=" ++ (b "IP:" ++ stripBrackets host) := by
  obtain ⟨h1, h2, h3⟩ := C11_san_prefixes
  rw [(C11_ext_file_bytes isIp _).1, h3]
  simp [kindOf, h, kindPrefix, h2]

/-- **C11 SAN, names.**  Otherwise it is exactly `subjectAltName=DNS:<host>`. -/
theorem C11_san_dns_name (isIp : Str → Bool) (host : Str) (h : isIp (stripBrackets host) = false) :
    extConfig isIp (some [stripBrackets host]) none = b "\nsubjectAltName=" ++ (b "DNS:" ++ stripBrackets host) := by
  obtain ⟨h1, h2, h3⟩ := C11_san_prefixes
  rw [(C11_ext_file_bytes isIp _).1, h3]
  simp [kindOf, h, kindPrefix, h1]

/-- concrete instances (formerly the witnesses of finding D16): `127.0.0.1` and `[::1]` -/
theorem C11_ip_literal_examples :
    extConfig (fun n => n == b "127.0.0.1") (some [stripBrackets (b "127.0.0.1")]) none =
      b "\nsubjectAltName=IP:127.0.0.1" ∧
    extConfig (fun n => n == b "::1") (some [stripBrackets (b "[::1]")]) none = b "\nsubjectAltName=IP:::1" ∧
    extConfig (fun _ => false) (some [stripBrackets (b "example.org")]) none =
      b "\nsubjectAltName=DNS:example.org" := by decide +kernel

/-- **C11 SAN and cache.**  Whatever the configuration, answers, cache state and
OpenSSL outcomes:
1. every openssl invocation made while handling the CONNECT is one of the three
   invocations of `gen_ca_signed_certificate` for *this* host (`IsCertCall`): the
   self-signed public-key certificate whose config names the bare host, the CSR, and
   the CA signature whose `-extfile` is exactly one `subjectAltName` entry for the bare
   host (`IP:` for an address literal, `DNS:` otherwise — `C11_san_ip_literal`,
   `C11_san_dns_name`) and whose `-out` is the cache path of the host;
2. the certificate handed to the client-side wrap is `join(ca_cert_dir, host + '.pem')`
   with the signing key — a function of the directory and the host only (not of the
   `Host` header, the cache state, the answers or the insecure switch);
3. warm cache (that file exists) ⇒ no openssl invocation at all;
4. a CONNECT that ends in a client-side wrap leaves that file in the cache, so the
   next CONNECT to the same host is warm. -/
theorem C11_san (cfg : Cfg) (answers : List (Option Bool)) (env : Env) (host : Str) :
    let r := onConnect cfg answers env host
    let crt := certFilePath (cfg.caCertDir.getD []) host
    (∀ c o, Eff.openssl c o ∈ r.1 → IsCertCall cfg env host c) ∧
    (∀ k c pend o, Eff.wrapClient k c pend o ∈ r.1 → c = crt ∧ k = cfg.caSigningKeyFile.getD [] ∧ crt ∈ r.2.fs) ∧
    (crt ∈ env.fs → ∀ e ∈ r.1, e.isOpenssl = false) ∧
    (∀ tmp, (signCall cfg env host tmp).file = some (tmp, Gen.pkiSanHeader ++
              (kindPrefix (kindOf env.isIp (stripBrackets host)) ++ stripBrackets host)) ∧
            (signCall cfg env host tmp).out = crt ∧
            (pubCall cfg env host tmp).file = some (tmp, sslConfig env.isIp (some [stripBrackets host]) none)) := by
  simp only
  have hlast : ∀ tmp, (signCall cfg env host tmp).file = some (tmp, Gen.pkiSanHeader ++
        (kindPrefix (kindOf env.isIp (stripBrackets host)) ++ stripBrackets host)) ∧
      (signCall cfg env host tmp).out = certFilePath (cfg.caCertDir.getD []) host ∧
      (pubCall cfg env host tmp).file = some (tmp, sslConfig env.isIp (some [stripBrackets host]) none) := by
    intro tmp; exact ⟨by simp [signCall, signCsr, (C11_ext_file_bytes env.isIp _).1], rfl, rfl⟩
  -- a generation-or-wrap effect of the log is an effect of `wrap_client()`, which ran after a good upstream handshake
  have hwc : ∀ e ∈ (onConnect cfg answers env host).1, e.isGen = true →
      e ∈ (wrapClient cfg env host).1 ∧ (onConnect cfg answers env host).2 = (wrapClient cfg env host).2 := by
    intro e he hg
    by_cases hon : (tlsInterceptEnabled cfg answers).1 = true
    · by_cases hh : env.handshake (upstreamParams cfg host) = .ok
      · rw [onConnect_ok cfg answers env host hon hh] at he ⊢
        simp only [List.mem_cons, List.mem_append] at he
        rcases he with rfl | he | rfl | he
        · simp [Eff.isGen] at hg
        · have := tlsInterceptEnabled_asks cfg answers e he
          cases e <;> simp [Eff.isGen, Eff.isAsk] at hg this
        · simp [Eff.isGen] at hg
        · exact ⟨he, rfl⟩
      · rw [(onConnect_fail cfg answers env host hon hh).1] at he
        simp only [List.mem_cons, List.mem_append, List.not_mem_nil, or_false] at he
        rcases he with rfl | he | rfl
        · simp [Eff.isGen] at hg
        · have := tlsInterceptEnabled_asks cfg answers e he
          cases e <;> simp [Eff.isGen, Eff.isAsk] at hg this
        · simp [Eff.isGen] at hg
    · have hoff : (tlsInterceptEnabled cfg answers).1 = false := by simpa using hon
      rw [onConnect_off cfg answers env host hoff] at he
      simp only [List.mem_cons] at he
      rcases he with rfl | he
      · simp [Eff.isGen] at hg
      · have := tlsInterceptEnabled_asks cfg answers e he
        cases e <;> simp [Eff.isGen, Eff.isAsk] at hg this
  refine ⟨?_, ?_, ?_, hlast⟩
  · intro c o hc
    obtain ⟨hm, _⟩ := hwc _ hc rfl
    rcases wrapClient_spec cfg env host with ⟨_, h0, _⟩ | ⟨effs, fs, g, hg, _, ⟨_, h1, _⟩ | ⟨_, h1⟩⟩
    · rw [h0] at hm; cases hm
    · rw [h1] at hm; exact generate_calls cfg env host effs fs g hg c o hm
    · rw [h1] at hm
      simp only [List.mem_append, List.mem_singleton, reduceCtorEq, or_false] at hm
      exact generate_calls cfg env host effs fs g hg c o hm
  · intro k c pend o hc
    obtain ⟨hm, hp⟩ := hwc _ hc rfl
    rw [hp]
    rcases wrapClient_spec cfg env host with ⟨_, h0, _⟩ | ⟨effs, fs, g, hg, hfs, ⟨_, h1, _⟩ | ⟨hd, h1⟩⟩
    · rw [h0] at hm; cases hm
    · rw [h1] at hm
      have := generate_gen cfg env host effs fs g hg _ hm
      simp [Eff.isCache] at this
    · rw [h1] at hm
      simp only [List.mem_append, List.mem_singleton] at hm
      rcases hm with hm | hm
      · have := generate_gen cfg env host effs fs g hg _ hm
        simp [Eff.isCache] at this
      · simp only [Eff.wrapClient.injEq] at hm
        obtain ⟨rfl, rfl, _, _⟩ := hm
        subst hd
        exact ⟨rfl, rfl, by rw [hfs]; exact generate_done cfg env host effs fs hg⟩
  · intro hwarm e he
    cases e with
    | openssl c o =>
      exfalso
      obtain ⟨hm, _⟩ := hwc _ he rfl
      rcases wrapClient_spec cfg env host with ⟨_, h0, _⟩ | ⟨effs, fs, g, hg, _, hcase⟩
      · rw [h0] at hm; cases hm
      · have hm' : Eff.openssl c o ∈ effs := by
          rcases hcase with ⟨_, h1, _⟩ | ⟨_, h1⟩
          · rw [h1] at hm; exact hm
          · rw [h1] at hm
            simpa using hm
        -- warm: generation is the single probe
        unfold generateUpstreamCertificate at hg
        split at hg
        · simp at hg
        · have hc : env.fs.contains (certFilePath (cfg.caCertDir.getD []) host) = true := by simpa using hwarm
          simp only [hc, if_true, Option.some.injEq, Prod.mk.injEq] at hg
          obtain ⟨rfl, _, _⟩ := hg
          simp at hm'
    | _ => rfl

/-! ## decrypted follow-up requests -/

/-- **C11 inner requests.**  After a successful interception both sides are TLS, the
acknowledgement has been flushed by `client.wrap`, and later client bytes (now the
decrypted stream) are handled as follow-up HTTP requests — `Relay.Kind.http`: parsed
by a fresh request parser and rebuilt, the path whose semantics is C02 / C04 — never
queued verbatim; whereas without interception they are (`Relay.Kind.tunnel`). -/
theorem C11_inner_requests (cfg : Cfg) (answers : List (Option Bool)) (env : Env) (host : Str) (maxSend : Nat)
    (hres : (onConnect cfg answers env host).2.res = .sslSocket) :
    (tlsInterceptEnabled cfg answers).1 = true ∧
    (onConnect cfg answers env host).2.clientTls = true ∧ (onConnect cfg answers env host).2.upstreamTls = true ∧
    relayState cfg answers maxSend (onConnect cfg answers env host).2 =
      some (Relay.st0 .http maxSend [] [] false false) ∧
    ∃ crt, Eff.wrapClient (cfg.caSigningKeyFile.getD []) crt [ack] .ok ∈ (onConnect cfg answers env host).1 := by
  by_cases hon : (tlsInterceptEnabled cfg answers).1 = true
  · by_cases hh : env.handshake (upstreamParams cfg host) = .ok
    · rw [onConnect_ok cfg answers env host hon hh] at hres ⊢
      simp only at hres ⊢
      unfold wrapClient at hres ⊢
      cases hg : generateUpstreamCertificate cfg env host with
      | none => simp [hg] at hres
      | some r =>
        obtain ⟨effs, fs, g⟩ := r
        cases g with
        | assertion => simp [hg] at hres
        | timeout => simp [hg] at hres
        | done =>
          simp only [hg] at hres ⊢
          cases hcw : env.clientWrap with
          | flushFailed => simp [hcw] at hres
          | hsFailed => simp [hcw] at hres
          | ok =>
            refine ⟨hon, ?_, ?_, ?_, certFilePath (cfg.caCertDir.getD []) host, ?_⟩
            · simp
            · simp
            · simp [relayState, relayKind, hon]
            · simp
    · obtain ⟨_, _, _, _, _, _, h7, _⟩ := onConnect_fail cfg answers env host hon hh
      rcases h7 with h7 | h7 <;> rw [h7] at hres <;> cases hres
  · have hoff : (tlsInterceptEnabled cfg answers).1 = false := by simpa using hon
    rw [onConnect_off cfg answers env host hoff] at hres
    cases hres

/-! ## TLS records that arrive in pieces -/

/-- **C11 record fragments are stutter steps.**  Inside an intercepted session a TLS
record may reach the proxy split over several TCP segments: the descriptor is
reported readable, `recv` raises `ssl.SSLWantReadError` (record incomplete).  For the
client side (`HttpProtocolHandler.handle_readables`: "try again later") and the
upstream side (`read_from_descriptors`) alike, such a round — nothing writable —
changes nothing: `handle_events` returns `False`, no buffer, no ghost history and no
teardown flag moves (only the per-tick trace fields are reset).  So however a record
is cut, the relay resumes from the same state when the rest arrives. -/
theorem C11_record_fragment_stutter (s : St) (t : Tick)
    (hrt : s.readsTeared = false) (hcw : t.cW = false) (huw : t.uW = false)
    (hc : t.cR = true → t.cRecv = .sslWantRead) (hu : t.uR = true → t.uRecv = .sslWantRead) :
    Relay.tick s t = ({ s with trC := none, trU := none, writesTeared := false }, .cont) := by
  have e1 : phaseCW { s with trC := none, trU := none } t = ({ s with trC := none, trU := none }, false) := by
    simp [phaseCW, hcw]
  have e2 : phaseUW { s with trC := none, trU := none, writesTeared := false } t =
      ({ s with trC := none, trU := none, writesTeared := false }, false) := by
    simp [phaseUW, huw]
  have e3 : phaseCR { s with trC := none, trU := none, writesTeared := false } t =
      ({ s with trC := none, trU := none, writesTeared := false }, .no) := by
    unfold phaseCR
    by_cases h : t.cR = true
    · simp [h, hc h, Conn.recv]
    · simp [h]
  have e4 : phaseUR { s with trC := none, trU := none, writesTeared := false } t =
      ({ s with trC := none, trU := none, writesTeared := false }, false) := by
    unfold phaseUR
    by_cases h : t.uR = true
    · simp [h, hu h, Conn.recv]
    · simp [h]
  unfold Relay.tick
  simp only [e1, e2]
  simp only [hrt] at e3 e4
  simp [readHalf, hrt, e3, e4, finish]

/-! ## IPv6 literal targets (formerly finding D16b) -/

/-- **C11 IPv6 literal verified against the bare address.**  `CONNECT [::1]:443`: the
reference name handed to OpenSSL is `::1`; under the reference verdict a CA-trusted
origin whose certificate names the address is accepted with verification on, the
connection is *not* torn down by `wrap_server`, and the leaf asked for carries
`IP:::1`. -/
theorem C11_ipv6_literal_verified_bare (cfg : Cfg) (env : Env)
    (hen : cfg.enabled = true) (hsec : cfg.insecure = false)
    (hssl : env.handshake = refHandshake .trusted) :
    (upstreamParams cfg (b "[::1]")).serverHostname = some (b "::1") ∧
    env.handshake (upstreamParams cfg (b "[::1]")) = .ok ∧
    (onConnect cfg [] env (b "[::1]")) =
      (.queueClient ack :: .wrapUpstream (upstreamParams cfg (b "[::1]")) .ok :: (wrapClient cfg env (b "[::1]")).1,
       (wrapClient cfg env (b "[::1]")).2) := by
  have hon : (tlsInterceptEnabled cfg []).1 = true := by
    simp [tlsInterceptEnabled, hen, chainAux, isTrue]
  have hs : stripBrackets (b "[::1]") = b "::1" := by decide +kernel
  have hb : isBracketed (b "::1") = false := by decide +kernel
  have hok : env.handshake (upstreamParams cfg (b "[::1]")) = .ok := by
    rw [hssl]
    simp [refHandshake, upstreamParams, serverWrapParams, hsec, chainOk, nameOk, hs, hb]
  refine ⟨by simp [upstreamParams, serverWrapParams, hs], hok, ?_⟩
  rw [onConnect_ok cfg [] env (b "[::1]") hon hok]
  simp [tlsInterceptEnabled, hen, chainAux]

/-! ## non-vacuity -/

def exCfg : Cfg :=
  { caKeyFile := some (b "/ca/key.pem"), caCertFile := some (b "/ca/cert.pem"),
    caSigningKeyFile := some (b "/ca/sign.pem"), caCertDir := some (b "/ca/certs"),
    caFile := some (b "/ca/trust.pem"), insecure := false, openssl := b "openssl" }

def exEnv (sit : CertSituation) : Env :=
  { handshake := refHandshake sit, subject := [(b "commonName", b "example.org")], fs := [],
    cmd := fun _ => .ok, tmp := fun _ => b "/tmp/x", serial := b "1", clientWrap := .ok }

/-- interception is on for a non-trivial chain … -/
example : (tlsInterceptEnabled exCfg [some true, none, some true]).1 = true := by decide
/-- … a `False` anywhere turns it off, a trailing `None` too -/
example : (tlsInterceptEnabled exCfg [some true, some false, some true]).1 = false := by decide
example : (tlsInterceptEnabled exCfg [some true, none]).1 = false := by decide
/-- the hypotheses of `C11_no_relay_on_bad_upstream` are satisfiable: a self-signed origin, verification on -/
example : exCfg.insecure = false ∧
    (exEnv .selfSigned).handshake =
      opensslSpec (fun p s => chainOk s && (!p.checkHostname || nameOk s p)) CertSituation.selfSigned ∧
    (fun p s => chainOk s && (!p.checkHostname || nameOk s p)) (upstreamParams exCfg (b "example.org"))
      CertSituation.selfSigned = false := by
  refine ⟨rfl, ?_, by decide⟩
  funext p
  simp [exEnv, refHandshake, opensslSpec, chainOk]
/-- a trusted origin is intercepted: cold cache → three invocations, then the client wrap -/
example : (onConnect exCfg [] (exEnv .trusted) (b "example.org")).2.res = .sslSocket ∧
    ((onConnect exCfg [] (exEnv .trusted) (b "example.org")).1.filter Eff.isOpenssl).length = 3 := by
  decide +kernel
/-- warm cache → none -/
example : ((onConnect exCfg [] { exEnv .trusted with fs := [b "/ca/certs/example.org.pem"] }
    (b "example.org")).1.filter Eff.isOpenssl).length = 0 := by decide +kernel
/-- a wrong-name origin is refused only because `check_hostname` is on -/
example : (onConnect exCfg [] (exEnv .wrongName) (b "example.org")).2.res = .teardown ∧
    (onConnect { exCfg with insecure := true } [] (exEnv .wrongName) (b "example.org")).2.res = .sslSocket := by
  decide +kernel

/-! ## the property as a whole -/

/-- **C11 (partial).**  Full statement of the property: *with interception enabled, a
client that CONNECTs to a host is presented a certificate naming that host and
chaining to the configured CA; what it then sends inside TLS reaches the origin over
a separately verified TLS session with the semantics of C02 and the response returns
intact; if the origin's certificate fails verification against the configured trust
store, no application data is relayed in either direction unless the operator
disabled verification; connections a plugin opts out of are tunnelled opaquely.*

Proved here (for all configurations, answer lists, hosts, cache states, OpenSSL
verdict functions, and — for the relay part — all tick lists): the refusal half
(`C11_no_relay_on_bad_upstream`), the settings OpenSSL is given
(`C11_verify_settings`), what the leaf is asked to name and where it is cached
(`C11_san`), the order of the two handshakes (`C11_order`), opt-out
(`C11_optout_opaque`) and the routing of decrypted requests (`C11_inner_requests`).

Missing (trusted / delegated): that OpenSSL's verdict is the X.509 / RFC 6125 one and
that the `openssl` CLI turns the argv and ext-file into a certificate with that SAN
signed by the CA key (parameters `Env.handshake`, `Env.cmd`; exercised with real
handshakes by the correspondence runs); record protection; the C02 semantics of the
inner requests (C02/C04's models); which names are address literals is the parameter
`Env.isIp` (the `ipaddress` module).  The former findings D16 / D16b (IP-literal targets)
are fixed in the code and are now positive theorems (`C11_san_ip_literal`,
`C11_ipv6_literal_verified_bare`). -/
theorem C11_property_partial (cfg : Cfg) (answers : List (Option Bool)) (env : Env) (host : Str) (maxSend : Nat) :
    -- interception on: upstream verified with the operator's settings first, leaf for exactly this host after
    ((tlsInterceptEnabled cfg answers).1 = true →
      (∃ rest, (onConnect cfg answers env host).1 =
          .queueClient ack :: ((tlsInterceptEnabled cfg answers).2 ++
            .wrapUpstream (upstreamParams cfg host) (env.handshake (upstreamParams cfg host)) :: rest) ∧
          (∀ e ∈ rest, e.isGen = true) ∧ (env.handshake (upstreamParams cfg host) ≠ .ok → rest = [])) ∧
      ((upstreamParams cfg host).verifyNone = true ↔ cfg.insecure = true) ∧
      ((upstreamParams cfg host).checkHostname = true ↔ cfg.insecure = false) ∧
      (upstreamParams cfg host).serverHostname = some (stripBrackets host) ∧
      (upstreamParams cfg host).caFile = cfg.caFile) ∧
    -- interception off / opted out: plain tunnel
    ((some false ∈ answers ∨ cfg.enabled = false) →
      (onConnect cfg answers env host).2.res = .plain ∧
      relayState cfg answers maxSend (onConnect cfg answers env host).2 = some (Relay.initTunnel maxSend)) ∧
    -- every invocation is for this host
    (∀ c o, Eff.openssl c o ∈ (onConnect cfg answers env host).1 → IsCertCall cfg env host c) := by
  refine ⟨fun hon => ⟨C11_order cfg answers env host hon, ?_⟩, fun h => ?_, (C11_san cfg answers env host).1⟩
  · obtain ⟨a, b, c, d⟩ := C11_verify_settings cfg host
    exact ⟨c, d, a, b⟩
  · obtain ⟨a, _, _, _, _, f⟩ := C11_optout_opaque cfg answers env host maxSend h
    exact ⟨a, f⟩

end Px.Intercept
