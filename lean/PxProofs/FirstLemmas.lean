import PxModel.FirstRequest
/-! Helper lemmas for C06: the handler-level model of the first-request phase
    (`PxModel/FirstRequest.lean`). -/
namespace Px.First

open Px.Parser (Parser)

/-- plugin contract (proxy/http/exception/base.py): hooks raise only `HttpProtocolException`s -/
def NoCrash (cfg : Cfg) : Prop :=
  (∀ pid p q, cfg.onComplete pid p ≠ .crash q) ∧ (∀ pid k d q, cfg.onClientData pid k d ≠ .crash q)

/-- The decision table of `handle_data` in the first-request phase: which outcome, under
    which (mutually exclusive, exhaustive) condition, with which effect on the client buffer,
    the selected plugin and the return value.  Since 84c574d a served request whose plugin
    returned False hands the bytes that followed it in the same segment (`leftover`) to the
    plugin's `on_client_data` within the same call. -/
def Spec (cfg : Cfg) (st : St) (data : Bytes) (res : St × Outcome × Bool) : Prop :=
  let st' := res.1
  let ret := res.2.2
  match res.2.1 with
  | .wait =>
    -- incomplete request: nothing queued, no plugin, no teardown
    (∃ rq, reqParse cfg st data = .ok rq ∧ rq.state ≠ .complete ∧ st'.request = rq) ∧
      ret = false ∧ st'.buffer = st.buffer ∧ st'.plugin = st.plugin ∧ st'.escaped = st.escaped
  | .served pid td =>
    -- a plugin was selected for the request's protocol and its on_request_complete returned
    ∃ rq q, reqParse cfg st data = .ok rq ∧ rq.state = .complete ∧
      st'.request.state = .complete ∧
      handlerProtocol rq ≠ .unknown ∧ discover cfg.plugins (handlerProtocol rq).num = some pid ∧
      cfg.onComplete pid rq = .ret q td ∧
      ret = td ∧ st'.plugin = some pid ∧ st'.escaped = st.escaped ∧
      (((td = true ∨ leftover rq = none) ∧ st'.request = rq ∧ st'.buffer = st.buffer ++ q ∧ st'.calls = st.calls) ∨
       (∃ rem q2 t2, td = false ∧ leftover rq = some rem ∧ cfg.onClientData pid st.calls rem = .ret q2 t2 ∧
          st'.request = { rq with buffer := none } ∧ st'.buffer = st.buffer ++ q ++ q2 ∧ st'.calls = st.calls + 1))
  | .reject why hq =>
    -- teardown requested; the handler itself queued `hq`
    ret = true ∧ st'.escaped = st.escaped ∧
    (match why with
     | .parse e =>
       reqParse cfg st data = .error e ∧ hq = [cfg.badRequest] ∧
         st'.buffer = st.buffer ++ [cfg.badRequest] ∧ st'.plugin = st.plugin
     | .unknownProtocol =>
       (∃ rq, reqParse cfg st data = .ok rq ∧ rq.state = .complete ∧
         handlerProtocol rq = .unknown) ∧ hq = [cfg.badRequest] ∧
         st'.buffer = st.buffer ++ [cfg.badRequest] ∧ st'.plugin = st.plugin
     | .noPlugin proto =>
       (∃ rq, reqParse cfg st data = .ok rq ∧ rq.state = .complete ∧
         handlerProtocol rq = proto ∧ proto ≠ .unknown ∧ discover cfg.plugins proto.num = none) ∧
         hq = [cfg.badRequest] ∧ st'.buffer = st.buffer ++ [cfg.badRequest] ∧ st'.plugin = st.plugin
     | .pluginRaised pid =>
       ∃ rq q resp, reqParse cfg st data = .ok rq ∧ rq.state = .complete ∧
         discover cfg.plugins (handlerProtocol rq).num = some pid ∧ hq = respQueue resp ∧ st'.plugin = some pid ∧
         ((cfg.onComplete pid rq = .raise q resp ∧ st'.buffer = st.buffer ++ q ++ hq) ∨
          (∃ q1 rem, cfg.onComplete pid rq = .ret q1 false ∧ leftover rq = some rem ∧
             cfg.onClientData pid st.calls rem = .raise q resp ∧ st'.buffer = st.buffer ++ q1 ++ q ++ hq)))
  | .escaped pid =>
    ∃ rq q, reqParse cfg st data = .ok rq ∧ st'.escaped = true ∧
      ((cfg.onComplete pid rq = .crash q ∧ st'.buffer = st.buffer ++ q) ∨
       (∃ q1 rem, cfg.onComplete pid rq = .ret q1 false ∧ leftover rq = some rem ∧
          cfg.onClientData pid st.calls rem = .crash q ∧ st'.buffer = st.buffer ++ q1 ++ q))
  | .data _ => False
  | .ignored => False

theorem parseFirst_spec (cfg : Cfg) (st : St) (data : Bytes) : Spec cfg st data (parseFirst cfg st data) := by
  unfold parseFirst
  cases hp : reqParse cfg st data with
  | error e => simp [Spec, hp]
  | ok rq =>
    simp only
    by_cases hc : rq.state = .complete
    · have hc' : (rq.state != Px.Parser.PState.complete) = false := by simp [hc]
      simp only [hc', Bool.false_eq_true, if_false]
      by_cases hu : handlerProtocol rq = .unknown
      · simp [Spec, hu, hc, hp]
      · have hu' : (handlerProtocol rq == Proto.unknown) = false := by simpa using hu
        simp only [hu', Bool.false_eq_true, if_false]
        cases hd : discover cfg.plugins (handlerProtocol rq).num with
        | none => simp [Spec, hc, hu, hd, hp]
        | some pid =>
          simp only
          cases ho : cfg.onComplete pid rq with
          | ret q td =>
            cases td with
            | true =>
              simp only [afterPlugin, Spec]
              exact ⟨rq, q, hp, hc, hc, hu, hd, ho, (by first | rfl | trivial), (by first | rfl | trivial), (by first | rfl | trivial), Or.inl ⟨Or.inl (by first | rfl | trivial), (by first | rfl | trivial), (by first | rfl | trivial), (by first | rfl | trivial)⟩⟩
            | false =>
              cases hl : leftover rq with
              | none =>
                simp only [afterPlugin, Spec]
                exact ⟨rq, q, hp, hc, hc, hu, hd, ho, (by first | rfl | trivial), (by first | rfl | trivial), (by first | rfl | trivial), Or.inl ⟨Or.inr hl, (by first | rfl | trivial), (by first | rfl | trivial), (by first | rfl | trivial)⟩⟩
              | some rem =>
                simp only
                cases h2 : cfg.onClientData pid st.calls rem with
                | ret q2 t2 =>
                  simp only [afterPlugin, Spec]
                  exact ⟨rq, q, hp, hc, hc, hu, hd, ho, (by first | rfl | trivial), (by first | rfl | trivial), (by first | rfl | trivial),
                    Or.inr ⟨rem, q2, t2, (by first | rfl | trivial), hl, h2, (by first | rfl | trivial), (by first | rfl | trivial), (by first | rfl | trivial)⟩⟩
                | raise q2 resp =>
                  simp only [afterPlugin, Spec]
                  exact ⟨(by first | rfl | trivial), (by first | rfl | trivial), rq, q2, resp, hp, hc, hd, (by first | rfl | trivial), (by first | rfl | trivial), Or.inr ⟨q, rem, ho, hl, h2, (by first | rfl | trivial)⟩⟩
                | crash q2 =>
                  simp only [afterPlugin, Spec]
                  exact ⟨rq, q2, hp, (by first | rfl | trivial), Or.inr ⟨q, rem, ho, hl, h2, (by first | rfl | trivial)⟩⟩
          | raise q resp =>
            simp only [afterPlugin, Spec]
            exact ⟨(by first | rfl | trivial), (by first | rfl | trivial), rq, q, resp, hp, hc, hd, (by first | rfl | trivial), (by first | rfl | trivial), Or.inl ⟨ho, (by first | rfl | trivial)⟩⟩
          | crash q =>
            simp only [afterPlugin, Spec]
            exact ⟨rq, q, hp, (by first | rfl | trivial), Or.inl ⟨ho, (by first | rfl | trivial)⟩⟩
    · have hc' : (rq.state != Px.Parser.PState.complete) = true := by simpa using hc
      simp [hc', Spec, hc, hp]

/-- the first-request phase never touches the flush / teardown flags (that is `tick`'s job) -/
theorem parseFirst_flags (cfg : Cfg) (st : St) (data : Bytes) :
    (parseFirst cfg st data).1.mustFlush = st.mustFlush ∧ (parseFirst cfg st data).1.teardown = st.teardown := by
  unfold parseFirst
  cases reqParse cfg st data with
  | error e => exact ⟨rfl, rfl⟩
  | ok rq =>
    simp only
    split
    · exact ⟨rfl, rfl⟩
    · split
      · exact ⟨rfl, rfl⟩
      · cases discover cfg.plugins (handlerProtocol rq).num with
        | none => exact ⟨rfl, rfl⟩
        | some pid =>
          simp only
          cases cfg.onComplete pid rq with
          | ret q td =>
            cases td with
            | true => exact ⟨rfl, rfl⟩
            | false =>
              cases leftover rq with
              | none => exact ⟨rfl, rfl⟩
              | some rem =>
                simp only
                cases cfg.onClientData pid st.calls rem <;> exact ⟨rfl, rfl⟩
          | raise q resp => exact ⟨rfl, rfl⟩
          | crash q => exact ⟨rfl, rfl⟩

theorem handleData_first (cfg : Cfg) (st : St) (data : Bytes) (h : st.request.state ≠ .complete) :
    handleData cfg st data = parseFirst cfg st data := by
  unfold handleData
  have : (st.request.state != Px.Parser.PState.complete) = true := by simpa using h
  simp [this]

/-! ### ticks and runs -/

/-- the executor no longer delivers client bytes to this handler -/
theorem feed_not_reading (cfg : Cfg) (st : St) (data : Bytes) (h : reading st = false) :
    feed cfg st data = (st, none) := by
  unfold feed; simp [h]

theorem run_not_reading (cfg : Cfg) (st : St) (segs : List Bytes) (h : reading st = false) :
    run cfg st segs = (st, segs.map (fun _ => none)) := by
  induction segs with
  | nil => rfl
  | cons x xs ih => simp [run, feed_not_reading cfg st x h, ih]

/-- what `tick` makes of `handle_data`'s result -/
theorem tick_eq (cfg : Cfg) (st : St) (data : Bytes) :
    tick cfg st data =
      (let r := handleData cfg st data
       let s := r.1
       (if s.escaped then s
        else if r.2.2 then (if !s.buffer.isEmpty then { s with mustFlush := true } else { s with teardown := true })
        else s, r.2.1)) := by
  unfold tick
  rcases handleData cfg st data with ⟨s, o, r⟩
  simp only
  split <;> (try split) <;> (try split) <;> rfl

/-- a True from `handle_data` (or an escaping exception) ends reading -/
theorem tick_stops (cfg : Cfg) (st : St) (data : Bytes)
    (h : (handleData cfg st data).2.2 = true ∨ (handleData cfg st data).1.escaped = true) :
    reading (tick cfg st data).1 = false := by
  rw [tick_eq]
  simp only
  by_cases he : (handleData cfg st data).1.escaped = true
  · simp [he, reading]
  · have hr : (handleData cfg st data).2.2 = true := by
      rcases h with h | h
      · exact h
      · exact absurd h he
    simp only [he, Bool.false_eq_true, if_false, hr, if_true]
    split <;> simp [reading, readInterest]

/-- a False from `handle_data` leaves the reading flags alone -/
theorem tick_continues (cfg : Cfg) (st : St) (data : Bytes)
    (h : (handleData cfg st data).2.2 = false) (he : (handleData cfg st data).1.escaped = false) :
    (tick cfg st data).1 = (handleData cfg st data).1 := by
  rw [tick_eq]; simp [h, he]

theorem tick_outcome (cfg : Cfg) (st : St) (data : Bytes) :
    (tick cfg st data).2 = (handleData cfg st data).2.1 := by
  rw [tick_eq]

/-! ### the shape of a whole run -/

/-- every remaining segment is left unread -/
def Closed : List (Option Outcome) → Prop
  | [] => True
  | none :: t => Closed t
  | some _ :: _ => False

/-- after the first request was served by plugin `pid`: segments go to its `on_client_data`
    until it raises (→ reject) or crashes; nothing is read afterwards -/
def DataShape (pid : Nat) : List (Option Outcome) → Prop
  | [] => True
  | some (.data p) :: t => p = pid ∧ DataShape pid t
  | some (.reject (.pluginRaised p) _) :: t => p = pid ∧ Closed t
  | some (.escaped p) :: t => p = pid ∧ Closed t
  | _ :: _ => False

/-- a connection from its first byte: `wait`s, then at most one of served / reject
    (/ escaped, if a plugin breaks its contract); after a reject, or a served request
    whose plugin asked for teardown, nothing more is read -/
def FirstShape : List (Option Outcome) → Prop
  | [] => True
  | some .wait :: t => FirstShape t
  | some (.served pid td) :: t => if td then Closed t else DataShape pid t
  | some (.reject _ _) :: t => Closed t
  | some (.escaped _) :: t => Closed t
  | _ :: _ => False

theorem closed_map_none (segs : List Bytes) : Closed (segs.map (fun _ => (none : Option Outcome))) := by
  induction segs with
  | nil => trivial
  | cons _ _ ih => exact ih

theorem run_cons (cfg : Cfg) (st : St) (x : Bytes) (xs : List Bytes) :
    run cfg st (x :: xs) = ((run cfg (feed cfg st x).1 xs).1, (feed cfg st x).2 :: (run cfg (feed cfg st x).1 xs).2) := by
  simp only [run]

theorem feed_reading (cfg : Cfg) (st : St) (x : Bytes) (h : reading st = true) :
    feed cfg st x = ((tick cfg st x).1, some (tick cfg st x).2) := by
  unfold feed; simp only [h, if_true]

/-- second phase: plugin selected, first request complete -/
theorem run_dataShape (cfg : Cfg) (pid : Nat) (segs : List Bytes) (st : St)
    (hc : st.request.state = .complete) (hp : st.plugin = some pid) (hr : reading st = true) :
    DataShape pid (run cfg st segs).2 := by
  induction segs generalizing st with
  | nil => trivial
  | cons x xs ih =>
    rw [run_cons, feed_reading cfg st x hr]
    simp only
    have hd : handleData cfg st x =
        afterPlugin { st with calls := st.calls + 1 } pid (cfg.onClientData pid st.calls x)
          (fun _ => .data pid) (fun _ => false) := by
      unfold handleData
      simp [hc, hp]
    rw [tick_outcome]
    cases ho : cfg.onClientData pid st.calls x with
    | ret q td =>
      have hh : handleData cfg st x = ({ st with calls := st.calls + 1, buffer := st.buffer ++ q }, .data pid, false) := by
        rw [hd, ho]; rfl
      rw [hh]
      refine ⟨rfl, ?_⟩
      have ht := tick_continues cfg st x (by rw [hh]) (by
        rw [hh]; simp only
        have : reading st = true := hr
        simp only [reading, Bool.and_eq_true, Bool.not_eq_true'] at this
        exact this.1.2)
      rw [ht, hh]
      apply ih
      · exact hc
      · exact hp
      · simpa [reading, readInterest] using hr
    | raise q resp =>
      have hh : handleData cfg st x = ({ st with calls := st.calls + 1, buffer := st.buffer ++ q ++ respQueue resp },
          .reject (.pluginRaised pid) (respQueue resp), true) := by
        rw [hd, ho]; rfl
      have hs := tick_stops cfg st x (Or.inl (by rw [hh]))
      rw [hh]
      refine ⟨rfl, ?_⟩
      rw [run_not_reading cfg _ xs hs]
      exact closed_map_none xs
    | crash q =>
      have hh : handleData cfg st x = ({ st with calls := st.calls + 1, buffer := st.buffer ++ q, escaped := true },
          .escaped pid, false) := by
        rw [hd, ho]; rfl
      have hs := tick_stops cfg st x (Or.inr (by rw [hh]))
      rw [hh]
      refine ⟨rfl, ?_⟩
      rw [run_not_reading cfg _ xs hs]
      exact closed_map_none xs

/-- first phase -/
theorem run_firstShape (cfg : Cfg) (segs : List Bytes) (st : St)
    (hc : st.request.state ≠ .complete) (hr : reading st = true) :
    FirstShape (run cfg st segs).2 := by
  induction segs generalizing st with
  | nil => trivial
  | cons x xs ih =>
    rw [run_cons, feed_reading cfg st x hr]
    simp only
    rw [tick_outcome]
    have hspec := parseFirst_spec cfg st x
    rw [← handleData_first cfg st x hc] at hspec
    have hesc : st.escaped = false := by
      simp only [reading, Bool.and_eq_true, Bool.not_eq_true'] at hr
      exact hr.1.2
    have hfl := parseFirst_flags cfg st x
    rw [← handleData_first cfg st x hc] at hfl
    generalize hres : handleData cfg st x = res at hspec hfl
    obtain ⟨st', o, ret⟩ := res
    have hreading : st'.escaped = st.escaped → reading st' = true := by
      intro he
      simp only [reading, readInterest, Bool.and_eq_true, Bool.not_eq_true'] at hr ⊢
      simp only at hfl
      rw [hfl.1, hfl.2, he]
      exact hr
    cases o with
    | wait =>
      simp only [Spec] at hspec
      obtain ⟨⟨rq, _, hnc, hrq⟩, hret, _, _, he⟩ := hspec
      have ht := tick_continues cfg st x (by rw [hres]; exact hret) (by rw [hres]; simp only; rw [he, hesc])
      rw [ht, hres]
      show FirstShape (run cfg st' xs).2
      exact ih st' (by rw [hrq]; exact hnc) (hreading he)
    | served pid td =>
      simp only [Spec] at hspec
      obtain ⟨rq, q, _, _, hcomp, _, _, _, hret, hplug, he, _⟩ := hspec
      show if td = true then Closed _ else DataShape pid _
      by_cases htd : td = true
      · simp only [htd, if_true]
        have hs := tick_stops cfg st x (Or.inl (by rw [hres]; simp only; rw [hret, htd]))
        rw [run_not_reading cfg _ xs hs]
        exact closed_map_none xs
      · have htd' : td = false := by simpa using htd
        simp only [htd', Bool.false_eq_true, if_false]
        have ht := tick_continues cfg st x (by rw [hres]; simp only; rw [hret, htd']) (by rw [hres]; simp only; rw [he, hesc])
        rw [ht, hres]
        show DataShape pid (run cfg st' xs).2
        exact run_dataShape cfg pid xs st' hcomp hplug (hreading he)
    | reject why hq =>
      simp only [Spec] at hspec
      have hs := tick_stops cfg st x (Or.inl (by rw [hres]; exact hspec.1))
      show Closed _
      rw [run_not_reading cfg _ xs hs]
      exact closed_map_none xs
    | escaped pid =>
      simp only [Spec] at hspec
      obtain ⟨_, _, _, he, _⟩ := hspec
      have hs := tick_stops cfg st x (Or.inr (by rw [hres]; exact he))
      show Closed _
      rw [run_not_reading cfg _ xs hs]
      exact closed_map_none xs
    | data _ => exact absurd hspec (by simp [Spec])
    | ignored => exact absurd hspec (by simp [Spec])

end Px.First
