import PxModel.Build
import PxModel.UpdateBody
import PxProofs.HexLemmas
import PxProofs.ChunkCodec
import PxProofs.BuildHeaders
import PxProofs.BuildHeaderless
import PxProofs.RebuildResp
import PxProofs.UpdateChunked
import PxProofs.WfMessage
import PxProofs.ParserInv
/-!
# C15 — HTTP message and chunked codecs round-trip and agree with a reference

Property theorems only; the proofs are in `HexLemmas`, `ChunkCodec`, `BuildLemmas`, `BuildParse`,
`BuildRoundTrip`, `BuildGuards`, `BuildHeaders`, `Rebuild*`, `Update*` (and the decoder's
completeness for its grammar, `Px.Chunk.parse_stream`, in the C03 owner's `ChunkLemmas`).
Models: `PxModel/Chunk.lean`, `Parser.lean`, `Build.lean`, `UpdateBody.lean`; tied to
`proxy/http/parser/chunk.py`, `parser.py`, `proxy/common/utils.py` by `harness/c15.py`.

Open findings stated as witness theorems at the end: D22 (chunked trailers), D24 (a path starting
with `//` is not read back).  D23 (`update_body` on a chunked message was chunk-encoded twice by
`build()`) is fixed (4312341): `C15_update_body_chunked` is now the full positive statement.
-/
namespace Px.Codec

open Px.Parser Px.Build Px.UpdateBody
open Px.Url (Url)

/-! ## numbers -/

/-- **hex round trip**, every `n`: `int('{:x}'.format(n), 16) == n` -/
theorem C15_hex_roundtrip (n : Nat) : pyInt 16 (natToHex n) = some (Int.ofNat n) := pyInt16_natToHex n

/-- **decimal round trip** (`Content-Length`): `int(str(n)) == n` for every `n` with at most
    int-max-str-digits (4300) digits; beyond that CPython — and the model — refuse the text -/
theorem C15_dec_roundtrip (n : Nat) (h : n < 10 ^ intMaxStrDigits) :
    pyInt 10 (natToDec n) = some (Int.ofNat n) := pyInt10_natToDec n h

example : (131072 : Nat) < 10 ^ intMaxStrDigits := by
  have : (10 : Nat) ^ 6 ≤ 10 ^ intMaxStrDigits := Nat.pow_le_pow_right (by decide) (by decide)
  omega

/-! ## chunked transfer coding -/

/-- **C15 encoder/decoder inverse.**  For every body and every chunk size `n ≥ 1`:
    `to_chunks(body, n)` succeeds, and the decoder fed its output followed by any `tail` is complete,
    holds exactly `body`, and hands `tail` back untouched. -/
theorem C15_chunk_inverse (body : Bytes) (n : Nat) (hn : 0 < n) (tail : Bytes) :
    ∃ enc, Px.Chunk.toChunks body n = .ok enc ∧
      Px.Chunk.parse Px.Chunk.init (enc ++ tail) =
        .ok ({ state := .complete, body := body, chunk := [], size := none }, tail) := by
  obtain ⟨s, hv, hd, hr⟩ := toChunks_in_grammar body n (by omega)
  refine ⟨s.render, hr, ?_⟩
  have := Px.Chunk.parse_stream s hv Px.Chunk.init rfl rfl tail
  rw [hd] at this
  simpa [Px.Chunk.init] using this

/-- the encoder writes `⌈len / n⌉` data chunks of at most `n` bytes, then the last-chunk -/
theorem C15_chunk_inverse_sizes (body : Bytes) (n : Nat) (hn : 0 < n) :
    Px.Chunk.toChunks body n = .ok (chunksOf n body.length body).render ∧
      ChunkedStream.count (chunksOf n body.length body) = (body.length + n - 1) / n :=
  ⟨toChunks_render body n (by omega), chunksOf_count n hn _ _ (Nat.le_refl _)⟩

/-- chunk size 0 is rejected (`range()` step 0 raises ValueError) -/
theorem C15_chunk_size_zero (body : Bytes) : Px.Chunk.toChunks body 0 = .error .valueError := rfl

/-- **C15 reference decoder.**  For every stream `s` of the chunked-body grammar of RFC 7230 §4.1
    (`RStream.ok`: chunk-size = 1*HEXDIG in either case with leading zeros, optional chunk extensions,
    last-chunk = 1*"0" with optional extension, **no trailer part** — D22) and every `tail`, the
    decoder returns the reference decoding `refDecode s` and hands `tail` back. -/
theorem C15_chunk_reference (s : RStream) (h : s.ok = true) (tail : Bytes) :
    Px.Chunk.parse Px.Chunk.init (s.render ++ tail) =
      .ok ({ state := .complete, body := refDecode s, chunk := [], size := none }, tail) :=
  decode_rfc s h tail

/-- the encoder's output lies in the grammar the decoder is proved complete for (used by C02) -/
theorem C15_toChunks_in_grammar (body : Bytes) (n : Nat) (h : n ≠ 0) :
    ∃ s : Px.Chunk.ChunkedStream, s.Valid ∧ s.decoded = body ∧ Px.Chunk.toChunks body n = .ok s.render :=
  toChunks_in_grammar body n h

/-- non-vacuity: `A;x=1 CRLF 0123456789 CRLF 005 CRLF hello CRLF 00;l CRLF CRLF` is in the grammar -/
example : (RStream.mk [⟨[65], [59, 120, 61, 49], [48, 49, 50, 51, 52, 53, 54, 55, 56, 57]⟩,
    ⟨[48, 48, 53], [], [104, 101, 108, 108, 111]⟩] [48, 48] [59, 108]).ok = true := by decide

/-! ## builders → parser -/

/-- **core equation** (requests): the parser consumes start line and header block of a rendered
    packet in two loop iterations; what remains is the body phase on the payload -/
theorem C15_parse_pkt (cfg : Cfg) {m u v : Bytes} {url : Url} (H : HDict) (B : Bytes)
    (hmne : m ≠ []) (hm : SP ∉ m) (hu : SP ∉ u) (hl : splitCRLF (m ++ SP :: (u ++ SP :: v)) = none)
    (hurl : Px.Url.fromBytes cfg.allowedSchemes u = .ok url) (hH : ∀ e ∈ H, HdrOK e.1 e.2) :
    parse cfg (init .request) (m ++ SP :: (u ++ SP :: v) ++ CRLF ++ (renderHdrs H ++ CRLF ++ B)) =
      match foldHdrs (reqLineParser cfg
          (m ++ SP :: (u ++ SP :: v) ++ CRLF ++ (renderHdrs H ++ CRLF ++ B)).length m v url) H with
      | .error e => .error e
      | .ok q => bodyPhase cfg ((m ++ SP :: (u ++ SP :: v) ++ CRLF ++ (renderHdrs H ++ CRLF ++ B)).length + 6) q B :=
  parse_request_pkt cfg H B hmne hm hu hl hurl hH _ rfl

/-- **what `build_http_request` sends**: the packet is `method SP url SP version CRLF`, the header
    list `reqHeaders` rendered as `name ": " value CRLF`, a blank line, the body; and when the
    caller's header names do not collide with the builder's, that list is the caller's headers
    followed by `Content-Type` (iff `content_type` given), `Content-Length: len(body)` (iff the body
    is non-empty), `User-Agent` (iff not `no_ua`), `Connection: close` (iff `conn_close`). -/
theorem C15_req_headers (ua m u v : Bytes) (ct : Option Bytes) (hs : HDict) (body : Option Bytes) (cc noUa : Bool) :
    buildRequest ua m u v ct hs body cc noUa =
      m ++ SP :: (u ++ SP :: v) ++ CRLF ++
        (renderHdrs (reqHeaders ua ct hs body cc noUa) ++ CRLF ++ body.getD []) ∧
    (disjointFromBuilder hs = true →
      reqHeaders ua ct hs body cc noUa = hs ++ ctPart ct ++ clPart body ++ uaPart ua noUa ++ connPart cc) :=
  ⟨buildRequest_eq ua m u v ct hs body cc noUa, req_headers_disjoint ua ct hs body cc noUa⟩

/-- the suppression rules of `build_http_request`: any `transfer-encoding` key suppresses
    `Content-Length`; any `user-agent` key, or `no_ua`, suppresses `User-Agent` -/
theorem C15_req_headers_suppressed (ua : Bytes) (ct : Option Bytes) (hs : HDict) (body : Option Bytes)
    (cc noUa : Bool) :
    (hasKey kTE hs = true → hasKey kCL hs = false → ∀ e ∈ reqHeaders ua ct hs body cc noUa, isCL e = false) ∧
    (hasKey kUA hs = true ∨ noUa = true → reqH3 ua ct hs body noUa = reqH2 ct hs body) :=
  ⟨req_no_cl_when_te ua ct hs body cc noUa, req_no_ua_when_given ua ct hs body noUa⟩

/-- **C15 builder → parser, requests.**  For all field values in the guard `WFReq` (method / target /
    version non-empty without SP, CR, LF; header names non-empty without `:` / whitespace / CR / LF,
    values without CR / LF and stripped; no caller-supplied `content-length` / `transfer-encoding`),
    a target `Url.from_bytes` accepts, any body (`None`, empty, binary) below 10^4300 bytes:
    parsing the built packet is complete with the same method, version, target (as parsed `Url`),
    the header map of exactly the headers sent (lower-case key ↦ (name, value), dict semantics for
    repeated keys, `hdrsOf`), the same body (`None` when empty), nothing left over.
    Case-insensitive uniqueness of the caller's names is not needed. -/
theorem C15_parse_build_req (cfg : Cfg) (ua m u v : Bytes) (ct : Option Bytes) (hs : HDict) (body : Option Bytes)
    (cc noUa : Bool) (url : Url) (hwf : WFReq m u v ct hs ua = true)
    (hurl : Px.Url.fromBytes cfg.allowedSchemes u = .ok url)
    (hlen : (body.getD []).length < 10 ^ intMaxStrDigits) :
    ∃ r, parse cfg (init .request) (buildRequest ua m u v ct hs body cc noUa) = .ok r ∧
      ReqResult r m v url (reqHeaders ua ct hs body cc noUa) (if bodyTruthy body then body else none) false :=
  parse_build_req cfg ua m u v ct hs body cc noUa url hwf hurl hlen

/-- non-vacuity of `WFReq`: `POST /p HTTP/1.1`, headers `Host: h`, `x~tok!: "q"`, the real User-Agent -/
example : WFReq [80, 79, 83, 84] [47, 112] [72, 84, 84, 80, 47, 49, 46, 49] (some [97, 47, 98])
    [([72, 111, 115, 116], [104]), ([120, 126, 116, 111, 107, 33], [34, 113, 34])]
    Px.Gen.proxyAgentHeaderValue = true := by decide
example : Px.Url.fromBytes Px.Gen.defaultAllowedUrlSchemes [47, 112] = .ok { remainder := some [47, 112] } := rfl

/-- **C15 builder → parser, requests with caller-supplied `Transfer-Encoding: chunked`**: the body
    handed over is a chunked stream (e.g. `to_chunks` output, `C15_toChunks_in_grammar`); no
    Content-Length is added and the parser reports the decoded body. -/
theorem C15_parse_build_req_chunked (cfg : Cfg) (ua m u v : Bytes) (ct : Option Bytes) (hs : HDict)
    (s : Px.Chunk.ChunkedStream) (cc noUa : Bool) (url : Url)
    (hwf : WFReqChunked m u v ct hs ua = true) (hurl : Px.Url.fromBytes cfg.allowedSchemes u = .ok url)
    (hv : s.Valid) :
    ∃ r, parse cfg (init .request) (buildRequest ua m u v ct hs (some s.render) cc noUa) = .ok r ∧
      ReqResult r m v url (reqHeaders ua ct hs (some s.render) cc noUa) (some s.decoded) true :=
  parse_build_req_chunked cfg ua m u v ct hs s cc noUa url hwf hurl hv

example : WFReqChunked [80] [47] [72] none
    [([116, 114, 97, 110, 115, 102, 101, 114, 45, 69, 110, 99, 111, 100, 105, 110, 103], [67, 104, 117, 110, 107, 101, 100])]
    [] = true := by decide

/-- **what `build_http_response` sends** -/
theorem C15_res_headers (status : Int) (v : Bytes) (reason : Option Bytes) (hs : HDict) (body : Option Bytes)
    (cc noCl : Bool) :
    buildResponse status v reason hs body cc noCl =
      statusLine status v reason ++ CRLF ++ (renderHdrs (resHeaders hs body cc noCl) ++ CRLF ++ body.getD []) ∧
    (disjointFromBuilder hs = true →
      resHeaders hs body cc noCl =
        hs ++ (if noCl then [] else [(nCL, if bodyTruthy body then natToDec (body.getD []).length else [48])]) ++
          connPart cc) ∧
    (hasKey kTE hs = true ∨ noCl = true → resHeaders hs body cc noCl = pktHeaders hs cc) :=
  ⟨buildResponse_eq status v reason hs body cc noCl, res_headers_disjoint hs body cc noCl,
    res_no_cl_when_te hs body cc noCl⟩

/-- **C15 builder → parser, responses** (`no_cl = False`): every status code (any integer), version in
    the guard, reason `None` / empty (both read back as `None`) / any text without CR, LF (spaces
    allowed), headers in the guard, any body: complete, same version, code = decimal text of the
    status, reason, header map of the headers sent (`Content-Length: len(body)`, `0` when empty), body. -/
theorem C15_parse_build_resp (cfg : Cfg) (status : Int) (v : Bytes) (reason : Option Bytes) (hs : HDict)
    (body : Option Bytes) (cc : Bool) (hwf : WFRes v reason hs = true)
    (hlen : (body.getD []).length < 10 ^ intMaxStrDigits) :
    ∃ r, parse cfg (init .response) (buildResponse status v reason hs body cc false) = .ok r ∧
      ResResult r v (intToDec status) (reasonSeen reason) (resHeaders hs body cc false)
        (if bodyTruthy body then body else none) false :=
  parse_build_resp cfg status v reason hs body cc hwf hlen

example : WFRes [72, 84, 84, 80, 47, 49, 46, 49] (some [78, 111, 116, 32, 70, 111, 117, 110, 100])
    [([88], [121, 32, 122])] = true := by decide
example : WFRes [72] none [] = true ∧ WFRes [72] (some []) [] = true := by decide

/-- **C15 builder → parser, header-less response** (`no_cl = True`, no headers, no body — e.g. the
    tunnel-established packet): complete at once, no header map, no body, nothing left over.
    (With `no_cl` and a body the response is delimited by connection close and never completes:
    outside the property's quantifier.) -/
theorem C15_parse_build_resp_headerless (cfg : Cfg) (status : Int) (v : Bytes) (reason : Option Bytes)
    (hv : plainTok v = true) (hr : reasonOK reason = true) :
    ∃ r, parse cfg (init .response) (buildResponse status v reason [] none false true) = .ok r ∧
      r.state = .complete ∧ r.version = some v ∧ r.code = some (intToDec status) ∧
      r.reason = reasonSeen reason ∧ r.headers = none ∧ r.body = none ∧ r.buffer = none :=
  parse_build_resp_headerless cfg status v reason hv hr

/-! ## parsed message → rebuild → parser -/

/-- **C15 rebuild, requests.**  Guard `ReqGuard` (request with plain method / version, path — `/` when
    absent — plain, origin-form and **not starting with `//`** (D24), header map with keys = lower-cased
    unique names and names / values in the header grammar) plus one of three framings:
    * no body: not chunked, no `Transfer-Encoding: chunked`, every `content-length` reads 0;
    * Content-Length: not chunked, no `transfer-encoding` key, every `content-length` (any spelling)
      reads `len(body)`; the builder writes `Content-Length` — replacing a header spelled exactly so, or
      **adding a second header** next to a differently spelled one, which the parser then merges;
    * chunked: some `Transfer-Encoding: chunked`, `content-length` values integer literals; the body
      is re-chunked with the default buffer size, **including the empty body** (`0 CRLF CRLF`, D4).
    Then `build()` succeeds and parsing its output is complete with the same method, version, path,
    body, chunked flag and the header map of what was sent. -/
theorem C15_build_parse_req (cfg : Cfg) (bufSize : Nat) (hbs : bufSize ≠ 0) (p : Parser) (meth ver : Bytes)
    (g : ReqGuard p meth ver) :
    (p.isChunked = false → bodyTruthy p.body = false →
      (∀ e ∈ hdrPairs p, isTEChunked e = false) →
      (∀ e ∈ hdrPairs p, isCL e = true → pyInt 10 e.2 = some 0) →
      ∃ raw r, Px.Build.build bufSize Px.Gen.defaultDisableHeaders p none none = .ok raw ∧
        parse cfg (init .request) raw = .ok r ∧
        ReqResult r meth ver { remainder := some (pathOf p) } (hdrPairs p) none false) ∧
    (p.isChunked = false → bodyTruthy p.body = true →
      (∀ e ∈ hdrPairs p, lower e.1 ≠ kTE) →
      (∀ e ∈ hdrPairs p, isCL e = true → pyInt 10 e.2 = some (Int.ofNat (p.body.getD []).length)) →
      (p.body.getD []).length < 10 ^ intMaxStrDigits →
      ∃ raw r, Px.Build.build bufSize Px.Gen.defaultDisableHeaders p none none = .ok raw ∧
        parse cfg (init .request) raw = .ok r ∧
        ReqResult r meth ver { remainder := some (pathOf p) }
          (dSet (hdrPairs p) nCL (natToDec (p.body.getD []).length)) p.body false) ∧
    (∀ bd, p.isChunked = true → p.body = some bd →
      (∃ e ∈ hdrPairs p, isTEChunked e = true) → clValuesOK (hdrPairs p) →
      ∃ raw r, Px.Build.build bufSize Px.Gen.defaultDisableHeaders p none none = .ok raw ∧
        parse cfg (init .request) raw = .ok r ∧
        ReqResult r meth ver { remainder := some (pathOf p) } (hdrPairs p) (some bd) true) :=
  ⟨fun h1 h2 h3 h4 => build_parse_req_nobody cfg bufSize p meth ver g h1 h2 h3 h4,
   fun h1 h2 h3 h4 h5 => build_parse_req_cl cfg bufSize p meth ver g h1 h2 h3 h4 h5,
   fun bd h1 h2 h3 h4 => build_parse_req_chunked cfg bufSize hbs p meth ver bd g h1 h2 h3 h4⟩

/-- **the "unique, lower-cased keys" part of the rebuild guard is automatic**: whatever bytes are fed to
    a fresh parser, in however many pieces, its header map has unique keys and every key is the
    lower-cased form of the name stored with it (so a received `content-length` and the builder's
    `Content-Length` always land in one entry).  The rest of `hdrInvB` (names / values in the header
    grammar) holds exactly when the received header lines were in the grammar. -/
theorem C15_parse_keys_inv (cfg : Cfg) (ty : PType) (segs : List Bytes) {q : Parser}
    (h : parseAll cfg (init ty) segs = .ok q) :
    ∀ hm, q.headers = some hm → (hm.map (·.1)).Nodup ∧ ∀ e ∈ hm, e.1 = lower e.2.1 :=
  parseAll_keysInv cfg ty segs h

/-- when nothing is added the header map read back is the original one -/
theorem C15_build_parse_headers_same (h : Headers) (hi : hdrInvB h = true) (hne : h ≠ []) :
    hdrsOf (namesOf h) = some h := hdrsOf_namesOf h hi hne

/-- **a `content-length` spelled in another case**: the wire carries the original header and the
    builder's `Content-Length`; the parser merges them into one entry under the original key position
    with the builder's name and value -/
theorem C15_build_parse_other_case_cl (L : HDict) (v : Bytes) (hno : ∀ e ∈ L, e.1 ≠ nCL) :
    dSet L nCL v = L ++ [(nCL, v)] ∧
    hdrFold [] (L ++ [(nCL, v)]) = hdrSet (hdrFold [] L) kCL (nCL, v) := by
  refine ⟨dSet_of_not_mem L nCL v hno, ?_⟩
  rw [hdrFold_append]
  show hdrSet (hdrFold [] L) (lower nCL) (nCL, v) = _
  rw [lower_nCL]

/-- a chunked request with an **empty body** in the guard (non-vacuity; the D4 case) -/
def exChunkedEmpty : Parser :=
  { ty := .request, state := .complete, method := some [80, 79, 83, 84],
    version := some [72, 84, 84, 80, 47, 49, 46, 49], path := some [47],
    headers := some [(kTE, ([84, 114, 97, 110, 115, 102, 101, 114, 45, 69, 110, 99, 111, 100, 105, 110, 103], vChunked))],
    body := some [], isChunked := true }

example : ReqGuard exChunkedEmpty [80, 79, 83, 84] [72, 84, 84, 80, 47, 49, 46, 49] :=
  ⟨rfl, rfl, rfl, by decide, by decide, by decide, by decide, by decide⟩
example : (∃ e ∈ hdrPairs exChunkedEmpty, isTEChunked e = true) ∧ clValuesOK (hdrPairs exChunkedEmpty) :=
  ⟨⟨_, List.mem_cons_self .., by decide⟩, fun e he hc => by
    simp only [hdrPairs, exChunkedEmpty, namesOf, Option.getD_some, List.map_cons, List.map_nil,
      List.mem_singleton] at he
    subst he
    have : isCL ([84, 114, 97, 110, 115, 102, 101, 114, 45, 69, 110, 99, 111, 100, 105, 110, 103], vChunked) = false := by
      decide
    rw [this] at hc; exact absurd hc (by decide)⟩

/-- **C15 rebuild, responses.**  Guard `ResGuard` (version plain, code the canonical decimal text of an
    integer — `build_response` re-renders `int(code)` —, reason without CR / LF, header map as for
    requests) plus the three framings.  `Content-Length` is always (re)written unless a
    `transfer-encoding` key is present: `0` for a body-less response. The reason is read back as
    `None` when it was empty. -/
theorem C15_build_parse_resp (cfg : Cfg) (bufSize : Nat) (hbs : bufSize ≠ 0) (p : Parser) (ver code : Bytes) (n : Int)
    (g : ResGuard p ver code n) :
    (p.isChunked = false → bodyTruthy p.body = false →
      (∀ e ∈ hdrPairs p, lower e.1 ≠ kTE) →
      (∀ e ∈ hdrPairs p, isCL e = true → pyInt 10 e.2 = some 0) →
      ∃ raw r, buildResponseOf bufSize p = .ok raw ∧ parse cfg (init .response) raw = .ok r ∧
        ResResult r ver code (reasonSeen p.reason) (dSet (hdrPairs p) nCL [48]) none false) ∧
    (p.isChunked = false → bodyTruthy p.body = true →
      (∀ e ∈ hdrPairs p, lower e.1 ≠ kTE) →
      (∀ e ∈ hdrPairs p, isCL e = true → pyInt 10 e.2 = some (Int.ofNat (p.body.getD []).length)) →
      (p.body.getD []).length < 10 ^ intMaxStrDigits →
      ∃ raw r, buildResponseOf bufSize p = .ok raw ∧ parse cfg (init .response) raw = .ok r ∧
        ResResult r ver code (reasonSeen p.reason)
          (dSet (hdrPairs p) nCL (natToDec (p.body.getD []).length)) p.body false) ∧
    (∀ bd, p.isChunked = true → p.body = some bd →
      (∃ e ∈ hdrPairs p, isTEChunked e = true) → clValuesOK (hdrPairs p) →
      ∃ raw r, buildResponseOf bufSize p = .ok raw ∧ parse cfg (init .response) raw = .ok r ∧
        ResResult r ver code (reasonSeen p.reason) (hdrPairs p) (some bd) true) :=
  ⟨fun h1 h2 h3 h4 => build_parse_resp_nobody cfg bufSize p ver code n g h1 h2 h3 h4,
   fun h1 h2 h3 h4 h5 => build_parse_resp_cl cfg bufSize p ver code n g h1 h2 h3 h4 h5,
   fun bd h1 h2 h3 h4 => build_parse_resp_chunked cfg bufSize hbs p ver code bd n g h1 h2 h3 h4⟩

/-- non-vacuity of `ResGuard`: `HTTP/1.1 404 Not Found`, `X: y` -/
def exResp : Parser :=
  { ty := .response, state := .complete, version := some [72, 84, 84, 80, 47, 49, 46, 49], code := some [52, 48, 52],
    reason := some [78, 111, 116, 32, 70, 111, 117, 110, 100], headers := some [([120], ([88], [121]))] }

example : ResGuard exResp [72, 84, 84, 80, 47, 49, 46, 49] [52, 48, 52] 404 :=
  ⟨rfl, rfl, rfl, by decide, by decide, by decide,
    by show intToDec 404 = _; unfold intToDec; simp only [Int.reduceLT, if_false]
       show natToDec 404 = _; rw [natToDec_eq]; simp [decDigits],
    by decide, by decide⟩

/-! ## `update_body` -/

/-- **C15 update_body, not chunked, requests**: the stored body is `gz body` iff the message has
    `content-encoding: gzip` (any other content-encoding header is removed), `Content-Length` is its
    length, `Content-Type` is set; the rebuilt message reads back complete with exactly that header
    map and body. -/
theorem C15_update_body_plain (cfg : Cfg) (gz : Bytes → Bytes) (bufSize : Nat) (p : Parser)
    (meth ver body ct : Bytes) (g : ReqGuard p meth ver) (hch : p.isChunked = false)
    (hte : ∀ a ∈ p.headers.getD [], a.1 ≠ kTE) (hct : wfValue ct = true)
    (hlen : (updBody gz (p.headers.getD []) body).length < 10 ^ intMaxStrDigits) :
    ∃ raw r, updateBody gz bufSize p body ct = .ok (updParser gz p body ct) ∧
      Px.Build.build bufSize Px.Gen.defaultDisableHeaders (updParser gz p body ct) none none = .ok raw ∧
      parse cfg (init .request) raw = .ok r ∧ r.state = .complete ∧
      r.method = some meth ∧ r.version = some ver ∧ r.path = some (pathOf p) ∧
      r.headers = some (updHeaders gz (p.headers.getD []) body ct) ∧
      r.body = (if updBody gz (p.headers.getD []) body = [] then none
                else some (updBody gz (p.headers.getD []) body)) ∧
      r.buffer = none ∧ r.isChunked = false :=
  update_body_req_plain cfg gz bufSize p meth ver body ct g hch hte hct hlen

/-- the same for responses -/
theorem C15_update_body_plain_resp (cfg : Cfg) (gz : Bytes → Bytes) (bufSize : Nat) (p : Parser)
    (ver code body ct : Bytes) (n : Int) (g : ResGuard p ver code n) (hch : p.isChunked = false)
    (hte : ∀ a ∈ p.headers.getD [], a.1 ≠ kTE) (hct : wfValue ct = true)
    (hlen : (updBody gz (p.headers.getD []) body).length < 10 ^ intMaxStrDigits) :
    ∃ raw r, updateBody gz bufSize p body ct = .ok (updParser gz p body ct) ∧
      buildResponseOf bufSize (updParser gz p body ct) = .ok raw ∧
      parse cfg (init .response) raw = .ok r ∧ r.state = .complete ∧
      r.version = some ver ∧ r.code = some code ∧
      r.headers = some (updHeaders gz (p.headers.getD []) body ct) ∧
      r.body = (if updBody gz (p.headers.getD []) body = [] then none
                else some (updBody gz (p.headers.getD []) body)) ∧
      r.buffer = none ∧ r.isChunked = false :=
  update_body_resp_plain cfg gz bufSize p ver code body ct n g hch hte hct hlen

/-- what the new header map says: `Content-Type` = the given type, `Content-Length` = decimal length of
    the stored body, `content-encoding` kept exactly when it is `gzip` -/
theorem C15_update_body_headers (gz : Bytes → Bytes) (h : Headers) (body ct : Bytes) :
    hdrGet (updHeaders gz h body ct) kCT = some (nCT, ct) ∧
    hdrGet (updHeaders gz h body ct) kCL = some (nCL, natToDec (updBody gz h body).length) ∧
    (hdrGet (updHeaders gz h body ct) kCE).isSome = isGzip h :=
  ⟨updHeaders_ct gz h body ct, updHeaders_cl_get gz h body ct, updHeaders_ce gz h body ct⟩

/-- **gzip**: with `gunzip ∘ gz = id`, un-compressing what a receiver reads gives the new body back
    when the message is gzip-encoded; otherwise the body is stored as it is -/
theorem C15_update_body_gzip (gz gunzip : Bytes → Bytes) (hinv : ∀ x, gunzip (gz x) = x) (h : Headers) (body : Bytes) :
    (isGzip h = true → gunzip (updBody gz h body) = body) ∧ (isGzip h = false → updBody gz h body = body) := by
  unfold updBody
  constructor
  · intro hz; rw [hz]; exact hinv body
  · intro hz; rw [hz]; rfl

/-- non-vacuity of the `gunzip ∘ gz = id` hypothesis (the identity codec) and of `isGzip` -/
example : ∀ x : Bytes, (id : Bytes → Bytes) (id x) = x := fun _ => rfl
example : isGzip [(kCE, ([67, 69], vGzip))] = true := by decide

/-- **C15 update_body, chunked request.**  `update_body` stores the new body decoded (compressed with
    `gz` iff `content-encoding: gzip`), drops `content-length`, sets `Content-Type`; `build()` re-chunks
    it once; the rebuilt message is read back complete and chunked with the expected header map and
    **decodes to the new body** (the statement that was false before fix 4312341, finding D23). -/
theorem C15_update_body_chunked (cfg : Cfg) (gz : Bytes → Bytes) (bufSize : Nat) (hbs : bufSize ≠ 0)
    (p : Parser) (meth ver body ct : Bytes) (g : ReqGuard p meth ver) (hch : p.isChunked = true)
    (hte : ∃ a ∈ p.headers.getD [], isTEChunked a.2 = true) (hct : wfValue ct = true) :
    ∃ p' raw r, updateBody gz bufSize p body ct = .ok p' ∧
      p'.body = some (updBody gz (p.headers.getD []) body) ∧
      Px.Build.build bufSize Px.Gen.defaultDisableHeaders p' none none = .ok raw ∧
      parse cfg (init .request) raw = .ok r ∧ r.state = .complete ∧ r.isChunked = true ∧
      r.method = some meth ∧ r.version = some ver ∧ r.path = some (pathOf p) ∧
      r.headers = some (updHeadersCh (p.headers.getD []) ct) ∧
      r.body = some (updBody gz (p.headers.getD []) body) ∧ r.buffer = none :=
  update_body_req_chunked cfg gz bufSize hbs p meth ver body ct g hch hte hct

/-- the same for chunked responses -/
theorem C15_update_body_chunked_resp (cfg : Cfg) (gz : Bytes → Bytes) (bufSize : Nat) (hbs : bufSize ≠ 0)
    (p : Parser) (ver code body ct : Bytes) (n : Int) (g : ResGuard p ver code n) (hch : p.isChunked = true)
    (hte : ∃ a ∈ p.headers.getD [], isTEChunked a.2 = true) (hct : wfValue ct = true) :
    ∃ p' raw r, updateBody gz bufSize p body ct = .ok p' ∧
      p'.body = some (updBody gz (p.headers.getD []) body) ∧
      buildResponseOf bufSize p' = .ok raw ∧
      parse cfg (init .response) raw = .ok r ∧ r.state = .complete ∧ r.isChunked = true ∧
      r.version = some ver ∧ r.code = some code ∧
      r.headers = some (updHeadersCh (p.headers.getD []) ct) ∧
      r.body = some (updBody gz (p.headers.getD []) body) ∧ r.buffer = none :=
  update_body_resp_chunked cfg gz bufSize hbs p ver code body ct n g hch hte hct

/-- the parsed form of `POST / HTTP/1.1`, `Transfer-Encoding: chunked`, body `hello` -/
def exChunkedHello : Parser :=
  { exChunkedEmpty with body := some [104, 101, 108, 108, 111] }

/-- the former D23 witness, now positive: `update_body(b'NEWBODY', b'text/plain')` on the chunked
    request above, then `build()`: a receiver reads back the body `NEWBODY` -/
theorem C15_update_body_chunked_example (cfg : Cfg) :
    ∃ p' raw r, updateBody id Px.Gen.defaultBufferSize exChunkedHello [78, 69, 87, 66, 79, 68, 89]
        [116, 101, 120, 116, 47, 112, 108, 97, 105, 110] = .ok p' ∧
      Px.Build.build Px.Gen.defaultBufferSize Px.Gen.defaultDisableHeaders p' none none = .ok raw ∧
      parse cfg (init .request) raw = .ok r ∧ r.state = .complete ∧
      r.body = some [78, 69, 87, 66, 79, 68, 89] := by
  have g : ReqGuard exChunkedHello [80, 79, 83, 84] [72, 84, 84, 80, 47, 49, 46, 49] :=
    ⟨rfl, rfl, rfl, by decide, by decide, by decide, by decide, by decide⟩
  obtain ⟨p', raw, r, h1, -, h3, h4, h5, -, -, -, -, -, h10, -⟩ :=
    update_body_req_chunked cfg id Px.Gen.defaultBufferSize (by decide) exChunkedHello
      [80, 79, 83, 84] [72, 84, 84, 80, 47, 49, 46, 49] [78, 69, 87, 66, 79, 68, 89]
      [116, 101, 120, 116, 47, 112, 108, 97, 105, 110] g rfl
      ⟨_, List.mem_cons_self .., by decide⟩ (by decide)
  have hu : updBody id (exChunkedHello.headers.getD []) [78, 69, 87, 66, 79, 68, 89] =
      [78, 69, 87, 66, 79, 68, 89] := by decide
  exact ⟨p', raw, r, h1, h3, h4, h5, by rw [h10, hu]⟩

/-! ## well-formedness of what is written (`WF_message`) -/

/-- **C15 WF_message.**  `wfMessage` is a decidable check written independently of the parser model
    (see `PxProofs/WfMessage.lean`).  Every rendered packet whose start line is in the grammar, whose
    headers are in the guard and whose payload is consistent with the framing its headers announce passes. -/
theorem C15_wf_pkt (isReq : Bool) (line : Bytes) (H : HDict) (B : Bytes)
    (hl : startLineOK isReq line = true) (hH : wfHeaders H = true) (hf : framingOK isReq H B = true) :
    wfMessage isReq (line ++ CRLF ++ (renderHdrs H ++ CRLF ++ B)) = true :=
  wfMessage_pkt isReq line H B hl hH hf

/-- the chunk encoder writes exactly one chunked body for every body and chunk size — `0 CRLF CRLF`
    for the empty body -/
theorem C15_wf_toChunks (body : Bytes) (n : Nat) (hn : 0 < n) :
    ∃ enc, Px.Chunk.toChunks body n = .ok enc ∧ chunkedOK (enc.length + 1) enc = true :=
  chunkedOK_toChunks body n hn

/-- **C15 rebuilt requests are well-formed**, for each framing; chunked includes the empty body.
    The Content-Length guard is textual (every received `content-length` is the canonical decimal of the
    body length): with `content-length: 05` received, the wire carries `05` next to the builder's `5`. -/
theorem C15_rebuild_wf (bufSize : Nat) (hbs : bufSize ≠ 0) (p : Parser) (meth ver : Bytes) (g : ReqGuard p meth ver) :
    (p.isChunked = false → bodyTruthy p.body = false →
      (∀ e ∈ hdrPairs p, isTEChunked e = false) → (∀ e ∈ hdrPairs p, isCL e = true → e.2 = natToDec 0) →
      ∃ raw, Px.Build.build bufSize Px.Gen.defaultDisableHeaders p none none = .ok raw ∧
        wfMessage true raw = true) ∧
    (p.isChunked = false → bodyTruthy p.body = true →
      (∀ e ∈ hdrPairs p, lower e.1 ≠ kTE) →
      (∀ e ∈ hdrPairs p, isCL e = true → e.2 = natToDec (p.body.getD []).length) →
      ∃ raw, Px.Build.build bufSize Px.Gen.defaultDisableHeaders p none none = .ok raw ∧
        wfMessage true raw = true) ∧
    (∀ bd, p.isChunked = true → p.body = some bd → (∃ e ∈ hdrPairs p, isTEChunked e = true) →
      ∃ raw, Px.Build.build bufSize Px.Gen.defaultDisableHeaders p none none = .ok raw ∧
        wfMessage true raw = true) :=
  rebuild_req_wf bufSize hbs p meth ver g

/-- the check is not vacuous: `POST / HTTP/1.1`, `Transfer-Encoding: chunked`, payload `0 CRLF CRLF`
    passes; the same message without the terminator (what `build()` wrote before fix D4) does not;
    nor does a chunked payload followed by a trailer field or by stray bytes -/
example : wfMessage true ([80, 79, 83, 84, 32, 47, 32, 72, 84, 84, 80, 47, 49, 46, 49, 13, 10] ++
    [84, 69, 58, 32, 120, 13, 10] ++
    [84, 114, 97, 110, 115, 102, 101, 114, 45, 69, 110, 99, 111, 100, 105, 110, 103, 58, 32, 99, 104, 117, 110, 107, 101, 100, 13, 10] ++
    [13, 10] ++ [48, 13, 10, 13, 10]) = true := by decide
example : wfMessage true ([80, 79, 83, 84, 32, 47, 32, 72, 84, 84, 80, 47, 49, 46, 49, 13, 10] ++
    [84, 114, 97, 110, 115, 102, 101, 114, 45, 69, 110, 99, 111, 100, 105, 110, 103, 58, 32, 99, 104, 117, 110, 107, 101, 100, 13, 10] ++
    [13, 10]) = false := by decide
example : wfMessage true ([80, 79, 83, 84, 32, 47, 32, 72, 84, 84, 80, 47, 49, 46, 49, 13, 10] ++
    [84, 114, 97, 110, 115, 102, 101, 114, 45, 69, 110, 99, 111, 100, 105, 110, 103, 58, 32, 99, 104, 117, 110, 107, 101, 100, 13, 10] ++
    [13, 10] ++ [48, 13, 10, 84, 58, 32, 118, 13, 10, 13, 10]) = false := by decide

/-! ## witnesses of the open findings -/

/-- **D22** — chunked trailers are not understood: on `5 CRLF hello CRLF 0 CRLF Trailer: v CRLF CRLF`
    (a valid chunked body with a trailer part, RFC 7230 §4.1.2) the decoder completes at the
    last-chunk and hands the trailer `Trailer: v CRLF CRLF` back as unconsumed remainder (a
    reference decoder consumes it and returns an empty remainder). -/
theorem C15_witness_D22 :
    Px.Chunk.parse Px.Chunk.init
      [53, 13, 10, 104, 101, 108, 108, 111, 13, 10, 48, 13, 10,
       84, 114, 97, 105, 108, 101, 114, 58, 32, 118, 13, 10, 13, 10] =
    .ok ({ state := .complete, body := [104, 101, 108, 108, 111], chunk := [], size := none },
         [84, 114, 97, 105, 108, 101, 114, 58, 32, 118, 13, 10, 13, 10]) := by rfl

/-- the parsed form of `GET http://h//x HTTP/1.1`: path `//x` -/
def exDoubleSlash : Parser :=
  { ty := .request, state := .complete, method := some [71, 69, 84],
    version := some [72, 84, 84, 80, 47, 49, 46, 49], host := some [104], path := some [47, 47, 120] }

/-- **D24** — a path starting with `//`: `build()` writes `GET //x HTTP/1.1`, which the parser reads as a
    network-path reference: host `x`, **no path** — not the message that was rebuilt. -/
theorem C15_witness_D24 :
    ∃ raw r, Px.Build.build Px.Gen.defaultBufferSize Px.Gen.defaultDisableHeaders exDoubleSlash none none = .ok raw ∧
      raw = [71, 69, 84, 32, 47, 47, 120, 32, 72, 84, 84, 80, 47, 49, 46, 49, 13, 10, 13, 10] ∧
      parse {} (init .request) raw = .ok r ∧ r.state = .complete ∧
      r.path = none ∧ r.host = some [120] ∧ exDoubleSlash.path = some [47, 47, 120] := by
  have hb : Px.Build.build Px.Gen.defaultBufferSize Px.Gen.defaultDisableHeaders exDoubleSlash none none =
      .ok (buildRequest [] [71, 69, 84] [47, 47, 120] [72, 84, 84, 80, 47, 49, 46, 49] none [] none false true) := by
    rw [build_eq Px.Gen.defaultBufferSize exDoubleSlash [71, 69, 84] [72, 84, 84, 80, 47, 49, 46, 49]
      rfl rfl rfl (by decide) (by decide) (by decide)]
    rfl
  have hurl : Px.Url.fromBytes ({} : Cfg).allowedSchemes [47, 47, 120] =
      .ok { scheme := some (b "http"), hostname := some [120] } := by rfl
  obtain ⟨r, h1, h2⟩ := req_pkt_nobody {} (m := [71, 69, 84]) (u := [47, 47, 120])
    (v := [72, 84, 84, 80, 47, 49, 46, 49]) [] (by decide) (by decide) (by decide) hurl (by simp)
    (by rfl) (by simp)
  refine ⟨_, r, hb, ?_, ?_, h2.state_eq, h2.path_eq, h2.host_eq, rfl⟩
  · rw [buildRequest_eq]; decide
  · rw [buildRequest_eq]
    have : reqHeaders [] none [] none false true = [] := by decide
    rw [this]
    exact h1

end Px.Codec
