/-
  Model of proxy/core/event/dispatcher.py (EventDispatcher.handle_event,
  _broadcast, _send, _close_and_delete, _close) — the event bus fan-out.

  * `subs`   = `self.subscribers`, a Python insertion-ordered dict
               `sub_id -> Connection` as an association list without
               duplicate keys (`dset` updates in place or appends, `ddel`
               removes the key).
  * channels are abstract ids.  `broken` = channels whose reader end is gone
    (a `send` on them raises `BrokenPipeError`); `closed` = channels whose
    sending end the dispatcher has `close()`d (a `send` on them raises
    `OSError('handle is closed')`, which nothing in the dispatcher catches).
  * `log`    = every message a `send` delivered, globally ordered; the log of
    one channel is the filter `chanLog`.
  * `crashed`= an exception escaped `handle_event` (in `run()` this ends the
    dispatcher loop); nothing is handled afterwards.
-/
namespace Px.Disp

abbrev SubId := Nat
abbrev ChanId := Nat

/-- what travels over a subscriber channel -/
inductive Msg
  | subscribed                -- {'event_name': eventNames.SUBSCRIBED}
  | unsubscribed              -- {'event_name': eventNames.UNSUBSCRIBED}
  | ev (e : Nat)              -- any other (published) event, identified by `e`
  deriving DecidableEq, Repr

/-- what happens to the bus: three kinds of events taken off the global queue,
    and the environment closing the reader end of a channel -/
inductive Op
  | sub (i : SubId) (c : ChanId)     -- SUBSCRIBE  {'sub_id': i, 'conn': c}
  | unsub (i : SubId)                -- UNSUBSCRIBE {'sub_id': i}
  | pub (e : Nat)                    -- any other event
  | brk (c : ChanId)                 -- reader end of `c` closed
  deriving DecidableEq, Repr

/-- exceptions that escape `handle_event` -/
inductive Exc
  | osErrorClosed                    -- OSError('handle is closed') from Connection._check_closed
  deriving DecidableEq, Repr

@[ext] structure St where
  subs : List (SubId × ChanId)
  broken : List ChanId
  closed : List ChanId
  log : List (ChanId × Msg)
  crashed : Option Exc
  deriving Repr

def init : St := { subs := [], broken := [], closed := [], log := [], crashed := none }

/-! Python dict operations on the association list -/

/-- `d[i] = c` : update in place when the key exists, else append -/
def dset : List (SubId × ChanId) → SubId → ChanId → List (SubId × ChanId)
  | [], i, c => [(i, c)]
  | (k, d) :: l, i, c => if k = i then (i, c) :: l else (k, d) :: dset l i c

/-- `del d[i]` (keys are unique) -/
def ddel (l : List (SubId × ChanId)) (i : SubId) : List (SubId × ChanId) :=
  l.filter (fun p => p.1 != i)

/-- `d.get(i)` -/
def dget : List (SubId × ChanId) → SubId → Option ChanId
  | [], _ => none
  | (k, d) :: l, i => if k = i then some d else dget l i

inductive SendRes
  | ok            -- delivered
  | brokenPipe    -- BrokenPipeError (peer closed)
  | closedErr     -- OSError('handle is closed'): our own end was closed before
  deriving DecidableEq, Repr

/-- `Connection.send(m)` on channel `c`.  `_check_closed()` runs first, then
    the write, which fails with EPIPE when the reader end is gone. -/
def sendTo (s : St) (c : ChanId) (m : Msg) : St × SendRes :=
  if s.closed.contains c then (s, .closedErr)
  else if s.broken.contains c then (s, .brokenPipe)
  else ({ s with log := s.log ++ [(c, m)] }, .ok)

/-- `_close(sub_id)` : `conn.close()`, every exception swallowed -/
def closeCh (s : St) (c : ChanId) : St := { s with closed := s.closed ++ [c] }

/-- the loop of `_broadcast` over the (unchanging) dict: returns the state,
    `broken_pipes`, and whether a `send` raised something other than
    `BrokenPipeError` (which leaves the loop and `handle_event` at once) -/
def bcast (e : Nat) : List (SubId × ChanId) → St → List SubId → St × List SubId × Bool
  | [], s, bp => (s, bp, false)
  | (i, c) :: rest, s, bp =>
    match sendTo s c (.ev e) with
    | (s', .ok) => bcast e rest s' bp
    | (s', .brokenPipe) => bcast e rest (closeCh s' c) (bp ++ [i])
    | (s', .closedErr) => (s', bp, true)

/-- `EventDispatcher.handle_event(ev)` (and the reader-side breakage) -/
def handle (s : St) : Op → St
  | .sub i c =>
    -- self.subscribers[sub_id] = conn   (an existing id is silently replaced, its old conn not closed)
    let s1 := { s with subs := dset s.subs i c }
    match sendTo s1 c .subscribed with
    | (s2, .ok) => s2
    | (s2, .brokenPipe) => { closeCh s2 c with subs := ddel s2.subs i }     -- _close_and_delete
    | (s2, .closedErr) => { s2 with crashed := some .osErrorClosed }
  | .unsub i =>
    match dget s.subs i with
    | none => s                                                              -- 'subscriber already gone'
    | some c =>
      match sendTo s c .unsubscribed with
      | (s2, .closedErr) => { s2 with crashed := some .osErrorClosed }
      | (s2, _) => { closeCh s2 c with subs := ddel s2.subs i }              -- ack sent or swallowed; _close_and_delete
  | .pub e =>
    match bcast e s.subs s [] with
    | (s2, _, true) => { s2 with crashed := some .osErrorClosed }            -- deletions not reached
    | (s2, bp, false) => { s2 with subs := bp.foldl ddel s2.subs }
  | .brk c => { s with broken := c :: s.broken }

/-- one iteration of `run()`: once an exception escaped, the loop is over -/
def step (s : St) (op : Op) : St := if s.crashed.isSome then s else handle s op

def run (s : St) (ops : List Op) : St := ops.foldl step s

/-- everything delivered on channel `c`, in delivery order -/
def chanLog (s : St) (c : ChanId) : List Msg :=
  (s.log.filter (fun p => p.1 == c)).map Prod.snd

/-! ## Specification side (plain scans over the history, no dispatcher state) -/

/-- channels named by the `sub` operations of a history -/
def subChans : List Op → List ChanId
  | [] => []
  | .sub _ c :: r => c :: subChans r
  | _ :: r => subChans r

/-- freshness: every `sub` operation brings its own new channel -/
def Fresh (ops : List Op) : Prop := (subChans ops).Nodup

instance (ops : List Op) : Decidable (Fresh ops) := by unfold Fresh; infer_instance

/-- **The specification of C18 for a never-broken channel `c`.**  Scan state:
    `none` = the window of `c` has not started, `some j` = `c` is subscribed
    under id `j`.  The window starts at `sub j c` (acknowledgement), collects
    every published event in order, and ends at `unsub j` (acknowledgement) or
    at a re-subscription of `j` with another channel (silently).  Nothing
    follows the end of the window. -/
def spec (c : ChanId) : Option SubId → List Op → List Msg
  | _, [] => []
  | none, .sub i c' :: r => if c' = c then .subscribed :: spec c (some i) r else spec c none r
  | none, _ :: r => spec c none r
  | some j, .pub e :: r => .ev e :: spec c (some j) r
  | some j, .unsub i :: r => if i = j then [.unsubscribed] else spec c (some j) r
  | some j, .sub i _ :: r => if i = j then [] else spec c (some j) r
  | some j, .brk _ :: r => spec c (some j) r

/-- one step of the general per-channel scan (also for channels that break):
    state = (reader end of `c` gone?, id under which `c` is registered) -/
def scanStep (c : ChanId) : Bool × Option SubId → Op → (Bool × Option SubId) × List Msg
  | (b, w), .brk c' => ((b || c' == c, w), [])
  | (b, none), .pub _ => ((b, none), [])
  | (false, some j), .pub e => ((false, some j), [.ev e])
  | (true, some _), .pub _ => ((true, none), [])                 -- evicted by `_broadcast`
  | (b, none), .unsub _ => ((b, none), [])
  | (b, some j), .unsub i =>
    if i = j then ((b, none), if b then [] else [.unsubscribed]) else ((b, some j), [])
  | (b, w), .sub i c' =>
    if c' = c then (if b then ((b, none), []) else ((b, some i), [.subscribed]))
    else match w with
      | some j => if i = j then ((b, none), []) else ((b, some j), [])
      | none => ((b, none), [])

def scan (c : ChanId) (st : Bool × Option SubId) : List Op → List Msg
  | [] => []
  | op :: r => (scanStep c st op).2 ++ scan c (scanStep c st op).1 r

/-- the operations that concern subscriber `i` with channel `c`: its own
    subscribe/unsubscribe requests, breakage of its channel, and every publish -/
def keep (i : SubId) (c : ChanId) : Op → Bool
  | .sub j _ => j == i
  | .unsub j => j == i
  | .pub _ => true
  | .brk c' => c' == c

/-- the id that subscribes channel `c` in a history (its first `sub … c`; 0 when there is none) -/
def ownerOf (c : ChanId) : List Op → SubId
  | [] => 0
  | .sub i c' :: r => if c' = c then i else ownerOf c r
  | _ :: r => ownerOf c r

/-- the events published in a history, in publication order -/
def pubs : List Op → List Nat
  | [] => []
  | .pub e :: r => e :: pubs r
  | _ :: r => pubs r

/-- the history with every operation of other subscribers erased -/
def erase (i : SubId) (c : ChanId) (ops : List Op) : List Op := ops.filter (keep i c)

end Px.Disp
