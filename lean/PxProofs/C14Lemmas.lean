import PxModel.Connect
import PxProofs.UrlParseLemmas
/-!
# C14 helper lemmas: the character classes of `Target.wf`, and `Url._parse`
on a well-formed authority.
-/
namespace Px.Connect
open Px Px.Url Px.UrlL

/-! ## character-class facts behind `Target.wf` -/

theorem noneOf_not_mem {bad : List UInt8} {x : Bytes} (h : noneOf bad x = true) {c : UInt8} (hc : c ∈ bad) :
    c ∉ x := by
  intro hm
  have := List.all_eq_true.1 h c hm
  simp [hc] at this

theorem isDig_ne {c : UInt8} (h : isDig c = true) (d : UInt8) (hd : d.toNat < 48 ∨ 57 < d.toNat) : c ≠ d := by
  have := isDig_toNat h
  exact ne_of_toNat_ne (by omega)

theorem isHexDig_ne {c : UInt8} (h : isHexDig c = true) (d : UInt8)
    (hd : d.toNat < 48 ∨ (57 < d.toNat ∧ d.toNat < 65) ∨ (70 < d.toNat ∧ d.toNat < 97) ∨ 102 < d.toNat) : c ≠ d := by
  simp only [isHexDig, isDig, Bool.or_eq_true, Bool.and_eq_true, decide_eq_true_eq, UInt8.le_iff_toNat_le] at h
  simp at h
  exact ne_of_toNat_ne (by omega)

theorem digits_not_mem {ds : Bytes} (h : ∀ c ∈ ds, isDig c = true) (d : UInt8) (hd : d.toNat < 48 ∨ 57 < d.toNat) :
    d ∉ ds := fun hm => isDig_ne (h d hm) d hd rfl

/-- rendered port: `":" digits`, the digits read back by `int()` -/
theorem renderPort_facts (port : Option Nat) (h : portWf port = true) :
    AT ∉ renderPort port ∧ SLASH ∉ renderPort port ∧
    (∀ n, port = some n → renderPort port = COLON :: decRender n ∧ COLON ∉ decRender n ∧
      pyInt 10 (decRender n) = some (Int.ofNat n)) := by
  cases port with
  | none => simp [renderPort]
  | some n =>
    obtain ⟨_, hd, _, _⟩ := decRender_spec n
    have hn : n < 10 ^ intMaxStrDigits := by
      simp only [portWf, decide_eq_true_eq] at h
      calc n < 10 ^ 5 := by omega
        _ ≤ 10 ^ intMaxStrDigits := Nat.pow_le_pow_right (by decide) (by decide)
    refine ⟨?_, ?_, ?_⟩
    · simp only [renderPort, List.mem_cons, not_or]
      exact ⟨by decide, digits_not_mem hd AT (by decide)⟩
    · simp only [renderPort, List.mem_cons, not_or]
      exact ⟨by decide, digits_not_mem hd SLASH (by decide)⟩
    · intro m hm; simp at hm; subst hm
      exact ⟨rfl, digits_not_mem hd COLON (by decide), pyInt_decRender n hn⟩

theorem Host.wf_v6Class {t : Bytes} (h : (Host.ipv6 t).wf = true) : V6Class t := by
  simp only [Host.wf, Bool.and_eq_true, List.all_eq_true, Bool.or_eq_true, beq_iff_eq, decide_eq_true_eq] at h
  exact ⟨fun c hc => by rcases h.1 c hc with (h | h) | h <;> simp [h], h.2⟩

/-- what the guard gives about the host text -/
theorem Host.wf_facts (h : Host) (hw : h.wf = true) :
    AT ∉ h.text ∧ SLASH ∉ h.text ∧ h.text ≠ [] ∧ utf8Valid h.text = true ∧ stripBrackets h.text = h.bare ∧
    (h.isV6 = false → COLON ∉ h.text) := by
  cases h with
  | regName n =>
    simp only [Host.wf, Bool.and_eq_true, Bool.not_eq_true', List.isEmpty_eq_false_iff] at hw
    obtain ⟨⟨hne, hno⟩, hu⟩ := hw
    have hL : LBR ∉ n := noneOf_not_mem hno (by simp)
    refine ⟨noneOf_not_mem hno (by simp), noneOf_not_mem hno (by simp), hne, hu, ?_,
      fun _ => noneOf_not_mem hno (by simp)⟩
    simp only [Host.text, Host.bare, stripBrackets]
    cases n with
    | nil => exact absurd rfl hne
    | cons c cs =>
      have : c ≠ LBR := fun e => hL (by simp [e])
      simp [this]
  | ipv4 t =>
    simp only [Host.wf, Bool.and_eq_true, Bool.not_eq_true', List.isEmpty_eq_false_iff, List.all_eq_true,
      Bool.or_eq_true, beq_iff_eq] at hw
    obtain ⟨hne, hcl⟩ := hw
    have hnot : ∀ d : UInt8, (d.toNat < 46 ∨ d.toNat = 47 ∨ 57 < d.toNat) → d ∉ t := by
      intro d hd hm
      rcases hcl d hm with h | h
      · exact isDig_ne h d (by omega) rfl
      · subst h; revert hd; decide
    refine ⟨hnot AT (by decide), hnot SLASH (by decide), hne, ?_, ?_, fun _ => hnot COLON (by decide)⟩
    · apply utf8Valid_ascii
      intro c hc
      rcases hcl c hc with h | h
      · have := isDig_toNat h; omega
      · subst h; decide
    · simp only [Host.text, Host.bare, stripBrackets]
      cases t with
      | nil => exact absurd rfl hne
      | cons c cs =>
        have : c ≠ LBR := fun e => hnot LBR (by decide) (by simp [e])
        simp [this]
  | ipv6 t =>
    have hc := Host.wf_v6Class hw
    have hnot : ∀ d : UInt8, (d = AT ∨ d = SLASH) → d ∉ [LBR] ++ t ++ [RBR] := by
      intro d hd hm
      simp only [List.append_assoc, List.mem_append, List.mem_cons, List.not_mem_nil, or_false] at hm
      rcases hm with rfl | hm | rfl
      · revert hd; decide
      · rcases hc.1 d hm with h | rfl | rfl
        · rcases hd with rfl | rfl
          · exact isHexDig_ne h AT (by decide) rfl
          · exact isHexDig_ne h SLASH (by decide) rfl
        · revert hd; decide
        · revert hd; decide
      · revert hd; decide
    refine ⟨hnot AT (Or.inl rfl), hnot SLASH (Or.inr rfl), by simp [Host.text],
      utf8Valid_ascii _ hc.ascii, stripBrackets_wrap t, fun h => by simp [Host.isV6] at h⟩

theorem userinfoWf_facts (u p : Bytes) (h : userinfoWf (some (u, p)) = true) :
    COLON ∉ u ∧ COLON ∉ p ∧ AT ∉ u ∧ AT ∉ p ∧ SLASH ∉ u ∧ SLASH ∉ p := by
  simp only [userinfoWf, Bool.and_eq_true] at h
  exact ⟨noneOf_not_mem h.1 (by simp), noneOf_not_mem h.2 (by simp), noneOf_not_mem h.1 (by simp),
    noneOf_not_mem h.2 (by simp), noneOf_not_mem h.1 (by simp), noneOf_not_mem h.2 (by simp)⟩

/-- `Url._parse` on `host [":" port]` (after the userinfo, if any, has been split off) -/
theorem hostPort_wf (raw : Bytes) (u p : Option Bytes) (h : Host) (port : Option Nat)
    (hw : h.wf = true) (hp : portWf port = true) :
    hostPort raw u p (h.text ++ renderPort port) = .ok (u, p, h.text, port.map Int.ofNat) := by
  obtain ⟨_, _, _, hu8, _, hcol⟩ := Host.wf_facts h hw
  obtain ⟨_, _, hport⟩ := renderPort_facts port hp
  cases hv : h.isV6 with
  | false =>
    cases port with
    | none => simp only [renderPort, List.append_nil, Option.map_none]; exact hostPort_plain raw u p _ (hcol hv)
    | some n =>
      obtain ⟨e, hc, hi⟩ := hport n rfl
      rw [e]; exact hostPort_plain_port raw u p _ _ _ (hcol hv) hc hi
  | true =>
    cases h with
    | regName n => simp [Host.isV6] at hv
    | ipv4 t => simp [Host.isV6] at hv
    | ipv6 t =>
      have hc := Host.wf_v6Class hw
      cases port with
      | none =>
        simp only [renderPort, List.append_nil, Option.map_none, Host.text]
        exact hostPort_v6_noport raw u p t hc
      | some n =>
        obtain ⟨e, hcn, hi⟩ := hport n rfl
        rw [e]; exact hostPort_v6_port raw u p t _ _ hc hcn hi

/-- **`Url._parse` on a well-formed authority** (every combination of userinfo, host kind and port) -/
theorem parseAuthority_wf (ui : Option (Bytes × Bytes)) (h : Host) (port : Option Nat)
    (hu : userinfoWf ui = true) (hw : h.wf = true) (hp : portWf port = true) :
    parseAuthority (renderUserinfo ui ++ h.text ++ renderPort port) =
      .ok (ui.map (·.1), ui.map (·.2), h.text, port.map Int.ofNat) := by
  obtain ⟨hat, _, _, _, _, _⟩ := Host.wf_facts h hw
  obtain ⟨hpat, _, _⟩ := renderPort_facts port hp
  cases ui with
  | none =>
    simp only [renderUserinfo, List.nil_append, Option.map_none]
    rw [parseAuthority_no_userinfo _ (by simp [hat, hpat])]
    exact hostPort_wf _ none none h port hw hp
  | some up =>
    obtain ⟨u, p⟩ := up
    obtain ⟨h1, h2, h3, h4, _, _⟩ := userinfoWf_facts u p hu
    have e : renderUserinfo (some (u, p)) ++ h.text ++ renderPort port =
        u ++ COLON :: p ++ AT :: (h.text ++ renderPort port) := by simp [renderUserinfo]
    rw [e, parseAuthority_userinfo u p _ h1 h2 h3 h4]
    simp only [Option.map_some]
    exact hostPort_wf _ _ _ h port hw hp

end Px.Connect
