import PxModel.Bytes
import PxModel.Url
import PxModel.Parser
import PxModel.Generated
/-
  C14 — where the proxy connects.

  Model of
    * `HttpProxyPlugin.connect_upstream` (proxy/http/proxy/server.py): the
      `if host and port` guard, `text_(host)` (UTF-8 decode), the bracket
      stripping of IPv6 literals (fix 992f8c3) and the address handed to
      `TcpServerConnection(connect_host, port).connect()` or, with
      `--enable-conn-pool`, to `upstream_conn_pool.acquire((connect_host, port))`
      (no plugin overrides `resolve_dns`);
    * `new_socket_connection` (proxy/common/utils.py): literal-vs-name
      dispatch; what `ipaddress.ip_address` accepts is a pair of parameters
      (`isV4`, `isV6`) that the harness evaluates with the real module;
    * the path of the first request of a connection through
      `HttpProtocolHandler._parse_first_request` / `handle_data` up to the
      connect call (default flags: proxy plugin only, no web server, no auth).

  Second half: the *specification* side of C14 — request-targets as a
  structure (`Target`), their RFC 3986 / RFC 7230 rendering `renderT` and the
  grammar guard `Target.wf` (decidable, also evaluated by the driver so that
  the harness's generator is tied to it).
-/
namespace Px.Connect

open Px.Url (utf8Valid LBR RBR AT)

inductive Err
  | httpProtocol      -- HttpProtocolException('Both host and port must exist')
  | unicodeError      -- text_(host) on a host that is not UTF-8
  deriving DecidableEq, Repr

/-- `(host, port)` as handed to `TcpServerConnection` / `new_socket_connection`
    (the host is a `str` there; we keep its UTF-8 bytes) -/
structure Addr where
  host : Bytes
  port : Int
  deriving DecidableEq, Repr

/-- `if connect_host.startswith('[') and connect_host.endswith(']'): connect_host = connect_host[1:-1]` -/
def stripBrackets (h : Bytes) : Bytes :=
  if h.head? == some LBR && h.getLast? == some RBR then (h.drop 1).dropLast else h

/-- `connect_upstream` without connection pool (the default): the address given to
    `TcpServerConnection(connect_host, port)`, or how it fails before any connect attempt is made. -/
def connectUpstream (host : Option Bytes) (port : Option Int) : Except Err Addr :=
  match host, port with
  | some h, some p =>
    if h.isEmpty || p == 0 then .error .httpProtocol     -- `if host and port` is falsy
    else if !utf8Valid h then .error .unicodeError
    else .ok ⟨stripBrackets h, p⟩
  | _, _ => .error .httpProtocol

/-- `connect_upstream`, both branches.  `pool` = `flags.enable_conn_pool`: the
    address is then the key handed to `upstream_conn_pool.acquire(...)`, otherwise
    the arguments of `TcpServerConnection(...)`; `connect_host` (brackets stripped)
    is computed before the branch and used by both. -/
def connectUpstreamP (pool : Bool) (host : Option Bytes) (port : Option Int) : Except Err Addr :=
  match host, port with
  | some h, some p =>
    if h.isEmpty || p == 0 then .error .httpProtocol     -- `if host and port` is falsy
    else if !utf8Valid h then .error .unicodeError       -- text_(host)
    else
      let connectHost := stripBrackets h
      if pool then .ok ⟨connectHost, p⟩                  -- upstream_conn_pool.acquire((connect_host, port))
      else .ok ⟨connectHost, p⟩                          -- TcpServerConnection(connect_host, port)
  | _, _ => .error .httpProtocol

/-- `UpstreamConnectionPool.acquire(addr)` on a pool without a reusable connection for
    `addr`: `add(addr)` → `TcpServerConnection(addr[0], addr[1]).connect()` →
    `new_socket_connection(addr)`; a reused connection is one that was created for the same key. -/
def poolAcquire (a : Addr) : Addr := ⟨a.host, a.port⟩

/-- which OS-level path `new_socket_connection` takes, with its arguments -/
inductive Route
  | inet (host : Bytes) (port : Int)                                -- AF_INET,  connect((host, port))
  | inet6 (host : Bytes) (port : Int) (flow scope : Nat)            -- AF_INET6, connect((host, port, 0, 0))
  | name (host : Bytes) (port : Int) (source : Option (Bytes × Int)) -- socket.create_connection
  deriving DecidableEq, Repr

/-- `new_socket_connection(addr, source_address=…)`.  `isV4 h` ⇔ `ipaddress.ip_address(h).version == 4`,
    `isV6 h` ⇔ it parses with version 6; neither ⇔ `ValueError`. -/
def newSocketConnection (isV4 isV6 : Bytes → Bool) (a : Addr) (source : Option (Bytes × Int)) : Route :=
  if isV4 a.host then .inet a.host a.port
  else if isV6 a.host then .inet6 a.host a.port 0 0
  else .name a.host a.port source

def Route.host : Route → Bytes
  | .inet h _ | .inet6 h _ _ _ | .name h _ _ => h
def Route.port : Route → Int
  | .inet _ p | .inet6 _ p _ _ | .name _ p _ => p

/-- what the first complete request of a connection leads to (default flags) -/
inductive Outcome
  | incomplete                         -- request not complete yet: nothing happens
  | reject400                          -- BAD_REQUEST_RESPONSE_PKT queued, connection torn down, no connect
  | closeSilent                        -- HttpProtocolException without a response: torn down, nothing sent, no connect
  | reject502                          -- host is not UTF-8: text_(host) raises inside the try block →
                                       -- ProxyConnectionFailed → BAD_GATEWAY_RESPONSE_PKT queued, torn down, no connect
  | connected (a : Addr) (tunnel : Bool) (line : Bytes)
      -- connect to `a`; tunnel: client gets the 200 acknowledgement; otherwise the upstream
      -- is sent the rebuilt request whose first line is `line`
  deriving DecidableEq, Repr

/-- `HttpParser.http_handler_protocol` restricted to what matters here:
    `some true` = HTTP_PROXY, `some false` = WEB_SERVER, `none` = UNKNOWN -/
def handlerProtocol (p : Px.Parser.Parser) : Option Bool :=
  if (p.version == some Px.Gen.http11 || p.version == some Px.Gen.http10) && p.url.isSome then
    if p.host.isSome then some true
    else if (p.url.bind (·.hostname)).isNone then some false
    else none
  else none

/-- request line of `HttpParser.build()` -/
def forwardLine (p : Px.Parser.Parser) : Bytes :=
  let path := match p.path with
    | some x => if x.isEmpty then [SLASH] else x
    | none => [SLASH]
  join [SP] [p.method.getD [], path, p.version.getD []]

/-- first request of a connection, received in the pieces `segs`
    (`pool` = `--enable-conn-pool`; the pool is fresh) -/
def handleFirst (cfg : Px.Parser.Cfg) (pool : Bool) (segs : List Bytes) : Outcome :=
  match Px.Parser.parseAll cfg (Px.Parser.init .request) segs with
  | .error _ => .reject400
  | .ok p =>
    if p.state != .complete then .incomplete
    else match handlerProtocol p with
      | some true =>
        match connectUpstreamP pool p.host p.port with
        | .error .httpProtocol => .closeSilent
        | .error .unicodeError => .reject502
        | .ok a => .connected (if pool then poolAcquire a else a) p.isTunnel (forwardLine p)
      | _ => .reject400        -- UNKNOWN, or WEB_SERVER with no web plugin loaded

/-! ## Specification side: request-targets -/

inductive Form | origin | absolute | authority
  deriving DecidableEq, Repr

inductive Host
  | regName (n : Bytes)
  | ipv4 (t : Bytes)
  | ipv6 (t : Bytes)          -- the address text WITHOUT brackets
  deriving DecidableEq, Repr

structure Target where
  form : Form
  scheme : Bytes := b "http"                 -- absolute-form only
  userinfo : Option (Bytes × Bytes) := none  -- (user, password)
  host : Host
  port : Option Nat := none
  pathq : Bytes := []                        -- path and query (origin / absolute form)
  deriving DecidableEq, Repr

/-- decimal digits of `n`, most significant first (specification of `port = *DIGIT`) -/
def decDigitsAux : Nat → Nat → Bytes → Bytes
  | 0, _, acc => acc
  | fuel + 1, n, acc =>
    let acc := UInt8.ofNat (48 + n % 10) :: acc
    if n < 10 then acc else decDigitsAux fuel (n / 10) acc

def decRender (n : Nat) : Bytes := decDigitsAux (n + 1) n []

/-- host as it appears in the target: IPv6 literals in brackets (RFC 3986 IP-literal) -/
def Host.text : Host → Bytes
  | .regName n => n
  | .ipv4 t => t
  | .ipv6 t => [LBR] ++ t ++ [RBR]

/-- host as the socket layer must be given it -/
def Host.bare : Host → Bytes
  | .regName n => n
  | .ipv4 t => t
  | .ipv6 t => t

def renderUserinfo : Option (Bytes × Bytes) → Bytes
  | none => []
  | some (u, p) => u ++ [COLON] ++ p ++ [AT]

def renderPort : Option Nat → Bytes
  | none => []
  | some n => COLON :: decRender n

/-- `authority = [ userinfo "@" ] host [ ":" port ]` -/
def renderAuthority (t : Target) : Bytes :=
  renderUserinfo t.userinfo ++ t.host.text ++ renderPort t.port

/-- the request-target as written on the request line -/
def renderT (t : Target) : Bytes :=
  match t.form with
  | .origin => t.pathq
  | .absolute => t.scheme ++ b "://" ++ renderAuthority t ++ t.pathq
  | .authority => renderAuthority t

def noneOf (bad : List UInt8) (x : Bytes) : Bool := x.all (fun c => !bad.contains c)

def isDig (c : UInt8) : Bool := 48 ≤ c && c ≤ 57
def isHexDig (c : UInt8) : Bool := isDig c || (97 ≤ c && c ≤ 102) || (65 ≤ c && c ≤ 70)

/-- character-class guards.  RFC 3986 `reg-name` (unreserved / pct-encoded /
    sub-delims) is a subset of the first class; raw UTF-8 is admitted as well.
    The IPv6 class is every text over hex digits, `:` and `.` with at least two
    colons (every RFC 4291 spelling is one). -/
def Host.wf : Host → Bool
  | .regName n => !n.isEmpty && noneOf [COLON, SLASH, AT, LBR, RBR] n && utf8Valid n
  | .ipv4 t => !t.isEmpty && t.all (fun c => isDig c || c == 46)
  | .ipv6 t => t.all (fun c => isHexDig c || c == COLON || c == 46) && decide (2 ≤ t.count COLON)

def userinfoWf : Option (Bytes × Bytes) → Bool
  | none => true
  | some (u, p) => noneOf [COLON, AT, SLASH] u && noneOf [COLON, AT, SLASH] p

/-- `port = *DIGIT` restricted to TCP's range -/
def portWf : Option Nat → Bool
  | none => true
  | some n => decide (n ≤ 65535)

def Host.isV6 : Host → Bool
  | .ipv6 _ => true
  | _ => false

/-- grammar guard of the round-trip theorem.  `allowed` is the scheme list of the parser. -/
def Target.wf (allowed : List Bytes) (t : Target) : Bool :=
  match t.form with
  | .origin => t.pathq.head? == some SLASH && (t.pathq.drop 1).head? != some SLASH
  | .absolute =>
    allowed.contains t.scheme && noneOf [COLON, SLASH] t.scheme &&
    userinfoWf t.userinfo && t.host.wf && portWf t.port &&
    (t.pathq.isEmpty || t.pathq.head? == some SLASH)
  | .authority =>
    userinfoWf t.userinfo && t.host.wf && portWf t.port

end Px.Connect
