"""Shared in-process world for driving the REAL proxy.py connection classes
(DESIGN.md §3.5).  Nothing under /repo is edited: everything is constructed or
monkey-patched from outside, inside the harness process.

API (kept small on purpose; C01 C04 C05 C06 C07 C08 C09 C10 C12 import it)

    with World(args=[...], threadless=True, **opts) as w:     # flags = FlagParser.initialize(args, **opts)
        h, cs, cp = w.new_client()            # real HttpProtocolHandler (initialized), its ScriptedSocket, far-end Peer
        cs.script_recv(('data', b'CONNECT h:443 HTTP/1.1\r\n\r\n'))
        td = w.tick(h, R=[cs.fileno()], W=[])  # await h.handle_events(R, W)  -> True/False or ('raised', exc)
        us, up, addr = w.upstreams[0]         # upstream ScriptedSocket / Peer / address asked of new_socket_connection
        ev = w.events(h)                      # await h.get_events()  -> {fileno: mask}
        w.interest(h, cs, us)                 # -> (cR, cW, uR, uW) booleans of that map
        w.clock.advance(0.5)                  # virtual time.time() seen by proxy.http.handler / proxy.http.proxy.server

    World.connect_plan : list of outcomes consumed by successive new_socket_connection
                         calls: 'ok' (default when exhausted) or an exception instance to raise
    World.connects     : [(host, port), ...] every address requested, in order
    World.make_handler(sock, addr)           # wrap an arbitrary socket-like object in a real handler
    ex = w.executor({cs.fileno(): h})        # a REAL LocalFdExecutor (Threadless) holding the given handlers
    w.reap(ex)                               # the REAL Threadless._cleanup_inactive(): closes the inactive works

    ScriptedSocket(real, name, peer)  proxy-side end of a socketpair.  fileno/close/shutdown/
        setblocking/... go to the real socket (so real selectors work); each send()/recv()
        consumes the next scripted outcome, and passes through to the real socket when
        the respective script is empty (unless strict=True, then AssertionError).
          send outcomes: ('sent', k) accepts min(k, len(data)) bytes and really writes them
                         to the socketpair (the Peer is pumped when the kernel buffer is full),
                         ('blocking',) ('brokenPipe',) ('oserror', errno) ('wantWrite',)
          recv outcomes: ('data', b) ('eof',) ('reset',) ('timedout',) ('oserror', errno)
                         ('blocking',) ('wantRead',)
        .log  : [('send', offered_bytes, accepted_or_outcome_name), ('recv', outcome_name, bytes)]
        .sent : bytearray of everything accepted by send()
    Peer(sock)   far end: non-blocking; .pump() drains what is readable into .inbox
                 (sets .eof on end-of-stream, .reset on ECONNRESET); .send(b); .close(); .shutdown_wr()
    ScriptedSelector(script)   stand-in for handler.selector in threaded mode: register/unregister/
                 modify/close record interest in .map; select() pops the next entry of `script`
                 (a list of fds, or None = every registered fd, or [] = timeout) and returns
                 [(key, mask)] restricted to the registered interest.
    VirtualClock(t0)  .now, .advance(dt), callable as time.time
    outcome helpers: send_exc(outcome) / recv_exc(outcome) build the exception an outcome stands for.

All peers are non-blocking; nothing here sleeps or waits on the network.
"""
import os
import ssl
import errno
import socket
import asyncio
import selectors
import collections

from harness.common import REPO  # noqa: F401  (sys.path is prepared by ./check)


class VirtualClock:
    def __init__(self, t0=1_000_000.0):
        self.now = float(t0)

    def advance(self, dt):
        self.now += dt

    def __call__(self):
        return self.now


def send_exc(outcome):
    k = outcome[0]
    if k == 'blocking':
        return BlockingIOError(errno.EAGAIN, 'scripted would-block')
    if k == 'brokenPipe':
        return BrokenPipeError(errno.EPIPE, 'scripted broken pipe')
    if k == 'oserror':
        return OSError(outcome[1] if len(outcome) > 1 else errno.EIO, 'scripted oserror')
    if k == 'wantWrite':
        return ssl.SSLWantWriteError('scripted want-write')
    raise ValueError(outcome)


def recv_exc(outcome):
    k = outcome[0]
    if k == 'reset':
        return ConnectionResetError(errno.ECONNRESET, 'scripted reset')
    if k == 'timedout':
        return TimeoutError(errno.ETIMEDOUT, 'scripted timeout')
    if k == 'oserror':
        return OSError(outcome[1] if len(outcome) > 1 else errno.EIO, 'scripted oserror')
    if k == 'blocking':
        return BlockingIOError(errno.EAGAIN, 'scripted would-block')
    if k == 'wantRead':
        return ssl.SSLWantReadError('scripted want-read')
    raise ValueError(outcome)


class Peer:
    """The far (client-program / origin-server) end of a socketpair."""

    def __init__(self, sock):
        sock.setblocking(False)
        self.sock = sock
        self.inbox = bytearray()
        self.eof = False
        self.reset = False
        self.closed = False

    def pump(self):
        if self.closed:
            return
        while not self.eof:
            try:
                d = self.sock.recv(1 << 20)
            except BlockingIOError:
                return
            except ConnectionResetError:
                self.reset = True
                self.eof = True
                return
            except OSError:
                self.eof = True
                return
            if not d:
                self.eof = True
                return
            self.inbox += d

    def send(self, data):
        return self.sock.send(data)

    def shutdown_wr(self):
        try:
            self.sock.shutdown(socket.SHUT_WR)
        except OSError:
            pass

    def close(self):
        if not self.closed:
            self.closed = True
            try:
                self.sock.close()
            except OSError:
                pass


class ScriptedSocket:
    """Proxy-side end of a socketpair whose send/recv outcomes are scripted."""

    def __init__(self, real, name='sock', peer=None, strict=False):
        real.setblocking(False)
        self._real = real
        self.name = name
        self.peer = peer
        self.strict = strict
        self.send_script = collections.deque()
        self.recv_script = collections.deque()
        self.log = []
        self.sent = bytearray()
        self.closed_by_proxy = False
        self.shutdown_calls = []

    # -- scripting --------------------------------------------------------
    def script_send(self, *outcomes):
        self.send_script.extend(outcomes)

    def script_recv(self, *outcomes):
        self.recv_script.extend(outcomes)

    def clear_scripts(self):
        self.send_script.clear()
        self.recv_script.clear()

    # -- socket surface used by proxy.py ------------------------------------
    def fileno(self):
        return self._real.fileno()

    def _really_send(self, data):
        view = memoryview(data)
        spins = 0
        while len(view):
            try:
                n = self._real.send(view)
                view = view[n:]
            except BlockingIOError:
                if self.peer is None:
                    raise AssertionError('kernel buffer full and no peer to pump')
                self.peer.pump()
                spins += 1
                if spins > 100000:
                    raise AssertionError('peer does not drain')
            except (BrokenPipeError, ConnectionResetError, OSError):
                return      # far end gone: the script still decides what the proxy sees

    def send(self, data, *flags):
        data = bytes(data)
        if not self.send_script:
            assert not self.strict, '%s: unscripted send' % self.name
            n = self._real.send(data)
            self.sent += data[:n]
            self.log.append(('send', data, n))
            return n
        out = self.send_script.popleft()
        if out[0] == 'sent':
            n = min(int(out[1]), len(data))
            self._really_send(data[:n])
            self.sent += data[:n]
            self.log.append(('send', data, n))
            return n
        self.log.append(('send', data, out[0]))
        raise send_exc(out)

    def recv(self, bufsize=65536, *flags):
        if not self.recv_script:
            assert not self.strict, '%s: unscripted recv' % self.name
            d = self._real.recv(bufsize)
            self.log.append(('recv', 'data' if d else 'eof', d))
            return d
        out = self.recv_script.popleft()
        if out[0] == 'data':
            d = bytes(out[1])
            assert 0 < len(d) <= bufsize, 'scripted segment must fit the recv buffer'
            self.log.append(('recv', 'data', d))
            return d
        if out[0] == 'eof':
            self.log.append(('recv', 'eof', b''))
            return b''
        self.log.append(('recv', out[0], b''))
        raise recv_exc(out)

    def close(self):
        self.closed_by_proxy = True
        self._real.close()

    def shutdown(self, how):
        self.shutdown_calls.append(how)
        return self._real.shutdown(how)

    def setblocking(self, flag):
        # the scripted end stays non-blocking whatever the code asks for
        return None

    def settimeout(self, t):
        return None

    def __getattr__(self, item):
        return getattr(self._real, item)


class ScriptedSelector:
    """Replacement for `HttpProtocolHandler.selector` (threaded mode)."""

    def __init__(self, script=None):
        self.script = collections.deque(script or [])
        self.map = {}
        self.selects = 0
        self.closed = False

    @staticmethod
    def _fd(fileobj):
        return fileobj if isinstance(fileobj, int) else fileobj.fileno()

    def register(self, fileobj, events, data=None):
        fd = self._fd(fileobj)
        if fd in self.map:
            raise KeyError('%r is already registered' % fileobj)
        self.map[fd] = selectors.SelectorKey(fileobj, fd, events, data)
        return self.map[fd]

    def unregister(self, fileobj):
        return self.map.pop(self._fd(fileobj))

    def modify(self, fileobj, events, data=None):
        self.unregister(fileobj)
        return self.register(fileobj, events, data)

    def select(self, timeout=None):
        self.selects += 1
        if not self.script:
            raise AssertionError('selector script exhausted')
        ready = self.script.popleft()
        out = []
        for fd, key in self.map.items():
            if ready is None:
                out.append((key, key.events))
            else:
                mask = 0
                for item in ready:
                    f, m = item if isinstance(item, tuple) else (item, key.events)
                    if f == fd:
                        mask |= m & key.events
                if mask:
                    out.append((key, mask))
        return out

    def close(self):
        self.closed = True

    def get_map(self):
        return self.map


class World:
    """Flags + patched connect + virtual clock + a private asyncio loop."""

    def __init__(self, args=(), threadless=True, clock=None, strict=True, **opts):
        self.args = list(args)
        self.opts = dict(opts)
        self.threadless = threadless
        self.clock = clock or VirtualClock()
        self.strict = strict
        self.connect_plan = collections.deque()
        self.connects = []
        self.upstreams = []
        self.clients = []
        self._patched = []
        self.loop = None
        self.flags = None

    # -- context ------------------------------------------------------------
    def __enter__(self):
        from proxy.common.flag import FlagParser
        import proxy.core.connection.server as SRV
        import proxy.http.handler as H
        import proxy.http.proxy.server as PS
        # threaded mode is only honoured via the --threaded argument (is_threadless())
        args = self.args + ([] if self.threadless or '--threaded' in self.args else ['--threaded'])
        self.flags = FlagParser.initialize(args, threadless=self.threadless, **self.opts)
        self.loop = asyncio.new_event_loop()
        self._patch(SRV, 'new_socket_connection', self._connect)
        for mod in (H, PS):
            self._patch(mod, 'time', _TimeShim(self.clock, mod.time))
        return self

    def __exit__(self, *exc):
        for obj, name, old in reversed(self._patched):
            setattr(obj, name, old)
        self._patched = []
        for s, p in self.clients:
            self._quiet_close(s, p)
        for s, p, _ in self.upstreams:
            self._quiet_close(s, p)
        try:
            self.loop.close()
        except Exception:
            pass
        return False

    @staticmethod
    def _quiet_close(s, p):
        for x in (s._real, p.sock):
            try:
                x.close()
            except OSError:
                pass

    def _patch(self, obj, name, new):
        self._patched.append((obj, name, getattr(obj, name)))
        setattr(obj, name, new)

    # -- patched new_socket_connection -------------------------------------------
    def _connect(self, addr, timeout=None, source_address=None):
        self.connects.append((addr[0], addr[1]))
        plan = self.connect_plan.popleft() if self.connect_plan else 'ok'
        if isinstance(plan, BaseException):
            raise plan
        a, b = socket.socketpair()
        peer = Peer(b)
        s = ScriptedSocket(a, 'upstream%d' % len(self.upstreams), peer, strict=self.strict)
        self.upstreams.append((s, peer, (addr[0], addr[1])))
        return s

    # -- clients ---------------------------------------------------------------
    def make_handler(self, sock, addr=('127.0.0.1', 54321), uid=None):
        from proxy.http.handler import HttpProtocolHandler
        h = HttpProtocolHandler(
            HttpProtocolHandler.create(sock, addr),
            flags=self.flags, event_queue=None, uid=uid, upstream_conn_pool=None,
        )
        h.initialize()
        return h

    def new_client(self, addr=('127.0.0.1', 54321)):
        a, b = socket.socketpair()
        peer = Peer(b)
        s = ScriptedSocket(a, 'client%d' % len(self.clients), peer, strict=self.strict)
        self.clients.append((s, peer))
        return self.make_handler(s, addr), s, peer

    # -- the real executor around existing handlers ---------------------------------
    def executor(self, works):
        """A real LocalFdExecutor whose `works` are the given {fileno: handler}."""
        from proxy.core.work.fd import LocalFdExecutor
        from proxy.common.backports import NonBlockingQueue
        ex = LocalFdExecutor('sim', NonBlockingQueue(), self.flags)
        ex.works.update(works)
        return ex

    def reap(self, ex):
        """Threadless._cleanup_inactive() as _run_forever calls it."""
        ex._cleanup_inactive()

    # -- stepping ---------------------------------------------------------------
    def run(self, coro):
        return self.loop.run_until_complete(coro)

    def events(self, h):
        return self.run(h.get_events())

    def tick(self, h, R, W):
        """handle_events(R, W); an escaping exception is returned as ('raised', exc)
        (Threadless treats it as teardown)."""
        try:
            return bool(self.run(h.handle_events(list(R), list(W))))
        except Exception as e:      # noqa: BLE001 - what escapes is an observation
            return ('raised', e)

    def interest(self, h, cs, us=None):
        ev = self.events(h)
        c = ev.get(cs.fileno(), 0)
        u = ev.get(us.fileno(), 0) if us is not None and not us.closed_by_proxy else 0
        return (
            bool(c & selectors.EVENT_READ), bool(c & selectors.EVENT_WRITE),
            bool(u & selectors.EVENT_READ), bool(u & selectors.EVENT_WRITE),
        )


class _TimeShim:
    """`time` module stand-in for the two modules that stamp activity."""

    def __init__(self, clock, real):
        self._clock = clock
        self._real = real

    def time(self):
        return self._clock()

    def __getattr__(self, item):
        return getattr(self._real, item)


def flat(conn):
    """Flattened content of a TcpConnection buffer."""
    return b''.join(bytes(x) for x in conn.buffer)


def elems(conn):
    return [bytes(x) for x in conn.buffer]
