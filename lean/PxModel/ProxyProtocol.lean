import PxModel.Parser
/-
  Model of proxy/http/parser/protocol.py (ProxyProtocol.parse, HAProxy PROXY protocol v1)
  and of the way HttpParser._process_line consumes the PROXY line when the parser was
  created with `enable_proxy_protocol` (handler flag `--enable-proxy-protocol`):

      if self.protocol is not None and self.protocol.version is None:
          self.protocol.parse(line); continue

  The shared `PxModel/Parser.lean` leaves the flag out; `parseWith` wraps `Px.Parser.parse`:
  while the PROXY line is still pending, the first CRLF-terminated line of the (buffered +
  new) input goes to `ProxyProtocol.parse`, and what follows it is parsed as the request.
-/
namespace Px.PP

open Px.Parser (Parser)

/-- what `request.parse` can raise with the flag on -/
inductive PErr
  | parser (e : Px.Parser.Err)
  | assertion            -- AssertionError of ProxyProtocol.parse
  | notImplemented       -- v2 signature
  deriving DecidableEq, Repr

/-- `ProxyProtocol` attributes -/
structure PP where
  version : Nat
  family : Option Bytes := none
  source : Option (Bytes × Int) := none
  destination : Option (Bytes × Int) := none
  deriving DecidableEq, Repr

def v2Signature : Bytes := [0x0D, 0x0A, 0x0D, 0x0A, 0x00, 0x0D, 0x0A, 0x51, 0x55, 0x49, 0x54, 0x0A]

def kPROXY : Bytes := b "PROXY"
def families : List Bytes := [b "TCP4", b "TCP6", b "UNKNOWN"]

/-- `ProxyProtocol.parse(raw)` -/
def parseLine (raw : Bytes) : Except PErr PP :=
  if startsWith raw kPROXY then
    -- self.version = 1; assert len(raw) <= 57
    if raw.length > 57 then .error .assertion
    else
      let line := splitAll1 SP raw
      -- assert line[0] == b'PROXY' and line[1] in (b'TCP4', b'TCP6', b'UNKNOWN')
      if line.head? != some kPROXY then .error .assertion
      else match line with
        | _ :: fam :: rest =>
          if !families.contains fam then .error .assertion
          else if line.length == 6 then
            -- (line[2], int(line[4])), (line[3], int(line[5]))
            match rest with
            | [src, dst, sport, dport] =>
              match pyInt 10 sport with
              | none => .error (.parser .valueError)
              | some sp =>
                match pyInt 10 dport with
                | none => .error (.parser .valueError)
                | some dp => .ok { version := 1, family := some fam, source := some (src, sp), destination := some (dst, dp) }
            | _ => .error .assertion   -- unreachable: length 6
          else if fam == b "UNKNOWN" then .ok { version := 1, family := some fam }
          else .error .assertion
        | _ => .error (.parser .indexError)   -- line[1] on a one-element list
  else if startsWith raw v2Signature then .error .notImplemented
  else .error (.parser .httpProtocol)

def liftErr {α : Type} : Except Px.Parser.Err α → Except PErr α
  | .ok a => .ok a
  | .error e => .error (.parser e)

/-- `HttpParser.parse(raw)` of a request parser created with `enable_proxy_protocol = flag`;
    `pp` = the `ProxyProtocol` attributes once its line was parsed (`none` = still pending).
    Returns the parser and the new `pp`. -/
def parseWith (cfg : Px.Parser.Cfg) (flag : Bool) (pp : Option PP) (p : Parser) (raw : Bytes) :
    Except PErr (Parser × Option PP) :=
  if !flag || pp.isSome || p.state != .initialized || raw.isEmpty then
    -- no PROXY line pending (or nothing to do): the plain parser
    match Px.Parser.parse cfg p raw with
    | .ok q => .ok (q, pp)
    | .error e => .error (.parser e)
  else
    let full := match p.buffer with
      | some bf => if bf.isEmpty then raw else bf ++ raw
      | none => raw
    match splitCRLF full with
    | none =>
      -- `_process_line` finds no complete line: everything stays buffered
      match Px.Parser.parse cfg p raw with
      | .ok q => .ok (q, pp)
      | .error e => .error (.parser e)
    | some (line, rest) =>
      match parseLine line with
      | .error e => .error e
      | .ok v =>
        -- `continue`: the rest of the input is processed as if it had just arrived
        match Px.Parser.parse cfg { p with buffer := none } rest with
        | .error e => .error (.parser e)
        | .ok q => .ok ({ q with totalSize := p.totalSize + raw.length }, some v)

end Px.PP
