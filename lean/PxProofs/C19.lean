import PxModel.Listen
import PxProofs.ListenLemmas
/-!
# C19 — the proxy listens where configured, reports its ports truthfully, shuts down cleanly

Property theorems only; helper lemmas are in `PxProofs/ListenLemmas.lean`.
The model (`PxModel/Listen.lean`) is tied to `proxy/core/listener/pool.py`,
`proxy/core/listener/tcp.py`, `proxy/core/listener/unix.py` and
`proxy/proxy.py` (`Proxy.setup` / `Proxy.shutdown`) by `harness/c19.py`, which
starts and stops the real `proxy.Proxy`.

Quantifier of the property (`InQuantifier`): any number of addresses and ports
(`--hostname`, `--hostnames`, `--port`, `--ports` — lists of any length, not just
0..3), OS-assigned ports (0) only together with a single listening address.
Environment hypotheses, each an explicit predicate with an inhabitant below:
`SetOrder` (the address list is an iteration order of the Python set),
`IsSetList` (`list(set)` enumerates the set once each, in any order),
`KernelFresh` (`bind(addr, 0)` yields a non-zero port not in use on `addr`).
"After start-up" is the hypothesis `setup … = .started st`; `C19_starts` and
`C19_duplicate_fixed_fails` say exactly when that happens.

**Partial with respect to the full property statement**: "every configured
endpoint *accepts connections*", "after shutdown no endpoint accepts" and "no
child process remains" are facts about the kernel's socket and process tables
that no executable model here exhibits.  At model level the theorems give
"a listener is bound for every configured (address, port) pair"
(`C19_multi_host`) and "the pool is empty after shutdown" (`C19_files_gone`);
the runtime facts themselves are checked by the oracle of `harness/c19.py` on
the live implementation (connect + request to every endpoint, connect refused
afterwards, `/proc` scan for descendants) for the configurations run.
-/
namespace Px.Listen

/-! ### non-trivial inhabitants of the hypotheses -/

/-- `--hostname 1 --hostnames 2 6 --port 8000 --ports 8001 8002`: three addresses, fixed ports -/
def exMulti : Config :=
  { unix := false, hostname := 1, hostnames := [2, 6], port := 8000, ports := [8001, 8002],
    portFile := true, pidFile := true }

/-- `--port 0 --ports 0 9000 0` on one address -/
def exZero : Config :=
  { unix := false, hostname := 1, hostnames := [1], port := 0, ports := [0, 9000, 0],
    portFile := true, pidFile := true }

/-- the kernel hands out 40000, 40001, … ; sets iterate sorted; the set of addresses iterates 6, 2, 1 -/
def exEnv (hs : List Host) : Env :=
  { hs := hs, assign := fun i => 40000 + i, setOrder := sortDedup, pid := 4242 }

example : InQuantifier exMulti := by decide
example : InQuantifier exZero := by decide
example : ¬ InQuantifier { exZero with hostnames := [2] } := by decide
example : SetOrder exMulti [6, 2, 1] := by decide
example : SetOrder exZero [1] := by decide
example : KernelFresh exZero (exEnv [1]) := by decide
example : KernelFresh exMulti (exEnv [6, 2, 1]) := by decide
example : AssignAvoidsFixed exZero (exEnv [1]) := by
  intro i p hp hp0
  simp [exZero, tcpPorts] at hp
  rcases hp with rfl | rfl | rfl | rfl <;> simp [exEnv] at hp0 ⊢ <;> omega

theorem insertSorted_mem (x y : Nat) (l : List Nat) : y ∈ insertSorted x l ↔ y = x ∨ y ∈ l := by
  induction l with
  | nil => simp [insertSorted]
  | cons z l ih =>
    unfold insertSorted
    split
    · simp
    · split
      · rename_i h; subst h; simp
      · simp [ih]; constructor <;> rintro (h | h | h) <;> simp [h]

theorem insertSorted_sorted (x : Nat) (l : List Nat) (h : l.Pairwise (· < ·)) :
    (insertSorted x l).Pairwise (· < ·) := by
  induction l with
  | nil => simp [insertSorted]
  | cons z l ih =>
    obtain ⟨hz, hl⟩ := List.pairwise_cons.1 h
    unfold insertSorted
    split
    · rename_i hxz
      exact List.pairwise_cons.2 ⟨fun a ha => by
        rcases List.mem_cons.1 ha with rfl | ha
        · exact hxz
        · exact Nat.lt_trans hxz (hz a ha), h⟩
    · split
      · exact h
      · rename_i h1 h2
        refine List.pairwise_cons.2 ⟨fun a ha => ?_, ih hl⟩
        rcases (insertSorted_mem x a l).1 ha with rfl | ha
        · omega
        · exact hz a ha

/-- the driver's `setOrder` (sorted, duplicate-free) is an `IsSetList` -/
theorem sortDedup_isSetList : IsSetList sortDedup := by
  intro l
  have key : (sortDedup l).Pairwise (· < ·) ∧ ∀ x, x ∈ sortDedup l ↔ x ∈ l := by
    induction l with
    | nil => simp [sortDedup]
    | cons y l ih =>
      have hs : sortDedup (y :: l) = insertSorted y (sortDedup l) := rfl
      rw [hs]
      exact ⟨insertSorted_sorted y _ ih.1, fun x => by rw [insertSorted_mem, ih.2]; simp⟩
  exact ⟨key.1.imp (fun h => Nat.ne_of_lt h), key.2⟩

/-! ### the property -/

/-- **C19 report (no unix socket).**  For every configuration in the quantifier,
every iteration order of the address set and of the port set, every kernel
port assignment satisfying the `bind(·, 0)` contract: once `Proxy.setup` has
returned,

* `flags.port` is the port the primary listener is bound to,
* `flags.ports` lists the ports of the additional listeners, each once,
* `flags.port :: flags.ports` has no duplicates, no 0, and names *exactly* the
  TCP ports some listener is bound to (every bound port is reported, nothing else),
* the first listener of the pool is the one bound to `flags.port`,
* the port file holds `flags.port` then `flags.ports`, one per line; the pid file holds the pid.

Duplicates among the requested fixed ports cannot occur here: they make
start-up fail (`C19_duplicate_fixed_fails`), so the `set`/`remove`
de-duplication in `Proxy.setup` never drops anything. -/
theorem C19_report (c : Config) (e : Env) (fs0 : Fs) (st : Started)
    (hq : InQuantifier c) (hso : SetOrder c e.hs) (hset : IsSetList e.setOrder) (hk : KernelFresh c e)
    (hnu : c.unix = false) (hst : setup c e fs0 = .started st) :
    st.flagsPort = boundPrimary c e ∧
    st.flagsPorts.Perm (boundAdditional c e) ∧
    (st.flagsPort :: st.flagsPorts).Nodup ∧
    0 ∉ st.flagsPort :: st.flagsPorts ∧
    (∀ p, p ∈ boundPorts st.pool ↔ p ∈ st.flagsPort :: st.flagsPorts) ∧
    (∃ h, st.pool.head? = some (.tcp h st.flagsPort)) ∧
    (c.portFile = true → st.fs.portFile = some (st.flagsPort :: st.flagsPorts)) ∧
    (c.pidFile = true → st.fs.pidFile = some e.pid) := by
  have hne := setOrder_ne_nil c e.hs hso
  obtain ⟨hb, hpool, hfp, hfps, hfs⟩ := setup_started c e fs0 st hne hst
  obtain ⟨h0, hs', hhs⟩ := List.exists_cons_of_ne_nil hne
  obtain ⟨hnd, hnz⟩ := firstBlock_nodup c e h0 hs' hhs hb hk
  rw [firstBlock, hnu] at hnd hnz
  simp only [Bool.false_eq_true, if_false] at hnd hnz
  obtain ⟨hpn, hand⟩ := List.nodup_cons.1 hnd
  have hfp' : st.flagsPort = boundPrimary c e := by simpa [hnu] using hfp
  have hfps' : st.flagsPorts = e.setOrder (boundAdditional c e) := by
    rw [hfps, reportedAdditional]
    simp [hpn]
  have hmem : ∀ x, x ∈ st.flagsPorts ↔ x ∈ boundAdditional c e := by
    rw [hfps']; exact (hset _).2
  have hperm : st.flagsPorts.Perm (boundAdditional c e) :=
    (List.perm_ext_iff_of_nodup (hfps' ▸ (hset _).1) hand).2 hmem
  refine ⟨hfp', hperm, ?_, ?_, ?_, ?_, ?_, ?_⟩
  · rw [hfp']
    exact List.nodup_cons.2 ⟨fun hm => hpn ((hmem _).1 hm), hfps' ▸ (hset _).1⟩
  · intro hm
    apply hnz
    rcases List.mem_cons.1 hm with h | h
    · rw [h, hfp']; exact List.mem_cons_self
    · exact List.mem_cons_of_mem _ ((hmem _).1 h)
  · intro p
    rw [hpool, boundPorts_append, boundPorts_pre, List.nil_append, boundPorts_map,
      bound_iff_firstBlock c e hq hso p, firstBlock, hnu, hfp']
    simp [hmem]
  · refine ⟨h0, ?_⟩
    rw [hpool, hhs, resolve_plan_cons, firstBlock, hnu, hfp']
    simp [pre, hnu, tcpOf]
  · intro hpf
    rw [hfs]; simp [writePortFile, hpf, hnu]
  · intro hpf
    rw [hfs]; simp [writePortFile, fsListening, writePid, hpf, hnu]
    split <;> rfl

/-- **C19 unix.**  With `--unix-socket-path` there is no primary TCP listener:
the pool starts with the unix listener, `flags.port` keeps the configured
(unused) value, and `flags.ports` / the port file name exactly the bound TCP
ports, which are the additional ones — each once, none 0, whatever the unused
`--port` value is (in particular also when an additional port equals it, the
`fix:` commit 81e2038). -/
theorem C19_unix (c : Config) (e : Env) (fs0 : Fs) (st : Started)
    (hq : InQuantifier c) (hso : SetOrder c e.hs) (hset : IsSetList e.setOrder) (hk : KernelFresh c e)
    (hu : c.unix = true) (hst : setup c e fs0 = .started st) :
    st.flagsPort = c.port ∧
    st.flagsPorts.Perm (boundAdditional c e) ∧
    st.flagsPorts.Nodup ∧
    0 ∉ st.flagsPorts ∧
    (∀ p, p ∈ boundPorts st.pool ↔ p ∈ st.flagsPorts) ∧
    st.pool.head? = some .unix ∧
    st.fs.unixPath = true ∧
    (c.portFile = true → st.fs.portFile = some st.flagsPorts) ∧
    (c.pidFile = true → st.fs.pidFile = some e.pid) := by
  have hne := setOrder_ne_nil c e.hs hso
  obtain ⟨hb, hpool, hfp, hfps, hfs⟩ := setup_started c e fs0 st hne hst
  obtain ⟨h0, hs', hhs⟩ := List.exists_cons_of_ne_nil hne
  obtain ⟨hnd, hnz⟩ := firstBlock_nodup c e h0 hs' hhs hb hk
  rw [firstBlock, hu] at hnd hnz
  simp only [if_true] at hnd hnz
  have hfps' : st.flagsPorts = e.setOrder (boundAdditional c e) := by
    rw [hfps, reportedAdditional]; simp [hu]
  have hmem : ∀ x, x ∈ st.flagsPorts ↔ x ∈ boundAdditional c e := by
    rw [hfps']; exact (hset _).2
  refine ⟨by simpa [hu] using hfp,
    (List.perm_ext_iff_of_nodup (hfps' ▸ (hset _).1) hnd).2 hmem, hfps' ▸ (hset _).1,
    fun hm => hnz ((hmem _).1 hm), ?_, ?_, ?_, ?_, ?_⟩
  · intro p
    rw [hpool, boundPorts_append, boundPorts_pre, List.nil_append, boundPorts_map,
      bound_iff_firstBlock c e hq hso p, firstBlock, hu]
    simp [hmem]
  · rw [hpool]; simp [pre, hu]
  · rw [hfs]; unfold writePortFile fsListening; split <;> simp_all
  · intro hpf
    rw [hfs]; simp [writePortFile, hpf, hu]
  · intro hpf
    rw [hfs]; unfold writePortFile fsListening writePid; simp [hpf, hu]
    split <;> rfl

/-- **C19 several addresses.**  With fixed ports (no 0) and any number of
addresses, once `Proxy.setup` has returned the pool holds a TCP listener for
*every* pair (configured address, configured TCP port) and for nothing else,
`|addresses| · |ports|` of them (plus the unix listener). -/
theorem C19_multi_host (c : Config) (e : Env) (fs0 : Fs) (st : Started)
    (hfix : 0 ∉ tcpPorts c) (hso : SetOrder c e.hs) (hst : setup c e fs0 = .started st) :
    (∀ h p, Listener.tcp h p ∈ st.pool ↔ (h = c.hostname ∨ h ∈ c.hostnames) ∧ p ∈ tcpPorts c) ∧
    st.pool.length = off c + e.hs.length * (tcpPorts c).length := by
  have hne := setOrder_ne_nil c e.hs hso
  obtain ⟨_, hpool, _, _, _⟩ := setup_started c e fs0 st hne hst
  have hfixed : ∀ x ∈ plan c e.hs, x.2 ≠ 0 := by
    intro x hx h0
    exact hfix (h0 ▸ ((mem_plan c e.hs x).1 hx).2)
  rw [resolve_fixed _ _ _ hfixed] at hpool
  constructor
  · intro h p
    have hhost : h ∈ e.hs ↔ (h = c.hostname ∨ h ∈ c.hostnames) := by
      constructor
      · intro hm; simpa using hso.2.1 h hm
      · intro hm; exact hso.2.2 h (by simpa using hm)
    rw [hpool, ← hhost]
    have hpre : Listener.tcp h p ∉ pre c := by unfold pre; split <;> simp
    simp only [List.mem_append, hpre, false_or, List.mem_map, tcpOf]
    constructor
    · rintro ⟨x, hx, hxe⟩
      cases hxe
      exact (mem_plan c e.hs x).1 hx
    · intro hm
      exact ⟨(h, p), (mem_plan c e.hs (h, p)).2 hm, rfl⟩
  · rw [hpool, List.length_append, List.length_map, plan_length]
    unfold pre off; split <;> simp

/-- **C19 files gone.**  After `Proxy.shutdown()` the port file and the pid
file (when configured) and the unix socket path are absent and no listener is
left in the pool — for every state, in particular every state `setup` returns. -/
theorem C19_files_gone (c : Config) (st : Started) :
    (c.portFile = true → (shutdown c st).fs.portFile = none) ∧
    (c.pidFile = true → (shutdown c st).fs.pidFile = none) ∧
    (c.unix = true → (shutdown c st).fs.unixPath = false) ∧
    (shutdown c st).pool = [] ∧ boundPorts (shutdown c st).pool = [] := by
  refine ⟨?_, ?_, ?_, rfl, rfl⟩
  · intro h; simp only [shutdown, h, Bool.true_and]; cases st.fs.portFile <;> simp
  · intro h; simp only [shutdown, h, Bool.true_and]; cases st.fs.pidFile <;> simp
  · intro h; simp [shutdown, h]

/-- the files were really there before: what `C19_files_gone` removes is what `C19_report` wrote -/
example :
    setup exZero (exEnv [1]) ⟨none, none, false⟩ = .started
      { pool := [.tcp 1 40000, .tcp 1 40001, .tcp 1 9000, .tcp 1 40003], flagsPort := 40000,
        flagsPorts := [9000, 40001, 40003],
        fs := ⟨some [40000, 9000, 40001, 40003], some 4242, false⟩ } ∧
    (shutdown exZero ⟨[.tcp 1 40000], 40000, [9000, 40001, 40003],
        ⟨some [40000, 9000, 40001, 40003], some 4242, false⟩⟩).fs = ⟨none, none, false⟩ := by
  decide

/-- **C19 start-up succeeds** whenever the requested fixed ports are pairwise
distinct and the kernel does not hand out one of them (so the hypothesis
`setup … = .started st` of the theorems above is satisfiable for every such
configuration, in or out of the quantifier). -/
theorem C19_starts (c : Config) (e : Env) (fs0 : Fs)
    (hso : SetOrder c e.hs) (hnd : ((tcpPorts c).filter (· ≠ 0)).Nodup) (hav : AssignAvoidsFixed c e) :
    ∃ st, setup c e fs0 = .started st := by
  have hne := setOrder_ne_nil c e.hs hso
  obtain ⟨r, hr⟩ := bindAll_succeeds e.assign (off c) [] (plan c e.hs)
    (plan_fixed_nodup c e.hs hso.1 hnd) (fun _ _ _ => by simp)
    (fun j x hx hx0 => hav j x.2 ((mem_plan c e.hs x).1 hx).2 hx0)
  exact setup_of_bind c e fs0 r hne hr

/-- **C19 duplicate fixed ports.**  What the code does when a fixed port is
requested twice for the same address (`--port A --ports A`, `--ports B B`):
the second `bind` raises `OSError(EADDRINUSE)` out of `Proxy.setup`, for every
environment; nothing is reported, and since `__exit__` never runs the pid file
(and the unix path) written before are left behind. -/
theorem C19_duplicate_fixed_fails (c : Config) (e : Env) (fs0 : Fs)
    (hso : SetOrder c e.hs) (hdup : ¬ ((tcpPorts c).filter (· ≠ 0)).Nodup) :
    setup c e fs0 = .failed .addrInUse (fsListening c e fs0) ∧
    (c.pidFile = true → (fsListening c e fs0).pidFile = some e.pid) := by
  constructor
  · cases hb : bindAll e.assign (off c) [] (plan c e.hs) with
    | error err => exact setup_of_bind_error c e fs0 err hb
    | ok r =>
      exfalso
      apply hdup
      obtain ⟨h0, hs', hhs⟩ := List.exists_cons_of_ne_nil (setOrder_ne_nil c e.hs hso)
      have h1 := (bindAll_ok_fixed _ _ _ _ _ hb).1
      rw [hhs, plan_cons, List.filter_append, List.filter_map] at h1
      have h2 := (nodup_map_pair h0 _).1 (List.nodup_append.1 h1).1
      simpa [Function.comp_def] using h2
  · intro hp
    unfold fsListening writePid
    simp [hp]
    split <;> rfl

example : ¬ ((tcpPorts { exMulti with ports := [8001, 8001] }).filter (· ≠ 0)).Nodup := by decide

/-- regression witness for 81e2038 on the generated constant: `--unix-socket-path P --ports 8899 0`
with the default (unused) `--port 8899`: the bound port 8899 is reported. -/
theorem C19_unix_unused_port_reported :
    setup { unix := true, hostname := 1, hostnames := [], port := Px.Gen.defaultPort,
            ports := [Px.Gen.defaultPort, 0], portFile := true, pidFile := false }
        (exEnv [1]) ⟨none, none, false⟩ = .started
      { pool := [.unix, .tcp 1 Px.Gen.defaultPort, .tcp 1 40002], flagsPort := Px.Gen.defaultPort,
        flagsPorts := [Px.Gen.defaultPort, 40002],
        fs := ⟨some [Px.Gen.defaultPort, 40002], none, true⟩ } := by
  decide

/-- the restriction of the quantifier is needed: with `--port 0 --ports 0` on two
addresses the kernel assigns a port per address and only those of the first
address are reported (40002, 40003 are bound but not reported). -/
theorem C19_quantifier_needed :
    setup { exZero with hostnames := [2], ports := [0] } (exEnv [1, 2]) ⟨none, none, false⟩ = .started
      { pool := [.tcp 1 40000, .tcp 1 40001, .tcp 2 40002, .tcp 2 40003], flagsPort := 40000,
        flagsPorts := [40001], fs := ⟨some [40000, 40001], some 4242, false⟩ } ∧
    ¬ InQuantifier { exZero with hostnames := [2], ports := [0] } := by
  decide

/-! ### restart on the same fixed ports -/

/-- **C19 SO_REUSEADDR before bind.**  In the calls `TcpSocketListener.listen`
(and `UnixSocketListener.listen`) makes on its socket, `setsockopt(SO_REUSEADDR)`
comes before the one `bind`, and `listen` after it — for every address family,
port and backlog. -/
theorem C19_reuseaddr_before_bind (v6 : Bool) (port backlog : Nat) :
    (∃ pre mid post, tcpListenOps v6 port backlog = pre ++ .setReuseAddr :: mid ++ .bind port :: post ∧
      (∀ q, SockOp.bind q ∉ pre ++ mid ++ post) ∧ SockOp.listen backlog ∈ post) ∧
    (∃ pre mid post, unixListenOps backlog = pre ++ .setReuseAddr :: mid ++ .bindPath :: post ∧
      SockOp.bindPath ∉ pre ++ mid ++ post ∧ SockOp.listen backlog ∈ post) :=
  ⟨⟨[.socket (if v6 then .inet6 else .inet)], [.setNoDelay],
      [.listen backlog, .setNonBlocking, .getsockname], rfl, by simp, by simp⟩,
   ⟨[.socket .unix], [], [.listen backlog, .setNonBlocking], rfl, by simp, by simp⟩⟩

/-- **C19 restart binds.**  Whatever an earlier instance left lingering on the
address (connections it closed itself, in FIN_WAIT / TIME_WAIT), the calls of
a listener end with a bound, listening socket — for fixed ports as well as for
port 0.  This is what lets `bindAll` (hence `C19_report`, `C19_starts`) treat a
start after a shutdown like a first start. -/
theorem C19_restart_binds (lingering v6 : Bool) (port backlog : Nat) :
    runOps lingering ⟨false, false, false⟩ (tcpListenOps v6 port backlog) = .ok ⟨true, true, true⟩ ∧
    runOps lingering ⟨false, false, false⟩ (unixListenOps backlog) = .ok ⟨true, true, true⟩ := by
  simp [tcpListenOps, unixListenOps, runOps]

/-- the order matters: the same calls with `bind` moved in front of the `setsockopt`s do not come
up on a fixed port when something lingers (and do when nothing does, or for port 0) -/
example :
    runOps true ⟨false, false, false⟩
      [.socket .inet, .bind 8899, .getsockname, .setReuseAddr, .setNoDelay, .listen 100, .setNonBlocking]
      = .error .addrInUse ∧
    runOps false ⟨false, false, false⟩
      [.socket .inet, .bind 8899, .getsockname, .setReuseAddr, .setNoDelay, .listen 100, .setNonBlocking]
      = .ok ⟨true, true, true⟩ ∧
    runOps true ⟨false, false, false⟩
      [.socket .inet, .bind 0, .getsockname, .setReuseAddr, .setNoDelay, .listen 100, .setNonBlocking]
      = .ok ⟨true, true, true⟩ := ⟨rfl, rfl, rfl⟩

end Px.Listen
