import PxModel.Exec
/-!
  The step only a REMOTE executor has (`proxy/core/work/fd/remote.py`,
  `Threadless._cleanup`): the worker receives a RAW descriptor from the
  acceptor (`recv_handle`), wraps a `dup` of it in the work's socket
  (`ThreadlessFdExecutor.work`), and has to `os.close(work_id)` the raw one
  itself when the work is cleaned up (`if self.work_queue_fileno() is not
  None: os.close(work_id)`).  `RExec` is the executor model of
  `PxModel/Exec.lean` plus the raw descriptors the worker still owns.
-/
namespace Px.Exec
open Px.Sel

structure RExec where
  ex : Exec
  /-- raw descriptors received and not yet `os.close()`d, newest first -/
  raw : List Fd
  deriving Repr, DecidableEq

/-- `_cleanup(work_id)` on a remote executor: as `cleanup`, then
    `finally: del self.works[work_id]; os.close(work_id)` (a `KeyError` from the
    `del` leaves before the `os.close`). -/
def cleanupR (x : RExec) (w : WorkId) (sd : Shutdown) : Except Dead RExec :=
  match cleanup x.ex w sd with
  | .error d => .error d
  | .ok y => .ok ⟨y, x.raw.erase w⟩

/-- `receive_from_work_queue` + `work(fileno, addr, None)`: the raw descriptor
    is owned from now on; a failing `initialize()` goes through `_cleanup`. -/
def acceptR (x : RExec) (a : Arrive) (sd : Shutdown) : Except Dead RExec :=
  match accept x.ex a sd with
  | .error d => .error d
  | .ok y => .ok ⟨y, if a.initRaises then x.raw else a.fd :: x.raw⟩

inductive ROp
  | arrive (a : Arrive) (sd : Shutdown)
  | clean (w : WorkId) (sd : Shutdown)
  deriving Repr, DecidableEq

def stepR (x : RExec) : ROp → Except Dead RExec
  | .arrive a sd => acceptR x a sd
  | .clean w sd => cleanupR x w sd

def runR : RExec → List ROp → Except Dead RExec
  | x, [] => .ok x
  | x, o :: r =>
    match stepR x o with
    | .error d => .error d
    | .ok y => runR y r

end Px.Exec
