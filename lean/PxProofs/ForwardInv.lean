import PxProofs.ForwardLemmas
/-!
# C02 helper lemmas, part 2: the header-map invariant holds in every parser state

`PInv p` (distinct keys, every key the lower-cased original name) holds for the
fresh parser and is preserved by `HttpParser.parse` on *every* input — the only
writer of the map is `add_header`.  Used for `C02_no_credentials`, which
therefore needs no well-formedness hypothesis on the client's bytes.
-/
namespace Px.Forward

open Px.Parser Px.Build

theorem pinv_init (ty : PType) : PInv (init ty) := hdrInv_nil

theorem processHeader_hdrs {p q : Parser} {line : Bytes} (h : processHeader p line = .ok q) :
    ∃ key value, q.headers = some (hdrSet (p.headers.getD []) (lower key) (key, value)) := by
  unfold processHeader at h
  split at h
  rename_i key value _
  simp only [] at h
  split at h
  · split at h
    · simp at h
    · simp only [Except.ok.injEq] at h; subst h; exact ⟨key, value, rfl⟩
  · split at h <;> (simp only [Except.ok.injEq] at h; subst h; exact ⟨key, value, rfl⟩)

theorem processHeader_pinv {p q : Parser} {line : Bytes} (h : processHeader p line = .ok q)
    (hi : PInv p) : PInv q := by
  obtain ⟨key, value, hq⟩ := processHeader_hdrs h
  unfold PInv at *
  rw [hq]
  exact hdrInv_hdrSet hi key value

theorem setLineAttributes_hdrs (cfg : Px.Parser.Cfg) (p : Parser) (u : Px.Url.Url) :
    (setLineAttributes cfg p u).headers = p.headers := by
  unfold setLineAttributes; split <;> rfl

theorem processLine_hdrs {cfg : Px.Parser.Cfg} {p q : Parser} {raw r : Bytes} {m : Bool}
    (h : processLine cfg p raw = .ok (q, m, r)) : q.headers = p.headers := by
  unfold processLine at h
  split at h
  · simp only [Except.ok.injEq, Prod.mk.injEq] at h; rw [← h.1]
  · split at h
    · split at h
      · split at h
        · simp at h
        · split at h
          · simp at h
          · simp only [Except.ok.injEq, Prod.mk.injEq] at h
            rw [← h.1]
            exact setLineAttributes_hdrs _ _ _
      · simp at h
    · split at h
      · simp only [Except.ok.injEq, Prod.mk.injEq] at h; rw [← h.1]
      · simp only [Except.ok.injEq, Prod.mk.injEq] at h; rw [← h.1]
      · simp at h

theorem processHeaders_pinv (f : Nat) {p q : Parser} {raw r : Bytes} {m : Bool}
    (h : processHeaders f p raw = .ok (q, m, r)) (hi : PInv p) : PInv q := by
  induction f generalizing p raw with
  | zero =>
    simp only [processHeaders, Except.ok.injEq, Prod.mk.injEq] at h
    rw [← h.1]; exact hi
  | succ f ih =>
    unfold processHeaders at h
    split at h
    · simp only [Except.ok.injEq, Prod.mk.injEq] at h; rw [← h.1]; exact hi
    · rename_i line rest _
      simp only [] at h
      split at h
      · simp at h
      · rename_i p1 hstep
        have hp1 : PInv p1 := by
          split at hstep
          · split at hstep
            · simp only [Except.ok.injEq] at hstep; rw [← hstep]; exact hi
            · exact processHeader_pinv hstep (by exact hi)
          · simp only [Except.ok.injEq] at hstep; rw [← hstep]; exact hi
        split at h
        · simp only [Except.ok.injEq, Prod.mk.injEq] at h; rw [← h.1]; exact hp1
        · exact ih h hp1

theorem processBody_hdrs {p q : Parser} {raw r : Bytes} {m : Bool}
    (h : processBody p raw = .ok (q, m, r)) : q.headers = p.headers := by
  unfold processBody at h
  split at h
  · simp only [] at h
    split at h
    · simp at h
    · simp only [Except.ok.injEq, Prod.mk.injEq] at h
      rw [← h.1]
      split <;> rfl
  · split at h
    · simp only [] at h
      split at h
      · simp at h
      · split at h
        · simp at h
        · simp only [Except.ok.injEq, Prod.mk.injEq] at h; rw [← h.1]
    · simp only [Except.ok.injEq, Prod.mk.injEq] at h; rw [← h.1]

theorem stepOnce_pinv {cfg : Px.Parser.Cfg} {p q : Parser} {raw r : Bytes} {m : Bool}
    (h : stepOnce cfg p raw = .ok (q, m, r)) (hi : PInv p) : PInv q := by
  unfold stepOnce at h
  simp only [] at h
  split at h
  · simp at h
  · rename_i q1 m1 r1 hr
    have hq1 : PInv q1 := by
      split at hr
      · unfold PInv; rw [processBody_hdrs hr]; exact hi
      · split at hr
        · unfold PInv; rw [processLine_hdrs hr]; exact hi
        · exact processHeaders_pinv _ hr hi
    split at h
    · simp only [Except.ok.injEq, Prod.mk.injEq] at h; rw [← h.1]; exact hq1
    · split at h
      · simp only [Except.ok.injEq, Prod.mk.injEq] at h; rw [← h.1]; exact hq1
      · simp only [Except.ok.injEq, Prod.mk.injEq] at h; rw [← h.1]; exact hq1

theorem loop_pinv {cfg : Px.Parser.Cfg} (f : Nat) {p q : Parser} {more : Bool} {raw r : Bytes}
    (h : loop cfg f p more raw = .ok (q, r)) (hi : PInv p) : PInv q := by
  induction f generalizing p more raw with
  | zero => simp only [loop, Except.ok.injEq, Prod.mk.injEq] at h; rw [← h.1]; exact hi
  | succ f ih =>
    unfold loop at h
    split at h
    · simp only [Except.ok.injEq, Prod.mk.injEq] at h; rw [← h.1]; exact hi
    · split at h
      · simp at h
      · rename_i p1 m1 r1 hs
        exact ih h (stepOnce_pinv hs hi)

/-- **the header-map invariant is preserved by `HttpParser.parse` on every input** -/
theorem parse_pinv {cfg : Px.Parser.Cfg} {p q : Parser} {x : Bytes}
    (h : parse cfg p x = .ok q) (hi : PInv p) : PInv q := by
  unfold parse at h
  simp only [] at h
  split at h
  · simp at h
  · rename_i q1 r1 hl
    simp only [Except.ok.injEq] at h
    rw [← h]
    have h1 : PInv q1 := loop_pinv _ hl (by exact hi)
    exact h1

theorem feedUntilComplete_pinv {cfg : Px.Parser.Cfg} {p q : Parser} {segs rest : List Bytes}
    (h : feedUntilComplete cfg p segs = .ok (q, rest)) (hi : PInv p) : PInv q := by
  induction segs generalizing p with
  | nil => simp only [feedUntilComplete, Except.ok.injEq, Prod.mk.injEq] at h; rw [← h.1]; exact hi
  | cons x xs ih =>
    unfold feedUntilComplete at h
    split at h
    · simp at h
    · rename_i p1 hp
      have hp1 := parse_pinv hp hi
      split at h
      · simp only [Except.ok.injEq, Prod.mk.injEq] at h; rw [← h.1]; exact hp1
      · exact ih h hp1

end Px.Forward
