/-
  Model of the two layers underneath `Threadless`:

  * an abstract kernel descriptor table (`Kernel`): the set of open
    descriptors, lowest-free allocation, `close`, and the interest set of the
    executor's epoll instance with the kernel's auto-removal of an entry when
    its descriptor is closed (no `dup`ed descriptors: one descriptor per open
    file description);
  * CPython 3.12 `selectors.EpollSelector` (`_BaseSelectorImpl` +
    `_PollLikeSelector`): the map `fd ↦ (events, data)` with `register`,
    `modify`, `unregister`, `select` raising exactly as the library does:
      - `register`  : `ValueError` for events `0` / bits other than READ|WRITE,
                      `ValueError` for a negative descriptor, `KeyError` when the
                      descriptor is already in the map, the `OSError` of
                      `epoll_ctl(ADD)` (`EBADF` closed, `EEXIST` already in the
                      interest set) after *undoing* the map insertion;
      - `modify`    : `ValueError` negative, `KeyError` unknown; when the events
                      differ `epoll_ctl(MOD)`, and on its failure (`EBADF`,
                      `ENOENT` = `FileNotFoundError`) the key is **removed from
                      the map** before the error is re-raised;
      - `unregister`: `ValueError` negative, `KeyError` unknown; the `OSError`
                      of `epoll_ctl(DEL)` is swallowed;
      - `select`    : kernel events for descriptors without a key are dropped,
                      the reported mask is `events & key.events`.
  Validated on its own against the real `selectors.DefaultSelector` with real
  socketpairs (harness/c10.py, `kind = sel`).
-/
namespace Px.Sel

abbrev Fd := Int
abbrev Mask := Nat
abbrev WorkId := Int

/-- `selectors.EVENT_READ`, `selectors.EVENT_WRITE` -/
def EVENT_READ : Mask := 1
def EVENT_WRITE : Mask := 2

/-! ### association lists used as Python dicts whose iteration order is not observed -/

def aget {κ ν : Type} [DecidableEq κ] : List (κ × ν) → κ → Option ν
  | [], _ => none
  | (k', v) :: m, k => if k' = k then some v else aget m k

def adel {κ ν : Type} [DecidableEq κ] (m : List (κ × ν)) (k : κ) : List (κ × ν) :=
  m.filter (fun e => decide (e.1 ≠ k))

def aset {κ ν : Type} [DecidableEq κ] (m : List (κ × ν)) (k : κ) (v : ν) : List (κ × ν) :=
  (k, v) :: adel m k

inductive Exc
  | keyError | valueError | ebadf | enoent | eexist
  deriving DecidableEq, Repr

/-! ### kernel -/

structure Kernel where
  /-- open descriptors of the process -/
  open_ : List Fd
  /-- interest set of the executor's epoll instance: fd ↦ READ|WRITE bits -/
  epoll : List (Fd × Mask)
  deriving Repr, DecidableEq

def Kernel.isOpen (k : Kernel) (fd : Fd) : Bool := decide (fd ∈ k.open_)

/-- lowest descriptor number `≥ n` that is not open (`fuel` ≥ number of open descriptors suffices) -/
def lowestFree (open_ : List Fd) : Nat → Nat → Nat
  | 0, n => n
  | fuel + 1, n => if ((n : Nat) : Int) ∈ open_ then lowestFree open_ fuel (n + 1) else n

/-- the descriptor number the kernel hands out next (`socket()`, `accept()`, `dup()`) -/
def Kernel.alloc (k : Kernel) : Fd := ((lowestFree k.open_ k.open_.length 0 : Nat) : Int)

/-- a new open file description installed at descriptor `fd` (no epoll entry refers to it) -/
def Kernel.openAt (k : Kernel) (fd : Fd) : Kernel :=
  if fd ∈ k.open_ then k else { k with open_ := fd :: k.open_ }

def Kernel.openNew (k : Kernel) : Kernel × Fd := (k.openAt k.alloc, k.alloc)

/-- `close(fd)`; closing drops the epoll interest entry.  Closing a descriptor
    that is not open is a no-op here (Python socket objects close at most once). -/
def Kernel.close (k : Kernel) (fd : Fd) : Kernel :=
  { open_ := k.open_.filter (fun f => decide (f ≠ fd)), epoll := adel k.epoll fd }

def Kernel.closeAll (k : Kernel) : List Fd → Kernel
  | [] => k
  | fd :: r => (k.close fd).closeAll r

def Kernel.ctlAdd (k : Kernel) (fd : Fd) (m : Mask) : Except Exc Kernel :=
  if !k.isOpen fd then .error .ebadf
  else if (aget k.epoll fd).isSome then .error .eexist
  else .ok { k with epoll := aset k.epoll fd m }

def Kernel.ctlMod (k : Kernel) (fd : Fd) (m : Mask) : Except Exc Kernel :=
  if !k.isOpen fd then .error .ebadf
  else if (aget k.epoll fd).isNone then .error .enoent
  else .ok { k with epoll := aset k.epoll fd m }

def Kernel.ctlDel (k : Kernel) (fd : Fd) : Except Exc Kernel :=
  if !k.isOpen fd then .error .ebadf
  else if (aget k.epoll fd).isNone then .error .enoent
  else .ok { k with epoll := adel k.epoll fd }

/-! ### `selectors.EpollSelector` on top of the kernel -/

/-- selector map + kernel -/
structure SK where
  /-- `_fd_to_key`: fd ↦ (events, data) -/
  map : List (Fd × (Mask × WorkId))
  k : Kernel
  deriving Repr, DecidableEq

/-- `(not events) or (events & ~(EVENT_READ | EVENT_WRITE))` is false -/
def validEvents (ev : Mask) : Bool := ev != 0 && ev < 4

/-- READ|WRITE bits handed to `epoll_ctl` -/
def pollBits (ev : Mask) : Mask := ev % 4

def register (s : SK) (fd : Fd) (ev : Mask) (data : WorkId) : SK × Option Exc :=
  if !validEvents ev then (s, some .valueError)
  else if fd < 0 then (s, some .valueError)
  else if (aget s.map fd).isSome then (s, some .keyError)
  else match s.k.ctlAdd fd (pollBits ev) with
    | .error e => (s, some e)
    | .ok k' => ({ map := aset s.map fd (ev, data), k := k' }, none)

def modify (s : SK) (fd : Fd) (ev : Mask) (data : WorkId) : SK × Option Exc :=
  if fd < 0 then (s, some .valueError)
  else match aget s.map fd with
    | none => (s, some .keyError)
    | some (oev, odata) =>
      if ev ≠ oev then
        match s.k.ctlMod fd (pollBits ev) with
        | .error e => ({ s with map := adel s.map fd }, some e)
        | .ok k' => ({ map := aset s.map fd (ev, data), k := k' }, none)
      else if data ≠ odata then ({ s with map := aset s.map fd (ev, data) }, none)
      else (s, none)

def unregister (s : SK) (fd : Fd) : SK × Option Exc :=
  if fd < 0 then (s, some .valueError)
  else match aget s.map fd with
    | none => (s, some .keyError)
    | some _ =>
      match s.k.ctlDel fd with
      | .error _ => ({ s with map := adel s.map fd }, none)
      | .ok k' => ({ map := adel s.map fd, k := k' }, none)

/-- One kernel-ready descriptor as seen through `select()`.  `truth` is the
    readiness of the descriptor: bit 1 readable, bit 2 writable, bit 4 hang-up /
    error (reported by the kernel whatever the interest mask).  The kernel
    reports it only through an interest entry and, HUP aside, only the
    interested bits; the library turns HUP into READ|WRITE, drops events without
    a key and masks with `key.events`.  Result: `(data, fd, mask)`. -/
def selectOne (s : SK) (fd : Fd) (truth : Mask) : Option (WorkId × Fd × Mask) :=
  match aget s.k.epoll fd with
  | none => none
  | some interest =>
    let kbits := (truth % 4) &&& interest
    let hup := decide (truth / 4 % 2 = 1)
    if kbits = 0 ∧ hup = false then none
    else match aget s.map fd with
      | none => none
      | some (ev, d) => some (d, fd, (kbits ||| (if hup then 3 else 0)) &&& ev)

def select (s : SK) (ready : List (Fd × Mask)) : List (WorkId × Fd × Mask) :=
  ready.filterMap (fun e => selectOne s e.1 e.2)

end Px.Sel
