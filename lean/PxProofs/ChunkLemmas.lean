import PxModel.Chunk
import PxProofs.BytesLemmas
/-!
# Lemmas about the chunked-transfer decoder model (`PxModel/Chunk.lean`) for C03

* `process_*`  : equations of one `process` call per state;
* `Live`, `WF` : invariants of loop states / of resting states (between `parse` calls);
* `process_dec`, `loop_fuel`, `parse_unfold` : the fuel of `parse` is never exhausted;
* `parse_wfd`, `parse_skip_crlf` : macro steps;
* `parse_append` : feeding `a ++ b` = feeding `a` then `b`;
* `parse_wf`    : `parse` preserves `WF` and leaves a remainder only when complete;
* `ChunkedStream`, `parse_stream` : grammar of valid chunked bodies (no trailers) and their decoding.
-/
namespace Px.Chunk

/-- `line.split(b';', 1)[0]` -/
def szText (line : Bytes) : Bytes :=
  match splitOnce1 59 line with
  | none => line
  | some (l, _) => l

inductive LineKind | blank | bad | hold | size (n : Nat)
  deriving DecidableEq, Repr

/-- what `process` does with a complete line `line` followed by `rest` while waiting for a size -/
def classify (line rest : Bytes) : LineKind :=
  if (strip line).isEmpty then .blank
  else match pyInt 16 (szText line) with
    | none => .bad
    | some sz =>
      if sz < 0 then .bad
      else if sz.toNat == 0 && rest.length < 2 && startsWith CRLF rest then .hold
      else .size sz.toNat

theorem process_wfs_none {c : Chunk} {x : Bytes} (hs : c.state = .waitingForSize)
    (h : splitCRLF (c.chunk ++ x) = none) :
    process c x = .ok ({ c with chunk := c.chunk ++ x }, []) := by
  simp only [process, hs, h]

theorem process_wfs_some {c : Chunk} {x line rest : Bytes} (hs : c.state = .waitingForSize)
    (h : splitCRLF (c.chunk ++ x) = some (line, rest)) :
    process c x = match classify line rest with
      | .blank => .ok ({ c with chunk := [] }, rest)
      | .bad => .error .valueError
      | .hold => .ok ({ c with chunk := c.chunk ++ x }, [])
      | .size n => .ok ({ c with chunk := [], size := some n, state := .waitingForData }, rest) := by
  simp only [process, hs, h, classify, szText]
  by_cases hb : (strip line).isEmpty = true
  · simp only [hb, if_true]
  · simp only [hb, Bool.false_eq_true, if_false]
    cases pyInt 16 (match splitOnce1 59 line with | none => line | some (l, _) => l) with
    | none => rfl
    | some sz =>
      simp only []
      by_cases h0 : sz < 0
      · simp only [h0, if_true]
      · simp only [h0, if_false]
        split <;> rfl

theorem process_wfd {c : Chunk} {x : Bytes} {n : Nat} (hs : c.state = .waitingForData)
    (hn : c.size = some n) :
    process c x =
      if (c.chunk ++ x.take (n - c.chunk.length)).length == n then
        .ok ({ state := if n == 0 then .complete else .waitingForSize,
               body := c.body ++ (c.chunk ++ x.take (n - c.chunk.length)), chunk := [], size := none },
             if (x.drop (n - c.chunk.length)).take 2 == CRLF then (x.drop (n - c.chunk.length)).drop 2
             else x.drop (n - c.chunk.length))
      else .ok ({ c with chunk := c.chunk ++ x.take (n - c.chunk.length) }, x.drop (n - c.chunk.length)) := by
  simp only [process, hs, hn]

theorem process_complete {c : Chunk} {x : Bytes} (hs : c.state = .complete) : process c x = .ok (c, x) := by
  simp only [process, hs]

/-! ### invariants -/

/-- Well-formedness of a decoder state *between* `parse` calls: while waiting for
    chunk data the expected size is known and not yet reached.  (States waiting
    for a size may hold any stash; it is simply unread input.) -/
def Chunk.WF (c : Chunk) : Prop :=
  c.state = .waitingForData → ∃ n, c.size = some n ∧ c.chunk.length < n

/-- Invariant of the states *inside* the `parse` loop, with the input `x` still
    to be processed: additionally the transient "last chunk seen" state (size 0),
    which is only entered with enough look-ahead to decide about the final CRLF. -/
def Live (c : Chunk) (x : Bytes) : Prop :=
  c.state = .waitingForData → ∃ n, c.size = some n ∧
    (c.chunk.length < n ∨ (n = 0 ∧ c.chunk = [] ∧ ¬ (x.length < 2 ∧ startsWith CRLF x = true)))

theorem Chunk.WF.live {c : Chunk} (h : c.WF) (x : Bytes) : Live c x := by
  intro hs; obtain ⟨n, h1, h2⟩ := h hs; exact ⟨n, h1, .inl h2⟩

theorem wf_init : init.WF := by intro h; simp [init] at h

theorem live_of_ne {c : Chunk} (x : Bytes) (h : c.state ≠ .waitingForData) : Live c x :=
  fun hs => absurd hs h

theorem classify_size_live {line rest : Bytes} {n : Nat} (h : classify line rest = .size n) :
    n = 0 → ¬ (rest.length < 2 ∧ startsWith CRLF rest = true) := by
  unfold classify at h
  split at h; · simp at h
  split at h; · simp at h
  split at h; · simp at h
  split at h; · simp at h
  rename_i hh
  simp only [LineKind.size.injEq] at h
  intro h0 ⟨h1, h2⟩
  apply hh; simp [h, h0, h1, h2]

/-! ### every `process` call ends the loop or shortens stash + input -/

theorem process_dec {c c' : Chunk} {x x' : Bytes} (hl : Live c x) (hx : x ≠ [])
    (hc : c.state ≠ .complete) (hp : process c x = .ok (c', x')) :
    Live c' x' ∧ (x' = [] ∨ c'.state = .complete ∨
      c'.chunk.length + x'.length < c.chunk.length + x.length) := by
  cases hs : c.state with
  | complete => exact absurd hs hc
  | waitingForSize =>
    cases hsp : splitCRLF (c.chunk ++ x) with
    | none =>
      rw [process_wfs_none hs hsp] at hp
      simp only [Except.ok.injEq, Prod.mk.injEq] at hp
      obtain ⟨rfl, rfl⟩ := hp
      exact ⟨live_of_ne _ (by simp [hs]), .inl rfl⟩
    | some p =>
      obtain ⟨line, rest⟩ := p
      have hlen := splitCRLF_some_length hsp
      simp only [List.length_append] at hlen
      rw [process_wfs_some hs hsp] at hp
      cases hk : classify line rest with
      | blank =>
        simp only [hk, Except.ok.injEq, Prod.mk.injEq] at hp
        obtain ⟨rfl, rfl⟩ := hp
        refine ⟨live_of_ne _ (by simp [hs]), .inr (.inr ?_)⟩
        simp only [List.length_nil]; omega
      | bad => simp [hk] at hp
      | hold =>
        simp only [hk, Except.ok.injEq, Prod.mk.injEq] at hp
        obtain ⟨rfl, rfl⟩ := hp
        exact ⟨live_of_ne _ (by simp [hs]), .inl rfl⟩
      | size n =>
        simp only [hk, Except.ok.injEq, Prod.mk.injEq] at hp
        obtain ⟨rfl, rfl⟩ := hp
        refine ⟨?_, .inr (.inr ?_)⟩
        · intro _
          refine ⟨n, rfl, ?_⟩
          by_cases h0 : n = 0
          · exact .inr ⟨h0, rfl, classify_size_live hk h0⟩
          · exact .inl (by simp only [List.length_nil]; omega)
        · simp only [List.length_nil]; omega
  | waitingForData =>
    obtain ⟨n, hn, hcase⟩ := hl hs
    rw [process_wfd hs hn] at hp
    split at hp
    · rename_i hfull
      simp only [Except.ok.injEq, Prod.mk.injEq] at hp
      obtain ⟨rfl, rfl⟩ := hp
      by_cases h0 : n = 0
      · exact ⟨live_of_ne _ (by simp [h0]), .inr (.inl (by simp [h0]))⟩
      · refine ⟨live_of_ne _ (by simp [h0]), .inr (.inr ?_)⟩
        have hlt : c.chunk.length < n := by
          rcases hcase with h | ⟨h, _⟩
          · exact h
          · exact absurd h h0
        have hxl : 0 < x.length := List.length_pos_iff.2 hx
        simp only [List.length_nil, Nat.zero_add]
        split
        · simp only [List.length_drop]; omega
        · simp only [List.length_drop]; omega
    · rename_i hnot
      simp only [Except.ok.injEq, Prod.mk.injEq] at hp
      obtain ⟨rfl, rfl⟩ := hp
      simp only [beq_iff_eq, List.length_append, List.length_take] at hnot
      have hlt : c.chunk.length < n := by
        rcases hcase with h | ⟨h, h2, _⟩
        · exact h
        · simp [h, h2] at hnot
      have hd : x.drop (n - c.chunk.length) = [] := by
        apply List.drop_eq_nil_of_le; omega
      refine ⟨?_, .inl hd⟩
      intro _
      refine ⟨n, hn, .inl ?_⟩
      simp only [List.length_append, List.length_take]; omega

/-! ### fuel -/

theorem loop_done {c : Chunk} {x : Bytes} (h : x = [] ∨ c.state = .complete) (f : Nat) :
    loop f c x = .ok (c, x) := by
  cases f with
  | zero => rfl
  | succ f =>
    rw [loop]
    rcases h with h | h <;> simp [h]

theorem loop_succ {c : Chunk} {x : Bytes} (hx : x ≠ []) (hc : c.state ≠ .complete) (f : Nat) :
    loop (f + 1) c x = match process c x with
      | .error e => .error e
      | .ok (c', x') => loop f c' x' := by
  rw [loop]
  have : (x.isEmpty || c.state == .complete) = false := by
    simp [hx, hc]
  simp only [this, Bool.false_eq_true, if_false]
  cases process c x with
  | error e => rfl
  | ok p => rfl

/-- fuel above `stash + input` is never exhausted -/
theorem loop_fuel (f1 f2 : Nat) {c : Chunk} {x : Bytes} (hl : Live c x)
    (h1 : c.chunk.length + x.length < f1) (h2 : c.chunk.length + x.length < f2) :
    loop f1 c x = loop f2 c x := by
  induction f1 generalizing f2 c x with
  | zero => omega
  | succ f1 ih =>
    cases f2 with
    | zero => omega
    | succ f2 =>
      by_cases hd : x = [] ∨ c.state = .complete
      · rw [loop_done hd, loop_done hd]
      · have hx : x ≠ [] := fun h => hd (.inl h)
        have hc : c.state ≠ .complete := fun h => hd (.inr h)
        rw [loop_succ hx hc, loop_succ hx hc]
        cases hp : process c x with
        | error e => rfl
        | ok p =>
          obtain ⟨c', x'⟩ := p
          obtain ⟨hl', hdec⟩ := process_dec hl hx hc hp
          simp only
          by_cases hd' : x' = [] ∨ c'.state = .complete
          · rw [loop_done hd', loop_done hd']
          · have : c'.chunk.length + x'.length < c.chunk.length + x.length := by
              rcases hdec with h | h | h
              · exact absurd (.inl h) hd'
              · exact absurd (.inr h) hd'
              · exact h
            exact ih f2 hl' (by omega) (by omega)

theorem parse_done {c : Chunk} {x : Bytes} (h : x = [] ∨ c.state = .complete) :
    parse c x = .ok (c, x) := loop_done h _

/-- `parse` is one `process` call followed by `parse` of what is left -/
theorem parse_unfold {c : Chunk} {x : Bytes} (hl : Live c x) (hx : x ≠ [])
    (hc : c.state ≠ .complete) :
    parse c x = match process c x with
      | .error e => .error e
      | .ok (c', x') => parse c' x' := by
  unfold parse
  rw [loop_succ hx hc]
  cases hp : process c x with
  | error e => rfl
  | ok p =>
    obtain ⟨c', x'⟩ := p
    obtain ⟨hl', hdec⟩ := process_dec hl hx hc hp
    simp only
    by_cases hd' : x' = [] ∨ c'.state = .complete
    · rw [loop_done hd', loop_done hd']
    · have : c'.chunk.length + x'.length < c.chunk.length + x.length := by
        rcases hdec with h | h | h
        · exact absurd (.inl h) hd'
        · exact absurd (.inr h) hd'
        · exact h
      exact loop_fuel _ _ hl' (by omega) (by omega)

/-! ### macro steps -/

theorem classify_nil_blank (rest : Bytes) : classify [] rest = .blank := by
  simp [classify, strip, rstrip, lstrip]

/-- a state waiting for a size with an empty stash skips a leading CRLF -/
theorem parse_skip_crlf {c : Chunk} (hs : c.state = .waitingForSize) (hk : c.chunk = []) (y : Bytes) :
    parse c (CRLF ++ y) = parse c y := by
  rw [parse_unfold (live_of_ne _ (by simp [hs])) (by simp [CRLF]) (by simp [hs])]
  have hsp : splitCRLF (c.chunk ++ (CRLF ++ y)) = some ([], y) := by
    rw [hk]; exact splitCRLF_render (l := []) rfl y
  rw [process_wfs_some hs hsp, classify_nil_blank]
  simp only
  congr 1
  cases c; simp_all

/-- macro step while waiting for data of a non-final chunk -/
theorem parse_wfd {c : Chunk} {n : Nat} {x : Bytes} (hs : c.state = .waitingForData)
    (hn : c.size = some n) (hlt : c.chunk.length < n) (hx : x ≠ []) :
    parse c x =
      if x.length < n - c.chunk.length then .ok ({ c with chunk := c.chunk ++ x }, [])
      else parse { state := .waitingForSize, body := c.body ++ (c.chunk ++ x.take (n - c.chunk.length)),
                   chunk := [], size := none } (x.drop (n - c.chunk.length)) := by
  rw [parse_unfold (fun _ => ⟨n, hn, .inl hlt⟩) hx (by simp [hs]), process_wfd hs hn]
  by_cases hsh : x.length < n - c.chunk.length
  · have ht : x.take (n - c.chunk.length) = x := List.take_of_length_le (by omega)
    have hd : x.drop (n - c.chunk.length) = [] := List.drop_eq_nil_of_le (by omega)
    have : ¬ ((c.chunk ++ x).length == n) = true := by simp; omega
    simp only [ht, hd, this, hsh, if_true, Bool.false_eq_true, if_false]
    exact parse_done (.inl rfl)
  · have : ((c.chunk ++ x.take (n - c.chunk.length)).length == n) = true := by
      simp only [List.length_append, List.length_take, beq_iff_eq]; omega
    have h0 : (n == 0) = false := by simp; omega
    simp only [this, hsh, if_true, if_false, h0, Bool.false_eq_true]
    split
    · rename_i hcr
      simp only [beq_iff_eq] at hcr
      have := List.take_append_drop 2 (x.drop (n - c.chunk.length))
      rw [hcr] at this
      rw (occs := .pos [2]) [← this]
      exact (parse_skip_crlf rfl rfl _).symm
    · rfl

/-! ### feeding `a ++ b` = feeding `a`, then `b` -/

/-- continue a `parse` result with further input `b`; remainders are concatenated -/
def andThen (r : Except Err (Chunk × Bytes)) (b : Bytes) : Except Err (Chunk × Bytes) :=
  match r with
  | .error e => .error e
  | .ok (c', r) => match parse c' b with
    | .error e => .error e
    | .ok (c'', r') => .ok (c'', r ++ r')

theorem andThen_ok_nil (c : Chunk) (b : Bytes) : andThen (.ok (c, [])) b = parse c b := by
  unfold andThen; simp only [List.nil_append]
  cases parse c b with
  | error e => rfl
  | ok p => rfl

theorem andThen_complete {c : Chunk} (hc : c.state = .complete) (r b : Bytes) :
    andThen (.ok (c, r)) b = .ok (c, r ++ b) := by
  unfold andThen; simp only [parse_done (.inr hc)]

/-- `process` in a size-waiting state sees only `stash ++ input` -/
theorem process_wfs_congr {c c' : Chunk} {x x' : Bytes} (hs : c.state = .waitingForSize)
    (hs' : c'.state = .waitingForSize) (hb : c.body = c'.body) (hz : c.size = c'.size)
    (hx : c.chunk ++ x = c'.chunk ++ x') : process c x = process c' x' := by
  cases hsp : splitCRLF (c.chunk ++ x) with
  | none =>
    rw [process_wfs_none hs hsp, process_wfs_none hs' (hx ▸ hsp)]
    cases c; cases c'; simp_all
  | some p =>
    obtain ⟨l, r⟩ := p
    rw [process_wfs_some hs hsp, process_wfs_some hs' (hx ▸ hsp)]
    cases c; cases c'; simp_all

/-- the stash case: `process c a` put everything back; more input re-reads it -/
theorem parse_restash {c : Chunk} {a : Bytes} (hs : c.state = .waitingForSize) (ha : a ≠ [])
    (hp : process c a = .ok ({ c with chunk := c.chunk ++ a }, [])) (b : Bytes) :
    parse c (a ++ b) = andThen (parse c a) b := by
  have hl : ∀ x, Live c x := fun x => live_of_ne _ (by simp [hs])
  have hpa : parse c a = .ok ({ c with chunk := c.chunk ++ a }, []) := by
    rw [parse_unfold (hl _) ha (by simp [hs]), hp]; exact parse_done (.inl rfl)
  rw [hpa, andThen_ok_nil]
  by_cases hb : b = []
  · subst hb; rw [List.append_nil, hpa, parse_done (.inl rfl)]
  · rw [parse_unfold (hl _) (by simp [ha]) (by simp [hs]),
      parse_unfold (live_of_ne _ (by simp [hs])) hb (by simp [hs])]
    rw [process_wfs_congr (c := c) (c' := { c with chunk := c.chunk ++ a }) (x := a ++ b) (x' := b)
      hs hs rfl rfl (by simp)]

theorem classify_append {line rest : Bytes} (h : classify line rest ≠ .hold) (y : Bytes) :
    classify line (rest ++ y) = classify line rest := by
  unfold classify at h ⊢
  by_cases hb : (strip line).isEmpty = true
  · simp only [hb, if_true]
  · simp only [hb, Bool.false_eq_true, if_false] at h ⊢
    cases hp : pyInt 16 (szText line) with
    | none => rfl
    | some sz =>
      simp only [hp] at h ⊢
      by_cases hn : sz < 0
      · simp only [hn, if_true]
      · simp only [hn, if_false] at h ⊢
        by_cases hh : (sz.toNat == 0 && decide (rest.length < 2) && startsWith CRLF rest) = true
        · simp [hh] at h
        · have : ¬ (sz.toNat == 0 && decide ((rest ++ y).length < 2) && startsWith CRLF (rest ++ y)) = true := by
            intro hc; apply hh
            simp only [Bool.and_eq_true, beq_iff_eq, decide_eq_true_eq, List.length_append] at hc ⊢
            obtain ⟨⟨h0, h1⟩, h2⟩ := hc
            refine ⟨⟨h0, by omega⟩, ?_⟩
            obtain ⟨t, ht⟩ := (startsWith_iff _ _).1 h2
            exact (startsWith_iff _ _).2 ⟨y ++ t, by rw [ht]; simp⟩
          simp only [this, hh, if_false, Bool.false_eq_true]

theorem parse_append {c : Chunk} {a : Bytes} (hl : Live c a) (b : Bytes) :
    parse c (a ++ b) = andThen (parse c a) b := by
  generalize hm : c.chunk.length + a.length = m
  induction m using Nat.strongRecOn generalizing c a with
  | ind m ih =>
  subst hm
  by_cases ha : a = []
  · subst ha; rw [List.nil_append, parse_done (.inl rfl), andThen_ok_nil]
  cases hs : c.state with
  | complete =>
    rw [parse_done (.inr hs), parse_done (.inr hs), andThen_complete hs]
  | waitingForSize =>
    have hlv : ∀ x, Live c x := fun x => live_of_ne _ (by simp [hs])
    cases hsp : splitCRLF (c.chunk ++ a) with
    | none => exact parse_restash hs ha (process_wfs_none hs hsp) b
    | some p =>
      obtain ⟨line, rest⟩ := p
      have hlen := splitCRLF_some_length hsp
      simp only [List.length_append] at hlen
      by_cases hk : classify line rest = .hold
      · refine parse_restash hs ha ?_ b
        rw [process_wfs_some hs hsp, hk]
      · have hsp' : splitCRLF (c.chunk ++ (a ++ b)) = some (line, rest ++ b) := by
          rw [← List.append_assoc]; exact splitCRLF_append_some hsp b
        rw [parse_unfold (hlv _) (by simp [ha]) (by simp [hs]), process_wfs_some hs hsp',
          classify_append hk, parse_unfold (hlv _) ha (by simp [hs]), process_wfs_some hs hsp]
        cases hk' : classify line rest with
        | hold => exact absurd hk' hk
        | bad => rfl
        | blank =>
          simp only
          exact ih _ (by simp only [List.length_nil]; omega) (live_of_ne _ (by simp [hs])) rfl
        | size n =>
          simp only
          refine ih _ (by simp only [List.length_nil]; omega) ?_ rfl
          intro _
          refine ⟨n, rfl, ?_⟩
          by_cases h0 : n = 0
          · exact .inr ⟨h0, rfl, classify_size_live hk' h0⟩
          · exact .inl (by simp only [List.length_nil]; omega)
  | waitingForData =>
    obtain ⟨n, hn, hcase⟩ := hl hs
    rcases hcase with hlt | ⟨h0, hk, hla⟩
    · rw [parse_wfd hs hn hlt ha, parse_wfd hs hn hlt (x := a ++ b) (by simp [ha])]
      by_cases hsh : a.length < n - c.chunk.length
      · simp only [hsh, if_true, andThen_ok_nil]
        by_cases hb : b = []
        · subst hb; simp [hsh, parse_done]
        · rw [parse_wfd (c := { c with chunk := c.chunk ++ a }) (n := n) hs hn
            (by simp only [List.length_append]; omega) hb]
          simp only [List.length_append]
          have e1 : n - (c.chunk.length + a.length) = n - c.chunk.length - a.length := by omega
          by_cases hsh2 : a.length + b.length < n - c.chunk.length
          · have : b.length < n - (c.chunk.length + a.length) := by omega
            simp [hsh2, this]
          · have : ¬ b.length < n - (c.chunk.length + a.length) := by omega
            simp only [hsh2, this, if_false]
            have hta : a.take (n - c.chunk.length) = a := List.take_of_length_le (by omega)
            have hda : a.drop (n - c.chunk.length) = [] := List.drop_eq_nil_of_le (by omega)
            rw [List.take_append, List.drop_append, hta, hda, e1]
            simp
      · have hsh2 : ¬ (a ++ b).length < n - c.chunk.length := by
          simp only [List.length_append]; omega
        simp only [hsh, hsh2, if_false]
        have hle : n - c.chunk.length ≤ a.length := by omega
        rw [List.take_append_of_le_length hle, List.drop_append_of_le_length hle]
        refine ih _ ?_ (live_of_ne _ (by simp)) rfl
        simp only [List.length_nil, List.length_drop]; omega
    · subst h0
      have hlab : ¬ ((a ++ b).length < 2 ∧ startsWith CRLF (a ++ b) = true) := by
        rintro ⟨h1, h2⟩
        apply hla
        simp only [List.length_append] at h1
        refine ⟨by omega, ?_⟩
        obtain ⟨t, ht⟩ := (startsWith_iff _ _).1 h2
        exact (startsWith_iff _ _).2 ⟨b ++ t, by rw [ht]; simp⟩
      rw [parse_unfold (fun _ => ⟨0, hn, .inr ⟨rfl, hk, hlab⟩⟩) (by simp [ha]) (by simp [hs]),
        parse_unfold hl ha (by simp [hs]), process_wfd hs hn, process_wfd hs hn]
      simp only [hk, List.length_nil, Nat.sub_zero, List.take_zero, List.append_nil, beq_self_eq_true,
        if_true, List.drop_zero]
      rw [parse_done (.inr rfl), parse_done (.inr rfl), andThen_complete rfl]
      congr 2
      by_cases h2 : 2 ≤ a.length
      · rw [List.take_append_of_le_length h2, List.drop_append_of_le_length h2]
        split <;> rfl
      · match a, ha, hla, h2 with
        | [x], _, hla, _ =>
          have hx : x ≠ 13 := by
            intro hx; apply hla; subst hx; simp [CRLF, startsWith]
          have h1 : ¬ (([x] ++ b).take 2 == CRLF) = true := by
            simp only [List.cons_append, List.nil_append, beq_iff_eq, CRLF]
            cases b <;> simp [hx]
          have h2 : ¬ (([x] : Bytes).take 2 == CRLF) = true := by simp [CRLF]
          simp only [h1, h2, if_false, Bool.false_eq_true]
        | _ :: _ :: _, _, _, h2 => simp at h2

/-! ### `parse` preserves well-formedness; a remainder is only left when complete -/

theorem live_done {c : Chunk} {x : Bytes} (hl : Live c x) (hd : x = [] ∨ c.state = .complete) :
    c.WF ∧ (x ≠ [] → c.state = .complete) := by
  rcases hd with rfl | hc
  · refine ⟨?_, fun h => absurd rfl h⟩
    intro hs
    obtain ⟨n, hn, h | ⟨_, _, h⟩⟩ := hl hs
    · exact ⟨n, hn, h⟩
    · exact absurd ⟨by simp, by simp⟩ h
  · exact ⟨fun hs => by simp [hc] at hs, fun _ => hc⟩

theorem parse_wf {c c' : Chunk} {x r : Bytes} (hl : Live c x) (hp : parse c x = .ok (c', r)) :
    c'.WF ∧ (r ≠ [] → c'.state = .complete) := by
  generalize hm : c.chunk.length + x.length = m
  induction m using Nat.strongRecOn generalizing c x with
  | ind m ih =>
  subst hm
  by_cases hd : x = [] ∨ c.state = .complete
  · rw [parse_done hd] at hp
    simp only [Except.ok.injEq, Prod.mk.injEq] at hp
    obtain ⟨rfl, rfl⟩ := hp
    exact live_done hl hd
  · have hx : x ≠ [] := fun h => hd (.inl h)
    have hc : c.state ≠ .complete := fun h => hd (.inr h)
    rw [parse_unfold hl hx hc] at hp
    cases hpr : process c x with
    | error e => simp [hpr] at hp
    | ok p =>
      obtain ⟨c1, x1⟩ := p
      simp only [hpr] at hp
      obtain ⟨hl1, hdec⟩ := process_dec hl hx hc hpr
      by_cases hd1 : x1 = [] ∨ c1.state = .complete
      · rw [parse_done hd1] at hp
        simp only [Except.ok.injEq, Prod.mk.injEq] at hp
        obtain ⟨rfl, rfl⟩ := hp
        exact live_done hl1 hd1
      · refine ih _ ?_ hl1 hp rfl
        rcases hdec with h | h | h
        · exact absurd (.inl h) hd1
        · exact absurd (.inr h) hd1
        · exact h
/-! ### grammar of valid chunked bodies -/

/-- a chunk-size line `sz [ext]` announcing `n` bytes: `sz` is any text `int(·, 16)`
    reads as `n`, the optional extension starts with `;`, no CRLF inside -/
def SizeLine (sz ext : Bytes) (n : Nat) : Prop :=
  pyInt 16 sz = some (Int.ofNat n) ∧ 59 ∉ sz ∧ splitCRLF (sz ++ ext) = none ∧
    (ext = [] ∨ ext.head? = some 59)

/-- chunked bodies without trailers: `(size-line CRLF data CRLF)* last-size-line CRLF CRLF` -/
inductive ChunkedStream
  | last (sz ext : Bytes)
  | chunk (sz ext data : Bytes) (rest : ChunkedStream)

namespace ChunkedStream
def render : ChunkedStream → Bytes
  | .last sz ext => sz ++ ext ++ CRLF ++ CRLF
  | .chunk sz ext data rest => sz ++ ext ++ CRLF ++ (data ++ CRLF ++ rest.render)

def decoded : ChunkedStream → Bytes
  | .last _ _ => []
  | .chunk _ _ data rest => data ++ rest.decoded

def Valid : ChunkedStream → Prop
  | .last sz ext => SizeLine sz ext 0
  | .chunk sz ext data rest => SizeLine sz ext data.length ∧ data ≠ [] ∧ rest.Valid
end ChunkedStream

theorem szText_sizeLine {sz ext : Bytes} {n : Nat} (h : SizeLine sz ext n) : szText (sz ++ ext) = sz := by
  obtain ⟨_, hs, _, he⟩ := h
  unfold szText
  rcases he with rfl | he
  · rw [List.append_nil, splitOnce1_of_not_mem _ _ hs]
  · cases ext with
    | nil => simp at he
    | cons e ext' =>
      simp only [List.head?_cons, Option.some.injEq] at he; subst he
      rw [splitOnce1_render _ _ _ hs]

theorem classify_sizeLine {sz ext rest : Bytes} {n : Nat} (h : SizeLine sz ext n)
    (hh : ¬ (n = 0 ∧ rest.length < 2 ∧ startsWith CRLF rest = true)) :
    classify (sz ++ ext) rest = .size n := by
  have hsz := szText_sizeLine h
  obtain ⟨hp, _, _, _⟩ := h
  have hnb : ¬ (strip (sz ++ ext)).isEmpty = true := by
    intro hb
    have hw := (strip_isEmpty_iff _).1 hb
    have := pyInt_ws_none 16 sz (fun c hc => hw c (by simp [hc]))
    rw [hp] at this; simp at this
  unfold classify
  simp only [hnb, if_false, hsz, hp, Bool.false_eq_true]
  have h0 : ¬ (Int.ofNat n < 0) := by simp
  simp only [h0, if_false]
  have htn : (Int.ofNat n).toNat = n := rfl
  rw [htn]
  split
  · rename_i hc
    simp only [Bool.and_eq_true, beq_iff_eq, decide_eq_true_eq] at hc
    exact absurd ⟨hc.1.1, hc.1.2, hc.2⟩ hh
  · rfl


theorem render_ne_nil (s : ChunkedStream) : s.render ≠ [] := by
  cases s <;> simp [ChunkedStream.render, CRLF]

/-- a valid chunked stream is decoded completely, consuming exactly its own bytes -/
theorem parse_stream (s : ChunkedStream) (hv : s.Valid) (c : Chunk) (hs : c.state = .waitingForSize)
    (hk : c.chunk = []) (t : Bytes) :
    parse c (s.render ++ t) =
      .ok ({ state := .complete, body := c.body ++ s.decoded, chunk := [], size := none }, t) := by
  induction s generalizing c with
  | last sz ext =>
    have hsl : SizeLine sz ext 0 := hv
    have hsp : splitCRLF (c.chunk ++ ((ChunkedStream.last sz ext).render ++ t)) = some (sz ++ ext, CRLF ++ t) := by
      rw [hk, List.nil_append]
      have : (ChunkedStream.last sz ext).render ++ t = (sz ++ ext) ++ CRLF ++ (CRLF ++ t) := by
        simp [ChunkedStream.render]
      rw [this]; exact splitCRLF_render hsl.2.2.1 _
    have hcl : classify (sz ++ ext) (CRLF ++ t) = .size 0 :=
      classify_sizeLine hsl (by simp [CRLF]; omega)
    rw [parse_unfold (live_of_ne _ (by simp [hs])) (by simp [render_ne_nil]) (by simp [hs]),
      process_wfs_some hs hsp, hcl]
    simp only
    have hlive : Live { c with chunk := [], size := some 0, state := .waitingForData } (CRLF ++ t) :=
      fun _ => ⟨0, rfl, .inr ⟨rfl, rfl, by simp [CRLF]; omega⟩⟩
    rw [parse_unfold hlive (by simp [CRLF]) (by simp), process_wfd rfl rfl]
    simp only [List.length_nil, Nat.sub_zero, List.take_zero, List.append_nil, beq_self_eq_true, if_true,
      List.drop_zero, ChunkedStream.decoded]
    have : ((CRLF ++ t).take 2 == CRLF) = true := by simp [CRLF]
    simp only [this, if_true]
    have : (CRLF ++ t).drop 2 = t := by simp [CRLF]
    rw [this]
    exact parse_done (.inr rfl)
  | chunk sz ext data rest ih =>
    obtain ⟨hsl, hd, hvr⟩ := hv
    have hpos : 0 < data.length := List.length_pos_iff.2 hd
    have hsp : splitCRLF (c.chunk ++ ((ChunkedStream.chunk sz ext data rest).render ++ t)) =
        some (sz ++ ext, data ++ CRLF ++ rest.render ++ t) := by
      rw [hk, List.nil_append]
      have : (ChunkedStream.chunk sz ext data rest).render ++ t =
          (sz ++ ext) ++ CRLF ++ (data ++ CRLF ++ rest.render ++ t) := by
        simp [ChunkedStream.render]
      rw [this]; exact splitCRLF_render hsl.2.2.1 _
    have hcl : classify (sz ++ ext) (data ++ CRLF ++ rest.render ++ t) = .size data.length :=
      classify_sizeLine hsl (by omega)
    rw [parse_unfold (live_of_ne _ (by simp [hs])) (by simp [render_ne_nil]) (by simp [hs]),
      process_wfs_some hs hsp, hcl]
    simp only
    rw [parse_wfd (n := data.length) rfl rfl (by simpa using hpos) (by simp [hd])]
    have hsh : ¬ (data ++ CRLF ++ rest.render ++ t).length < data.length - ([] : Bytes).length := by
      simp only [List.length_append, List.length_nil]; omega
    simp only [hsh, if_false]
    have ht : (data ++ CRLF ++ rest.render ++ t).take (data.length - ([] : Bytes).length) = data := by
      simp [List.append_assoc]
    have hdr : (data ++ CRLF ++ rest.render ++ t).drop (data.length - ([] : Bytes).length) =
        CRLF ++ (rest.render ++ t) := by
      simp [List.append_assoc]
    rw [ht, hdr, parse_skip_crlf rfl rfl, ih hvr _ rfl rfl]
    simp [ChunkedStream.decoded]


end Px.Chunk
