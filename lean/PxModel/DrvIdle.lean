import PxModel.Idle
namespace Px.Idle

/-- piece lengths: `-` (none) or `3+0+5` -/
def parseLens (s : String) : Option (List Nat) :=
  if s == "-" then some [] else (s.splitOn "+").mapM (·.toNat?)

def parseEv1 (tok : String) : Option PEv :=
  match tok.splitOn "," with
  | ["r", t, l] => do some (.clientRead (← t.toInt?) (← parseLens l))
  | ["e", t] => do some (.clientReadEnd (← t.toInt?))
  | ["w", t, a] =>
    if a == "b" then do some (.clientWrite (← t.toInt?) none)
    else do some (.clientWrite (← t.toInt?) (some (← a.toNat?)))
  | ["u", t, l] => do some (.upstream (← t.toInt?) (← parseLens l))
  | ["i", t] => do some (.loopIter (← t.toInt?))
  | _ => none

/-- a leading `~` marks an event whose observation the harness cannot take
    (first half of a combined readable+writable `handle_events` call, the
    threaded loop's very first check) -/
def parseEv (tok : String) : Option (Bool × PEv) :=
  if tok.startsWith "~" then (parseEv1 (tok.drop 1).toString).map (fun e => (true, e))
  else (parseEv1 tok).map (fun e => (false, e))

def statusStr : Status → String
  | .open => "o"
  | .reaped t => s!"R{t}"
  | .torn t => s!"T{t}"

/-- observation after one event handled at the event's own time -/
def obs (cfg : Cfg) (s : St) (now : Int) : String :=
  match s.status with
  | .open =>
    s!"{s.lastActivity}:{s.numBuffer}:{s.reaperRuns}:{if isInactive cfg s now then 1 else 0}:{if s.readsTorn then "l" else "o"}"
  | .reaped t => s!"R{t}"
  | .torn t => s!"T{t}"

def traceOut (cfg : Cfg) (maxSend : Nat) : PSt → List (Bool × PEv) → List String
  | _, [] => []
  | s, (silent, e) :: r =>
    let s' := pstep cfg maxSend s e
    if silent then traceOut cfg maxSend s' r
    else obs cfg s'.st (e.toEv maxSend s).time :: traceOut cfg maxSend s' r

def drvTrace (cfg : Cfg) (maxSend start : String) (evs : List String) : String :=
  match maxSend.toNat?, start.toInt?, evs.mapM parseEv with
  | some m, some t0, some tr => "ok " ++ "|".intercalate (traceOut cfg m (pinit t0) tr)
  | _, _, _ => "bad-op"

def natsStr (l : List Nat) : String := ",".intercalate (l.map toString)

/-- events: `r,<t>,<lens>` `e,<t>` `w,<t>,<acc|b>` `u,<t>,<lens>` `i,<t>`; lens = `-` or `3+0+5`
    `idle trace <threaded> <timeout> <sel> <wait> <cleanup> <maxsend> <start> <ev>…`   (explicit cadence constants)
    `idle itrace <threaded> <timeout> <maxsend> <start> <ev>…`                        (generated constants)
    `idle cadence <sel> <wait> <cleanup> <n>` / `idle icadence <n>` : reaper iterations among the first `n`
    `idle iperiod` : iterations between reaper runs for the generated constants -/
def drv (args : List String) : String :=
  match args with
  | "trace" :: th :: to :: sel :: wait :: cl :: ms :: start :: evs =>
    match to.toInt?, sel.toNat?, wait.toNat?, cl.toNat? with
    | some to, some sel, some wait, some cl =>
      drvTrace { timeout := to, threaded := th == "1", sel := sel, wait := wait, cleanup := cl } ms start evs
    | _, _, _, _ => "bad-op"
  | "itrace" :: th :: to :: ms :: start :: evs =>
    match to.toInt? with
    | some to => drvTrace (implCfg to (th == "1")) ms start evs
    | none => "bad-op"
  | ["cadence", sel, wait, cl, n] =>
    match sel.toNat?, wait.toNat?, cl.toNat?, n.toNat? with
    | some sel, some wait, some cl, some n =>
      let cfg : Cfg := { timeout := 0, threaded := false, sel := sel, wait := wait, cleanup := cl }
      s!"ok runs={natsStr (reaperIters cfg n 0 0)}"
    | _, _, _, _ => "bad-op"
  | ["icadence", n] =>
    match n.toNat? with
    | some n => s!"ok runs={natsStr (reaperIters (implCfg 0 false) n 0 0)}"
    | none => "bad-op"
  | ["iperiod"] => s!"ok period={period (implCfg 0 false)}"
  | _ => "bad-op"

end Px.Idle
