import PxProofs.PersistSeg
import PxProofs.ForwardLemmas
/-!
# C04 helper lemmas, part 3b: the forward proxy on a stream of requests, any packing
-/
namespace Px.Persist
open Px Px.Relay Px.Parser Px.Forward

/-! what is emitted does not depend on the byte counter / on what is left in the buffer -/

theorem treatLater_withTotal (cfg : Forward.Cfg) (P : Parser) (n : Nat) :
    treatLater cfg (withTotal P n) = withTotal (treatLater cfg P) n := by
  rw [treatLater_eq, treatLater_eq]; rfl

theorem buildFor_withTotal (cfg : Forward.Cfg) (Q : Parser) (n : Nat) :
    buildFor cfg (withTotal Q n) = buildFor cfg Q := rfl

theorem isUpgrade_withTotal (Q : Parser) (n : Nat) : isUpgrade (withTotal Q n) = isUpgrade Q := rfl

theorem treatFirst_withTotal (cfg : Forward.Cfg) (P : Parser) (n : Nat) (b : Option Bytes) :
    treatFirst cfg ({ (withTotal P n) with buffer := b }) = { (withTotal (treatFirst cfg P) n) with buffer := b } := by
  rw [treatFirst_eq, treatFirst_eq]; rfl

theorem firstComplete_withTotal (cfg : Forward.Cfg) (ok : Bool) (P : Parser) (n : Nat) (b : Option Bytes) :
    firstComplete cfg ok ({ (withTotal P n) with buffer := b }) = firstComplete cfg ok P := by
  unfold firstComplete
  rw [treatFirst_withTotal]
  rfl

theorem parser_eta_buffer (p : Parser) : p = { ({ p with buffer := none } : Parser) with buffer := p.buffer } := by
  cases p; rfl

/-- the first request of a connection: one request, answered by a connect to `a` and `q` queued -/
def FirstOk (cfg : Forward.Cfg) (ok : Bool) (x : Bytes) (P : Parser) (a : Connect.Addr) (q : Bytes) : Prop :=
  oneReq x = some P ∧ firstComplete cfg ok P = .established a q

/-- a follow-up request: one request `x` with one-piece parse `P`, forwarded as `q`, not a connection upgrade -/
def LaterOk (cfg : Forward.Cfg) (x : Bytes) (P : Parser) (q : Bytes) : Prop :=
  oneReq x = some P ∧ Forward.buildFor cfg (Forward.treatLater cfg P) = .ok q ∧
    isUpgrade (Forward.treatLater cfg P) = false

/-- two lists related element by element -/
inductive All₂ {α β : Type} (R : α → β → Prop) : List α → List β → Prop
  | nil : All₂ R [] []
  | cons {a b as bs} : R a b → All₂ R as bs → All₂ R (a :: as) (b :: bs)

/-- what a follow-up request is forwarded as -/
def emit (cfg : Forward.Cfg) (P : Parser) : Bytes :=
  match Forward.buildFor cfg (Forward.treatLater cfg P) with
  | .ok x => x
  | .error _ => []

def fstepL (cfg : Forward.Cfg) (s : List Bytes) (P : Parser) : List Bytes := s ++ [emit cfg P]

theorem fwd_bypass (cfg : Forward.Cfg) (s : List Bytes) (pl : Option Parser) (raw : Bytes)
    (h : ∀ p, pl = some p → p.state ≠ .complete) : (fwdHooks cfg).bypass s pl raw = none := by
  unfold fwdHooks
  cases pl with
  | none => rfl
  | some p =>
    have : (p.state == PState.complete) = false := by simpa using h p rfl
    simp [this]

theorem fwd_good (cfg : Forward.Cfg) {x : Bytes} {P : Parser} {q : Bytes} (h : LaterOk cfg x P q) (s : List Bytes)
    (n : Nat) : (fwdHooks cfg).complete s (withTotal P n) = .next (fstepL cfg s (withTotal P n)) none := by
  obtain ⟨_, hb, hu⟩ := h
  unfold fwdHooks fstepL emit
  simp only [treatLater_withTotal, buildFor_withTotal, isUpgrade_withTotal, hb, hu, Bool.false_eq_true, if_false]

theorem emit_withTotal (cfg : Forward.Cfg) {x : Bytes} {P : Parser} {q : Bytes} (h : LaterOk cfg x P q) (n : Nat) :
    emit cfg (withTotal P n) = q := by
  unfold emit
  rw [treatLater_withTotal, buildFor_withTotal, h.2.1]

/-- the loop appends to what was queued before -/
theorem fwd_shift (cfg : Forward.Cfg) (fuel : Nat) (s : List Bytes) (pl : Option Parser) (raw : Bytes) :
    pipeLoop (fwdHooks cfg) fuel s pl raw =
      (s ++ (pipeLoop (fwdHooks cfg) fuel [] pl raw).1, (pipeLoop (fwdHooks cfg) fuel [] pl raw).2.1,
        (pipeLoop (fwdHooks cfg) fuel [] pl raw).2.2) := by
  induction fuel generalizing s pl raw with
  | zero => simp [pipeLoop]
  | succ f ih =>
    unfold pipeLoop
    by_cases he : raw.isEmpty = true
    · simp [he]
    · simp only [he, Bool.false_eq_true, if_false]
      have hb : ∀ s', (fwdHooks cfg).bypass s' pl raw =
          ((fwdHooks cfg).bypass [] pl raw).map (fun o => s' ++ o) := by
        intro s'
        unfold fwdHooks
        cases pl with
        | none => rfl
        | some p => simp only; split <;> simp
      rw [hb s]
      cases hbb : (fwdHooks cfg).bypass [] pl raw with
      | some o => simp
      | none =>
        simp only [Option.map_none]
        cases hp : Px.Parser.parse Forward.pcfg (pl.getD (init .request)) raw with
        | error e => simp
        | ok p' =>
          simp only
          by_cases hc : (p'.state == PState.complete) = true
          · simp only [hc, if_true]
            have hcm : ∀ s', (fwdHooks cfg).complete s' { p' with buffer := none } =
                (match (fwdHooks cfg).complete [] { p' with buffer := none } with
                 | .next o keep => .next (s' ++ o) keep
                 | .stop o keep e => .stop (s' ++ o) keep e) := by
              intro s'
              unfold fwdHooks
              simp only
              split <;> simp
            rw [hcm s]
            cases hcc : (fwdHooks cfg).complete [] { p' with buffer := none } with
            | stop o keep e => simp
            | next o keep =>
              simp only
              cases p'.buffer with
              | none => simp
              | some rest =>
                simp only
                rw [ih (s ++ o) keep rest, ih o keep rest]
                simp [List.append_assoc]
          · simp [hc]

theorem loopSegs_shift (cfg : Forward.Cfg) (segs : List Bytes) (s : List Bytes) (pl : Option Parser) :
    loopSegs (fwdHooks cfg) s pl segs =
      (s ++ (loopSegs (fwdHooks cfg) [] pl segs).1, (loopSegs (fwdHooks cfg) [] pl segs).2.1,
        (loopSegs (fwdHooks cfg) [] pl segs).2.2) := by
  induction segs generalizing s pl with
  | nil => simp [loopSegs]
  | cons x xs ih =>
    rw [loopSegs, loopSegs, fwd_shift cfg _ s pl x]
    rcases h : pipeLoop (fwdHooks cfg) (x.length + 1) [] pl x with ⟨o, pl1, e⟩
    cases e with
    | ok =>
      simp only
      rw [ih (s ++ o) pl1, ih o pl1]
      simp [List.append_assoc]
    | close => simp
    | raised => simp

/-- the segment-level run of an established exchange is the loop, segment by segment -/
theorem segRun_http (cfg : Forward.Cfg) (ok : Bool) (req : Parser) (segs : List Bytes) (pl : Option Parser)
    (out : List Bytes) (pl' : Option Parser)
    (h : loopSegs (fwdHooks cfg) [] pl segs = (out, pl', .ok)) :
    segRun cfg ok (.http req pl) segs = some (.http req pl', out.flatten, []) := by
  induction segs generalizing pl out with
  | nil =>
    simp only [loopSegs, Prod.mk.injEq] at h
    obtain ⟨rfl, rfl, _⟩ := h
    simp [segRun]
  | cons x xs ih =>
    rw [loopSegs] at h
    rcases hp : pipeLoop (fwdHooks cfg) (x.length + 1) [] pl x with ⟨o, pl1, e⟩
    rw [hp] at h
    cases e with
    | close => simp at h
    | raised => simp at h
    | ok =>
      simp only at h
      rw [loopSegs_shift] at h
      rcases h2 : loopSegs (fwdHooks cfg) [] pl1 xs with ⟨o2, pl2, e2⟩
      rw [h2] at h
      simp only [Prod.mk.injEq] at h
      obtain ⟨rfl, rfl, rfl⟩ := h
      have ha : appOf cfg ok (.http req pl) x = ⟨.http req pl1, .ok none none false, none, o, none⟩ := by
        simp only [appOf, pipeStep, hp, endApp]
      rw [segRun, ha]
      simp only [smooth, if_true, Bool.and_self]
      rw [ih pl1 o2 h2]
      simp [items, conns]

/-- requests with what they are forwarded as -/
def LaterAll (cfg : Forward.Cfg) (tl : Reqs) (qs : List Bytes) : Prop :=
  All₂ (fun r q => LaterOk cfg r.1 r.2 q) tl qs

theorem LaterAll.one {cfg : Forward.Cfg} {tl : Reqs} {qs : List Bytes} (h : LaterAll cfg tl qs) :
    ∀ r ∈ tl, oneReq r.1 = some r.2 := by
  induction h with
  | nil => simp
  | cons hr _ ih => intro r hr'; rcases List.mem_cons.1 hr' with rfl | h2; exact hr.1; exact ih r h2

theorem LaterAll.good {cfg : Forward.Cfg} {tl : Reqs} {qs : List Bytes} (h : LaterAll cfg tl qs) :
    ∀ r ∈ tl, ∀ s n, True →
      (fwdHooks cfg).complete s (withTotal r.2 n) = .next (fstepL cfg s (withTotal r.2 n)) none ∧ True := by
  induction h with
  | nil => simp
  | cons hr _ ih =>
    intro r hr' s n _
    rcases List.mem_cons.1 hr' with rfl | h2
    · exact ⟨fwd_good cfg hr s n, trivial⟩
    · exact ih r h2 s n trivial

theorem LaterAll.split {cfg : Forward.Cfg} {a b : Reqs} {qs : List Bytes} (h : LaterAll cfg (a ++ b) qs) :
    ∃ q1 q2, qs = q1 ++ q2 ∧ LaterAll cfg a q1 ∧ LaterAll cfg b q2 := by
  induction a generalizing qs with
  | nil => exact ⟨[], qs, rfl, .nil, h⟩
  | cons r a ih =>
    cases h with
    | cons hr ht =>
      obtain ⟨q1, q2, e, h1, h2⟩ := ih ht
      exact ⟨_ :: q1, q2, by rw [e]; rfl, .cons hr h1, h2⟩

/-- the elements queued by the loop for requests `rs`: what each is forwarded as -/
theorem foldl_emit {cfg : Forward.Cfg} {rs : Reqs} {qs : List Bytes} (h : LaterAll cfg rs qs) (ns : List Nat)
    (hn : ns.length = rs.length) (s : List Bytes) :
    (handed rs ns).foldl (fstepL cfg) s = s ++ qs := by
  induction h generalizing ns s with
  | nil => cases ns <;> simp [handed]
  | cons hr _ ih =>
    cases ns with
    | nil => simp at hn
    | cons n ns =>
      simp only [handed, List.foldl_cons]
      rw [ih ns (by simpa using hn)]
      simp [fstepL, emit_withTotal cfg hr n]

/-- **the whole stream, any packing (segment level).** -/
theorem segRun_stream (cfg : Forward.Cfg) (ok : Bool) (x₁ : Bytes) (P₁ : Parser) (a : Connect.Addr) (q₁ : Bytes)
    (tl : Reqs) (qs : List Bytes) (h1 : FirstOk cfg ok x₁ P₁ a q₁) (hl : LaterAll cfg tl qs)
    (segs : List Bytes) (hne : ∀ seg ∈ segs, seg ≠ []) (d : Bytes) (p : Parser) (hp : CanonP d p)
    (u : Bytes) (hx : x₁ = d ++ u) (hu : u ≠ []) (hflat : d ++ segs.flatten = x₁ ++ stream tl) :
    ∃ req, segRun cfg ok (.first p) segs = some (.http req none, q₁ ++ qs.flatten, [a]) := by
  induction segs generalizing d p u with
  | nil =>
    exfalso
    simp only [List.flatten_nil, List.append_nil] at hflat
    have := congrArg List.length hflat
    rw [hx] at this
    simp only [List.length_append] at this
    have : 0 < u.length := List.length_pos_iff.mpr hu
    omega
  | cons seg segs ih =>
    have hseg : seg ≠ [] := hne seg (by simp)
    have hst : seg ++ segs.flatten = u ++ stream tl := by
      have : d ++ (seg ++ segs.flatten) = d ++ (u ++ stream tl) := by
        simp only [List.flatten_cons] at hflat
        rw [hflat, hx, List.append_assoc]
      exact List.append_cancel_left this
    have hcase : (∃ a', a' ≠ [] ∧ u = seg ++ a' ∧ segs.flatten = a' ++ stream tl) ∨
        (∃ c, seg = u ++ c ∧ stream tl = c ++ segs.flatten) := by
      rcases List.append_eq_append_iff.1 hst with ⟨a', e1, e2⟩ | ⟨c, e1, e2⟩
      · by_cases ha : a' = []
        · subst ha
          exact .inr ⟨[], by simpa using e1.symm, by simpa using e2.symm⟩
        · exact .inl ⟨a', ha, e1, e2⟩
      · exact .inr ⟨c, e1, e2⟩
    rcases hcase with ⟨a', ha', hu', hrest⟩ | ⟨c, hsegc, htl⟩
    · -- the first request is still incomplete
      obtain ⟨p', hp', hc'⟩ := feed_within h1.1 hp (by rw [hx, hu', List.append_assoc]) ha' hseg
      have hnc : (p'.state != PState.complete) = true := by simpa using hc'.incomplete
      have happ : appOf cfg ok (.first p) seg = ⟨.first p', .ok none none false, none, [], none⟩ := by
        simp only [appOf, hp', hnc, if_true]
      obtain ⟨req, hr⟩ := ih (fun x hx' => hne x (by simp [hx'])) (d ++ seg) p' hc' a'
        (by rw [hx, hu', List.append_assoc]) ha'
        (by rw [List.append_assoc, hrest, hx, hu']; simp [List.append_assoc])
      refine ⟨req, ?_⟩
      rw [segRun, happ]
      simp only [smooth, if_true, Bool.and_self]
      rw [hr]
      simp [items, conns]
    · -- it completes in this segment, `c` is what follows it there
      obtain ⟨n, p', hp', hpst, hpbuf, hclr⟩ :=
        feed_complete h1.1 hp (show d ++ seg = x₁ ++ c by rw [hsegc, hx, List.append_assoc])
      have hnc : (p'.state != PState.complete) = false := by simp [hpst]
      have hfc : firstComplete cfg ok p' = .established a q₁ := by
        rw [parser_eta_buffer p', hclr, firstComplete_withTotal]; exact h1.2
      have hne' : ∀ x ∈ segs, x ≠ [] := fun x hx' => hne x (by simp [hx'])
      by_cases hc : c = []
      · subst hc
        have hb : p'.buffer = none := by simpa using hpbuf
        have happ : appOf cfg ok (.first p) seg = ⟨.http p' none, .ok none none false, some .http, [q₁], some a⟩ := by
          simp only [appOf, hp', hnc, Bool.false_eq_true, if_false, hfc, hb]
        obtain ⟨ns, hns, hloop⟩ := loopSegs_all (fwdHooks cfg) (fstepL cfg) (fun _ => True) (fwd_bypass cfg) segs hne' tl hl.one hl.good
          [] none ⟨.inl ⟨rfl, rfl⟩, fun _ => rfl⟩ (.inl rfl) (by simpa using htl.symm) [] trivial
        rw [foldl_emit hl ns hns] at hloop
        refine ⟨p', ?_⟩
        rw [segRun, happ]
        simp only [smooth, if_true, Bool.and_self, beq_self_eq_true]
        rw [segRun_http cfg ok p' segs none _ none hloop]
        simp [items, conns]
      · have hcE : c.isEmpty = false := by simpa using hc
        have hb : p'.buffer = some c := by simpa [hcE] using hpbuf
        -- the leftover goes through the loop at once
        obtain ⟨done, rs', ns, d', pl', e1, e2, e3, e4, e5, e6, _⟩ :=
          pipeLoop_stream (fwdHooks cfg) (fstepL cfg) (fun _ => True) (fwd_bypass cfg) tl hl.one hl.good [] c
            segs.flatten none ⟨.inl ⟨rfl, rfl⟩, fun _ => rfl⟩ (.inl rfl) hc (by simpa using htl.symm)
            (c.length + 1) (by omega) [] trivial
        rw [e1] at hl
        obtain ⟨qd, qr, eq, hld, hlr⟩ := hl.split
        rw [foldl_emit hld ns e2] at e3
        have happ : appOf cfg ok (.first p) seg =
            ⟨.http { p' with buffer := none } pl', .ok none none false, some .http, q₁ :: ([] ++ qd), some a⟩ := by
          simp only [appOf, hp', hnc, Bool.false_eq_true, if_false, hfc, hb, pipeStep, e3, endApp]
        -- the remaining segments
        obtain ⟨ns2, hns2, hloop⟩ := loopSegs_all (fwdHooks cfg) (fstepL cfg) (fun _ => True) (fwd_bypass cfg) segs hne' rs' hlr.one
          hlr.good d' pl' e4 e5 (by simpa using e6) [] trivial
        rw [foldl_emit hlr ns2 hns2] at hloop
        refine ⟨{ p' with buffer := none }, ?_⟩
        rw [segRun, happ]
        simp only [smooth, if_true, Bool.and_self, beq_self_eq_true]
        rw [segRun_http cfg ok _ segs pl' _ none hloop]
        simp [items, conns, eq, List.append_assoc]

end Px.Persist
