import PxModel.Bytes
import PxModel.PyInt
import PxProofs.BytesLemmas
/-!
# Number rendering / parsing round trips (C15, used by C02)

* `scanDigits_digits`, `pyInt_digits` : `int(s, base)` of a non-empty string of digits of the base
  (no sign, no prefix, no underscore) is its positional value `digitsVal`;
* `natToHex_eq`, `pyInt16_natToHex`   : `int('{:x}'.format(n), 16) == n` for every `n`;
* `natToDec_eq`, `pyInt10_natToDec`   : `int(str(n)) == n` for every `n` below CPython's
  int-max-str-digits limit (the model's `pyInt 10` refuses longer texts, as CPython does);
* digit strings contain no CR / LF / `;` / `:` / SP / whitespace.
Everything by induction on the digit string / on `n`; no evaluation on samples.
-/
namespace Px

/-! ### `ByteArray.toList` (needed to see through `natToDec`) -/

theorem byteArray_toList_loop_eq (bs : ByteArray) (i : Nat) (r : List UInt8) :
    ByteArray.toList.loop bs i r = r.reverse ++ bs.data.toList.drop i := by
  have hsz : bs.data.toList.length = bs.size := by rw [Array.length_toList]; rfl
  induction h : bs.size - i generalizing i r with
  | zero =>
    rw [ByteArray.toList.loop]
    have h1 : ¬ i < bs.size := by omega
    rw [if_neg h1, List.drop_eq_nil_of_le (by omega), List.append_nil]
  | succ k ih =>
    rw [ByteArray.toList.loop]
    have hi : i < bs.size := by omega
    rw [if_pos hi, ih (i + 1) _ (by omega)]
    have hi' : i < bs.data.toList.length := by omega
    rw [List.drop_eq_getElem_cons hi', List.reverse_cons, List.append_assoc]
    congr 2
    simp only [List.singleton_append, List.cons.injEq, and_true]
    show bs.get! i = _
    simp only [ByteArray.get!, Array.getElem_toList]
    exact getElem!_pos bs.data i _

theorem byteArray_toList_eq (bs : ByteArray) : bs.toList = bs.data.toList := by
  simp [ByteArray.toList, byteArray_toList_loop_eq]

/-! ### digits of a base -/

/-- positional value of a digit string, most significant digit first -/
def digitsVal (base : Nat) (acc : Nat) (ds : Bytes) : Nat :=
  ds.foldl (fun a c => a * base + (digitVal c).getD 0) acc

@[simp] theorem digitsVal_nil (base acc : Nat) : digitsVal base acc [] = acc := rfl
@[simp] theorem digitsVal_cons (base acc : Nat) (c : UInt8) (cs : Bytes) :
    digitsVal base acc (c :: cs) = digitsVal base (acc * base + (digitVal c).getD 0) cs := rfl
theorem digitsVal_append (base acc : Nat) (a b : Bytes) :
    digitsVal base acc (a ++ b) = digitsVal base (digitsVal base acc a) b := by
  simp [digitsVal]

/-- ASCII letters and digits: the only bytes `int()` ever reads as digits -/
def alnumNat (n : Nat) : Prop := (48 ≤ n ∧ n ≤ 57) ∨ (97 ≤ n ∧ n ≤ 122) ∨ (65 ≤ n ∧ n ≤ 90)

theorem isDigitIn_alnum {base : Nat} {c : UInt8} (h : isDigitIn base c = true) : alnumNat c.toNat := by
  unfold isDigitIn digitVal at h
  unfold alnumNat
  split at h
  · rename_i v hv
    split at hv
    · rename_i h1
      simp only [Bool.and_eq_true, decide_eq_true_eq, UInt8.le_iff_toNat_le] at h1
      exact .inl ⟨by simpa using h1.1, by simpa using h1.2⟩
    · split at hv
      · rename_i h1
        simp only [Bool.and_eq_true, decide_eq_true_eq, UInt8.le_iff_toNat_le] at h1
        exact .inr (.inl ⟨by simpa using h1.1, by simpa using h1.2⟩)
      · split at hv
        · rename_i h1
          simp only [Bool.and_eq_true, decide_eq_true_eq, UInt8.le_iff_toNat_le] at h1
          exact .inr (.inr ⟨by simpa using h1.1, by simpa using h1.2⟩)
        · simp at hv
  · simp at h

theorem alnum_ne {c : UInt8} (h : alnumNat c.toNat) (k : UInt8) (hk : ¬ alnumNat k.toNat) : c ≠ k := by
  intro e; subst e; exact hk h

theorem alnum_not_ws {c : UInt8} (h : alnumNat c.toNat) : isWs c = false := by
  unfold alnumNat at h
  simp only [isWs, Bool.or_eq_false_iff, beq_eq_false_iff_ne, ne_eq, ← UInt8.toNat_inj]
  simp; omega

/-- a byte that `int()` reads as a digit is none of the bytes with a syntactic role in HTTP -/
theorem isDigitIn_plain {base : Nat} {c : UInt8} (h : isDigitIn base c = true) :
    isWs c = false ∧ c ≠ 13 ∧ c ≠ 10 ∧ c ≠ 32 ∧ c ≠ 58 ∧ c ≠ 59 ∧ c ≠ 95 ∧ c ≠ 43 ∧ c ≠ 45 := by
  have ha := isDigitIn_alnum h
  refine ⟨alnum_not_ws ha, ?_, ?_, ?_, ?_, ?_, ?_, ?_, ?_⟩ <;>
    exact alnum_ne ha _ (by unfold alnumNat; simp)

/-- `x` and `X` are not hexadecimal digits (so a digit string has no `0x` prefix) -/
theorem isDigitIn16_not_x {c : UInt8} (h : isDigitIn 16 c = true) : c ≠ 120 ∧ c ≠ 88 := by
  constructor <;> (intro e; subst e; revert h; decide)

theorem scanDigits_digits (base : Nat) (ds rest : Bytes) (hne : ds ≠ [])
    (h : ∀ c ∈ ds, isDigitIn base c = true) (acc n prev : Nat) :
    scanDigits base (ds ++ rest) acc n prev =
      scanDigits base rest (digitsVal base acc ds) (n + ds.length) 1 := by
  induction ds generalizing acc n prev with
  | nil => exact absurd rfl hne
  | cons c cs ih =>
    have hc := h c (by simp)
    have h95 : (c == 95) = false := by simpa using (isDigitIn_plain hc).2.2.2.2.2.2.1
    simp only [List.cons_append, scanDigits, h95, hc, if_true, Bool.false_eq_true, if_false]
    by_cases hcs : cs = []
    · subst hcs; simp
    · rw [ih hcs (fun d hd => h d (List.mem_cons_of_mem _ hd))]
      simp only [digitsVal_cons, List.length_cons]
      congr 1; omega

/-- the sign `match` of `pyInt` on a text that starts with neither `+` nor `-` -/
theorem pyInt_sign_match (c : UInt8) (cs : Bytes) (hp : c ≠ 43) (hm : c ≠ 45) :
    pyInt.match_1 (fun _ => Bool × List UInt8) (c :: cs) (fun r => (false, r)) (fun r => (true, r))
      (fun _ => (false, c :: cs)) = (false, c :: cs) := by
  split
  · rename_i r heq; simp only [List.cons.injEq] at heq; exact absurd heq.1 hp
  · rename_i r heq; simp only [List.cons.injEq] at heq; exact absurd heq.1 hm
  · rfl

/-- the `0x` prefix `match` of `pyInt` on a text whose second byte is not `x` / `X` -/
theorem pyInt_prefix_match (s : Bytes) (h : ∀ c ∈ s, c ≠ 120 ∧ c ≠ 88) :
    pyInt.match_6 (fun _ => List UInt8) s
      (fun x r => if (x == 120 || x == 88) = true then
        pyInt.match_4 (fun _ => List UInt8) r (fun r' => r') (fun _ => r) else s)
      (fun _ => s) = s := by
  split
  · rename_i x r
    have := h x (by simp)
    simp [this.1, this.2]
  · rfl

/-- `int(s, 16)` of a non-empty string of hexadecimal digits (either case, leading zeros allowed) -/
theorem pyInt16_digits (s : Bytes) (hne : s ≠ []) (h : ∀ c ∈ s, isDigitIn 16 c = true) :
    pyInt 16 s = some (Int.ofNat (digitsVal 16 0 s)) := by
  obtain ⟨c, cs, rfl⟩ := List.exists_cons_of_ne_nil hne
  have hc := h c (by simp)
  obtain ⟨hws, -, -, -, -, -, -, hplus, hminus⟩ := isDigitIn_plain hc
  have hl : lstrip (c :: cs) = c :: cs := lstrip_of_head hws
  have hsc := scanDigits_digits 16 (c :: cs) [] hne h 0 0 0
  rw [List.append_nil] at hsc
  unfold pyInt
  simp only [hl, pyInt_sign_match c cs hplus hminus, beq_self_eq_true, if_true,
    pyInt_prefix_match (c :: cs) (fun d hd => isDigitIn16_not_x (h d hd)), hsc]
  simp [scanDigits, lstrip]

/-- `int(s)` of a non-empty string of decimal digits not longer than int-max-str-digits -/
theorem pyInt10_digits (s : Bytes) (hne : s ≠ []) (h : ∀ c ∈ s, isDigitIn 10 c = true)
    (hlen : s.length ≤ intMaxStrDigits) :
    pyInt 10 s = some (Int.ofNat (digitsVal 10 0 s)) := by
  obtain ⟨c, cs, rfl⟩ := List.exists_cons_of_ne_nil hne
  have hc := h c (by simp)
  obtain ⟨hws, -, -, -, -, -, -, hplus, hminus⟩ := isDigitIn_plain hc
  have hl : lstrip (c :: cs) = c :: cs := lstrip_of_head hws
  have hsc := scanDigits_digits 10 (c :: cs) [] hne h 0 0 0
  rw [List.append_nil] at hsc
  have h16 : ((10 : Nat) == 16) = false := by decide
  unfold pyInt
  simp only [hl, pyInt_sign_match c cs hplus hminus, h16, Bool.false_eq_true, if_false, hsc]
  simp only [List.length_cons] at hlen
  simp [scanDigits, lstrip]
  exact hlen

/-! ### `'{:x}'.format(n)` -/

/-- lower-case hexadecimal digits of `n`, most significant first (specification of `natToHex`) -/
def hexDigits (n : Nat) : Bytes :=
  if n < 16 then [hexDigit n] else hexDigits (n / 16) ++ [hexDigit (n % 16)]
termination_by n
decreasing_by omega

theorem natToHexAux_eq (fuel n : Nat) (acc : Bytes) (h : n < fuel) :
    natToHexAux fuel n acc = hexDigits n ++ acc := by
  induction fuel generalizing n acc with
  | zero => omega
  | succ fuel ih =>
    rw [natToHexAux, hexDigits]
    by_cases hn : n < 16
    · simp [hn]
    · simp only [hn, if_false]
      rw [ih (n / 16) _ (by omega)]
      simp

theorem natToHex_eq (n : Nat) : natToHex n = hexDigits n := by
  rw [natToHex, natToHexAux_eq _ _ _ (Nat.lt_succ_self n), List.append_nil]

theorem hexDigit_spec : ∀ d : Fin 16,
    isDigitIn 16 (hexDigit d.val) = true ∧ digitVal (hexDigit d.val) = some d.val := by decide

theorem hexDigits_ne_nil (n : Nat) : hexDigits n ≠ [] := by
  rw [hexDigits]; split <;> simp

theorem hexDigits_isDigit (n : Nat) : ∀ c ∈ hexDigits n, isDigitIn 16 c = true := by
  induction n using Nat.strongRecOn with
  | ind n ih =>
    rw [hexDigits]
    by_cases hn : n < 16
    · simp only [hn, if_true, List.mem_singleton]
      rintro c rfl; exact (hexDigit_spec ⟨n, hn⟩).1
    · simp only [hn, if_false, List.mem_append, List.mem_singleton]
      rintro c (hc | rfl)
      · exact ih (n / 16) (by omega) c hc
      · exact (hexDigit_spec ⟨n % 16, Nat.mod_lt _ (by omega)⟩).1

theorem hexDigits_val (n : Nat) : digitsVal 16 0 (hexDigits n) = n := by
  induction n using Nat.strongRecOn with
  | ind n ih =>
    rw [hexDigits]
    by_cases hn : n < 16
    · simp [hn, (hexDigit_spec ⟨n, hn⟩).2]
    · simp only [hn, if_false, digitsVal_append, ih (n / 16) (by omega), digitsVal_cons, digitsVal_nil]
      rw [(hexDigit_spec ⟨n % 16, Nat.mod_lt _ (by omega)⟩).2]
      simp only [Option.getD_some]
      omega

/-- **hex round trip**: `int('{:x}'.format(n), 16) == n` for every `n` -/
theorem pyInt16_natToHex (n : Nat) : pyInt 16 (natToHex n) = some (Int.ofNat n) := by
  rw [natToHex_eq, pyInt16_digits _ (hexDigits_ne_nil n) (hexDigits_isDigit n), hexDigits_val]

theorem natToHex_ne_nil (n : Nat) : natToHex n ≠ [] := natToHex_eq n ▸ hexDigits_ne_nil n

theorem natToHex_isDigit (n : Nat) : ∀ c ∈ natToHex n, isDigitIn 16 c = true :=
  natToHex_eq n ▸ hexDigits_isDigit n

/-! ### `str(n)` -/

/-- decimal digits of `n`, most significant first (specification of `natToDec`) -/
def decDigits (n : Nat) : Bytes :=
  if n < 10 then [UInt8.ofNat (48 + n)] else decDigits (n / 10) ++ [UInt8.ofNat (48 + n % 10)]
termination_by n
decreasing_by omega

theorem utf8_digitChar : ∀ d : Fin 10,
    String.utf8EncodeChar (Nat.digitChar d.val) = [UInt8.ofNat (48 + d.val)] := by decide

theorem flatMap_toDigits (n : Nat) :
    (Nat.toDigits 10 n).flatMap String.utf8EncodeChar = decDigits n := by
  induction n using Nat.strongRecOn with
  | ind n ih =>
    rw [Nat.toDigits_eq_if (by decide), decDigits]
    by_cases hn : n < 10
    · simp only [hn, if_true, List.flatMap_cons, List.flatMap_nil, List.append_nil]
      exact utf8_digitChar ⟨n, hn⟩
    · simp only [hn, if_false, List.flatMap_append, ih (n / 10) (by omega), List.flatMap_cons,
        List.flatMap_nil, List.append_nil]
      rw [utf8_digitChar ⟨n % 10, Nat.mod_lt _ (by decide)⟩]

/-- `natToDec` (defined through `toString`) is the digit-by-digit rendering -/
theorem natToDec_eq (n : Nat) : natToDec n = decDigits n := by
  unfold natToDec
  rw [byteArray_toList_eq, Nat.toString_eq_ofList_toDigits]
  show (String.ofList (Nat.toDigits 10 n)).toByteArray.data.toList = _
  rw [String.toByteArray_ofList]
  show ((Nat.toDigits 10 n).flatMap String.utf8EncodeChar).toByteArray.data.toList = _
  rw [List.toList_data_toByteArray, flatMap_toDigits]

theorem decDigit_spec : ∀ d : Fin 10,
    isDigitIn 10 (UInt8.ofNat (48 + d.val)) = true ∧ digitVal (UInt8.ofNat (48 + d.val)) = some d.val := by
  decide

theorem decDigits_ne_nil (n : Nat) : decDigits n ≠ [] := by
  rw [decDigits]; split <;> simp

theorem decDigits_isDigit (n : Nat) : ∀ c ∈ decDigits n, isDigitIn 10 c = true := by
  induction n using Nat.strongRecOn with
  | ind n ih =>
    rw [decDigits]
    by_cases hn : n < 10
    · simp only [hn, if_true, List.mem_singleton]
      rintro c rfl; exact (decDigit_spec ⟨n, hn⟩).1
    · simp only [hn, if_false, List.mem_append, List.mem_singleton]
      rintro c (hc | rfl)
      · exact ih (n / 10) (by omega) c hc
      · exact (decDigit_spec ⟨n % 10, Nat.mod_lt _ (by omega)⟩).1

theorem decDigits_val (n : Nat) : digitsVal 10 0 (decDigits n) = n := by
  induction n using Nat.strongRecOn with
  | ind n ih =>
    rw [decDigits]
    by_cases hn : n < 10
    · simp only [hn, if_true, digitsVal_cons, digitsVal_nil]
      rw [(decDigit_spec ⟨n, hn⟩).2]; simp
    · simp only [hn, if_false, digitsVal_append, ih (n / 10) (by omega), digitsVal_cons, digitsVal_nil]
      rw [(decDigit_spec ⟨n % 10, Nat.mod_lt _ (by omega)⟩).2]
      simp only [Option.getD_some]
      omega

theorem decDigits_length_le (n k : Nat) (hk : 0 < k) (h : n < 10 ^ k) : (decDigits n).length ≤ k := by
  induction k generalizing n with
  | zero => omega
  | succ k ih =>
    rw [decDigits]
    by_cases hn : n < 10
    · simp [hn]
    · simp only [hn, if_false, List.length_append, List.length_singleton]
      have hk0 : 0 < k := by
        rcases Nat.eq_zero_or_pos k with rfl | h0
        · simp at h; omega
        · exact h0
      have : n / 10 < 10 ^ k := by
        rw [Nat.div_lt_iff_lt_mul (by decide)]; rw [Nat.pow_succ] at h; exact h
      have := ih (n / 10) hk0 this
      omega

/-- **decimal round trip**: `int(str(n)) == n` for every `n` with at most int-max-str-digits digits
    (CPython refuses longer decimal texts; so does the model) -/
theorem pyInt10_natToDec (n : Nat) (h : n < 10 ^ intMaxStrDigits) :
    pyInt 10 (natToDec n) = some (Int.ofNat n) := by
  rw [natToDec_eq, pyInt10_digits _ (decDigits_ne_nil n) (decDigits_isDigit n)
    (decDigits_length_le n _ (by decide) h), decDigits_val]

theorem natToDec_ne_nil (n : Nat) : natToDec n ≠ [] := natToDec_eq n ▸ decDigits_ne_nil n

theorem natToDec_isDigit (n : Nat) : ∀ c ∈ natToDec n, isDigitIn 10 c = true :=
  natToDec_eq n ▸ decDigits_isDigit n

/-- the guard of `pyInt10_natToDec` is satisfied by every length that can occur -/
example : (300000 : Nat) < 10 ^ intMaxStrDigits := by
  have : (10 : Nat) ^ 6 ≤ 10 ^ intMaxStrDigits := Nat.pow_le_pow_right (by decide) (by decide)
  omega

/-! ### digit strings are plain text -/

theorem digits_noCRLF {base : Nat} {s : Bytes} (h : ∀ c ∈ s, isDigitIn base c = true) (t : Bytes)
    (ht : splitCRLF t = none) : splitCRLF (s ++ t) = none := by
  induction s with
  | nil => simpa using ht
  | cons c cs ih =>
    have hc := isDigitIn_plain (h c (by simp))
    have ih' := ih (fun d hd => h d (List.mem_cons_of_mem _ hd))
    cases hcs : cs ++ t with
    | nil => simp [hcs]
    | cons d r =>
      simp only [List.cons_append, hcs, splitCRLF]
      have : (c == 13 && d == 10) = false := by simp [hc.2.1]
      rw [this]; simp only [Bool.false_eq_true, if_false]
      rw [← hcs, ih']

end Px
