import PxModel.Parser
import PxModel.Build
/-
  Model of HttpParser.update_body(body, content_type) (proxy/http/parser/parser.py)
  as the code is now.  `gzip.compress` is a parameter `gz : Bytes → Bytes`
  (its output is not byte-deterministic across zlib builds / clock values, and
  nothing but `gunzip ∘ gz = id` is ever needed about it).

  Branch by branch:
    * `content-encoding` present and equal to `gzip` (exact bytes, no case folding,
      no stripping beyond what the parser did) → body is compressed;
      present with any other value → the header is deleted;
    * chunked message → `self.body` becomes `to_chunks(body)` (default chunk size)
      and `content-length` is deleted; otherwise `Content-Length: len(body)` is set;
    * `Content-Type` is set last.
  NOTE (finding D23): for a chunked message `self.body` now holds the *encoded*
  stream while `_is_chunked_encoded` stays true, so `build()` / `build_response()`
  chunk-encode it a second time.  The model reproduces this.
-/
namespace Px.UpdateBody

open Px.Parser

inductive Err | valueError
  deriving DecidableEq, Repr

/-- `HttpParser.update_body(body, content_type)` -/
def updateBody (gz : Bytes → Bytes) (bufSize : Nat) (p : Parser) (body ct : Bytes) : Except Err Parser :=
  -- content-encoding
  let (p, body) : Parser × Bytes :=
    if hasHeader p (b "content-encoding") then
      match header p (b "content-encoding") with
      | .ok v => if v == b "gzip" then (p, gz body) else (delHeader p (b "content-encoding"), body)
      | .error _ => (p, body)     -- unreachable: has_header was true
    else (p, body)
  -- transfer-encoding
  let r : Except Err (Parser × Bytes) :=
    if p.isChunked then
      match Px.Chunk.toChunks body bufSize with
      | .ok x => .ok (delHeader p (b "content-length"), x)
      | .error _ => .error .valueError
    else .ok (addHeader p (b "Content-Length") (natToDec body.length), body)
  match r with
  | .error e => .error e
  | .ok (p, body) => .ok (addHeader { p with body := some body } (b "Content-Type") ct)

end Px.UpdateBody
