import PxModel.Reverse
import PxProofs.ReverseLemmas
/-!
# C12 — reverse proxy routes matching requests to a configured upstream

Property theorems only; helper lemmas are in `PxProofs/ReverseLemmas.lean`.
The model (`PxModel/Reverse.lean`, on top of `Url`, `Parser`, `Build`, `Conn`)
is tied to `proxy/http/server/{reverse,web,plugin}.py` and
`proxy/core/base/tcp_upstream.py` by the correspondence check `harness/c12.py`.

All theorems hold for every route table (any number of plugins and routes,
static and dynamic), every match table (`m`, what `re` says about the request
path), every `random.choice` outcome (`pick`), every request and both settings
of `--rewrite-host-header`.

Selection order found in the code (and proved in `C12_selection`): every plugin
is visited in order; inside a plugin the *first* matching route is taken
(`break`); a matching literal route queues its response at once; the URL used
is that of the *last* plugin whose first matching route yields a URL.
-/
namespace Px.Reverse

open Px.Parser (Parser Headers)
open Px.Url (Url utf8Valid)
open Px.Build (rebuildHeaders buildRequest bodyOrChunks)

/-- the request path decodes as UTF-8 (otherwise the request is answered with 400, `C12_bad_path_400`) -/
def PathOk (req : Parser) : Prop := utf8Valid (webPath req) = true

/-- `emit_request_complete()` returns normally: events are off, or the request has a Host field
    and its Host value, path, method and header names/values decode as UTF-8 -/
def EmitOk (events : Bool) (req : Parser) : Prop := emitRequestComplete events req = none

theorem emitOk_of_events_off (req : Parser) : EmitOk false req := by
  simp [EmitOk, emitRequestComplete]

theorem onRequestCompleteEv_eq (cfg : Cfg) (ev : Bool) (m : Nat → Bool) (pick : Nat → Nat) (connectOk : Bool)
    (t : Table) (req : Parser) (s : St) (h : EmitOk ev req) :
    onRequestCompleteEv cfg ev m pick connectOk t req s = onRequestComplete cfg m pick connectOk t req s := by
  unfold onRequestCompleteEv onRequestComplete; rw [h]

theorem onRequestCompleteEv_route (cfg : Cfg) (ev : Bool) (m : Nat → Bool) (pick : Nat → Nat) (connectOk : Bool)
    (t : Table) (req : Parser) (s : St) (hp : PathOk req) (h : EmitOk ev req) :
    onRequestCompleteEv cfg ev m pick connectOk t req s = routeRequest cfg m pick connectOk t req s := by
  unfold onRequestCompleteEv; rw [h, hp]; rfl

/-- **C12 undecodable path ⇒ 400, no upstream.**  A request whose path is not valid UTF-8 is
answered with exactly the generated `BAD_REQUEST_RESPONSE_PKT` and torn down before
`emit_request_complete()` and before any routing: whatever the route table, the match table,
the events setting and the connect outcome are, nothing is connected and no upstream exists. -/
theorem C12_bad_path_400 (cfg : Cfg) (ev : Bool) (m : Nat → Bool) (pick : Nat → Nat) (connectOk : Bool)
    (t : Table) (req : Parser) (s : St) (hbad : utf8Valid (webPath req) = false) :
    onRequestCompleteEv cfg ev m pick connectOk t req s =
      ⟨{ s with client := s.client.queue cfg.badRequest }, true, none⟩ ∧
    (onRequestCompleteEv cfg ev m pick connectOk t req s).st.connects = s.connects ∧
    (onRequestCompleteEv cfg ev m pick connectOk t req s).st.upstream = s.upstream ∧
    ({} : Cfg).badRequest = Px.Gen.pkt_BAD_REQUEST_RESPONSE_PKT ∧
    startsWith Px.Gen.pkt_BAD_REQUEST_RESPONSE_PKT (b "HTTP/1.1 400 ") = true := by
  have h : onRequestCompleteEv cfg ev m pick connectOk t req s =
      ⟨{ s with client := s.client.queue cfg.badRequest }, true, none⟩ := by
    unfold onRequestCompleteEv; rw [hbad]; rfl
  exact ⟨h, by rw [h], by rw [h], rfl, by decide +kernel⟩

/-- **C12 events are a no-op for forwarding.**  `emit_request_complete()` publishes a copy and hands
the unchanged request on: whenever it does not raise, `--enable-events` changes nothing about what
is connected, forwarded, queued or torn down (the correspondence checks that the implementation
indeed leaves the request untouched). -/
theorem C12_events_noop (cfg : Cfg) (m : Nat → Bool) (pick : Nat → Nat) (connectOk : Bool) (t : Table)
    (req : Parser) (s : St) (h : EmitOk true req) :
    onRequestCompleteEv cfg true m pick connectOk t req s =
      onRequestCompleteEv cfg false m pick connectOk t req s := by
  rw [onRequestCompleteEv_eq cfg true m pick connectOk t req s h,
      onRequestCompleteEv_eq cfg false m pick connectOk t req s (emitOk_of_events_off req)]

/-- a request as the web server plugin sees it: origin-form target, so `path` is set -/
def WebReq (req : Parser) : Prop := req.path.isSome = true ∧ PathOk req

/-- **C12 no route ⇒ 404.**  When no registered route matches the path the
client is queued exactly the generated `NOT_FOUND_RESPONSE_PKT`, the
connection is torn down, nothing is connected or wrapped and no upstream
exists — whatever the table, the `random.choice` outcomes, the connect outcome
and the request are. -/
theorem C12_no_route_404 (cfg : Cfg) (ev : Bool) (m : Nat → Bool) (pick : Nat → Nat) (connectOk : Bool) (t : Table)
    (req : Parser) (s : St) (hev : EmitOk ev req) (hp : PathOk req) (hno : anyMatch m t = false) :
    onRequestCompleteEv cfg ev m pick connectOk t req s =
      ⟨{ s with client := s.client.queue cfg.notFound }, true, none⟩ ∧
    (onRequestCompleteEv cfg ev m pick connectOk t req s).st.connects = s.connects ∧
    (onRequestCompleteEv cfg ev m pick connectOk t req s).st.upstream = s.upstream ∧
    ({} : Cfg).notFound = Px.Gen.pkt_NOT_FOUND_RESPONSE_PKT := by
  have h : onRequestCompleteEv cfg ev m pick connectOk t req s =
      ⟨{ s with client := s.client.queue cfg.notFound }, true, none⟩ := by
    rw [onRequestCompleteEv_route _ _ _ _ _ _ _ _ hp hev]
    unfold routeRequest
    simp only [hno, Bool.false_eq_true, if_false]
  exact ⟨h, by rw [h], by rw [h], rfl⟩

/-- the generated 404 packet is what the property calls a 404 (re-checked against
    the constant dumped from `proxy/http/responses.py` on every run) -/
theorem C12_404_packet :
    startsWith Px.Gen.pkt_NOT_FOUND_RESPONSE_PKT (b "HTTP/1.1 404 ") = true ∧
    (Px.Gen.pkt_NOT_FOUND_RESPONSE_PKT.reverse.take 4).reverse = CRLF ++ CRLF := by
  decide +kernel

/-- **C12 selection order.**  When no matching branch raises, the routes loop
ends with: the literal responses of all hits queued to the client in plugin
order, `self.choice` = the URL of the last URL-yielding hit, `needs_upstream`
= some hit yields a URL.  (`hits` = per plugin in order, its first matching
route; see `C12_hits_sound`.) -/
theorem C12_selection (cfg : Cfg) (m : Nat → Bool) (pick : Nat → Nat) (t : Table) (s : St)
    (hc : Clean cfg pick (hits m 0 t)) :
    routeLoop cfg m pick 0 t s false =
      ({ s with choice := (((hits m 0 t).filterMap (urlOf cfg pick)).getLast?).or s.choice,
                client := { s.client with buffer := s.client.buffer ++ (hits m 0 t).filterMap (litOf cfg pick) } },
       !((hits m 0 t).filterMap (urlOf cfg pick)).isEmpty, none) := by
  rw [routeLoop_clean cfg m pick t 0 s false hc]; simp [afterRoutes]

/-- every hit is a route of the table, at the stated plugin position, whose
pattern matches, and it is the first such route of its plugin; conversely every
plugin with a matching route contributes its first matching route. -/
theorem C12_hits_sound (m : Nat → Bool) (t : Table) (j : Nat) (r : Route) :
    (j, r) ∈ hits m 0 t ↔ ∃ p, t[j]? = some p ∧ p.find? (fun r => m r.pat) = some r := by
  rw [hits_mem]; simp [firstMatch]

/-- the guard under which `request.build()` succeeds -/
def Buildable (req : Parser) (mth ver : Bytes) : Prop :=
  req.method = some mth ∧ mth ≠ [] ∧ req.version = some ver ∧ ver ≠ [] ∧ req.ty = .request

/-- a usable upstream: it names a host that can be decoded -/
def HostOk (u : Url) (h : Bytes) : Prop := u.hostname = some h ∧ h ≠ [] ∧ utf8Valid h = true

/-- **C12 connect host.**  The host handed to the socket layer is the URL's
hostname, except that an IPv6 literal `[addr]` is connected as the bare `addr`
(fix a37014e); any hostname not of the form `[…]` is used as is. -/
theorem C12_connect_host :
    (∀ a : Bytes, connectHost ([Px.Url.LBR] ++ a ++ [Px.Url.RBR]) = a) ∧
    (∀ h : Bytes, h.head? ≠ some Px.Url.LBR → connectHost h = h) ∧
    (∀ h : Bytes, h.getLast? ≠ some Px.Url.RBR → connectHost h = h) ∧
    connectHost (b "[::1]") = b "::1" ∧ connectHost (b "up1.test") = b "up1.test" := by
  refine ⟨?_, ?_, ?_, by decide +kernel, by decide +kernel⟩
  · intro a
    have h1 : ([Px.Url.LBR] ++ a ++ [Px.Url.RBR]).head? = some Px.Url.LBR := by simp
    have h2 : ([Px.Url.LBR] ++ a ++ [Px.Url.RBR]).getLast? = some Px.Url.RBR := List.getLast?_concat
    simp only [connectHost, h1, h2, beq_self_eq_true, Bool.and_self, if_true]
    simp
  · intro h hh
    have : (h.head? == some Px.Url.LBR) = false := by simpa using hh
    simp [connectHost, this]
  · intro h hh
    have : (h.getLast? == some Px.Url.RBR) = false := by simpa using hh
    simp [connectHost, this]

/-- **C12 target.**  For a web request, when no matching branch raises and the
last URL-yielding hit yields `u` (naming host `h`): exactly one address is
handed to the socket layer, `(connectHost h, port u or 80/443 by scheme)` —
the hostname, without its brackets if it is an IPv6 literal (`C12_connect_host`);
TLS is requested (for the hostname as written) exactly for the `https` scheme; the upstream is queued exactly one packet,
`build_http_request(method, path(u) or "/", version, headers, body)` with the
client's method and version, the header dict of `C12_host_rewrite` /
`C12_headers_preserved` and the client's (re-chunked if chunked) body; the
connection is not torn down; the client has been queued only the literal
responses of literal hits. -/
theorem C12_target (cfg : Cfg) (ev : Bool) (m : Nat → Bool) (pick : Nat → Nat) (t : Table) (req : Parser) (s : St)
    (u : Url) (h mth ver : Bytes)
    (hev : EmitOk ev req) (hweb : WebReq req) (hany : anyMatch m t = true)
    (hc : Clean cfg pick (hits m 0 t))
    (hw : ((hits m 0 t).filterMap (urlOf cfg pick)).getLast? = some u)
    (hh : HostOk u h) (hb : Buildable req mth ver) (hn : cfg.bufSize ≠ 0) :
    ∃ body, bodyOrChunks cfg.bufSize req = .ok body ∧
      (req.isChunked = false → body = req.body) ∧
      onRequestCompleteEv cfg ev m pick true t req s =
        ⟨{ s with
            choice := some u,
            client := { s.client with buffer := s.client.buffer ++ (hits m 0 t).filterMap (litOf cfg pick) },
            upstream := some ⟨[buildRequest [] mth (fwdPath u) ver none (fwdHeaders cfg req (hostArg cfg u h))
                                 body false true], false⟩,
            connects := s.connects ++ [(connectHost h, portOf cfg u)],
            wraps := if u.scheme == some cfg.httpsProto then s.wraps ++ [h] else s.wraps },
         false, none⟩ := by
  obtain ⟨body, hbody, hb1, _⟩ := bodyOrChunks_ok cfg.bufSize hn req
  refine ⟨body, hbody, hb1, ?_⟩
  obtain ⟨hm, hmne, hv, hvne, hty⟩ := hb
  obtain ⟨hh1, hh2, hh3⟩ := hh
  have hpkt := build_shape cfg req u (hostArg cfg u h) mth ver body hm hmne hv hvne hty hbody
  have hpath : req.path.isNone = false := by
    have := hweb.1; cases hq : req.path <;> simp_all
  have hne : ((hits m 0 t).filterMap (urlOf cfg pick)).isEmpty = false := by
    cases hl : (hits m 0 t).filterMap (urlOf cfg pick) with
    | nil => rw [hl] at hw; simp at hw
    | cons _ _ => rfl
  rw [onRequestCompleteEv_route _ _ _ _ _ _ _ _ hweb.2 hev]
  unfold routeRequest
  simp only [hany, if_true]
  unfold handleRequest
  simp only [hpath, Bool.false_and, Bool.false_eq_true, if_false]
  rw [routeLoop_clean cfg m pick t 0 s false hc]
  simp only [hne, Bool.not_false, Bool.false_or]
  rw [forward_ok cfg req _ u h _ (by simp [afterRoutes, hw]) hh1 hh2 hh3 hpkt]
  simp [afterRoutes, hw]

/-- **C12 target, static route.**  If the winning hit is a static route
`(regex, urls)` at plugin position `j`, the URL used is `Url.from_bytes` of
`urls[pick j]`, an element of the URL list of a route of the table whose pattern
matches the request path. -/
theorem C12_target_static (cfg : Cfg) (m : Nat → Bool) (pick : Nat → Nat) (t : Table) (j pat : Nat)
    (urls : List Bytes) (u : Url)
    (hmem : (j, Route.static pat urls) ∈ hits m 0 t)
    (hu : urlOf cfg pick (j, Route.static pat urls) = some u) :
    ∃ raw p, urls[pick j]? = some raw ∧ raw ∈ urls ∧
      Px.Url.fromBytes cfg.allowedSchemes raw = .ok u ∧
      t[j]? = some p ∧ Route.static pat urls ∈ p ∧ m pat = true := by
  obtain ⟨p, hp, hrp, hm, _⟩ := hits_sound m t j _ hmem
  simp only [urlOf, routeAct] at hu
  cases hraw : urls[pick j]? with
  | none => simp [hraw] at hu
  | some raw =>
    simp only [hraw] at hu
    cases hf : Px.Url.fromBytes cfg.allowedSchemes raw with
    | error e => simp [hf] at hu
    | ok u' =>
      simp only [hf, Option.some.injEq] at hu
      subst hu
      exact ⟨raw, p, rfl, List.mem_of_getElem? hraw, hf, hp, hrp, hm⟩

/-- **C12 port defaulting** with the constants of the code as it is now:
an explicit non-zero port is used as is; otherwise 80 for scheme `http` and
443 for every other scheme (`https`). -/
theorem C12_default_ports (u : Url) :
    (∀ v, u.port = some v → v ≠ 0 → portOf {} u = v) ∧
    ((u.port = none ∨ u.port = some 0) → u.scheme = some (b "http") → portOf {} u = 80) ∧
    ((u.port = none ∨ u.port = some 0) → u.scheme = some (b "https") → portOf {} u = 443) := by
  refine ⟨?_, ?_, ?_⟩
  · intro v hv hne; simp [portOf, hv, hne]
  · rintro (hp | hp) hs <;> rw [portOf, hp, hs] <;> decide +kernel
  · rintro (hp | hp) hs <;> rw [portOf, hp, hs] <;> decide +kernel

/-- what `build_http_request` does to the header dict it is handed: a
    `Content-Length` of the body is set when the body is non-empty and no
    `Transfer-Encoding` field is present (updated in place if a field of exactly
    that spelling exists, appended otherwise); nothing else (`no_ua=True`). -/
def withContentLength (hdrs : Px.Build.HDict) (body : Option Bytes) : Px.Build.HDict :=
  if (match body with | some x => !x.isEmpty | none => false) &&
      !hdrs.any (fun e => lower e.1 == b "transfer-encoding")
  then Px.Build.dSet hdrs (b "Content-Length") (natToDec (body.getD []).length) else hdrs

/-- **C12 forwarded request.**  The packet queued for the upstream is the
request line `method SP path SP version` — the client's method and version, the
upstream URL's path (or `/` when the URL has none, `C12_forwarded_path`) —
followed by one `name: value` line per entry of the header dict
(`C12_host_rewrite`, `C12_headers_preserved`), the blank line and the body. -/
theorem C12_forwarded_request (mth path ver : Bytes) (hdrs : Px.Build.HDict) (body : Option Bytes) :
    buildRequest [] mth path ver none hdrs body false true =
      mth ++ [SP] ++ path ++ [SP] ++ ver ++ CRLF ++
        ((withContentLength hdrs body).map (fun kv => kv.1 ++ [COLON] ++ [SP] ++ kv.2 ++ CRLF)).flatten ++
        CRLF ++ body.getD [] := by
  unfold buildRequest withContentLength
  simp only [Bool.not_true, Bool.and_false, Bool.false_eq_true, if_false]
  simp only [Px.Build.buildPkt, Bool.false_eq_true, if_false, join, Px.Build.buildHeader]
  cases body <;> simp [List.append_assoc]

/-- the path of the forwarded request line is the upstream URL's remainder, `/` if absent -/
theorem C12_forwarded_path (u : Url) :
    (u.remainder = none → fwdPath u = b "/") ∧
    (∀ x, u.remainder = some x → x ≠ [] → fwdPath u = x) := by
  constructor
  · intro h; simp only [fwdPath, h]; decide +kernel
  · intro x h hne
    have : x.isEmpty = false := by cases x <;> simp_all
    simp [fwdPath, h, this]

/-- **C12 Host rewrite.**  With `--rewrite-host-header` the header dict handed
to `build_http_request` is the one built without the option, with the value of
every field named `Host` (any case) replaced by `hostname[:port]` of the
upstream URL — names, order and all other values untouched; without the option
`host=None` is passed and nothing is replaced. -/
theorem C12_host_rewrite (cfg : Cfg) (req : Parser) (u : Url) (h : Bytes) :
    (cfg.rewriteHost = true →
      fwdHeaders cfg req (hostArg cfg u h) = (fwdHeaders cfg req none).map (setHost (authority u h))) ∧
    (cfg.rewriteHost = false → fwdHeaders cfg req (hostArg cfg u h) = fwdHeaders cfg req none) := by
  constructor
  · intro hr
    simp only [fwdHeaders, hostArg, hr, if_true]
    cases req.headers with
    | none => rfl
    | some hs =>
      by_cases he : hs.isEmpty = true
      · simp [he]
      · simp only [he, Bool.false_eq_true, if_false]; exact rebuildHeaders_host hs _ _
  · intro hr; simp [hostArg, hr]

/-- the original-case field names of the parsed request are pairwise distinct
    (what `add_header`, keyed on the lower-cased name, maintains) -/
def HdrNamesDistinct (req : Parser) : Prop :=
  ∀ hs, req.headers = some hs → (hs.map (fun e => e.2.1)).Nodup

/-- `HdrNamesDistinct` holds for every request produced by the parser model
    (`HttpParser.parse` fed any pieces), so it is not an extra assumption on real inputs. -/
theorem C12_parsed_names_distinct (pcfg : Px.Parser.Cfg) (segs : List Bytes) (req : Parser)
    (h : Px.Parser.parseAll pcfg (Px.Parser.init .request) segs = .ok req) : HdrNamesDistinct req := by
  intro hs hh
  have := HdrInv.parseAll_ok pcfg (Px.Parser.init .request) req segs (by simp [Px.Parser.init, HdrInv.HOk]) h
  rw [hh] at this
  exact HdrInv.names_nodup hs this

/-- **C12 headers preserved.**  Without Host rewriting the header dict handed
to `build_http_request` is exactly the client's fields — original-case name and
value, in the order received — minus the names listed in `--disable-headers`
(none by default). -/
theorem C12_headers_preserved (cfg : Cfg) (req : Parser) (hs : Headers) (hh : req.headers = some hs)
    (hd : HdrNamesDistinct req) :
    fwdHeaders cfg req none =
      (hs.filter (fun e => !cfg.disableHeaders.contains (lower e.1))).map (fun e => e.2) ∧
    (({} : Cfg).disableHeaders = [] → fwdHeaders {} req none = hs.map (fun e => e.2)) := by
  have key : ∀ cfg : Cfg, fwdHeaders cfg req none =
      (hs.filter (fun e => !cfg.disableHeaders.contains (lower e.1))).map (fun e => e.2) := by
    intro cfg
    simp only [fwdHeaders, hh]
    by_cases he : hs.isEmpty = true
    · have : hs = [] := by simpa using he
      subst this; simp
    · simp only [he, Bool.false_eq_true, if_false]
      exact rebuildHeaders_none hs _ (hd hs hh)
  refine ⟨key cfg, ?_⟩
  intro h0
  rw [key {}, h0]
  have : hs.filter (fun e => !([] : List Bytes).contains (lower e.1)) = hs := by
    apply List.filter_eq_self.2; intro a _; simp
  rw [this]

/-- the default configuration disables no header (re-checked against `DEFAULT_DISABLE_HEADERS`) -/
theorem C12_default_disable : ({} : Cfg).disableHeaders = [] := by decide

/-- **C12 relay.**  With an upstream in place, for every sequence of `recv`
outcomes on the upstream socket: the client is queued exactly the segments
received before the first end-of-stream / reset / timeout, unmodified, each as
its own buffer element, in order, after whatever was queued before; teardown is
requested iff such an event occurred. -/
theorem C12_relay (evs : List UpEv) (s : St) (c : Conn) (hu : s.upstream = some c) :
    relay evs s =
      ({ s with client := { s.client with buffer := s.client.buffer ++ delivered evs } },
       evs.any UpEv.terminal) :=
  relay_spec evs s c hu

/-- every non-empty upstream segment is queued to the client unmodified, in order -/
theorem C12_relay_segments (segs : List Bytes) (hne : ∀ x ∈ segs, x ≠ []) (s : St) (c : Conn)
    (hu : s.upstream = some c) :
    relay (segs.map .seg) s =
      ({ s with client := { s.client with buffer := s.client.buffer ++ segs } }, false) := by
  rw [relay_spec _ s c hu, (delivered_segs segs hne).1, (delivered_segs segs hne).2]

/-- nothing received after the first terminal event reaches the client -/
theorem C12_relay_stops (pre post : List UpEv) (e : UpEv) (he : e.terminal = true) :
    delivered (pre ++ e :: post) = delivered (pre ++ [e]) := by
  induction pre with
  | nil => simp [delivered, he]
  | cons x xs ih =>
    simp only [List.cons_append, delivered]
    by_cases hx : x.terminal = true
    · simp [hx]
    · simp only [hx, Bool.false_eq_true, if_false]
      cases x <;> simp [ih]

/-- **C12 dynamic route returning a literal response.**  If no hit yields a
URL (all matching first routes are dynamic routes answering with a literal
response), exactly those literal responses are queued to the client, in plugin
order, nothing is connected, no upstream exists and the connection stays up. -/
theorem C12_dynamic_literal (cfg : Cfg) (ev : Bool) (m : Nat → Bool) (pick : Nat → Nat) (connectOk : Bool) (t : Table)
    (req : Parser) (s : St) (hev : EmitOk ev req) (hweb : WebReq req) (hany : anyMatch m t = true)
    (hc : Clean cfg pick (hits m 0 t))
    (hnone : (hits m 0 t).filterMap (urlOf cfg pick) = []) :
    onRequestCompleteEv cfg ev m pick connectOk t req s =
      ⟨{ s with client := { s.client with buffer := s.client.buffer ++ (hits m 0 t).filterMap (litOf cfg pick) } },
       false, none⟩ ∧
    (hits m 0 t).filterMap (litOf cfg pick) ≠ [] := by
  have hpath : req.path.isNone = false := by
    have := hweb.1; cases hq : req.path <;> simp_all
  constructor
  · rw [onRequestCompleteEv_route _ _ _ _ _ _ _ _ hweb.2 hev]
    unfold routeRequest
    simp only [hany, if_true]
    unfold handleRequest
    simp only [hpath, Bool.false_and, Bool.false_eq_true, if_false]
    rw [routeLoop_clean cfg m pick t 0 s false hc]
    simp [hnone, afterRoutes]
  · -- every hit is clean and none yields a URL, so every hit is a literal
    have hne := hits_ne_nil_of_anyMatch m t 0 hany
    cases hl : hits m 0 t with
    | nil => exact absurd hl hne
    | cons ir rest =>
      have hclean := hc ir (by rw [hl]; exact List.mem_cons_self)
      have hnu : urlOf cfg pick ir = none := by
        rw [hl, List.filterMap_cons] at hnone
        cases hx : urlOf cfg pick ir with
        | none => rfl
        | some v => simp [hx] at hnone
      simp only [List.filterMap_cons]
      cases ha : routeAct cfg (pick ir.1) ir.2 with
      | fail e c => exact absurd ha (hclean e c)
      | url v => simp [urlOf, ha] at hnu
      | lit resp => simp [litOf, ha]

/-- **C12 later request of a connection without an upstream route.**  The web
server's follow-up loop calls `handle_request` again on the SAME `ReverseProxy`
object, whose `choice` / `upstream` / `connects` were left by earlier requests.
For EVERY such earlier state `s`: a request none of whose hits yields a URL —
no route matches at all, or only literal-response routes do — leaves `choice`,
`upstream`, `connects` and `wraps` exactly as they were (in particular: no
outbound connection, nothing forwarded to the upstream chosen by an earlier
request), queues exactly the literal responses and keeps the connection up. -/
theorem C12_followup_no_upstream_route (cfg : Cfg) (m : Nat → Bool) (pick : Nat → Nat) (connectOk : Bool)
    (t : Table) (req : Parser) (s : St) (hp : req.path.isSome = true)
    (hc : Clean cfg pick (hits m 0 t))
    (hnone : (hits m 0 t).filterMap (urlOf cfg pick) = []) :
    handleRequest cfg m pick connectOk t req s =
      ⟨{ s with client := { s.client with buffer := s.client.buffer ++ (hits m 0 t).filterMap (litOf cfg pick) } },
       false, none⟩ ∧
    (handleRequest cfg m pick connectOk t req s).st.connects = s.connects ∧
    (handleRequest cfg m pick connectOk t req s).st.upstream = s.upstream ∧
    (handleRequest cfg m pick connectOk t req s).st.choice = s.choice := by
  have hpath : req.path.isNone = false := by cases hq : req.path <;> simp_all
  have h : handleRequest cfg m pick connectOk t req s =
      ⟨{ s with client := { s.client with buffer := s.client.buffer ++ (hits m 0 t).filterMap (litOf cfg pick) } },
       false, none⟩ := by
    unfold handleRequest
    simp only [hpath, Bool.false_and, Bool.false_eq_true, if_false]
    rw [routeLoop_clean cfg m pick t 0 s false hc]
    simp [hnone, afterRoutes]
  exact ⟨h, by rw [h], by rw [h], by rw [h]⟩

/-- **C12 later request of a connection with an upstream route.**  Whatever an
earlier request left in the object (`s.choice`, `s.upstream`, `s.connects`), a
later request whose winning hit yields URL `u` is connected to `u`'s host and
port and is forwarded there, retargeted exactly as a first request would be —
the upstream an earlier request chose plays no part in it. -/
theorem C12_followup_target (cfg : Cfg) (m : Nat → Bool) (pick : Nat → Nat) (t : Table) (req : Parser) (s : St)
    (u : Url) (h mth ver : Bytes) (hp : req.path.isSome = true)
    (hc : Clean cfg pick (hits m 0 t))
    (hw : ((hits m 0 t).filterMap (urlOf cfg pick)).getLast? = some u)
    (hh : HostOk u h) (hb : Buildable req mth ver) (hn : cfg.bufSize ≠ 0) :
    ∃ body, bodyOrChunks cfg.bufSize req = .ok body ∧
      handleRequest cfg m pick true t req s =
        ⟨{ s with
            choice := some u,
            client := { s.client with buffer := s.client.buffer ++ (hits m 0 t).filterMap (litOf cfg pick) },
            upstream := some ⟨[buildRequest [] mth (fwdPath u) ver none (fwdHeaders cfg req (hostArg cfg u h))
                                 body false true], false⟩,
            connects := s.connects ++ [(connectHost h, portOf cfg u)],
            wraps := if u.scheme == some cfg.httpsProto then s.wraps ++ [h] else s.wraps },
         false, none⟩ := by
  obtain ⟨body, hbody, _, _⟩ := bodyOrChunks_ok cfg.bufSize hn req
  refine ⟨body, hbody, ?_⟩
  obtain ⟨hm, hmne, hv, hvne, hty⟩ := hb
  obtain ⟨hh1, hh2, hh3⟩ := hh
  have hpkt := build_shape cfg req u (hostArg cfg u h) mth ver body hm hmne hv hvne hty hbody
  have hpath : req.path.isNone = false := by cases hq : req.path <;> simp_all
  have hne : ((hits m 0 t).filterMap (urlOf cfg pick)).isEmpty = false := by
    cases hl : (hits m 0 t).filterMap (urlOf cfg pick) with
    | nil => rw [hl] at hw; simp at hw
    | cons _ _ => rfl
  unfold handleRequest
  simp only [hpath, Bool.false_and, Bool.false_eq_true, if_false]
  rw [routeLoop_clean cfg m pick t 0 s false hc]
  simp only [hne, Bool.not_false, Bool.false_or]
  rw [forward_ok cfg req _ u h _ (by simp [afterRoutes, hw]) hh1 hh2 hh3 hpkt]
  simp [afterRoutes, hw]

/-- … in particular when no route matches at all, whatever the earlier state is -/
theorem C12_followup_no_route (cfg : Cfg) (m : Nat → Bool) (pick : Nat → Nat) (connectOk : Bool)
    (t : Table) (req : Parser) (s : St) (hp : req.path.isSome = true) (hno : anyMatch m t = false) :
    handleRequest cfg m pick connectOk t req s = ⟨s, false, none⟩ := by
  have hh : hits m 0 t = [] := hits_nil_of_noMatch m t 0 hno
  have := (C12_followup_no_upstream_route cfg m pick connectOk t req s hp
    (by intro ir hir; rw [hh] at hir; cases hir) (by rw [hh]; rfl)).1
  rw [this, hh]
  simp

/-- **C12 dynamic route returning a `Url`** acts exactly like a static route
whose chosen URL parses to that `Url`: the loop sees the same action, hence
(`C12_target`) the same connect address, forwarded request and relay. -/
theorem C12_dynamic_url (cfg : Cfg) (k pat pat' : Nat) (raw : Bytes) (u : Url)
    (hf : Px.Url.fromBytes cfg.allowedSchemes raw = .ok u) (hs : strOk u = true) :
    routeAct cfg k (.dynamic pat (.url u)) = .url u ∧
    routeAct cfg 0 (.static pat' [raw]) = routeAct cfg k (.dynamic pat (.url u)) := by
  simp [routeAct, hf, hs]

/-- a connection refused by the upstream ends the request with an
`HttpProtocolException` after exactly that one connect attempt; nothing is queued for it -/
theorem C12_refused (cfg : Cfg) (req : Parser) (s : St) (u : Url) (h : Bytes)
    (hc : s.choice = some u) (hh : HostOk u h) :
    (forward cfg false req s).exc = some .httpProtocol ∧ (forward cfg false req s).teardown = true ∧
    (forward cfg false req s).st.connects = s.connects ++ [(connectHost h, portOf cfg u)] ∧
    (forward cfg false req s).st.upstream = some ⟨[], true⟩ := by
  rw [forward_refused cfg req s u h hc hh.1 hh.2.1 hh.2.2]; simp

/-- **C12 close.**  When the client connection closes, an open upstream is
closed exactly once and forgotten; a second call does nothing. -/
theorem C12_close (s : St) (c : Conn) (hu : s.upstream = some c) (ho : c.closed = false) :
    (onClientConnectionClose s).closes = s.closes + 1 ∧ (onClientConnectionClose s).upstream = none ∧
    onClientConnectionClose (onClientConnectionClose s) = onClientConnectionClose s := by
  simp [onClientConnectionClose, hu, ho]

/-- **C12 connections are independent.**  What a connection gets (connect address, forwarded
request, literal / 404 / 400, relay) is what its own request yields on a fresh handler: it does
not depend on which connections the process served before or serves afterwards.  (The
correspondence runs sequences of connections in one process against this.) -/
theorem C12_connections_independent (cfg : Cfg) (ev : Bool) (t : Table) (pre post : List ConnIn) (c : ConnIn) :
    runConnections cfg ev t (pre ++ c :: post) =
      runConnections cfg ev t pre ++
        onRequestCompleteEv cfg ev c.m c.pick c.connectOk t c.req {} :: runConnections cfg ev t post ∧
    (runConnections cfg ev t (pre ++ c :: post))[pre.length]? =
      some (onRequestCompleteEv cfg ev c.m c.pick c.connectOk t c.req {}) := by
  have h1 : ∀ l : List ConnIn, runConnections cfg ev t l =
      l.map (fun c => onRequestCompleteEv cfg ev c.m c.pick c.connectOk t c.req {}) := by
    intro l; induction l with
    | nil => rfl
    | cons x xs ih => simp [runConnections, ih]
  constructor
  · simp [h1]
  · simp [h1]

/-! ### non-vacuity: the guards are inhabited by ordinary inputs -/

/-- `GET /get HTTP/1.1` with two header fields, as the parser leaves it -/
def exReq : Parser :=
  { ty := .request, state := .complete, path := some (b "/get"), method := some (b "GET"),
    version := some (b "HTTP/1.1"),
    headers := some [(b "host", (b "Host", b "front.example")), (b "x-a", (b "X-A", b "1"))] }

/-- the example plugin of the repository: a static route with two upstream URLs and a dynamic one -/
def exTable : Table :=
  [[.static 0 [b "http://httpbingo.org/get", b "https://httpbingo.org:8443"],
    .dynamic 1 (.literal (b "HTTP/1.1 204 No Content\r\n\r\n"))]]

def exUrl : Url :=
  { scheme := some (b "https"), hostname := some (b "httpbingo.org"), port := some 8443 }

example : WebReq exReq := by
  refine ⟨rfl, ?_⟩; unfold PathOk; decide +kernel
example : Buildable exReq (b "GET") (b "HTTP/1.1") := by
  refine ⟨rfl, ?_, rfl, ?_, rfl⟩ <;> decide +kernel
example : HdrNamesDistinct exReq := by
  intro hs h; cases h; decide +kernel
example : hits (fun i => i == 0) 0 exTable = [(0, .static 0 [b "http://httpbingo.org/get", b "https://httpbingo.org:8443"])] := by
  decide +kernel
example : Clean {} (fun _ => 1) (hits (fun i => i == 0) 0 exTable) := by
  intro ir hir e c
  have : ir = (0, .static 0 [b "http://httpbingo.org/get", b "https://httpbingo.org:8443"]) := by
    have h : hits (fun i => i == 0) 0 exTable =
        [(0, .static 0 [b "http://httpbingo.org/get", b "https://httpbingo.org:8443"])] := by decide +kernel
    rw [h] at hir; simpa using hir
  subst this
  have : routeAct {} 1 (.static 0 [b "http://httpbingo.org/get", b "https://httpbingo.org:8443"]) = .url exUrl := by
    decide +kernel
  rw [this]; simp
example : ((hits (fun i => i == 0) 0 exTable).filterMap (urlOf {} (fun _ => 1))).getLast? = some exUrl := by
  decide +kernel
example : strOk exUrl = true := by decide +kernel
example : HostOk exUrl (b "httpbingo.org") := by
  refine ⟨rfl, ?_, ?_⟩ <;> decide +kernel
example : portOf {} exUrl = 8443 ∧ hostArg { rewriteHost := true } exUrl (b "httpbingo.org") = some (b "httpbingo.org:8443") := by
  decide +kernel
example : anyMatch (fun i => i == 0) exTable = true ∧ anyMatch (fun _ => false) exTable = false := by
  decide +kernel
example : PathOk exReq := by unfold PathOk; decide +kernel
example : utf8Valid (webPath { exReq with path := some [47, 255] }) = false := by decide +kernel
example : emitRequestComplete true { exReq with port := some 80 } = none := by decide +kernel
example : emitRequestComplete true { exReq with port := some 80, headers := none } = some .keyError := by
  decide +kernel
/-- the literal-only situation of `C12_dynamic_literal` -/
example : (hits (fun i => i == 1) 0 exTable).filterMap (urlOf {} (fun _ => 0)) = [] ∧
    (hits (fun i => i == 1) 0 exTable).filterMap (litOf {} (fun _ => 0)) = [b "HTTP/1.1 204 No Content\r\n\r\n"] := by
  decide +kernel
/-- the whole pipeline on the example: one connect to (httpbingo.org, 8443), TLS requested,
    `GET / HTTP/1.1` with the Host rewritten, other field kept -/
example :
    (onRequestCompleteEv { rewriteHost := true } false (fun i => i == 0) (fun _ => 1) true exTable exReq {}).st.connects
      = [(b "httpbingo.org", 8443)] ∧
    (onRequestCompleteEv { rewriteHost := true } false (fun i => i == 0) (fun _ => 1) true exTable exReq {}).st.upstream
      = some ⟨[b "GET / HTTP/1.1\r\nHost: httpbingo.org:8443\r\nX-A: 1\r\n\r\n"], false⟩ ∧
    (onRequestCompleteEv { rewriteHost := true } false (fun i => i == 0) (fun _ => 1) true exTable exReq {}).st.wraps
      = [b "httpbingo.org"] := by
  decide +kernel

/-- non-vacuity of the follow-up theorem: an object that already routed a request to `exUrl` -/
example : (handleRequest {} (fun _ => false) (fun _ => 0) true exTable exReq
    { choice := some exUrl, connects := [(b "up.test", 80)] }).st.connects = [(b "up.test", 80)] := by
  rw [C12_followup_no_route {} (fun _ => false) (fun _ => 0) true exTable exReq _ (by decide) (by decide)]

end Px.Reverse
