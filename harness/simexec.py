"""Executor-level world: the REAL LocalFdExecutor / Threadless from /repo stepped
round by round in-process, with either scripted works (bookkeeping compared
with lean/PxModel/Exec.lean) or the real HttpProtocolHandler works.

API
    World(args=(), work_klass=None, pin=True, **opts)
        real LocalFdExecutor + selectors.DefaultSelector on a private asyncio loop; with pin=True every
        descriptor < BASE (200) is held open so that the kernel's lowest-free allocation starts at BASE
        in every process (descriptor numbers are then reproducible and comparable with the model)
      .sockpair(prime=True) -> (a, b)   tracked non-blocking socketpair; .tcp_pair() loopback TCP pair
      .queue(sock, addr)                put a new connection on the executor's work queue
      .round(ready=None)                one ex._run_once() (select with timeout 0); returns the escaping
                                        exception or None; ready={fd: truth} filters / orders what select reports
      .reap()                           ex._cleanup_inactive()
      .snapshot() / .state_line() / .tasks_line()   works, registry, selector map, open fds >= BASE, next fd
      .close_fd(fd), .truth(fd), .close()
    scripted_world()                    World whose works are ScriptedWork: get_events / handle_events /
                                        shutdown / initialize / is_inactive follow world.beh[(round, work_id)]
    hist_impl / hist_model_lines / gen_hist     scripted histories (token language of lean/PxModel/DrvExec.lean)
    sel_impl / sel_model_lines / gen_sel        selector + kernel sub-model against the real DefaultSelector
    RealWorld(args, tcp=False, **opts)  real handlers; new_socket_connection patched: .plan outcomes
                                        ('ok' | 'refused' | 'gaierror' | 'timeout' | 'unreach'), .up_faults;
                                        .client(faults) -> Peer (send / drain / close / reset / shut_wr, .rx, .eof);
                                        .upstreams [(addr, Peer)]; .leaked(); close() calls counted per socket
    real_world(), good_script(role, i), gen_adversary, gen_real, run_real(case), run_repeat(case),
    standalone_transcript(spec, tcp)    multi-connection scenarios (roles fwd fwdka post tun web404 webroute rev revka)
    refine_real(case)                   same scenario with every handler call recorded as abstract `Beh` and
                                        replayed on the model (returns 'ok' or the first disagreement)
"""
import os
import sys
import errno
import socket
import logging
import selectors

from harness import common

sys.path.insert(0, common.REPO)

BASE = 200
logging.disable(logging.CRITICAL)

_FLAGS = {}


def get_flags(args=(), **opts):
    from proxy.common.flag import FlagParser
    key = (tuple(args), tuple(sorted((k, repr(v)) for k, v in opts.items())))
    if key not in _FLAGS:
        _FLAGS[key] = FlagParser.initialize(list(args), threadless=True, **opts)
    return _FLAGS[key]


def open_fds_from(base, span=192):
    """open descriptors >= base.  Descriptors are allocated lowest-free, so above the pinned floor they are
    compact; probing with fstat avoids /proc (slow when many processes hammer it)."""
    out = []
    miss = 0
    fd = base
    while miss < span:
        try:
            os.fstat(fd)
            out.append(fd)
            miss = 0
        except OSError:
            miss += 1
        fd += 1
    return out


def count_fds():
    return len(os.listdir('/proc/self/fd')) - 1


class ScriptErr(Exception):
    pass


class RoundHang(BaseException):
    """a call made by the executor did not return within ROUND_ALARM_S (a handler spinning or blocking)"""


ROUND_ALARM_S = 6.0


class _RoundGuard:
    """SIGALRM around one _run_once: a handler that never returns is interrupted and recorded
    (`world.hung`).  The engine's own per-case alarm (same timer) is saved and restored."""

    def __init__(self, world):
        self.world = world
        self.armed = False

    def _fire(self, signum, frame):
        self.world.hung = True
        raise RoundHang()

    def arm(self):
        import signal
        import threading
        import time as _time
        if threading.current_thread() is not threading.main_thread():
            return
        self.t0 = _time.monotonic()
        self.old_handler = signal.signal(signal.SIGALRM, self._fire)
        self.old_timer = signal.setitimer(signal.ITIMER_REAL, ROUND_ALARM_S)
        self.armed = True

    def disarm(self):
        import signal
        import time as _time
        if not self.armed:
            return
        self.armed = False
        signal.setitimer(signal.ITIMER_REAL, 0)
        signal.signal(signal.SIGALRM, self.old_handler)
        delay, interval = self.old_timer
        if delay > 0:
            signal.setitimer(signal.ITIMER_REAL, max(0.01, delay - (_time.monotonic() - self.t0)), interval)


class World:
    def __init__(self, args=(), work_klass=None, pin=True, **opts):
        import copy
        from proxy.common.backports import NonBlockingQueue
        from proxy.core.work.fd.local import LocalFdExecutor
        flags = get_flags(args, **opts)
        if work_klass is not None:
            flags = copy.copy(flags)
            flags.work_klass = work_klass
        self.flags = flags
        self.socks = {}          # fd -> socket object (every descriptor >= BASE we created)
        self.peer_of = {}        # fd -> peer fd
        self.far_ends = set()    # descriptors that are the harness-side end of a pair
        self.partner = {}        # socket object -> the other end's socket object
        self.rounds = 0
        self.beh = {}            # (round, work_id) -> behaviour dict for ScriptedWork
        self.init_raises = set()
        self.inactive = set()
        self.delivered = []      # (work_id, readables, writables) of the current round
        self.ready = None
        self.choose = None       # generation mode: callable(real events) -> ready dict, called at select time
        self.opened = {}         # work id -> descriptors its tasks opened
        self.dead = None
        self.slowest = 0.0       # longest wall-clock time of one _run_once
        self.hung = False        # a _run_once had to be interrupted
        self.pins = []
        stale = open_fds_from(BASE) if pin else []
        for fd in stale:         # left over by an earlier case that died half-way
            try:
                os.close(fd)
            except OSError:
                pass
        # Threadless.__init__ allocates a multiprocessing.Event (four POSIX semaphores) that only
        # _run_forever's shutdown check reads; a threading.Event keeps world construction cheap
        import threading
        import proxy.core.work.threadless as TL
        real_event = TL.multiprocessing.Event
        TL.multiprocessing.Event = threading.Event
        try:
            self.ex = LocalFdExecutor('1', NonBlockingQueue(), flags)
        finally:
            TL.multiprocessing.Event = real_event
        self.ex.world = self
        self.ex.selector = selectors.DefaultSelector()
        self.loop = self.ex.loop
        self._orig_select = self.ex.selector.select
        self.ex.selector.select = self._select
        if pin:
            self._pin()

    # -- descriptor floor ---------------------------------------------------
    def _pin(self):
        while True:
            fd = os.open('/dev/null', os.O_RDONLY)
            if fd >= BASE:
                os.close(fd)
                break
            self.pins.append(fd)
        rest = open_fds_from(BASE)
        if rest:
            raise RuntimeError('descriptors >= BASE already open: %r' % rest)

    # -- sockets --------------------------------------------------------------
    def track(self, s):
        self.socks[s.fileno()] = s
        return s

    def sockpair(self, prime=True):
        a, b = socket.socketpair()
        a.setblocking(False)
        b.setblocking(False)
        self.track(a)
        self.track(b)
        self.peer_of[a.fileno()] = b.fileno()
        self.peer_of[b.fileno()] = a.fileno()
        self.far_ends.discard(a.fileno())
        self.far_ends.add(b.fileno())
        self.partner[a] = b
        self.partner[b] = a
        if prime:
            b.send(b'x')
        return a, b

    _listener = None

    def tcp_pair(self):
        cls = World
        if cls._listener is None:
            l = socket.socket(socket.AF_INET, socket.SOCK_STREAM)
            l.bind(('127.0.0.1', 0))
            l.listen(64)
            cls._listener = l
        c = socket.socket(socket.AF_INET, socket.SOCK_STREAM)
        c.connect(cls._listener.getsockname())
        s, _ = cls._listener.accept()
        for x in (c, s):
            x.setblocking(False)
            x.setsockopt(socket.IPPROTO_TCP, socket.TCP_NODELAY, 1)
            self.track(x)
        return s, c

    def peer_closed(self, fd):
        s = self.socks.get(fd)
        p = self.partner.get(s) if s is not None else None
        return p is not None and p.fileno() < 0

    def truth(self, fd):
        """real readiness of a tracked socket, asked through select(2): 1 readable, 2 writable, 4 peer gone"""
        import select
        s = self.socks.get(fd)
        if s is None:
            return None
        r, w_, _ = select.select([s], [s], [], 0)
        return (1 if r else 0) | (2 if w_ else 0) | (4 if self.peer_closed(fd) else 0)

    def close_fd(self, fd):
        s = self.socks.pop(fd, None)
        if s is not None:
            try:
                s.close()
            except OSError:
                pass

    def queue(self, sock, addr=('127.0.0.1', 40000)):
        self.ex.work_queue.put((sock, addr))

    # -- stepping -------------------------------------------------------------
    def _select(self, timeout=None):
        evs = self._orig_select(0)
        if self.choose is not None:
            self.ready = self.choose(evs)
        if self.ready is None:
            return sorted(evs, key=lambda km: km[0].fd)
        out = []
        order = {fd: i for i, fd in enumerate(self.ready)}
        for key, m in evs:
            truth = self.ready.get(key.fd, 0)
            if not (truth & 4):
                if (m & truth & 3) == 0:
                    continue
                m = m & truth & 3
            out.append((key, m))
        out.sort(key=lambda km: order.get(km[0].fd, 1 << 30))
        return out

    def round(self, ready=None):
        """one `_run_once`; returns the exception that escaped it, or None"""
        if self.dead is not None:
            return self.dead
        self.ready = ready
        self.delivered = []
        import time as _time
        t0 = _time.monotonic()
        guard = _RoundGuard(self)
        try:
            guard.arm()
            self.loop.run_until_complete(self.ex._run_once())
        except RoundHang as e:
            self.dead = e
            return e
        except Exception as e:
            self.dead = e
            return e
        finally:
            guard.disarm()
            self.rounds += 1
            self.slowest = max(self.slowest, _time.monotonic() - t0)
        if self.hung:
            # the alarm went off inside a task and the executor treated it as that task's failure
            self.dead = RoundHang()
            return self.dead
        return None

    def reap(self):
        if self.dead is not None:
            return self.dead
        try:
            self.ex._cleanup_inactive()
        except Exception as e:
            self.dead = e
            return e
        return None

    # -- observation ----------------------------------------------------------
    def snapshot(self):
        ex = self.ex
        n = os.dup(0)
        os.close(n)
        return {
            'works': list(ex.works),
            'registered': {w: dict(r) for w, r in ex.registered_events_by_work_ids.items()},
            'map': {fd: (k.events, k.data) for fd, k in ex.selector.get_map().items()},
            'open': open_fds_from(BASE),
            'next': n,
        }

    @staticmethod
    def _dash(s):
        return s if s else '-'

    def state_line(self):
        s = self.snapshot()
        d = self._dash
        reg = ';'.join(
            '%d:%s' % (w, '+'.join('%d.%d' % (fd, m) for fd, m in sorted(r.items())))
            for w, r in sorted(s['registered'].items()))
        mp = ','.join('%d.%d.%d' % (fd, ev, data) for fd, (ev, data) in sorted(s['map'].items()))
        return 'w=%s r=%s m=%s o=%s n=%d' % (
            d(','.join(map(str, s['works']))), d(reg), d(mp), d(','.join(map(str, s['open']))), s['next'])

    def tasks_line(self):
        return self._dash(';'.join(
            '%d:%s:%s' % (w, '+'.join(map(str, r)), '+'.join(map(str, wr))) for w, r, wr in self.delivered))

    # -- teardown -------------------------------------------------------------
    def close(self):
        for fd in list(self.socks):
            self.close_fd(fd)
        try:
            self.ex.selector.close()
        except Exception:
            pass
        try:
            self.loop.run_until_complete(self.loop.shutdown_asyncgens())
            self.loop.close()
        except Exception:
            pass
        for fd in self.pins:
            try:
                os.close(fd)
            except OSError:
                pass
        self.pins = []

    def __enter__(self):
        return self

    def __exit__(self, *a):
        self.close()


def _scripted_work_class():
    from proxy.core.work import Work

    class ScriptedWork(Work):
        """A work whose every call follows the script of the world it runs in."""

        world = None

        @staticmethod
        def create(conn, addr):
            return conn

        def _w(self):
            return ScriptedWork.world

        def _beh(self):
            w = self._w()
            return w.beh.get((w.rounds, self.wid), {})

        def initialize(self):
            self.wid = self.work.fileno()
            self.mine = [self.work]          # socket objects this work owns
            if self.wid in self._w().init_raises:
                self._w().init_raises.discard(self.wid)
                raise ScriptErr('initialize')

        def open_fds(self):
            return [s.fileno() for s in self.mine if s.fileno() >= 0]

        def _close(self, fd):
            """closes the socket *object* of this work that currently has number fd (Python sockets
            close at most once; a work cannot close a number that was handed to someone else)"""
            for s in self.mine:
                if s.fileno() == fd and fd >= 0:
                    self._w().close_fd(fd)

        async def get_events(self):
            ev = self._beh().get('e', [])
            if ev == 'x':
                raise ScriptErr('get_events')
            return {fd: m for fd, m in ev}

        async def handle_events(self, readables, writables):
            w = self._w()
            b = self._beh()
            w.delivered.append((self.wid, list(readables), list(writables)))
            for op in b.get('o', []):
                if op == 'o':
                    a, _ = w.sockpair()
                    self.mine.append(a)
                else:
                    self._close(op)
            t = b.get('t', 'f')
            if t == 'x':
                raise ScriptErr('handle_events')
            return t == 't'

        def is_inactive(self):
            return self.wid in self._w().inactive

        def shutdown(self):
            b = self._beh()
            for fd in b.get('s', []):
                self._close(fd)
            if b.get('sx'):
                raise ScriptErr('shutdown')

    return ScriptedWork


_SW = None


def scripted_world():
    global _SW
    if _SW is None:
        _SW = _scripted_work_class()
    w = World(work_klass=_SW)
    _SW.world = w
    return w


# ---------------------------------------------------------------------------
# real HttpProtocolHandler works
# ---------------------------------------------------------------------------

class TrackedSocket(socket.socket):
    """a real socket that counts the explicit close() calls made on it (a socket that is merely
    dropped is closed by the interpreter without close() being called) and reports calls that would
    block the worker: recv()/send() on a socket the code left in blocking / timeout mode while nothing
    is pending / no room is left.  Such a call is recorded and ends at once with the TimeoutError the
    real call would end with after its timeout (10 s in production), so the check costs no waiting."""

    def close(self):
        log = getattr(self, 'closelog', None)
        if log is not None:
            log[self.serial] = log.get(self.serial, 0) + 1
        super().close()

    def _would_block(self, op):
        import select
        if self.gettimeout() == 0 or self.fileno() < 0:
            return
        r, w_, _ = select.select([self] if op == 'recv' else [], [self] if op == 'send' else [], [], 0)
        if not (r or w_):
            blocked = getattr(self, 'blocked', None)
            if blocked is not None:
                blocked.append((op, self.serial))
            raise TimeoutError(errno.ETIMEDOUT, 'timed out')

    def recv(self, *a):
        self._would_block('recv')
        return super().recv(*a)

    def send(self, *a):
        self._would_block('send')
        return super().send(*a)


def tracked(sock, closelog, serial, blocked=None):
    t = TrackedSocket(sock.family, sock.type, sock.proto, fileno=sock.detach())
    t.closelog = closelog
    t.serial = serial
    t.blocked = blocked
    return t


class FaultySocket:
    """Forwards to a real socket; planned calls of recv / send raise the planned error.
    faults: ('recv'|'send', n) -> exception (the n-th call), ('send', n, '+') -> exception (every call from the
    n-th on).  The value 'stall' stands for EAGAIN for as long as the far end is alive (the peer does not read):
    once the harness closes / resets the far end (`released`), calls reach the real socket again."""

    def __init__(self, sock, faults=None):
        self._s = sock
        self._faults = dict(faults or {})
        self._n = {'recv': 0, 'send': 0}
        self.released = False

    def _maybe(self, op):
        n = self._n[op]
        self._n[op] = n + 1
        e = self._faults.get((op, n))
        if e is None:
            for k, v in self._faults.items():
                if len(k) == 3 and k[0] == op and n >= k[1]:
                    e = v
                    break
        if e is None:
            return
        if e == 'stall':
            if self.released:
                return
            raise BlockingIOError(errno.EAGAIN, 'again')
        # a fresh exception object per call: a stored instance would keep its traceback, and through the
        # frames this socket, alive in a reference cycle (the scenarios run with the cycle collector off)
        raise _fault(e) if isinstance(e, str) else e

    def recv(self, *a):
        self._maybe('recv')
        return self._s.recv(*a)

    def send(self, *a):
        self._maybe('send')
        return self._s.send(*a)

    def __getattr__(self, name):
        return getattr(self._s, name)


class Peer:
    """The far end (client or origin server) of a connection handled by the proxy."""

    def __init__(self, world, sock, near_fd):
        self.world = world
        self.sock = sock
        self.near_fd = near_fd      # descriptor number of the proxy-side socket
        self.rx = b''
        self.eof = False
        self.err = None

    def send(self, data):
        try:
            return self.sock.send(data)
        except OSError as e:
            self.err = e
            return 0

    def drain(self):
        if self.sock.fileno() < 0 or self.eof:
            return
        while True:
            try:
                d = self.sock.recv(65536)
            except BlockingIOError:
                return
            except OSError as e:
                self.err = e
                self.eof = True
                return
            if not d:
                self.eof = True
                return
            self.rx += d

    fs = None

    def close(self):
        if self.fs is not None:
            self.fs.released = True
        self.world.close_fd(self.sock.fileno())

    def reset(self):
        """abortive close: RST on TCP pairs; on AF_UNIX a close with unread data resets the peer"""
        try:
            import struct
            self.sock.setsockopt(socket.SOL_SOCKET, socket.SO_LINGER, struct.pack('ii', 1, 0))
        except OSError:
            pass
        self.close()

    def shut_wr(self):
        try:
            self.sock.shutdown(socket.SHUT_WR)
        except OSError:
            pass


class RealWorld(World):
    def __init__(self, args=(), tcp=False, **opts):
        super().__init__(args=args, pin=False, **opts)
        import proxy.core.connection.server as S
        self._S = S
        self._orig_connect = S.new_socket_connection
        S.new_socket_connection = self._connect
        self.tcp = tcp
        self.plan = []            # outcomes for successive connects; default 'ok'
        self.upstreams = []       # (addr, Peer)
        self.connects = []        # (addr, outcome)
        self.near = []            # every proxy-side socket object created for connections (weak references)
        self.nearinfo = []        # what each of them is: ('client', addr) / ('up', addr)
        self.closelog = {}        # serial -> number of explicit close() calls
        self.blocked = []         # (op, serial) of calls that would have blocked the worker
        self.up_faults = []       # per-connect faults dicts for FaultySocket

    def _pair(self, info=None):
        """(near, far): the harness keeps only a weak reference to the proxy-side socket, so that a
        socket the proxy drops is closed by reference counting exactly as in production"""
        import weakref
        near, far = self.tcp_pair() if self.tcp else self.sockpair(prime=False)
        self.socks.pop(near.fileno(), None)
        self.partner.pop(near, None)
        self.partner.pop(far, None)
        serial = len(self.nearinfo)
        self.nearinfo.append(info)
        self.closelog[serial] = 0
        near = tracked(near, self.closelog, serial, self.blocked)
        # the mode the real code would find it in: an accepted client socket is blocking until the handler's
        # initialize(), new_socket_connection() returns a socket with a timeout (DEFAULT_TIMEOUT)
        near.settimeout(None if info and info[0] == 'client' else 10.0)
        self.near.append(weakref.ref(near))
        return near, far

    def _connect(self, addr, source_address=None):
        if addr[1] == REFUSED_PORT:
            # the REAL new_socket_connection against a port nobody listens on (refused / unreachable)
            self.connects.append((addr, 'real'))
            return self._orig_connect(addr, source_address=source_address)
        out = self.plan.pop(0) if self.plan else 'ok'
        self.connects.append((addr, out))
        if out == 'refused':
            raise ConnectionRefusedError(errno.ECONNREFUSED, 'Connection refused')
        if out == 'gaierror':
            raise socket.gaierror(socket.EAI_NONAME, 'Name or service not known')
        if out == 'timeout':
            raise TimeoutError(errno.ETIMEDOUT, 'timed out')
        if out == 'unreach':
            raise OSError(errno.EHOSTUNREACH, 'No route to host')
        near, far = self._pair(('up', addr))
        p = Peer(self, far, near.fileno())
        self.upstreams.append((addr, p))
        faults = self.up_faults.pop(0) if self.up_faults else None
        # the handler sets it non-blocking itself (setblocking(False)); keep it so
        return FaultySocket(near, faults) if faults else near

    def client(self, faults=None, addr=('127.0.0.1', 40000), smallbuf=False):
        near, far = self._pair(('client', addr))
        if smallbuf:
            # a client that accepts little: what the proxy queues for it soon stays queued
            near.setsockopt(socket.SOL_SOCKET, socket.SO_SNDBUF, 4096)
            far.setsockopt(socket.SOL_SOCKET, socket.SO_RCVBUF, 4096)
        p = Peer(self, far, near.fileno())
        fs = FaultySocket(near, faults) if faults else None
        p.fs = fs
        self.queue(fs if fs is not None else near, addr)
        return p

    def pump(self, peers=(), n=6):
        """run rounds until nothing moves any more; returns the escaping exception or None"""
        for _ in range(n):
            e = self.round()
            if e is not None:
                return e
            for p in peers:
                p.drain()
        return None

    def leaked(self):
        """descriptor numbers of proxy-side sockets that still exist and are still open"""
        out = []
        for r in self.near:
            s = r()
            if s is not None and s.fileno() >= 0:
                out.append(s.fileno())
        return out

    def close(self):
        self._S.new_socket_connection = self._orig_connect
        for r in self.near:
            s = r()
            if s is not None:
                try:
                    s.close()
                except OSError:
                    pass
        super().close()


# ---------------------------------------------------------------------------
# layer 1: scripted histories and the selector sub-model (shared by c05 / c10)
# ---------------------------------------------------------------------------

def _split(s, sep):
    return [] if s in ('-', '') else s.split(sep)


def _pairs(s, sep):
    return [(int(a), int(b)) for a, b in (t.split('.') for t in _split(s, sep))]


def parse_beh(tok):
    w, ev, t, ops, sd = tok.split('~')
    b = {'t': t}
    b['e'] = 'x' if ev == 'x' else _pairs(ev, '+')
    b['o'] = ['o' if o == 'o' else int(o[1:]) for o in _split(ops, '+')]
    b['sx'] = sd.endswith('!')
    b['s'] = [int(x) for x in _split(sd.rstrip('!'), '+')]
    return int(w), b


def beh_tok(w, b):
    ev = 'x' if b['e'] == 'x' else ('+'.join('%d.%d' % fm for fm in b['e']) or '-')
    ops = '+'.join('o' if o == 'o' else 'c%d' % o for o in b['o']) or '-'
    sd = ('+'.join(map(str, b['s'])) or ('' if b['sx'] else '-')) + ('!' if b['sx'] else '')
    return '%d~%s~%s~%s~%s' % (w, ev, b['t'], ops, sd)


def hist_apply(w, tok):
    if w.dead is not None:
        return 'dead'
    parts = tok.split('/')
    if parts[0] == 'rnd':
        ready = dict(_pairs(parts[1], ','))
        for bt in _split(parts[3], ';'):
            wid, b = parse_beh(bt)
            w.beh[(w.rounds, wid)] = b
        e = w.round(ready)
        if e is not None:
            return 'dead ' + common.exc_name(e)
        return 't=%s %s' % (w.tasks_line(), w.state_line())
    if parts[0] == 'reap':
        w.inactive = set(int(x) for x in _split(parts[1], ','))
        for bt in _split(parts[2], ';'):
            wid, b = parse_beh(bt)
            w.beh[(w.rounds, wid)] = b
        e = w.reap()
        w.inactive = set()
        if e is not None:
            return 'dead ' + common.exc_name(e)
        return w.state_line()
    op = tok.split(':')
    if op[0] == 'conn':
        a, b = w.sockpair()
        if op[1] == '1':
            w.init_raises.add(a.fileno())
        w.queue(a)
        return 'conn %d %d' % (a.fileno(), b.fileno())
    if op[0] == 'pc':
        w.close_fd(int(op[1]))
        return 'ok'
    raise ValueError(tok)


def hist_impl(case):
    w = scripted_world()
    try:
        return ['|'.join(hist_apply(w, t) for t in case['ops'])]
    finally:
        w.close()


def hist_model_lines(case):
    return ['exec %d %s' % (BASE, ' '.join(case['ops']))]


def gen_hist(rng, nrounds=8, adversarial=0.25, maxworks=4):
    """Adaptive generation: the history is grown against the live real executor so that the
    descriptor numbers it mentions are the ones the kernel really hands out."""
    w = scripted_world()
    ops = []
    adv = lambda p=1.0: rng.random() < adversarial * p   # noqa: E731
    try:
        closed_seen = []
        for _ in range(nrounds):
            if w.dead is not None:
                break
            if rng.random() < 0.12 and w.socks:
                # the far end of some connection goes away
                cands = [fd for fd in w.socks if fd in w.far_ends and (w.peer_of.get(fd) in w.ex.works or rng.random() < 0.3)]
                if cands:
                    fd = rng.choice(sorted(cands))
                    ops.append('pc:%d' % fd)
                    hist_apply(w, ops[-1])
            if len(w.ex.works) < maxworks and rng.random() < 0.45:
                ops.append('conn:%d' % (1 if rng.random() < 0.1 else 0))
                hist_apply(w, ops[-1])
            works = list(w.ex.works)
            pending = [c.fileno() for c, _ in list(w.ex.work_queue._queue)]
            everyone = works + [p for p in pending[:1] if p not in works]
            allfds = sorted(w.socks)
            behs = []
            for wid in everyone:
                inst = w.ex.works.get(wid)
                own = inst.open_fds() if inst is not None else [wid]
                if pending[:1] == [wid] and inst is not None:
                    own = []         # a stale work with this id is replaced by the arriving one in mid-round:
                    #                  one script serves two objects, so it closes nothing
                live = [fd for fd in own if fd != wid]
                mine = live + closed_seen[-3:]
                b = {'t': rng.choices(['f', 't', 'x'], [80, 12, 8])[0], 'e': [], 'o': [], 's': [], 'sx': rng.random() < 0.15}
                if rng.random() < 0.05:
                    b['e'] = 'x'
                else:
                    ev = {}
                    if rng.random() < 0.92:
                        ev[wid] = rng.choice([1, 1, 3, 2])
                    for fd in live:
                        if rng.random() < 0.85:
                            ev[fd] = rng.choice([1, 3, 3, 2])
                    if adv():
                        k = rng.randrange(6)
                        if k == 0 and mine:
                            ev[rng.choice(mine)] = rng.choice([1, 2, 3])        # possibly stale
                        elif k == 1 and allfds:
                            ev[rng.choice(allfds)] = rng.choice([1, 2, 3])      # someone else's
                        elif k == 2:
                            ev[rng.choice([-1, -2, -7])] = 1
                        elif k == 3 and ev:
                            ev[rng.choice(sorted(ev))] = rng.choice([0, 4, 5, 7])  # odd masks
                        elif k == 4:
                            ev[BASE + rng.randrange(0, 24)] = rng.choice([1, 3])   # maybe not open at all
                        elif k == 5 and closed_seen:
                            ev[rng.choice(closed_seen)] = rng.choice([1, 2, 3])
                    items = list(ev.items())
                    rng.shuffle(items)
                    b['e'] = items
                r = rng.random()
                if r < 0.22:
                    b['o'].append('o')
                elif r < 0.34 and live:
                    b['o'].append(rng.choice(live))
                elif r < 0.46 and live:
                    b['o'] += [rng.choice(live), 'o']                       # replace a socket: number reuse
                elif r < 0.53 and adv(2) and wid in own:
                    b['o'].append(wid)                                      # closes its client socket early
                gone = [o for o in b['o'] if o != 'o']
                keep = [fd for fd in own if fd not in gone]
                if rng.random() < 0.85:
                    b['s'] = keep
                else:
                    b['s'] = [fd for fd in keep if rng.random() < 0.5]
                behs.append((wid, b))

            def choose(evs, w=w):
                # readiness may be withheld but never invented: interested bits must be really ready
                ready = {}
                real = {k.fd: (k, m) for k, m in evs}
                fds = list(real)
                rng.shuffle(fds)
                keys = w.ex.selector.get_map()
                extra = [fd for fd in sorted(w.socks) if fd not in real and rng.random() < 0.15]
                for fd in fds + extra:
                    t = rng.choice([0, 1, 1, 2, 3, 3, 3])
                    if fd in real:
                        k, m = real[fd]
                        if w.peer_closed(fd):
                            t |= 4
                        else:
                            t &= (m | (3 & ~k.events))
                    elif fd in keys:
                        t &= 3 & ~keys[fd].events
                    ready[fd] = t
                return ready

            for wid, b in behs:
                w.beh[(w.rounds, wid)] = b
                for o in b['o']:
                    if o != 'o':
                        closed_seen.append(o)
            w.choose = choose
            w.round(None)
            w.choose = None
            ready = w.ready or {}
            prio = [x for x in everyone if rng.random() < 0.5]
            rng.shuffle(prio)
            ops.append('rnd/%s/%s/%s' % (
                ','.join('%d.%d' % kv for kv in ready.items()) or '-',
                ','.join(map(str, prio)) or '-',
                ';'.join(beh_tok(wid, b) for wid, b in behs) or '-'))
            if w.dead is None and rng.random() < 0.12 and w.ex.works:
                ids = [x for x in w.ex.works if rng.random() < 0.5]
                bs = []
                for wid in ids:
                    bs.append((wid, {'t': 'f', 'e': [], 'o': [], 's': w.ex.works[wid].open_fds(), 'sx': rng.random() < 0.2}))
                tok = 'reap/%s/%s' % (','.join(map(str, ids)) or '-', ';'.join(beh_tok(a, b) for a, b in bs) or '-')
                ops.append(tok)
                hist_apply(w, tok)
        return {'kind': 'hist', 'ops': ops}
    finally:
        w.close()


# -- selector sub-model ------------------------------------------------------

def sel_apply(w, st, tok):
    sel = w.ex.selector
    op = tok.split(':')
    try:
        if op[0] == 'sp':
            a, b = w.sockpair(prime=False)
            return 'sp %d %d' % (a.fileno(), b.fileno())
        if op[0] == 'cl':
            w.close_fd(int(op[1]))
            return 'ok'
        if op[0] == 'wr':
            s = w.socks.get(int(op[1]))
            if s is not None:
                try:
                    s.send(b'x')
                except OSError:
                    pass
            return 'ok'
        if op[0] == 'reg':
            sel.register(int(op[1]), int(op[2]), int(op[3]))
            return 'ok'
        if op[0] == 'mod':
            sel.modify(int(op[1]), int(op[2]), int(op[3]))
            return 'ok'
        if op[0] == 'unr':
            sel.unregister(int(op[1]))
            return 'ok'
        if op[0] == 'sel':
            want = [fd for fd, _ in _pairs(op[1], ',')]
            evs = {k.fd: (k, m) for k, m in w._orig_select(0)}
            out = []
            for fd in want:
                if fd in evs:
                    k, m = evs.pop(fd)
                    out.append('%d.%d.%d' % (k.data, fd, m))
            for fd in sorted(evs):           # events the trace did not announce: show them
                k, m = evs[fd]
                out.append('%d.%d.%d' % (k.data, fd, m))
            return 'ev ' + (','.join(out) or '-')
    except KeyError:
        return 'exc keyError'
    except ValueError:
        return 'exc valueError'
    except OSError as e:
        return 'exc ' + {errno.EBADF: 'ebadf', errno.ENOENT: 'enoent', errno.EEXIST: 'eexist'}.get(e.errno, 'os%d' % e.errno)
    raise ValueError(tok)


def sel_impl(case):
    w = scripted_world()
    try:
        out = [sel_apply(w, None, t) for t in case['ops']]
        mp = ','.join('%d.%d.%d' % (fd, k.events, k.data) for fd, k in sorted(w.ex.selector.get_map().items()))
        out.append('map ' + (mp or '-'))
        return ['|'.join(out)]
    finally:
        w.close()


def sel_model_lines(case):
    return ['sel %d %s' % (BASE, ' '.join(case['ops']))]


def gen_sel(rng, nops=30):
    w = scripted_world()
    ops = []
    wrote = set()
    try:
        def do(tok):
            ops.append(tok)
            sel_apply(w, None, tok)
        do('sp')
        for _ in range(nops):
            fds = sorted(w.socks)
            pool = fds + [BASE + rng.randrange(0, 10), -1, -3]
            fd = rng.choice(pool) if rng.random() < 0.25 else (rng.choice(fds) if fds else BASE)
            r = rng.random()
            if r < 0.12:
                do('sp')
            elif r < 0.24:
                do('cl:%d' % fd)
                wrote.discard(fd)
            elif r < 0.32:
                if fd in w.socks:
                    wrote.add(fd)
                do('wr:%d' % fd)
            elif r < 0.52:
                do('reg:%d:%d:%d' % (fd, rng.choice([1, 2, 3, 3, 1, 0, 4, 5]), rng.choice([fd, 7, 300])))
            elif r < 0.7:
                do('mod:%d:%d:%d' % (fd, rng.choice([1, 2, 3, 3, 1, 0, 4, 5]), rng.choice([fd, 7, 300])))
            elif r < 0.82:
                do('unr:%d' % fd)
            else:
                cand = sorted(set(fds + [k for k in w.ex.selector.get_map()]))
                rng.shuffle(cand)
                spec = []
                for f in cand:
                    t = w.truth(f)
                    if t is None:
                        t = rng.choice([0, 1, 3, 7])
                    spec.append('%d.%d' % (f, t))
                do('sel:' + (','.join(spec) or '-'))
        return {'kind': 'sel', 'ops': ops}
    finally:
        w.close()


# ---------------------------------------------------------------------------
# layer 2: real HttpProtocolHandler works in every role, several connections
# ---------------------------------------------------------------------------

RECVBUF = 8192
REFUSED_PORT = 1        # nothing listens on tcpmux here: real connects to it are refused
REAL_ARGS = ('--enable-web-server', '--enable-reverse-proxy',
             '--server-recvbuf-size', str(RECVBUF), '--client-recvbuf-size', str(RECVBUF))
_RP = None


def _rp_plugin():
    global _RP
    if _RP is None:
        from proxy.http.server import ReverseProxyBasePlugin

        class VerifReverseRoutes(ReverseProxyBasePlugin):
            def routes(self):
                return [(r'/r%d$' % i, [b'http://rev%d.example:%d/x' % (i, 9000 + i)]) for i in range(8)] + [
                    (r'/rc4$', [b'http://127.0.0.1:%d/x' % REFUSED_PORT]),
                    (r'/rc6$', [b'http://[::1]:%d/x' % REFUSED_PORT]),
                    (r'/rchost$', [b'http://localhost:%d/x' % REFUSED_PORT])]

        _RP = VerifReverseRoutes
    return _RP


_HOOKS = None


def _hooks_plugin():
    """a user HttpProxyBasePlugin whose hooks misbehave on request paths that ask for it
    (/verif-<mode>); every other request passes through untouched"""
    global _HOOKS
    if _HOOKS is None:
        from proxy.http.proxy import HttpProxyBasePlugin
        from proxy.http.exception import HttpRequestRejected
        from proxy.http.responses import okResponse

        class VerifProxyHooks(HttpProxyBasePlugin):
            mode = None

            def _mode(self, request):
                path = request.path or b''
                k = path.find(b'/verif-')
                if k >= 0:
                    self.mode = path[k + 7:].split(b'?')[0].decode('ascii', 'replace')
                return self.mode

            def before_upstream_connection(self, request):
                m = self._mode(request)
                if m == 'reject-before':
                    raise HttpRequestRejected(status_code=403, reason=b'Forbidden by plugin')
                if m == 'drop-before':
                    raise HttpRequestRejected()
                if m == 'boom-before':
                    raise RuntimeError('plugin failure before connect')
                if m == 'no-connect':
                    self.client.queue(okResponse(content=b'from plugin'))
                    return None
                return request

            def handle_client_request(self, request):
                m = self.mode
                if m == 'reject-after':
                    raise HttpRequestRejected(status_code=404, reason=b'Blocked by plugin')
                if m == 'drop-after':
                    raise HttpRequestRejected()
                if m == 'boom-after':
                    raise RuntimeError('plugin failure after connect')
                if m == 'none-after':
                    return None
                return request

            def handle_upstream_chunk(self, chunk):
                if self.mode == 'boom-chunk':
                    raise RuntimeError('plugin failure on upstream chunk')
                return chunk

            def on_upstream_connection_close(self):
                if self.mode == 'boom-close':
                    raise RuntimeError('plugin failure on close')

            def on_access_log(self, context):
                if self.mode == 'boom-log':
                    raise RuntimeError('plugin failure on access log')
                return context

        _HOOKS = VerifProxyHooks
    return _HOOKS


PLUGIN_MODES = ['reject-after', 'drop-after', 'reject-before', 'drop-before', 'no-connect', 'none-after',
                'boom-before', 'boom-after', 'boom-chunk']
# a hook raising *while the connection is being closed* (on_upstream_connection_close / on_access_log inside
# HttpProxyPlugin.on_client_connection_close) makes the proxy skip upstream.close(): candidate finding D11c,
# kept out of the generated roles until it is fixed or listed in known_findings.json (c10.finding_witnesses)
PLUGIN_MODES_CLOSE_HOOKS = ['boom-close', 'boom-log']


def real_plugins():
    from proxy.plugin import WebServerPlugin
    return [_rp_plugin(), WebServerPlugin, _hooks_plugin()]


def real_world(tcp=False, order=None):
    """order='rp-last': the reverse proxy comes after the passive web plugin in the web plugin list"""
    w = RealWorld(args=REAL_ARGS, tcp=tcp, plugins=real_plugins())
    if order == 'rp-last':
        import copy
        flags = copy.copy(w.flags)
        flags.plugins = dict(flags.plugins)
        flags.plugins[b'HttpWebServerBasePlugin'] = list(reversed(flags.plugins[b'HttpWebServerBasePlugin']))
        w.flags = flags
        w.ex.flags = flags
    return w


RESP = b'HTTP/1.1 200 OK\r\nContent-Length: 5\r\n\r\nhello'


def sized_response(total):
    """an HTTP response of exactly `total` bytes"""
    head = b'HTTP/1.1 200 OK\r\nContent-Length: %06d\r\n\r\n'
    body = b'y' * (total - len(head % 0))
    return head % len(body) + body


def sized_request(prefix, total):
    """a POST request of exactly `total` bytes whose first line and Host header are `prefix`"""
    head = prefix + b'Content-Length: %06d\r\n\r\n'
    body = b'q' * (total - len(head % 0))
    return head % len(body) + body


def good_script(role, i):
    """the well-behaved script of connection number i in a role; upstream port identifies the connection"""
    if role.startswith('x:'):
        # payloads that fill the receive buffers exactly (N x --server-recvbuf-size from the origin,
        # --client-recvbuf-size from the client); the origin keeps its connection open
        base, n = role[2:].split('*')
        n = int(n)
        resp = sized_response(n * RECVBUF).hex()
        if base == 'fwd':
            return [['cs', (b'GET http://up%d.example:%d/x HTTP/1.1\r\nHost: up%d.example:%d\r\n\r\n' % (i, 8000 + i, i, 8000 + i)).hex()],
                    ['us', resp], ['pump'], ['cc']]
        if base == 'rev':
            return [['cs', (b'GET /r%d HTTP/1.1\r\nHost: x\r\n\r\n' % i).hex()], ['us', resp], ['pump'], ['cc']]
        if base == 'tun':
            return [['cs', (b'CONNECT up%d.example:%d HTTP/1.1\r\nHost: up%d.example:%d\r\n\r\n' % (i, 8000 + i, i, 8000 + i)).hex()],
                    ['cs', (b'c' * (n * RECVBUF)).hex()], ['pump'], ['us', (b's' * (n * RECVBUF)).hex()], ['pump'], ['cc']]
        if base == 'post':
            req = sized_request(b'POST http://up%d.example:%d/p HTTP/1.1\r\nHost: up%d.example:%d\r\n' % (i, 8000 + i, i, 8000 + i),
                                n * RECVBUF)
            return [['cs', req.hex()], ['pump'], ['us', RESP.hex()], ['cc']]
        if base == 'revpost':
            req = sized_request(b'POST /r%d HTTP/1.1\r\nHost: x\r\n' % i, n * RECVBUF)
            return [['cs', req.hex()], ['pump'], ['us', resp], ['pump'], ['cc']]
        raise ValueError(role)
    if role == 'fwd':
        return [['cs', (b'GET http://up%d.example:%d/a?b=%d HTTP/1.1\r\nHost: up%d.example:%d\r\nUser-Agent: t\r\n\r\n'
                        % (i, 8000 + i, i, i, 8000 + i)).hex()],
                ['us', RESP.hex()], ['cc']]
    if role == 'fwdka':
        req = (b'GET http://up%d.example:%d/k HTTP/1.1\r\nHost: up%d.example:%d\r\n\r\n' % (i, 8000 + i, i, 8000 + i)).hex()
        return [['cs', req], ['us', RESP.hex()], ['cs', req], ['us', RESP.hex()], ['cc']]
    if role == 'post':
        return [['cs', (b'POST http://up%d.example:%d/p HTTP/1.1\r\nHost: up%d.example:%d\r\nContent-Length: 4\r\n\r\nab'
                        % (i, 8000 + i, i, 8000 + i)).hex()],
                ['cs', b'cd'.hex()], ['us', RESP.hex()], ['cc']]
    if role == 'tun':
        return [['cs', (b'CONNECT up%d.example:%d HTTP/1.1\r\nHost: up%d.example:%d\r\n\r\n' % (i, 8000 + i, i, 8000 + i)).hex()],
                ['cs', b'\x16\x03\x01client-hello'.hex()], ['us', b'\x16\x03\x03server-hello'.hex()],
                ['cs', b'appdata-1'.hex()], ['us', b'appdata-2'.hex()], ['cc']]
    if role.startswith('p:'):
        # forward proxy with a user plugin that rejects / drops / fails in the hook named by the mode
        mode = role[2:]
        steps = [['cs', (b'GET http://up%d.example:%d/verif-%s HTTP/1.1\r\nHost: up%d.example:%d\r\n\r\n'
                         % (i, 8000 + i, mode.encode(), i, 8000 + i)).hex()]]
        if mode in ('boom-chunk', 'boom-close', 'boom-log', 'none-after'):
            steps.append(['us', RESP.hex()])
        return steps + [['cc']]
    if role.startswith('rc:'):
        # the real new_socket_connection towards a port nobody listens on: IPv4 / IPv6 literal, host name
        host = {'4': b'127.0.0.1', '6': b'[::1]', 'host': b'localhost'}[role.split('-')[1]]
        kind = role[3:].split('-')[0]
        if kind == 'fwd':
            return [['cs', b'GET http://%s:%d/ HTTP/1.1\r\nHost: %s:%d\r\n\r\n'.replace(b'%s', host).replace(b'%d', b'%d' % REFUSED_PORT).hex()], ['cc']]
        if kind == 'tun':
            return [['cs', b'CONNECT %s:%d HTTP/1.1\r\nHost: %s:%d\r\n\r\n'.replace(b'%s', host).replace(b'%d', b'%d' % REFUSED_PORT).hex()], ['cc']]
        if kind == 'rev':
            return [['cs', (b'GET /rc%s HTTP/1.1\r\nHost: x\r\n\r\n' % role.split('-')[1].encode()).hex()], ['cc']]
        raise ValueError(role)
    if role.startswith('upg:'):
        # upgrade offers through the forward proxy: on the first request or on a follow-up request of the
        # kept-alive connection, websocket or h2c (what `curl --http2` sends), followed by more client bytes
        when, what = role[4:].split('-')
        up = {'ws': b'Connection: Upgrade\r\nUpgrade: websocket\r\nSec-WebSocket-Key: dGhlIHNhbXBsZSBub25jZQ==\r\nSec-WebSocket-Version: 13\r\n',
              'h2c': b'Connection: Upgrade, HTTP2-Settings\r\nUpgrade: h2c\r\nHTTP2-Settings: AAMAAABkAAQAAP__\r\n'}[what]
        line = b'GET http://up%d.example:%d/u HTTP/1.1\r\nHost: up%d.example:%d\r\n' % (i, 8000 + i, i, 8000 + i)
        plain = line + b'\r\n'
        offer = line + up + b'\r\n'
        more = [['cs', b'\x81\x85\x01\x02\x03\x04hello-frame'.hex()], ['pump'], ['cs', plain.hex()], ['pump']]
        if when == 'first':
            return [['cs', offer.hex()], ['us', RESP.hex()]] + more + [['cc']]
        return [['cs', plain.hex()], ['us', RESP.hex()], ['cs', offer.hex()], ['us', RESP.hex()]] + more + [['cc']]
    if role == 'web404':
        return [['cs', b'GET /nope HTTP/1.1\r\nHost: x\r\n\r\n'.hex()], ['cc']]
    if role == 'webroute':
        return [['cs', b'GET /http-route-example HTTP/1.1\r\nHost: x\r\n\r\n'.hex()], ['cc']]
    if role == 'rev':
        return [['cs', (b'GET /r%d HTTP/1.1\r\nHost: x\r\n\r\n' % i).hex()], ['us', RESP.hex()], ['cc']]
    if role == 'revka':
        req = (b'GET /r%d HTTP/1.1\r\nHost: x\r\n\r\n' % i).hex()
        return [['cs', req], ['us', RESP.hex()], ['cs', req], ['us', RESP.hex()], ['cc']]
    raise ValueError(role)


PLUGIN_ROLES = ['p:' + m for m in PLUGIN_MODES]
EXACT_ROLES = ['x:%s*%d' % (b, n) for b in ('fwd', 'rev', 'tun', 'post', 'revpost') for n in (1, 2, 3)]
REALCONN_ROLES = ['rc:%s-%s' % (k, h) for k in ('fwd', 'tun', 'rev') for h in ('4', '6', 'host')]
UPGRADE_ROLES = ['upg:%s-%s' % (w_, k) for w_ in ('first', 'follow') for k in ('ws', 'h2c')]
ROLES = ['fwd', 'fwdka', 'post', 'tun', 'web404', 'webroute', 'rev', 'revka'] + PLUGIN_ROLES + EXACT_ROLES + \
    REALCONN_ROLES + UPGRADE_ROLES
CANARY_ROLES = ['fwd', 'post', 'tun', 'web404', 'webroute', 'rev', 'p:reject-after', 'p:no-connect'] + EXACT_ROLES


def _fault(name):
    return {
        'reset': ConnectionResetError(errno.ECONNRESET, 'reset'),
        'timeout': TimeoutError(errno.ETIMEDOUT, 'timed out'),
        'pipe': BrokenPipeError(errno.EPIPE, 'broken pipe'),
        'unreach': OSError(errno.EHOSTUNREACH, 'unreachable'),
        'io': OSError(errno.EIO, 'io error'),
        'badf': OSError(errno.EBADF, 'bad fd'),
        'again': BlockingIOError(errno.EAGAIN, 'again'),
    }[name]


def _faults(spec):
    """{'recv:2': 'reset', 'send:0+': 'pipe', 'send:1+': 'stall'} -> FaultySocket faults"""
    out = {}
    for k, v in (spec or {}).items():
        op, n = k.split(':')
        e = v      # the name; FaultySocket builds the exception when it raises
        if n.endswith('+'):
            out[(op, int(n[:-1]), '+')] = e
        else:
            out[(op, int(n))] = e
    return out


class ConnRun:
    def __init__(self, idx, spec):
        self.idx = idx
        self.spec = spec
        self.client = None
        self.pos = 0
        self.ups = []
        self.nconn = 0


def drive(w, case, res, rounds_per_step=3, final_rounds=8):
    """runs the scenario `case` in world `w` (see run_real)"""
    conns = [ConnRun(i, c) for i, c in enumerate(case['conns'])]
    byport = {}
    orig_connect = w._connect

    def connect(addr, source_address=None):
        # outcome and faults are those of the connection that owns this upstream port
        c = byport.get(addr[1])
        if c is not None:
            outs = c.spec.get('connect', ['ok'])
            k = c.nconn
            c.nconn = k + 1
            w.plan = [outs[min(k, len(outs) - 1)]]
            w.up_faults = [_faults(c.spec.get('uf'))] if c.spec.get('uf') and k == 0 else []
        before = len(w.upstreams)
        s = orig_connect(addr, source_address)
        if c is not None and len(w.upstreams) > before:
            c.ups.append(w.upstreams[-1][1])
        return s
    w._S.new_socket_connection = connect

    def pump(n):
        for _ in range(n):
            e = w.round()
            res['rounds'] += 1
            if e is not None:
                res['dead'] = e
                return False
            for c in conns:
                if c.client is not None and not c.spec.get('noread'):
                    c.client.drain()
                for u in c.ups:
                    u.drain()
        return True

    def step(c):
        if c.client is None:
            c.client = w.client(faults=_faults(c.spec.get('cf')) or None, addr=('127.0.0.1', 40000 + c.idx),
                                smallbuf=bool(c.spec.get('smallbuf')))
            k = c.spec.get('i', c.idx)
            byport[8000 + k] = c
            byport[9000 + k] = c
            return
        if c.pos >= len(c.spec['steps']):
            return
        op = c.spec['steps'][c.pos]
        c.pos += 1
        up = c.ups[-1] if c.ups else None
        if op[0] == 'cs':
            c.client.send(bytes.fromhex(op[1]))
        elif op[0] == 'us' and up is not None:
            up.send(bytes.fromhex(op[1]))
        elif op[0] == 'usn' and up is not None:
            up.send(bytes(65 + (k % 23) for k in range(op[1])))      # op[1] bytes of origin output
        elif op[0] == 'pump':
            pass
        elif op[0] == 'gone':
            # by now the proxy must have torn this connection down on its own (client still open)
            if c.client.near_fd in w.ex.works:
                res['late'].append(c.idx)
        elif op[0] == 'cc':
            c.client.close()
        elif op[0] == 'cr':
            c.client.reset()
        elif op[0] == 'cw':
            c.client.shut_wr()
        elif op[0] == 'uc' and up is not None:
            up.close()
        elif op[0] == 'ur' and up is not None:
            up.reset()

    alive = True
    for i in case.get('sched', []):
        step(conns[i])
        alive = pump(rounds_per_step)
        if not alive:
            break
    # run every connection's remaining steps, then end the ones still open
    if alive:
        for c in conns:
            while alive and (c.client is None or c.pos < len(c.spec['steps'])):
                step(c)
                alive = pump(rounds_per_step)
    if alive and case.get('final') == 'idle':
        import proxy.http.handler as H
        real_time = H.time.time
        H.time.time = lambda: real_time() + 10000.0
        try:
            e = w.reap()
            if e is not None:
                res['dead'] = e
                alive = False
        finally:
            H.time.time = real_time
    if alive:
        for c in conns:
            if c.client is not None and c.client.sock.fileno() >= 0:
                # (after idle reaping, too: a work with output still queued is never `inactive`,
                #  its connection ends when the client goes away)
                if case.get('final') == 'reset':
                    c.client.reset()
                else:
                    c.client.close()
        alive = pump(final_rounds)
    for c in conns:
        res['canary'][c.idx] = {
            'client_rx': c.client.rx.hex() if c.client else '',
            'client_eof': bool(c.client and c.client.eof),
            'up_rx': [u.rx.hex() for u in c.ups],
            'connects': c.nconn,
        }
    w._S.new_socket_connection = orig_connect
    return conns


def run_real(case, rounds_per_step=3, final_rounds=8):
    """Runs a multi-connection scenario on the real executor + real handlers.
    Returns a dict of implementation-level observations."""
    import gc
    # "released promptly" must not depend on the cycle collector: it is off for the whole scenario and
    # descriptors are counted without collecting first
    gc_was_on = gc.isenabled()
    gc.disable()
    w = real_world(tcp=bool(case.get('tcp')), order=case.get('order'))
    res = {'dead': None, 'canary': {}, 'leaked': [], 'end': None, 'rounds': 0, 'late': []}
    try:
        if case.get('tcp'):
            for fd in [x.fileno() for x in w.tcp_pair()]:      # the shared listener exists from here on
                w.close_fd(fd)
        fds0 = count_fds()
        drive(w, case, res, rounds_per_step, final_rounds)
        res['end'] = w.snapshot() if w.dead is None else None
        res['leaked'] = w.leaked()
        for fd in list(w.socks):
            w.close_fd(fd)            # the harness's own ends
        res['fd_growth'] = count_fds() - fds0 if w.dead is None else 0
        res['closes'] = close_report(w)
        res['blocked'] = list(w.blocked)
        res['slowest'] = w.slowest
        res['hung'] = w.hung
        return res
    finally:
        w.close()
        if gc_was_on:
            gc.enable()


def close_report(w):
    """[(kind, addr, explicit close() calls, replaced)] per proxy-side socket; `replaced` = a later upstream
    socket was opened for the same address (the reverse proxy drops the previous one without close())"""
    out = []
    for serial, info in enumerate(w.nearinfo):
        later = any(i2 == info for i2 in w.nearinfo[serial + 1:]) if info and info[0] == 'up' else False
        out.append((info[0] if info else '?', list(info[1]) if info else None, w.closelog.get(serial, 0), later))
    return out


def run_repeat(case):
    """the same connection history `n` times on one executor; descriptor count before / after"""
    import gc
    gc_was_on = gc.isenabled()
    w = real_world(tcp=bool(case.get('tcp')), order=case.get('order'))
    res = {'dead': None, 'canary': {}, 'leaked': [], 'end': None, 'rounds': 0, 'late': []}
    try:
        one = {'conns': [case['conn']], 'sched': [], 'final': case.get('final')}
        drive(w, one, res)        # warm-up: lazily created descriptors (loop, listener) exist from here on
        for fd in list(w.socks):
            w.close_fd(fd)
        gc.collect()
        gc.disable()              # from here on nothing may depend on the cycle collector
        before = count_fds()
        for _ in range(case['n']):
            if res['dead'] is not None:
                break
            drive(w, one, res)
            for fd in list(w.socks):
                w.close_fd(fd)
            w.upstreams = []
        res['fds_before'] = before
        res['fds_after'] = count_fds()
        res['closes'] = close_report(w)
        res['end'] = w.snapshot() if w.dead is None else None
        res['leaked'] = w.leaked()
        return res
    finally:
        w.close()
        if gc_was_on:
            gc.enable()


# ---------------------------------------------------------------------------
# scenario generation for layer 2
# ---------------------------------------------------------------------------

SPECIAL_REQUESTS = [
    # non-UTF-8 request line (D11)
    b'GET http://up%(i)d.example:%(p)d/\xff\xfe HTTP/1.1\r\nHost: up%(i)d.example:%(p)d\r\n\r\n',
    b'G\xffT / HTTP/1.1\r\nHost: x\r\n\r\n',
    b'GET /\xc3\x28 HTTP/1.1\r\nHost: x\r\nUser-Agent: \xff\xff\r\n\r\n',
    # repeated Content-Length (D18), negative chunk size (D19)
    b'POST http://up%(i)d.example:%(p)d/ HTTP/1.1\r\nHost: h\r\nContent-Length: 5\r\nContent-Length: 0\r\n\r\nx',
    b'POST http://up%(i)d.example:%(p)d/ HTTP/1.1\r\nHost: h\r\nTransfer-Encoding: chunked\r\n\r\n-1\r\nabc\r\n0\r\n\r\n',
    b'POST http://up%(i)d.example:%(p)d/ HTTP/1.1\r\nHost: h\r\nTransfer-Encoding: chunked\r\n\r\nzz\r\n',
    b'POST http://up%(i)d.example:%(p)d/ HTTP/1.1\r\nHost: h\r\nContent-Length: abc\r\n\r\n',
    b'POST http://up%(i)d.example:%(p)d/ HTTP/1.1\r\nHost: h\r\nContent-Length: -5\r\n\r\n',
    # odd targets
    b'CONNECT up%(i)d.example:notaport HTTP/1.1\r\n\r\n',
    b'CONNECT up%(i)d.example HTTP/1.1\r\n\r\n',
    b'CONNECT [::1 HTTP/1.1\r\n\r\n',
    b'GET http://user@up%(i)d.example:%(p)d/ HTTP/1.1\r\n\r\n',
    b'GET http://up%(i)d.example:99999999999/ HTTP/1.1\r\n\r\n',
    b'GET ftp://up%(i)d.example/ HTTP/1.1\r\n\r\n',
    b'GET\r\n\r\n', b'\r\n\r\n', b' \r\n', b'GET / HTTP/1.1\r\n: novalue\r\n\r\n', b'GET / HTTP/1.1\r\nNoColon\r\n\r\n',
    b'GET / HTTP/9.9\r\n\r\n', b'PRI * HTTP/2.0\r\n\r\nSM\r\n\r\n', b'\x16\x03\x01\x02\x00\x01\x00\x01\xfc\x03\x03',
    b'GET /r%(i)d HTTP/1.1\r\nHost: x\r\nUpgrade: websocket\r\nConnection: Upgrade\r\n\r\n',
    b'GET /ws-route-example HTTP/1.1\r\nHost: x\r\nUpgrade: websocket\r\nConnection: Upgrade\r\nSec-WebSocket-Key: x\r\nSec-WebSocket-Version: 13\r\n\r\n\x81\xfe',
    b'GET /http-route-example HTTP/1.1\r\nHost: x\r\n\r\nGET /nope HTTP/1.1\r\nHost: x\r\n\r\n',
    b'GET /' + b'a' * 70000 + b' HTTP/1.1\r\n\r\n',
]

ABORTS = ['cc', 'cr', 'uc', 'ur', 'cw']
CONNECT_OUTCOMES = ['refused', 'gaierror', 'timeout', 'unreach']
FAULTS = ['reset', 'timeout', 'pipe', 'unreach', 'io', 'badf', 'again']


def mutate(rng, b):
    b = bytearray(b)
    for _ in range(rng.choice([1, 1, 2, 4])):
        k = rng.randrange(6)
        pos = rng.randrange(len(b) + 1)
        if k == 0 and b:
            b[pos % len(b)] = rng.randrange(256)
        elif k == 1 and b:
            del b[pos % len(b)]
        elif k == 2:
            b[pos:pos] = bytes(rng.randrange(256) for _ in range(rng.choice([1, 2, 5])))
        elif k == 3:
            b = b[:pos]
        elif k == 4 and b:
            b[pos % len(b)] = rng.choice(b'\r\n :\x00\xff/')
        elif k == 5:
            b[pos:pos] = rng.choice([b'\r\n', b'\r\n\r\n', b'Content-Length: 3\r\n', b'Transfer-Encoding: chunked\r\n', b'Host: \xff\r\n'])
    return bytes(b)


def prompt_variants(role, i):
    """the origin closes / resets after its response while the client stays open: the proxy must tear the
    connection down by itself, within a few loop iterations (no waiting for the client, no spinning)"""
    good = good_script(role, i)
    k = next((n for n, st in enumerate(good) if st[0] == 'us'), None)
    if k is None:
        return []
    out = []
    for ab in ('uc', 'ur'):
        for upto in (k, k + 1):
            out.append({'role': role, 'i': i, 'adv': 1, 'kind': 'prompt',
                        'steps': [list(st) for st in good[:upto]] + [[ab], ['pump'], ['pump'], ['gone'], ['cc']]})
    return out


def backlog_variants(role, i):
    """connections that reach teardown with output still queued for a client that no longer takes it:
    (a) the origin produces more than the (non-reading, small-buffered) client accepts, then every kind of abort;
    (b) the client socket's send stalls (EAGAIN while the client lives) or fails (EPIPE / ECONNRESET) from the
        first / second call on, then every kind of abort"""
    good = good_script(role, i)
    out = []
    k = next((n for n, st in enumerate(good) if st[0] == 'us'), None)
    if k is not None:
        flood = [list(st) for st in good[:k]] + [['usn', 131072]] * 5
        for ab in ABORTS:
            out.append({'role': role, 'i': i, 'adv': 1, 'kind': 'backlog', 'noread': 1, 'smallbuf': 1,
                        'steps': flood + [[ab]]})
    for spec in ({'send:0+': 'stall'}, {'send:1+': 'stall'}, {'send:0+': 'pipe'}, {'send:1+': 'reset'},
                 {'send:0': 'again', 'send:1+': 'pipe'}):
        for ab in ABORTS:
            steps = [list(st) for st in good if st[0] != 'cc'] + [[ab]]
            out.append({'role': role, 'i': i, 'adv': 1, 'kind': 'backlog', 'cf': dict(spec), 'steps': steps})
    return out


def gen_adversary(rng, i):
    if rng.random() < 0.12:
        return rng.choice(backlog_variants(rng.choice(ROLES), i))
    """one adversarial connection: every kind of abuse the property quantifies over"""
    role = rng.choice(ROLES)
    good = good_script(role, i)
    spec = {'role': role, 'i': i, 'adv': 1}
    k = rng.randrange(8)
    if k == 0:      # arbitrary bytes
        steps = [['cs', bytes(rng.randrange(256) for _ in range(rng.choice([1, 3, 17, 64, 300]))).hex()]
                 for _ in range(rng.choice([1, 2, 3]))]
        if rng.random() < 0.5:
            steps.append([rng.choice(['cc', 'cr', 'cw'])])
        spec.update(kind='garbage', steps=steps)
    elif k == 1:    # mutated requests
        steps = [list(s) for s in good]
        for s in steps:
            if s[0] in ('cs', 'us') and rng.random() < 0.7:
                s[1] = mutate(rng, bytes.fromhex(s[1])).hex()
        spec.update(kind='mutated', steps=steps)
    elif k in (2, 3):    # every prefix followed by every kind of abort
        cut = rng.randrange(len(good) + 1)
        steps = [list(s) for s in good[:cut]] + [[rng.choice(ABORTS)]]
        if rng.random() < 0.3:
            steps += [list(s) for s in good[cut:]]
        spec.update(kind='abort', steps=steps)
    elif k == 4:    # unreachable / refusing / unresolvable / timing out upstream
        spec.update(kind='connect', steps=[list(s) for s in good],
                    connect=[rng.choice(CONNECT_OUTCOMES)] + (['ok'] if rng.random() < 0.3 else []))
    elif k == 5:    # socket-layer errors injected at a call of the client or upstream socket
        spec.update(kind='fault', steps=[list(s) for s in good])
        f = {'%s:%d' % (rng.choice(['recv', 'send']), rng.randrange(4)): rng.choice(FAULTS)}
        spec['cf' if rng.random() < 0.5 else 'uf'] = f
    elif k == 6:    # crafted requests
        raw = rng.choice(SPECIAL_REQUESTS)
        if b'%(' in raw:
            raw = raw % {b'i': i, b'p': 8000 + i}
        steps = [['cs', raw.hex()]]
        if rng.random() < 0.5:
            steps += [['us', RESP.hex()]]
        if rng.random() < 0.5:
            steps += [[rng.choice(ABORTS)]]
        spec.update(kind='special', steps=steps)
    else:           # split into tiny segments
        steps = []
        for s in good:
            if s[0] == 'cs' and rng.random() < 0.8:
                raw = bytes.fromhex(s[1])
                cuts = sorted(rng.sample(range(1, len(raw)), min(len(raw) - 1, rng.choice([1, 2, 5]))))
                prev = 0
                for c in cuts + [len(raw)]:
                    steps.append(['cs', raw[prev:c].hex()])
                    prev = c
            else:
                steps.append(list(s))
        if rng.random() < 0.4:
            steps = steps[:rng.randrange(1, len(steps) + 1)] + [[rng.choice(ABORTS)]]
        spec.update(kind='segments', steps=steps)
    return spec


def special_format(raw, i):
    # bytes %-formatting with a dict needs bytes keys
    return raw


def gen_real(rng, ncanary=None, nadv=None):
    ncanary = rng.choice([1, 1, 2, 3]) if ncanary is None else ncanary
    nadv = rng.choice([1, 1, 1, 2]) if nadv is None else nadv
    conns = []
    n = ncanary + nadv
    slots = list(range(n))
    rng.shuffle(slots)
    adv_slots = set(slots[:nadv])
    for i in range(n):
        if i in adv_slots:
            conns.append(gen_adversary(rng, i))
        else:
            role = rng.choice(CANARY_ROLES)
            conns.append({'role': role, 'i': i, 'canary': 1, 'steps': good_script(role, i)})
    sched = []
    for i, c in enumerate(conns):
        sched += [i] * (len(c['steps']) + 1)
    rng.shuffle(sched)
    case = {'kind': 'real', 'conns': conns, 'sched': sched}
    r = rng.random()
    if r < 0.15:
        case['final'] = 'reset'
    elif r < 0.3:
        case['final'] = 'idle'
    if rng.random() < 0.25:
        case['tcp'] = 1
    return case


_STANDALONE = {}


def standalone_transcript(spec, tcp):
    """what a well-behaved connection gets when it is the only one the worker serves"""
    import json
    key = json.dumps([spec, tcp], sort_keys=True)
    if key not in _STANDALONE:
        r = run_real({'conns': [spec], 'sched': [], 'tcp': tcp})
        _STANDALONE[key] = (r['canary'][0], r['dead'])
    return _STANDALONE[key]


# ---------------------------------------------------------------------------
# layer 3: the real handlers seen as abstract works (refinement check)
# ---------------------------------------------------------------------------

def fd_snapshot(w=None):
    """{fd: identity} of the sockets of the scenario: every socket is created through the world
    (client pairs, patched new_socket_connection), so the tracked objects are the complete set;
    a socket object that is gone or has fileno() -1 is closed"""
    out = {}
    if w is None:
        w = fd_snapshot.world

    def serial(sock):
        # id() can be reused by a new object allocated where a freed one was: number the objects instead
        n = _SERIALS.get(sock)
        if n is None:
            n = _SERIALS[sock] = next(_COUNTER)
        return n
    for s in list(w.socks.values()):
        if s.fileno() >= 0:
            out[s.fileno()] = serial(s)
    for r in w.near:
        s = r()
        if s is not None and s.fileno() >= 0:
            out[s.fileno()] = serial(s)
    return out


import itertools as _it
import weakref as _wr
_SERIALS = _wr.WeakKeyDictionary()
_COUNTER = _it.count(1)
fd_snapshot.world = None


def fd_diff(before, after):
    closes = [fd for fd in sorted(before) if after.get(fd) != before[fd]]
    opens = [fd for fd in sorted(after) if before.get(fd) != after[fd]]
    return closes, opens


_REC_KLASS = None


def _rec_handler_class():
    global _REC_KLASS
    if _REC_KLASS is not None:
        return _REC_KLASS
    from proxy.http.handler import HttpProtocolHandler

    class RecHandler(HttpProtocolHandler):
        """the real handler; every call the executor makes is recorded as the abstract behaviour
        (`Beh` of lean/PxModel/Exec.lean) it amounts to"""
        rec = None

        def initialize(self):
            self._wid = self.work.connection.fileno()
            super().initialize()

        async def get_events(self):
            r = RecHandler.rec
            try:
                ev = await super().get_events()
            except Exception:
                r.beh(self._wid)['e'] = 'x'
                raise
            r.beh(self._wid)['e'] = list(ev.items())
            return ev

        async def handle_events(self, readables, writables):
            r = RecHandler.rec
            b = r.beh(self._wid)
            r.delivered.append((self._wid, list(readables), list(writables)))
            before = fd_snapshot()
            try:
                res = await super().handle_events(readables, writables)
                b['t'] = 't' if res else 'f'
                return res
            except Exception:
                b['t'] = 'x'
                raise
            finally:
                closes, opens = fd_diff(before, fd_snapshot())
                b['o'] = ['c%d' % fd for fd in closes] + ['a%d' % fd for fd in opens]

        def shutdown(self):
            r = RecHandler.rec
            b = r.beh(self._wid)
            before = fd_snapshot()
            try:
                super().shutdown()
            except Exception:
                b['sx'] = True
                raise
            finally:
                closes, opens = fd_diff(before, fd_snapshot())
                b['s'] = closes

    _REC_KLASS = RecHandler
    return RecHandler


class Recorder:
    def __init__(self):
        self.round = {}
        self.delivered = []

    def beh(self, wid):
        return self.round.setdefault(wid, {'e': [], 't': 'f', 'o': [], 's': [], 'sx': False})

    def reset(self):
        self.round = {}
        self.delivered = []


_DRV = {'pid': None, 'p': None}


def driver_eval(line):
    """one line through a per-process persistent model driver (line-buffered with stdbuf);
    falls back to a fresh driver process per call"""
    import shutil
    import subprocess
    exe = shutil.which('stdbuf')
    if exe is None:
        return common.model_eval([line])[0]
    for attempt in (0, 1):
        p = _DRV['p']
        if _DRV['pid'] != os.getpid() or p is None or p.poll() is not None:
            p = subprocess.Popen([exe, '-oL', common.DRIVER], stdin=subprocess.PIPE, stdout=subprocess.PIPE)
            _DRV['p'], _DRV['pid'] = p, os.getpid()
        try:
            p.stdin.write((line + '\n').encode())
            p.stdin.flush()
            out = p.stdout.readline()
        except OSError:
            out = b''
        if out:
            return out.decode().rstrip('\n')
        _DRV['p'] = None
    return common.model_eval([line])[0]


def refine_real(case):
    """Runs the scenario on the real executor with the real handlers, records for every round the
    abstract environment the handlers amounted to (events returned, task results, descriptors opened
    and closed, what shutdown closed, readiness reported by select) and checks that the model, fed that
    environment, predicts the executor's bookkeeping and the events delivered in every round.
    Returns 'ok' or a description of the first disagreement."""
    import gc
    from proxy.plugin import WebServerPlugin
    klass = _rec_handler_class()
    rec = Recorder()
    klass.rec = rec
    w = RealWorld(args=REAL_ARGS, tcp=bool(case.get('tcp')), work_klass=klass, plugins=real_plugins())
    fd_snapshot.world = w
    toks = []
    want = []
    known = {}
    state = {'ready': {}}
    orig_select = w._select

    def sel(timeout=None):
        evs = orig_select(timeout)
        state['ready'] = {k.fd: m for k, m in evs}
        return evs
    w.ex.selector.select = sel
    orig_round = w.round
    orig_reap = w.reap
    queued = []
    orig_queue = w.queue

    def queue(sock, addr=('127.0.0.1', 40000)):
        queued.append(sock.fileno())
        return orig_queue(sock, addr)
    w.queue = queue

    def sync_fds():
        """descriptor changes that happened outside the executor (the peers, new client pairs)"""
        now = fd_snapshot()
        closes, opens = fd_diff(known, now)
        for fd in closes:
            toks.append('pc:%d' % fd)
            want.append('ok')
        for fd in opens:
            if fd in queued:
                toks.append('connat:%d:0' % fd)
                queued.remove(fd)
            else:
                toks.append('oa:%d' % fd)
            want.append('ok')
        known.clear()
        known.update(now)

    def beh_toks():
        out = []
        for wid, b in rec.round.items():
            ev = 'x' if b['e'] == 'x' else ('+'.join('%d.%d' % fm for fm in b['e']) or '-')
            sd = ('+'.join(map(str, b['s'])) or ('' if b['sx'] else '-')) + ('!' if b['sx'] else '')
            out.append('%d~%s~%s~%s~%s' % (wid, ev, b['t'], '+'.join(b['o']) or '-', sd))
        return ';'.join(out) or '-'

    def book():
        return w.state_line().split(' o=')[0]

    def round_(ready=None):
        if w.dead is not None:
            return w.dead
        sync_fds()
        rec.reset()
        state['ready'] = {}
        e = orig_round(ready)
        toks.append('rnd/%s/-/%s' % (','.join('%d.%d' % kv for kv in state['ready'].items()) or '-', beh_toks()))
        if e is not None:
            want.append('dead ' + common.exc_name(e))
        else:
            want.append('t=%s %s' % (World._dash(';'.join(
                '%d:%s:%s' % (a, '+'.join(map(str, r)), '+'.join(map(str, x))) for a, r, x in rec.delivered)), book()))
        known.clear()
        known.update(fd_snapshot())
        return e

    def reap_():
        if w.dead is not None:
            return w.dead
        sync_fds()
        rec.reset()
        import proxy.http.handler as H
        ids = [wid for wid, wk in w.ex.works.items() if wk.is_inactive()]
        e = orig_reap()
        toks.append('reap/%s/%s' % (','.join(map(str, ids)) or '-', beh_toks()))
        want.append('dead ' + common.exc_name(e) if e is not None else book())
        known.clear()
        known.update(fd_snapshot())
        return e

    w.round = round_
    w.reap = reap_
    res = {'dead': None, 'canary': {}, 'leaked': [], 'end': None, 'rounds': 0, 'late': []}
    try:
        known.update(fd_snapshot())
        drive(w, case, res)
    finally:
        w.close()
        klass.rec = None
        fd_snapshot.world = None
    got = driver_eval('exec 0 ' + ' '.join(toks)).split('|') if toks else []
    for i, (g, x) in enumerate(zip(got, want)):
        g2 = g.split(' o=')[0]
        if g2 != x:
            return 'refinement-mismatch at op %d (%s): impl %s / model %s' % (i, toks[i][:200], x[:300], g2[:300])
    if len(got) != len(want):
        return 'refinement-length %d %d' % (len(got), len(want))
    return 'ok'
