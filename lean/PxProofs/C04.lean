import PxProofs.PersistReq
import PxProofs.PersistRev
/-!
# C04 — each request on a persistent connection is answered in order by the right origin

Property theorems; helper lemmas are in `PxProofs/Persist{Lemmas,Refine,Seg,Fwd,Port,Web,Rev,Req}.lean`.
The model (`PxModel/Persist.lean`, over `Relay.lean`, `Parser.lean`, `Build.lean`, `Forward.lean`,
`Connect.lean`, `Reverse.lean`) is tied to `proxy/http/handler.py`, `proxy/http/proxy/server.py`,
`proxy/http/server/web.py`, `proxy/http/server/reverse.py`, `proxy/core/base/tcp_upstream.py` by the
correspondence check `harness/c04.py`.

## The full statement (NOT claimed)

`C04_full`: for every list of well-formed requests `r₁ … rₙ` sent on one client connection to
the forward proxy / web server / reverse proxy, for EVERY way of cutting the byte stream
`render r₁ ++ … ++ render rₙ` into TCP segments and every benign schedule, the i-th request is
handed — exactly once, in order — to the origin / route that `rᵢ` names, the client receives the
responses in request order, and the proxy does not tear the connection down.

It does not hold for the code as it is; the theorems `C04_witness_F2 … F4` below exhibit, on the
model (kernel-evaluated), a concrete history for each of the three violated classes:

* F2 (finding D13b): a follow-up request naming another origin is written to the FIRST origin's connection;
* F3 (finding D13c): the web server hands every follow-up request to the FIRST request's route plugin;
* F4 (finding D12): the reverse proxy opens a new upstream connection per request and abandons the
  previous one (with whatever was not yet written to / read from it).

(F1, finding D13a — requests sharing a TCP segment were lost — is fixed by 84c574d; the former
witnesses are kept as the regression examples `C04_regression_F1*`, which now show the right behaviour.)

## What is proved (partial)

Since fix 84c574d the packing of requests into TCP segments is arbitrary in all three theorems:
the hypothesis is only that the segments the client socket delivers concatenate to
`render r₁ ++ render r₂ ++ …` (several requests per segment, requests split anywhere).

* `C04_partial_forward`: requests to one origin, every packing, every benign tick schedule
  (readiness subsets, partial writes, upstream data interleaved anywhere): the upstream byte
  stream is exactly `fwd r₁ ++ fwd r₂ ++ …` (first request with Via, later ones stripped, no Via:
  C02), one connect, no teardown, and (C01) what the client has received plus what is queued for it
  is what the upstream sent, in order.  `C04_forward_relay` / `C04_forward_segments` are the same for
  arbitrary byte strings that parse as one request each (no grammar assumed).
* `C04_partial_web`: web server, keep-alive requests, every packing: `handle_request` of the
  first request's route plugin is invoked once per request, in order, with that request.
* `C04_partial_reverse`: reverse proxy, routes answered by the plugin itself (literal responses),
  every packing: one answer per request, in order, no upstream connection.

Missing for the full statement: per-request origin selection (F2), per-request web routing (F3), a
persistent upstream connection per reverse-proxied client (F4).  Responses are relayed as a byte
stream (`C04_forward_relay`, last clause = C01): that each request gets exactly one response, in
request order, additionally rests on the origin answering the requests it reads in order on that
connection (assumption F5, stated in the harness).
-/
namespace Px.Persist
open Px Px.Relay Px.Parser

/-! ## forward proxy -/

/-- **C04, forward proxy, segments.**  `x₁` is exactly one request that, as first request, leads to a
connect to `a` and to `q₁` queued; `tl` are byte strings that are exactly one request each, forwarded
as `qs`, none a protocol switch.  For EVERY list of non-empty segments whose concatenation is the
stream `x₁ ++ x₂ ++ …` (requests packed several per segment, cut anywhere), the application steps
end established with an idle pipeline parser, having queued for the upstream exactly
`q₁ ++ q₂ ++ …` in order, with one connect. -/
theorem C04_forward_segments (cfg : Forward.Cfg) (ok : Bool) (x₁ : Bytes) (P₁ : Parser) (a : Connect.Addr)
    (q₁ : Bytes) (tl : Reqs) (qs : List Bytes) (h1 : FirstOk cfg ok x₁ P₁ a q₁) (hl : LaterAll cfg tl qs)
    (segs : List Bytes) (hne : ∀ seg ∈ segs, seg ≠ []) (hflat : segs.flatten = x₁ ++ stream tl) :
    ∃ req, segRun cfg ok (.first (init .request)) segs = some (.http req none, q₁ ++ qs.flatten, [a]) :=
  segRun_stream cfg ok x₁ P₁ a q₁ tl qs h1 hl segs hne [] (init .request) (.inl ⟨rfl, rfl⟩) x₁ rfl
    (oneReq_ne_nil h1.1) (by simpa using hflat)

theorem clientSegs_ne (ticks : List Tick) : ∀ seg ∈ clientSegs ticks, seg ≠ [] := by
  intro seg hs
  simp only [clientSegs, List.mem_filterMap] at hs
  obtain ⟨t, _, ht⟩ := hs
  split at ht
  · unfold segOf at ht
    split at ht
    · split at ht
      · cases ht
      · rename_i b hb
        simp only [Option.some.injEq] at ht
        subst ht
        intro h; simp [h] at hb
    · cases ht
  · cases ht

/-- **C04, forward proxy, connection level.**  The same, for the whole connection under every
benign tick schedule (`benign`: no peer closes, no `send`/`recv` fails; any readiness subset, any
partial write, upstream data at any time) whose client reads deliver that stream in any packing:
after the run the proxy has not torn the connection down, the pipeline parser is idle, the bytes
written to the upstream plus those queued for it are exactly `q₁ ++ q₂ ++ …`, there was one
connect, and (C01) delivered-to-client ++ queued-for-client = everything read from the upstream. -/
theorem C04_forward_relay (cfg : Forward.Cfg) (m : Nat) (x₁ : Bytes) (P₁ : Parser) (a : Connect.Addr)
    (q₁ : Bytes) (tl : Reqs) (qs : List Bytes) (h1 : FirstOk cfg true x₁ P₁ a q₁) (hl : LaterAll cfg tl qs)
    (ticks : List Tick) (hb : ∀ t ∈ ticks, benign t = true)
    (hsegs : (clientSegs ticks).flatten = x₁ ++ stream tl) :
    (frun cfg true (finit m) ticks).2 = .cont ∧
    (∃ req, (frun cfg true (finit m) ticks).1.phase = .http req none) ∧
    (frun cfg true (finit m) ticks).1.rs.sentU ++ (frun cfg true (finit m) ticks).1.rs.upstream.buffer.flatten
      = q₁ ++ qs.flatten ∧
    (frun cfg true (finit m) ticks).1.connects = [a] ∧
    (frun cfg true (finit m) ticks).1.rs.sentC ++ (frun cfg true (finit m) ticks).1.rs.client.buffer.flatten
      = (frun cfg true (finit m) ticks).1.rs.recvU := by
  obtain ⟨i1, i2, i3, i4, i5⟩ := finit_ok m
  obtain ⟨req, hs⟩ := C04_forward_segments cfg true x₁ P₁ a q₁ tl qs h1 hl (clientSegs ticks) (clientSegs_ne ticks) hsegs
  have r := frun_refines cfg true ticks (finit m) i1 i2 i3 hb (.http req none) (q₁ ++ qs.flatten) [a] hs
  refine ⟨r.cont, ⟨req, r.phase⟩, ?_, ?_, r.down⟩
  · have := r.up; rw [i4] at this; simpa [U] using this
  · have := r.connects; rw [i5] at this; simpa using this

/-- the origin (host, port text) a request names -/
def originOf (r : Forward.Req) : Option (Bytes × Option Bytes) :=
  match r.target with
  | .absolute host port _ => some (host, port)
  | .origin _ => none

/-- the host a request names -/
def hostOf (r : Forward.Req) : Option Bytes := (originOf r).map (·.1)

/-- **C04 (forward proxy), partial.**  For every non-empty list `r₁ :: rs` of well-formed
absolute-form requests (C02's `Req.WF`: any method but CONNECT, any fields with unique names, no
body / Content-Length / chunked in any layout), the follow-ups not protocol switches and naming
`r₁`'s origin (host and port), delivered in ANY packing — the segments the client socket delivers
concatenate to `render r₁ ++ render r₂ ++ …`, several requests per segment, cut anywhere — under
every benign tick schedule: the proxy does not tear the connection down; it connects once, to
`r₁`'s host; written to + queued for that upstream is exactly
`render (fwdImpl true cfg r₁) ++ render (fwdImpl false cfg r₂) ++ …` (by C02 each the forward form of
its request: first with Via, later without — finding D10v); every request names the connected
host; and (C01) the client has received / will receive the upstream's byte stream in order. -/
theorem C04_partial_forward (cfg : Forward.Cfg) (hcfg : Forward.CfgOk cfg) (m : Nat)
    (r₁ : Forward.Req) (rs : List Forward.Req)
    (hwf : ∀ r ∈ r₁ :: rs, r.WF ∧ r.isAbsolute = true)
    (hnu : ∀ r ∈ rs, notUpgrade r = true) (hsame : ∀ r ∈ rs, originOf r = originOf r₁)
    (ticks : List Tick) (hb : ∀ t ∈ ticks, benign t = true)
    (hsegs : (clientSegs ticks).flatten = Forward.render r₁ ++ (rs.map Forward.render).flatten) :
    ∃ (a : Connect.Addr),
      (frun cfg true (finit m) ticks).2 = .cont ∧
      (∃ req, (frun cfg true (finit m) ticks).1.phase = .http req none) ∧
      (frun cfg true (finit m) ticks).1.rs.sentU ++ (frun cfg true (finit m) ticks).1.rs.upstream.buffer.flatten
        = Forward.render (Forward.fwdImpl true cfg r₁) ++
            (rs.map (fun r => Forward.render (Forward.fwdImpl false cfg r))).flatten ∧
      (frun cfg true (finit m) ticks).1.connects = [a] ∧
      (∀ r ∈ r₁ :: rs, ∃ host, hostOf r = some host ∧ a.host = Connect.stripBrackets host) ∧
      (frun cfg true (finit m) ticks).1.rs.sentC ++ (frun cfg true (finit m) ticks).1.rs.client.buffer.flatten
        = (frun cfg true (finit m) ticks).1.rs.recvU := by
  obtain ⟨host, port, pq, ht⟩ : ∃ host port pq, r₁.target = .absolute host port pq := by
    have := (hwf r₁ (by simp)).2
    cases htg : r₁.target with
    | absolute h p q => exact ⟨h, p, q, rfl⟩
    | origin q => simp [Forward.Req.isAbsolute, htg] at this
  obtain ⟨P₁, v, h1⟩ := firstOk_render cfg hcfg r₁ (hwf r₁ (by simp)).1 ht
  have hl : ∃ tl : Reqs, tl.map (·.1) = rs.map Forward.render ∧
      LaterAll cfg tl (rs.map (fun r => Forward.render (Forward.fwdImpl false cfg r))) := by
    have : ∀ l : List Forward.Req, (∀ r ∈ l, r.WF ∧ r.isAbsolute = true ∧ notUpgrade r = true) →
        ∃ tl : Reqs, tl.map (·.1) = l.map Forward.render ∧
          LaterAll cfg tl (l.map (fun r => Forward.render (Forward.fwdImpl false cfg r))) := by
      intro l
      induction l with
      | nil => intro _; exact ⟨[], rfl, .nil⟩
      | cons r l ih =>
        intro h
        obtain ⟨w, ab, nu⟩ := h r (by simp)
        obtain ⟨P, hP⟩ := laterOk_render cfg hcfg r w ab nu
        obtain ⟨tl, e, hh⟩ := ih (fun r' hr' => h r' (by simp [hr']))
        exact ⟨(Forward.render r, P) :: tl, by simp [e], .cons hP hh⟩
    exact this rs (fun r hr => ⟨(hwf r (by simp [hr])).1, (hwf r (by simp [hr])).2, hnu r hr⟩)
  obtain ⟨tl, etl, hl⟩ := hl
  obtain ⟨c1, c2, c3, c4, c5⟩ := C04_forward_relay cfg m (Forward.render r₁) P₁ _ _ tl _ h1 hl ticks hb
    (by rw [hsegs, stream, etl])
  refine ⟨_, c1, c2, c3, c4, ?_, c5⟩
  have h0 : hostOf r₁ = some host := by simp [hostOf, originOf, ht]
  intro r hr
  rcases List.mem_cons.1 hr with rfl | hr
  · exact ⟨host, h0, rfl⟩
  · exact ⟨host, by unfold hostOf; rw [hsame r hr]; exact h0, rfl⟩

/-! ## built-in web server -/

theorem mem_of_norm_eq {l₁ l₂ : List Parser} (h : l₁.map norm = l₂.map norm) {P' : Parser} (hP : P' ∈ l₁) :
    ∃ P ∈ l₂, norm P = norm P' := by
  have : norm P' ∈ l₁.map norm := List.mem_map.2 ⟨P', hP, rfl⟩
  rw [h] at this
  obtain ⟨P, hP2, e⟩ := List.mem_map.1 this
  exact ⟨P, hP2, e⟩

/-- **C04 (web server), partial.**  `x₁` is exactly one web-server request whose path selects route
plugin `k` (`_try_route`), `tl` are exactly one request each, all HTTP/1.1 keep-alive, their paths
selecting plugin `k` as well; for EVERY list of non-empty segments whose concatenation is
`x₁ ++ x₂ ++ …`: `handle_request` is invoked exactly once per request, in order, each time on the
plugin the request's path names and with exactly that request (`Ps'`: the one-piece parses, as
data — `norm` sets the byte counter and the leftover buffer aside), its answers are queued for the
client in that order, the pipeline parser is idle and the connection stays routed (not closed). -/
theorem C04_partial_web (cfg : WCfg) (x₁ : Bytes) (P₁ : Parser) (k : Nat) (tl : Reqs)
    (h1 : WebFirstOk cfg x₁ P₁ k) (hl : WebLaterAll tl) (hroute : ∀ r ∈ tl, tryRoute cfg (webPath r.2) = some k)
    (segs : List Bytes) (hne : ∀ seg ∈ segs, seg ≠ []) (hflat : segs.flatten = x₁ ++ stream tl) :
    ∃ Ps' : List Parser, Ps'.map norm = (P₁ :: tl.map (·.2)).map norm ∧
      (wrun cfg ({}, none) segs).1.calls = Ps'.map (fun P => ((tryRoute cfg (webPath P)).getD 0, P)) ∧
      (wrun cfg ({}, none) segs).1.out = Ps'.map (fun P => cfg.respond ((tryRoute cfg (webPath P)).getD 0) P) ∧
      (wrun cfg ({}, none) segs).1.phase = .routed ∧ (wrun cfg ({}, none) segs).2 = none := by
  have hd := wrun_stream cfg x₁ P₁ k tl h1 hl segs hne [] (init .request) (.inl ⟨rfl, rfl⟩) x₁ rfl
    (oneReq_ne_nil h1.1) (by simpa using hflat)
  obtain ⟨Ps', hn, hc, ho⟩ := hd.ex
  have hk : ∀ P' ∈ Ps', tryRoute cfg (webPath P') = some k := by
    intro P' hP'
    obtain ⟨P, hP, e⟩ := mem_of_norm_eq hn hP'
    have hw : webPath P' = webPath P := by
      have h1' : webPath (norm P') = webPath P' := rfl
      have h2' : webPath (norm P) = webPath P := rfl
      rw [← h1', ← e, h2']
    rw [hw]
    rcases List.mem_cons.1 hP with rfl | hP
    · exact h1.2.2.2.2.1
    · obtain ⟨r, hr, rfl⟩ := List.mem_map.1 hP
      exact hroute r hr
  refine ⟨Ps', hn, ?_, ?_, hd.routed, hd.idle⟩
  · rw [hc]; exact List.map_congr_left (fun P hP => by rw [hk P hP]; rfl)
  · rw [ho]; exact List.map_congr_left (fun P hP => by rw [hk P hP]; rfl)

/-! ## reverse proxy -/

/-- **C04 (reverse proxy), partial.**  Requests all of whose matching routes are answered by the
plugin itself (`handle_route` returns a literal response), HTTP/1.1 keep-alive, in EVERY packing:
one `ReverseProxy.handle_request` per request, the answers are queued for the client in request
order, no upstream connection is opened, the connection stays open. -/
theorem C04_partial_reverse (cfg : RCfg) (x₁ : Bytes) (P₁ : Parser) (tl : Reqs)
    (h1 : RevFirstOk cfg x₁ P₁) (hl : ∀ r ∈ tl, RevLaterOk cfg r)
    (segs : List Bytes) (hne : ∀ seg ∈ segs, seg ≠ []) (hflat : segs.flatten = x₁ ++ stream tl) :
    let s := rrun cfg ({}, none) (segs.map .cseg)
    s.1.rv.client.buffer = revAnswer cfg true P₁ ++ (tl.map (fun r => revAnswer cfg false r.2)).flatten ∧
    s.1.handled = 1 + tl.length ∧ s.1.rv.connects = [] ∧ s.1.rv.upstream = none ∧ s.1.phase = .routed ∧
    s.2 = none := by
  have hd := rrun_stream cfg x₁ P₁ tl h1 hl segs hne [] (init .request) (.inl ⟨rfl, rfl⟩) x₁ rfl
    (oneReq_ne_nil h1.1) (by simpa using hflat)
  exact ⟨hd.answers, hd.handled, hd.connects, hd.upstream, hd.routed, hd.idle⟩

/-! ## regression examples (fixed finding D13a) and witnesses: the full statement fails on the model
    (kernel-evaluated) -/

/-- `GET http://a.example/<n> HTTP/1.1` + Host -/
def reqA (n : Nat) : Bytes :=
  b "GET http://a.example/" ++ natToDec n ++ b " HTTP/1.1\r\nHost: a.example\r\n\r\n"
/-- `GET http://b.example/1 HTTP/1.1` + Host -/
def reqB : Bytes := b "GET http://b.example/1 HTTP/1.1\r\nHost: b.example\r\n\r\n"
/-- forward form of `reqA n` as first request (with Via) / as follow-up (without) -/
def fwdA (first : Bool) (n : Nat) : Bytes :=
  b "GET /" ++ natToDec n ++ b " HTTP/1.1\r\nHost: a.example\r\n" ++
    (if first then b "Via: 1.1 " ++ Px.Gen.proxyAgentHeaderValue ++ CRLF else []) ++ CRLF

/-- the client socket delivers `x`; nothing else is ready -/
def tickC (x : Bytes) : Tick := ⟨true, false, false, false, .data x, .sslWantRead, .blocking, .blocking, .raised⟩
/-- the upstream socket is writable and accepts everything -/
def tickUW : Tick := ⟨false, false, false, true, .sslWantRead, .sslWantRead, .blocking, .sent 1000000, .raised⟩

/-- bytes the first request's parser keeps and nobody reads again -/
def Phase.leftover : Phase → Option Bytes
  | .http req _ => req.buffer
  | _ => none

def Phase.pipe : Phase → Option Parser
  | .http _ pl => pl
  | _ => none

/-- **regression of F1 (fixed finding D13a): two requests in one segment.**  The client sends
`reqA 1 ++ reqA 2` in ONE segment (a benign schedule; the upstream is then writable twice): both
requests are forwarded, in order; nothing is left in `request.buffer`, the pipeline parser is idle. -/
theorem C04_regression_F1 :
    let r := frun {} true (finit 0) [tickC (reqA 1 ++ reqA 2), tickUW, tickUW]
    r.2 = .cont ∧ r.1.rs.sentU = fwdA true 1 ++ fwdA false 2 ∧ r.1.rs.upstream.buffer = [] ∧
    r.1.phase.leftover = none ∧ r.1.phase.pipe = none ∧
    ([tickC (reqA 1 ++ reqA 2), tickUW, tickUW].all benign) = true := by
  decide +kernel

/-- **regression of F1, follow-up parser.**  `reqA 1`, then `reqA 2 ++ reqA 3` in one segment: all
three requests reach the upstream, in order. -/
theorem C04_regression_F1_followup :
    let r := frun {} true (finit 0) [tickC (reqA 1), tickUW, tickC (reqA 2 ++ reqA 3), tickUW, tickUW, tickUW]
    r.2 = .cont ∧ r.1.rs.sentU = fwdA true 1 ++ fwdA false 2 ++ fwdA false 3 ∧ r.1.rs.upstream.buffer = [] ∧
    r.1.phase.leftover = none ∧ r.1.phase.pipe = none := by
  decide +kernel

/-- **regression of F1, a request cut across segments after a complete one.**  `reqA 1 ++ (first 10
bytes of reqA 2)`, then the rest of `reqA 2`: both forwarded. -/
theorem C04_regression_F1_split :
    let r := frun {} true (finit 0) [tickC (reqA 1 ++ (reqA 2).take 10), tickUW, tickC ((reqA 2).drop 10), tickUW, tickUW]
    r.2 = .cont ∧ r.1.rs.sentU = fwdA true 1 ++ fwdA false 2 ∧ r.1.phase.pipe = none := by
  decide +kernel

/-- **F2 (D13b): a follow-up request naming another origin.**  `reqA 1` then `reqB`
(`http://b.example/1`): there is one connect, to `a.example:80`, and the request for `b.example` is
written to that connection. -/
theorem C04_witness_F2 :
    let r := frun {} true (finit 0) [tickC (reqA 1), tickUW, tickC reqB, tickUW]
    r.2 = .cont ∧ r.1.connects = [⟨b "a.example", 80⟩] ∧
    r.1.rs.sentU = fwdA true 1 ++ b "GET /1 HTTP/1.1\r\nHost: b.example\r\n\r\n" := by
  decide +kernel

/-- two route plugins: plugin 0 serves `/a`, plugin 1 serves `/b`; an answer names its plugin -/
def webCfg2 : WCfg :=
  { routes := [(0, 0), (1, 1)]
    matchPat := fun path i => (i == 0 && path == b "/a") || (i == 1 && path == b "/b")
    respond := fun k _ => [UInt8.ofNat (48 + k)] }

def webReq (path : String) : Bytes := b "GET " ++ b path ++ b " HTTP/1.1\r\nHost: x\r\nConnection: keep-alive\r\n\r\n"

/-- **F3 (D13c): web server follow-ups go to the first request's route.**  `GET /a` then `GET /b`:
`/b` selects plugin 1, but both requests are handed to plugin 0 and answered by it. -/
theorem C04_witness_F3 :
    let s := (wrun webCfg2 ({}, none) [webReq "/a", webReq "/b"]).1
    s.calls.map (·.1) = [0, 0] ∧ s.calls.map (·.2.path) = [some (b "/a"), some (b "/b")] ∧
    s.out = [[48], [48]] ∧ tryRoute webCfg2 (b "/b") = some 1 := by
  decide +kernel

/-- one reverse-proxy plugin with the static route `/a → http://ua.example:9001/x` -/
def revCfg1 : RCfg :=
  { table := [[.static 0 [b "http://ua.example:9001/x"]]]
    matchPat := fun path i => i == 0 && path == b "/a" }

def revFwd : Bytes := b "GET /x HTTP/1.1\r\nHost: x\r\nConnection: keep-alive\r\n\r\n"

/-- **F4 (D12): reverse proxy keep-alive.**  Two `GET /a` on one connection, each flushed to its
upstream; then the origin behind the FIRST upstream connection answers.  There were two connects,
`self.upstream` is the second connection, each connection was written one request — and the first
origin's answer is never relayed (only `self.upstream` is read): the client gets nothing for
request 1.  (On the real executor the replaced socket is closed by reference counting and its
descriptor number reused, which ends in a torn-down or stalled connection: harness oracle.) -/
theorem C04_witness_F4 :
    let st := rrun revCfg1 ({}, none) [.cseg (webReq "/a"), .uflush, .cseg (webReq "/a"), .uflush, .useg 0 (b "HTTP/1.1 200 OK\r\n\r\n")]
    let s := st.1
    s.rv.connects = [(b "ua.example", 9001), (b "ua.example", 9001)] ∧ s.current = some 1 ∧
    s.wrote = [revFwd, revFwd] ∧ s.handled = 2 ∧ s.rv.client.buffer = [] ∧
    (rstep revCfg1 st (.useg 1 (b "R2"))).1.rv.client.buffer = [b "R2"] := by
  decide +kernel

/-! ## non-vacuity: inhabitants of the hypotheses -/

/-- `GET http://example.com/<c> HTTP/1.1` with a Host field; `POST http://example.com/p` chunked -/
def exR (c : UInt8) : Forward.Req :=
  { method := [71, 69, 84]
    target := .absolute [101, 120, 97, 109, 112, 108, 101, 46, 99, 111, 109] none [47, c]
    version := Px.Gen.http11
    fields := [⟨[72, 111, 115, 116], [32], [101, 120, 97, 109, 112, 108, 101, 46, 99, 111, 109], []⟩]
    body := []
    framing := .none }

def exPost : Forward.Req :=
  { method := [80, 79, 83, 84]
    target := .absolute [101, 120, 97, 109, 112, 108, 101, 46, 99, 111, 109] none [47, 112]
    version := Px.Gen.http11
    fields := [⟨[72, 111, 115, 116], [32], [101, 120, 97, 109, 112, 108, 101, 46, 99, 111, 109], []⟩,
      ⟨[84, 114, 97, 110, 115, 102, 101, 114, 45, 69, 110, 99, 111, 100, 105, 110, 103], [32], [99, 104, 117, 110, 107, 101, 100], []⟩]
    body := [104, 105]
    framing := .chunked [⟨[50], [], [104, 105]⟩] [48] [] }

example : (exR 49).WF ∧ (exR 50).WF ∧ exPost.WF := by decide +kernel
example : ∀ r ∈ [exR 50, exPost], notUpgrade r = true ∧ originOf r = originOf (exR 49) ∧ r.isAbsolute = true := by
  decide +kernel
example : Forward.CfgOk {} := by decide +kernel
/-- a packing of the three requests into two segments, the first holding the whole of `exR 49` and a
    piece of `exR 50` -/
example :
    let x := Forward.render (exR 49) ++ (Forward.render (exR 50) ++ Forward.render exPost)
    [x.take 60, x.drop 60].flatten = Forward.render (exR 49) ++ ([exR 50, exPost].map Forward.render).flatten ∧
    (Forward.render (exR 49)).length < 60 ∧ ∀ seg ∈ [x.take 60, x.drop 60], seg ≠ [] := by
  decide +kernel
/-- a benign schedule: client segments with upstream data and partial writes in between -/
example : ([tickC [1], tickUW, ⟨true, true, true, true, .data [2], .data [9, 9], .sent 1, .sslWantWrite, .raised⟩].all benign) = true ∧
    clientSegs [tickC [1], tickUW, ⟨true, true, true, true, .data [2], .data [9, 9], .sent 1, .sslWantWrite, .raised⟩] = [[1], [2]] := by
  decide +kernel
/-- byte-level hypotheses: `reqA 1` as first request, `reqA 2` as follow-up -/
example : ∃ P a q, FirstOk {} true (reqA 1) P a q := by
  have h : (oneReq (reqA 1)).isSome = true := by decide +kernel
  obtain ⟨P, hP⟩ := Option.isSome_iff_exists.1 h
  have : ∀ P, oneReq (reqA 1) = some P → ∃ a q, firstComplete {} true P = .established a q := by
    have hh : (match oneReq (reqA 1) with
      | some P => (match firstComplete {} true P with | .established _ _ => true | _ => false)
      | none => false) = true := by decide +kernel
    intro P hP
    rw [hP] at hh
    cases hf : firstComplete {} true P <;> simp [hf] at hh
    exact ⟨_, _, rfl⟩
  obtain ⟨a, q, hq⟩ := this P hP
  exact ⟨P, a, q, hP, hq⟩
example : (match oneReq (reqA 2) with
    | some P => (match Forward.buildFor {} (Forward.treatLater {} P) with | .ok q => q == fwdA false 2 | _ => false) &&
        !isUpgrade (Forward.treatLater {} P)
    | none => false) = true := by decide +kernel
/-- web / reverse hypotheses -/
example : (match oneReq (webReq "/a") with
    | some P => isWebRequest P && !isWebsocketUpgrade P && Px.Url.utf8Valid (webPath P) &&
        (tryRoute webCfg2 (webPath P) == some 0) && isKeepAlive P
    | none => false) = true := by decide +kernel
/-- a plugin answering `/h` itself -/
def revCfgLit : RCfg :=
  { table := [[.dynamic 0 (.literal (b "HTTP/1.1 200 OK\r\nContent-Length: 2\r\n\r\nok"))]]
    matchPat := fun path i => i == 0 && path == b "/h" }
example : (match oneReq (webReq "/h") with
    | some P => isWebRequest P && !isWebsocketUpgrade P && P.path.isSome && Px.Url.utf8Valid (webPath P) &&
        Px.Reverse.anyMatch (revCfgLit.matchPat (webPath P)) revCfgLit.table &&
        litOnly (revCfgLit.matchPat (webPath P)) revCfgLit.table && litOnly (revCfgLit.matchPat (revPath P)) revCfgLit.table &&
        isKeepAlive P
    | none => false) = true := by decide +kernel

end Px.Persist
