import PxModel.Forward
import PxModel.Relay
import PxModel.Connect
import PxModel.Reverse
/-
  C04 — persistent connections: what happens to the 2nd … nth request of one
  client connection, for the three servers inside proxy.py.

  Forward proxy (default flags: `HttpProxyPlugin` only, no `HttpProxyBasePlugin`
  chain, no pool, no TLS interception) — a *connection-level* model, tick by tick:

    proxy/http/handler.py       HttpProtocolHandler.handle_data / _parse_first_request
                                (first request: `self.request` is fed every client segment
                                until it is COMPLETE; afterwards every segment goes to
                                `plugin.on_client_data`)
    proxy/http/proxy/server.py  HttpProxyPlugin.on_request_complete (connect, Via, build,
                                queue), HttpProxyPlugin.on_client_data (a fresh
                                `pipeline_request` parser per follow-up request; what is left
                                in its buffer is discarded with it; connection-upgrade
                                requests keep the parser and switch to raw passthrough)

  It is the relay state machine of `PxModel/Relay.lean` (C01/C07) whose abstract
  input `Tick.app` — "what the application did with this client segment" — is
  *computed* here from the parser / builder models (`Parser.parse`,
  `Forward.treatFirst/treatLater/buildFor`, `Connect.connectUpstream`).

  Built-in web server and reverse proxy — *segment/event-level* models:

    proxy/http/server/web.py      HttpWebServerPlugin.on_request_complete / _try_route
                                  (route chosen ONCE, for the first request),
                                  on_client_data (keep-alive pipeline parser, every
                                  follow-up goes to `self.route.handle_request`)
    proxy/http/server/reverse.py  ReverseProxy.handle_request (per request: routing and a
                                  NEW `TcpServerConnection` that replaces `self.upstream`),
                                  over `PxModel/Reverse.lean` (C12)
    proxy/core/base/tcp_upstream.py  only `self.upstream` is polled, flushed and read
-/
namespace Px.Persist
open Px Px.Parser

/-! ## shared: request predicates of proxy/http/parser/parser.py -/

def connectionName : Bytes := [67, 111, 110, 110, 101, 99, 116, 105, 111, 110]   -- b'Connection'
def upgradeName : Bytes := [85, 112, 103, 114, 97, 100, 101]                     -- b'Upgrade'
def keepAliveTok : Bytes := [107, 101, 101, 112, 45, 97, 108, 105, 118, 101]     -- b'keep-alive'
def websocketTok : Bytes := [119, 101, 98, 115, 111, 99, 107, 101, 116]          -- b'websocket'
def derpTok : Bytes := [100, 101, 114, 112]                                      -- b'derp'

/-- `is_connection_upgrade` -/
def isUpgrade (p : Parser) : Bool :=
  p.version == some Px.Gen.http11 && hasHeader p connectionName && hasHeader p upgradeName

/-- `is_websocket_upgrade` -/
def isWebsocketUpgrade (p : Parser) : Bool :=
  isUpgrade p && (match header p upgradeName with
    | .ok v => lower v == websocketTok || lower v == derpTok
    | .error _ => false)

/-- `is_http_1_1_keep_alive` -/
def isKeepAlive (p : Parser) : Bool :=
  p.version == some Px.Gen.http11 &&
    (!hasHeader p connectionName ||
      (match header p connectionName with
       | .ok v => lower v == keepAliveTok
       | .error _ => false))

/-! ## forward proxy -/

/-- how an exception raised by `HttpParser.parse` inside `on_client_data` leaves
    `handle_data`: `HttpProtocolException` is caught there (its `response()` is
    `None`: nothing queued, `handle_data` returns `True`); anything else escapes
    `handle_events`. -/
def parseErrApp : Px.Parser.Err → Relay.AppOut
  | .httpProtocol => .ok none none true
  | _ => .raised

/-- `HttpProxyPlugin.on_client_data(raw)` on an established plain-HTTP exchange
    (`self.upstream` set and not closed, `self.request.is_complete`, not a tunnel):
    the new value of `self.pipeline_request` and what the call did. -/
def pipeStep (cfg : Forward.Cfg) (pl : Option Parser) (raw : Bytes) : Option Parser × Relay.AppOut :=
  let fresh (p : Parser) : Option Parser × Relay.AppOut :=
    match parse Forward.pcfg p raw with
    | .error e => (some p, parseErrApp e)
    | .ok p' =>
      if p'.state == .complete then
        -- (no plugins) del_headers([PROXY_AUTHORIZATION, PROXY_CONNECTION]); upstream.queue(build(...))
        let q := Forward.treatLater cfg p'
        match Forward.buildFor cfg q with
        | .error _ => (some q, .raised)
        | .ok x => (if isUpgrade q then some q else none, .ok (some x) none false)
      else (some p', .ok none none false)
  match pl with
  | some p =>
    -- previous pipelined request was an upgrade request: raw passthrough
    if p.state == .complete && isUpgrade p then (pl, .ok (some raw) none false) else fresh p
  | none => fresh (init .request)

/-- what the completed first request leads to -/
inductive FirstOut
  /-- HTTP_PROXY, plain: connect to `a`, queue `req` for the upstream -/
  | established (a : Connect.Addr) (req : Bytes)
  /-- CONNECT: connect to `a`, queue the 200 acknowledgement for the client -/
  | tunnel (a : Connect.Addr)
  /-- `handle_data` returns True after queueing `resp` (400 / 502) or nothing;
      `a`: the connect attempt made before, if any -/
  | reject (resp : Option Bytes) (a : Option Connect.Addr)
  /-- a non-protocol exception escapes `handle_events` -/
  | raised
  deriving DecidableEq, Repr

/-- `_parse_first_request` from `if not self.request.is_complete` on, with
    `HttpProxyPlugin.on_request_complete` (no plugins).  `connectOk`: whether
    `new_socket_connection` succeeds. -/
def firstComplete (cfg : Forward.Cfg) (connectOk : Bool) (p : Parser) : FirstOut :=
  -- UNKNOWN protocol, or WEB_SERVER with no web plugin enabled: BAD_REQUEST
  if !Forward.isProxyRequest p then .reject (some Px.Gen.pkt_BAD_REQUEST_RESPONSE_PKT) none
  else match Connect.connectUpstream p.host p.port with
    | .error .httpProtocol => .reject none none          -- 'Both host and port must exist': response() is None
    | .error .unicodeError => .raised                    -- text_(host) raises again inside the except arm
    | .ok a =>
      if !connectOk then .reject (some Px.Gen.pkt_BAD_GATEWAY_RESPONSE_PKT) (some a)   -- ProxyConnectionFailed
      else if p.isTunnel then .tunnel a
      else match Forward.buildFor cfg (Forward.treatFirst cfg p) with
        | .ok x => .established a x
        | .error _ => .raised

/-- where the connection is in its life -/
inductive Phase
  /-- `handler.request` not complete yet, `handler.plugin is None` -/
  | first (p : Parser)
  /-- `HttpProxyPlugin` with a connected upstream, plain HTTP; `req` = the completed
      `handler.request` (what it keeps in `buffer` is never read again),
      `pipe` = `plugin.pipeline_request` -/
  | http (req : Parser) (pipe : Option Parser)
  /-- … CONNECT tunnel -/
  | tunnel
  /-- first request rejected: no plugin / no upstream; the handler is only flushing -/
  | done
  deriving DecidableEq, Repr

structure FSt where
  phase : Phase
  rs : Relay.St
  /-- ghost: every address handed to `TcpServerConnection(...).connect()`, in order -/
  connects : List Connect.Addr
  deriving DecidableEq, Repr

/-- a fresh connection: `HttpProtocolHandler.__init__` -/
def finit (maxSend : Nat) : FSt :=
  { phase := .first (init .request), rs := Relay.st0 .local maxSend [] [] false false, connects := [] }

/-- effect of one client segment `raw` handed to `handle_data`: next phase, the
    `Tick.app` value the relay sees, and — when the first request completes with a
    connected upstream — the exchange kind and initial upstream queue to switch to
    once the tick is over, plus the connect attempt made. -/
def appOf (cfg : Forward.Cfg) (connectOk : Bool) (ph : Phase) (raw : Bytes) :
    Phase × Relay.AppOut × Option (Relay.Kind × List Bytes) × Option Connect.Addr :=
  match ph with
  | .first p =>
    match parse Forward.pcfg p raw with
    | .error _ =>
      -- BAD_REQUEST queued, HttpProtocolException raised and caught: handle_data returns True
      (.done, .ok none (some Px.Gen.pkt_BAD_REQUEST_RESPONSE_PKT) true, none, none)
    | .ok p' =>
      if p'.state != .complete then (.first p', .ok none none false, none, none)
      else match firstComplete cfg connectOk p' with
        | .established a x => (.http p' none, .ok none none false, some (.http, [x]), some a)
        | .tunnel a => (.tunnel, .ok none (some Relay.ack) false, some (.tunnel, []), some a)
        | .reject resp a => (.done, .ok none resp true, none, a)
        | .raised => (.done, .raised, none, none)
  | .http req pipe =>
    let r := pipeStep cfg pipe raw
    (.http req r.1, r.2, none, none)
  | .tunnel => (.tunnel, .ok none none false, none, none)     -- Relay queues raw itself
  | .done => (.done, .ok none none false, none, none)

/-- the segment a `recv` outcome hands to `handle_data`, if any -/
def segOf : RecvOut → Option Bytes
  | .data b => if b.isEmpty then none else some b
  | _ => none

/-- one `handle_events` round.  `masked`: readiness restricted to `get_events()`
    (an executor round, `Relay.step`) or taken as given (`Relay.tick`).
    The client segment was consumed by `handle_data` iff the relay's ghost
    `recvC` grew. -/
def fstepWith (masked : Bool) (cfg : Forward.Cfg) (connectOk : Bool) (s : FSt) (t : Relay.Tick) :
    FSt × Relay.Ret :=
  match segOf t.cRecv with
  | none =>
    let r := if masked then Relay.step s.rs t else Relay.tick s.rs t
    ({ s with rs := r.1 }, r.2)
  | some raw =>
    let a := appOf cfg connectOk s.phase raw
    let t' := { t with app := a.2.1 }
    let r := if masked then Relay.step s.rs t' else Relay.tick s.rs t'
    let consumed := r.1.recvC.length != s.rs.recvC.length && !(s.rs.kind == .http && s.rs.upstream.closed)
    if !consumed then ({ s with rs := r.1 }, r.2)
    else
      let rs' := match a.2.2.1 with
        | some (k, ub) => { r.1 with kind := k, upstream := { buffer := ub } }
        | none => r.1
      ({ phase := a.1, rs := rs',
         connects := s.connects ++ (match a.2.2.2 with | some x => [x] | none => []) }, r.2)

/-- one executor round -/
def fstep (cfg : Forward.Cfg) (connectOk : Bool) (s : FSt) (t : Relay.Tick) : FSt × Relay.Ret :=
  fstepWith true cfg connectOk s t

/-- rounds until `handle_events` returns True or raises -/
def frun (cfg : Forward.Cfg) (connectOk : Bool) (s : FSt) : List Relay.Tick → FSt × Relay.Ret
  | [] => (s, .cont)
  | t :: ts =>
    match fstep cfg connectOk s t with
    | (s1, .cont) => frun cfg connectOk s1 ts
    | r => r

/-! ## built-in web server -/

/-- `flags.plugins[b'HttpWebServerBasePlugin']` as far as routing sees it:
    `routes[HTTP]` in dict order as `(pattern id, plugin index)`, and which
    patterns match which path (`re.match`, evaluated by the harness with the real
    `re`).  WebSocket routes and `--enable-static-server` are not modelled. -/
structure WCfg where
  routes : List (Nat × Nat)
  matchPat : Bytes → Nat → Bool
  notFound : Bytes := Px.Gen.pkt_NOT_FOUND_RESPONSE_PKT
  badRequest : Bytes := Px.Gen.pkt_BAD_REQUEST_RESPONSE_PKT
  /-- what plugin `k`'s `handle_request(request)` queues for the client -/
  respond : Nat → Parser → Bytes

/-- `path = self.request.path or b'/'` -/
abbrev webPath (p : Parser) : Bytes := Px.Reverse.webPath p

/-- `_try_route`: first route (dict order) whose pattern matches `text_(path)` -/
def tryRoute (cfg : WCfg) (path : Bytes) : Option Nat :=
  (cfg.routes.find? (fun r => cfg.matchPat path r.1)).map (·.2)

inductive WPhase
  | first          -- `handler.request` incomplete
  | routed         -- web plugin with `self.route` set
  | closing        -- `handle_data` returned True: flush, then close; no more reads
  | raised         -- an exception escaped `handle_events`
  | other          -- first request is not for the web server / is a websocket upgrade (not modelled)
  deriving DecidableEq, Repr

structure WSt where
  phase : WPhase := .first
  /-- `handler.request` -/
  request : Parser := init .request
  /-- `plugin.route`: index of the plugin chosen for the FIRST request -/
  route : Option Nat := none
  /-- `plugin.pipeline_request` -/
  pipe : Option Parser := none
  /-- everything queued for the client, in order -/
  out : List Bytes := []
  /-- `handle_request` invocations: (plugin index, request as handed over) -/
  calls : List (Nat × Parser) := []
  deriving DecidableEq, Repr

/-- `http_handler_protocol == WEB_SERVER` -/
def isWebRequest (p : Parser) : Bool :=
  (p.version == some Px.Gen.http11 || p.version == some Px.Gen.http10) && p.url.isSome &&
    p.host.isNone && (p.url.bind (·.hostname)).isNone

/-- the handler is given one more client segment (web server enabled, proxy plugin too) -/
def wseg (cfg : WCfg) (s : WSt) (raw : Bytes) : WSt :=
  match s.phase with
  | .first =>
    match parse Forward.pcfg s.request raw with
    | .error _ => { s with phase := .closing, out := s.out ++ [cfg.badRequest] }
    | .ok p =>
      let s := { s with request := p }
      if p.state != .complete then s
      else if !isWebRequest p || isWebsocketUpgrade p then { s with phase := .other }
      else if !Px.Url.utf8Valid (webPath p) then { s with phase := .raised }      -- text_(path)
      else match tryRoute cfg (webPath p) with
        | some k =>
          { s with phase := .routed, route := some k, out := s.out ++ [cfg.respond k p],
                   calls := s.calls ++ [(k, p)] }
        | none => { s with phase := .closing, out := s.out ++ [cfg.notFound] }
  | .routed =>
    match s.route with
    | none => s
    | some k =>
      -- `route.on_client_data` returns raw (base class); not switched to websocket
      if !isKeepAlive s.request then s
      else
        let p0 := s.pipe.getD (init .request)
        match parse Forward.pcfg p0 raw with
        | .error .httpProtocol => { s with phase := .closing, pipe := some p0 }
        | .error _ => { s with phase := .raised, pipe := some p0 }
        | .ok p =>
          if p.state == .complete then
            -- ALWAYS the first request's route
            let s := { s with out := s.out ++ [cfg.respond k p], calls := s.calls ++ [(k, p)] }
            if !isKeepAlive p then { s with phase := .closing, pipe := some p }
            else { s with pipe := none }
          else { s with pipe := some p }
  | _ => s

def wrun (cfg : WCfg) (s : WSt) : List Bytes → WSt
  | [] => s
  | x :: xs => wrun cfg (wseg cfg s x) xs

/-! ## reverse proxy -/

/-- events of a reverse-proxied client connection (handler level; every flush is complete) -/
inductive REv
  | cseg (raw : Bytes)          -- the client sends a segment
  | uflush                      -- `self.upstream` is writable: its queue is written out
  | useg (i : Nat) (raw : Bytes) -- the origin behind the i-th upstream connection sends `raw`
  deriving DecidableEq, Repr

structure RCfg where
  rv : Px.Reverse.Cfg := {}
  table : Px.Reverse.Table
  /-- which route patterns match a request path -/
  matchPat : Bytes → Nat → Bool
  badRequest : Bytes := Px.Gen.pkt_BAD_REQUEST_RESPONSE_PKT

structure RSt where
  phase : WPhase := .first
  request : Parser := init .request
  pipe : Option Parser := none
  /-- `ReverseProxy` state: client queue, `self.upstream` (ONE connection), connects -/
  rv : Px.Reverse.St := {}
  /-- ghost: bytes written so far to the i-th upstream connection ever opened -/
  wrote : List Bytes := []
  /-- ghost: number of `ReverseProxy.handle_request` invocations -/
  handled : Nat := 0
  deriving DecidableEq, Repr

/-- index of the connection `self.upstream` currently is (the last one opened) -/
def RSt.current (s : RSt) : Option Nat :=
  match s.rv.upstream with
  | some _ => if s.wrote.isEmpty then none else some (s.wrote.length - 1)
  | none => none

def revPath (p : Parser) : Bytes := p.path.getD []

/-- bookkeeping after a `handle_request`: one more `wrote` slot per connect attempt that succeeded
    (static routes, connects always succeed here) -/
def afterHandle (s : RSt) (r : Px.Reverse.Res) : RSt :=
  let grown := r.st.connects.length - s.rv.connects.length
  let s1 := { s with rv := r.st, wrote := s.wrote ++ List.replicate grown [], handled := s.handled + 1 }
  match r.exc with
  | some .httpProtocol => { s1 with phase := .closing }
  | some _ => { s1 with phase := .raised }
  | none => if r.teardown then { s1 with phase := .closing } else s1

/-- the first request reaches `HttpWebServerPlugin.on_request_complete` (only web plugin: `ReverseProxy`) -/
def rfirst (cfg : RCfg) (s : RSt) (p : Parser) : RSt :=
  let m := cfg.matchPat (webPath p)
  let r := Px.Reverse.onRequestComplete cfg.rv m (fun _ => 0) true cfg.table p s.rv
  -- was `ReverseProxy.handle_request` reached? (`text_(path)` did not raise and `_try_route` found a route)
  let invoked := !(cfg.table.any (fun pl => !pl.isEmpty) && !Px.Url.utf8Valid (webPath p)) &&
    Px.Reverse.anyMatch m cfg.table
  if invoked then
    let s1 := afterHandle s r
    if s1.phase == .first then { s1 with phase := .routed } else s1
  else { s with rv := r.st, phase := if r.exc.isSome then .raised else .closing }

def rstep (cfg : RCfg) (s : RSt) (e : REv) : RSt :=
  -- closing (flush, then close; or already torn down), raised, other: not followed further
  if s.phase != .first && s.phase != .routed then s else
  match e with
  | .cseg raw =>
    match s.phase with
    | .first =>
      match parse Forward.pcfg s.request raw with
      | .error _ => { s with phase := .closing, rv := { s.rv with client := s.rv.client.queue cfg.badRequest } }
      | .ok p =>
        let s := { s with request := p }
        if p.state != .complete then s
        else if !isWebRequest p || isWebsocketUpgrade p then { s with phase := .other }
        else rfirst cfg s p
    | .routed =>
      -- `route.on_client_data` returns raw (the first request is not a websocket upgrade)
      if !isKeepAlive s.request then s
      else
        let p0 := s.pipe.getD (init .request)
        match parse Forward.pcfg p0 raw with
        | .error .httpProtocol => { s with phase := .closing, pipe := some p0 }
        | .error _ => { s with phase := .raised, pipe := some p0 }
        | .ok p =>
          if p.state == .complete then
            -- `self.route.handle_request(self.pipeline_request)`: routes again, opens a NEW upstream
            let r := Px.Reverse.handleRequest cfg.rv (cfg.matchPat (revPath p)) (fun _ => 0) true cfg.table p s.rv
            let s1 := afterHandle s r
            if s1.phase != .routed then { s1 with pipe := some p }
            else if !isKeepAlive p then { s1 with phase := .closing, pipe := some p }
            else { s1 with pipe := none }
          else { s with pipe := some p }
    | _ => s
  | .uflush =>
    match s.rv.upstream, s.current with
    | some c, some i =>
      { s with rv := { s.rv with upstream := some { c with buffer := [] } },
               wrote := s.wrote.modify i (· ++ c.buffer.flatten) }
    | _, _ => s
  | .useg i raw =>
    -- only `self.upstream` is registered with the selector and read
    if raw.isEmpty then s
    else if s.current == some i then { s with rv := Px.Reverse.handleUpstreamData s.rv raw }
    else s

def rrun (cfg : RCfg) (s : RSt) : List REv → RSt
  | [] => s
  | e :: es => rrun cfg (rstep cfg s e) es

end Px.Persist
