"""C14 — the proxy connects to exactly the host and port the request-target names.

Correspondence
  url   : real `Url.from_bytes`                      vs  `hp url`
  req   : real HttpParser on the request             vs  `hp parse REQ`
          real HttpProtocolHandler + HttpProxyPlugin (in-process, patched
          `new_socket_connection` recording the address; also with
          `--enable-conn-pool` and a real UpstreamConnectionPool whose
          acquire() key is recorded) fed one request  vs  `conn handle <pool>`
  route : real `new_socket_connection` with `socket.socket` /
          `socket.create_connection` recorded        vs  `conn route` (literal recognition =
                                                         the real `ipaddress` module, a parameter of the model)
  spec  : (extra line of url/req cases made from a structured target) this module's own
          RFC 3986 rendering / grammar guard         vs  Lean `renderT` / `Target.wf` (`conn spec`)

Oracle (implementation only, only for targets inside the grammar): host, port, userinfo and
path agree with an independent parse (urllib.parse.urlsplit for absolute-form — host names are
compared case-insensitively because urlsplit lower-cases them —, manual rpartition for
authority-form, `ipaddress` for literals); default port 80 / 443 for CONNECT; the recorded
connect address equals (host without brackets, port); origin-form never connects.  Damaged
targets: rejected (no connect), or if accepted the connect host is literally contained in the
target and the port is a default or the value of a piece of the target.
"""
import os
import re
import json
import logging
import ipaddress
import urllib.parse

from harness.common import hx, exc_name, VERIF
from harness import parser_obs as P

logging.disable(logging.CRITICAL)

PROPERTY = 'C14'
LEAN_TARGETS = ['PxProofs.C14', 'PxProofs.C14Handler']
THEOREMS = [
    'Px.Connect.C14_roundtrip',
    'Px.Connect.C14_roundtrip_userinfo_v6_noport',
    'Px.Connect.C14_defaults',
    'Px.Connect.C14_default_port_literals',
    'Px.Connect.C14_port_zero',
    'Px.Connect.C14_connect_addr',
    'Px.Connect.C14_dispatch',
    'Px.Connect.C14_request_line',
    'Px.Connect.C14_userinfo',
    'Px.Connect.C14_reject_userinfo_no_colon',
    'Px.Connect.C14_reject_two_at',
    'Px.Connect.C14_reject_no_connect',
    'Px.Connect.C14_connect_only_parsed',
    'Px.Connect.C14_end_to_end',
    'Px.Connect.C14_no_misrouting_authority',
    'Px.Connect.C14_no_misrouting',
    'Px.Connect.C14_port_text',
    'Px.Connect.C14_port_lenient_witnesses',
]
RULE = ('request-targets rendered from a structured grammar (origin / absolute / authority form; reg-names incl. '
        'IDNA xn-- and raw UTF-8, IPv4, IPv6 in compressed / v4-mapped / mixed-case spellings; ports absent, 0, 1, 80, '
        '443, 65535, random; userinfo; paths and queries with reserved characters) plus damaged variants (brackets, '
        'colons, empty host, stray @, spaces, non-UTF-8, signs, underscores, out-of-range ports); each through '
        'Url.from_bytes, the real handler + proxy plugin, and new_socket_connection; distinct by canonical JSON; '
        'non-trivial = target inside the grammar (oracle domain)')
ASSUMPTIONS = [
    'no plugin overrides resolve_dns, no TLS interception, no proxy protocol; --enable-conn-pool is covered for a fresh pool '
    '(first request of a connection; reuse of pooled connections across requests is not modelled)',
    'what ipaddress.ip_address accepts is a parameter of the model (evaluated with the real module)',
    'name resolution / IDNA encoding inside socket.create_connection is outside the model',
    'the request arrives in one segment (segmentation independence is C03)',
]
# the cases are cheap (< 0.3 ms each) and share one in-process World: running them in the engine's fork pool
# is several times slower than running them inline
NO_FORK = True
EXHAUSTIVE = {}   # only a sub-family is exhaustive (authorities over b'a1:@/[]' up to length 6 / 3)
EXPLANATION = ('port 0 (http://h:0/ connects to port 80; CONNECT h:0 is dropped without a response) and userinfo without '
               'a colon (rejected with 400) [D8b] are kept outside the oracle domain unless known_findings.json lists them '
               'open; userinfo in front of a port-less IPv6 literal (D8c, fixed by dbfef2b) is inside the grammar')


def _open_findings():
    ids = set(x for x in os.environ.get('VERIF_C14_ASSUME_OPEN', '').split(',') if x)
    try:
        for f in json.load(open(os.path.join(VERIF, 'known_findings.json')))['findings']:
            if f.get('property') == PROPERTY and f.get('status') == 'open':
                ids.add(f['id'])
    except Exception:
        pass
    return ids


OPEN = _open_findings()
D8B_CLASSES = ('port0', 'ui-nocolon')


# --------------------------------------------------------------------------- spec side (python)

def _allowed():
    from proxy.common.constants import DEFAULT_ALLOWED_URL_SCHEMES
    return list(DEFAULT_ALLOWED_URL_SCHEMES)


def spec_host_text(s):
    t = bytes.fromhex(s['ht'])
    return b'[' + t + b']' if s['hk'] == 'v6' else t


def spec_render(s, userinfo=None):
    """RFC 3986 / RFC 7230 rendering; `userinfo` overrides the `user:pass@` prefix verbatim."""
    pathq = bytes.fromhex(s['pathq'])
    if s['form'] == 'origin':
        return pathq
    auth = b''
    if userinfo is not None:
        auth += userinfo
    elif s['user'] is not None:
        auth += bytes.fromhex(s['user']) + b':' + bytes.fromhex(s['pass']) + b'@'
    auth += spec_host_text(s)
    if s['port'] is not None:
        auth += b':' + str(s['port']).encode()
    if s['form'] == 'authority':
        return auth
    return bytes.fromhex(s['scheme']) + b'://' + auth + pathq


def _utf8(x):
    try:
        x.decode('utf-8')
        return True
    except UnicodeDecodeError:
        return False


def spec_wf(s):
    """The grammar guard, written independently of the Lean `Target.wf` (regular expressions)."""
    pathq = bytes.fromhex(s['pathq'])
    if s['form'] == 'origin':
        return pathq.startswith(b'/') and not pathq.startswith(b'//')
    ht = bytes.fromhex(s['ht'])
    if s['hk'] == 'reg':
        hok = len(ht) > 0 and re.search(rb'[:/@\[\]]', ht) is None and _utf8(ht)
    elif s['hk'] == 'v4':
        hok = re.fullmatch(rb'[0-9.]+', ht) is not None
    else:
        hok = re.fullmatch(rb'[0-9a-fA-F:.]*', ht) is not None and ht.count(b':') >= 2
    uok = True
    if s['user'] is not None:
        uok = re.search(rb'[:@/]', bytes.fromhex(s['user']) + bytes.fromhex(s['pass'])) is None
    pok = s['port'] is None or s['port'] <= 65535
    if s['form'] == 'authority':
        return bool(uok and hok and pok)
    sch = bytes.fromhex(s['scheme'])
    return bool(sch in _allowed() and re.search(rb'[:/]', sch) is None and uok and hok and pok
                and (pathq == b'' or pathq.startswith(b'/')))


def spec_line_py(s):
    return 'wf=%d raw=%s bare=%s' % (spec_wf(s), hx(spec_render(s)), hx(bytes.fromhex(s['ht'])))


def spec_line_model(s):
    return 'conn spec %s %s %s %s %s %s %s %s' % (
        s['form'], s['scheme'] or '-', 'None' if s['user'] is None else (s['user'] or '-'),
        'None' if s['user'] is None else (s['pass'] or '-'), s['hk'], s['ht'] or '-',
        'None' if s['port'] is None else s['port'], s['pathq'] or '-')


# --------------------------------------------------------------------------- running the real code

_W = None
_POOL_FLAGS = None


def _world(pool=False):
    """One World (one patch of new_socket_connection, one connect log) for both flag sets."""
    global _W
    if _W is None:
        from harness.sim import World
        _W = World(args=['--hostname', '127.0.0.1'], strict=False)
        _W.__enter__()
        assert not _W.flags.enable_conn_pool
    return _W


def _pool_flags():
    global _POOL_FLAGS
    if _POOL_FLAGS is None:
        from proxy.common.flag import FlagParser
        _POOL_FLAGS = FlagParser.initialize(['--hostname', '127.0.0.1', '--enable-conn-pool'], threadless=True)
        assert _POOL_FLAGS.enable_conn_pool
    return _POOL_FLAGS


def _new_client(w, pool):
    """(handler, scripted client socket, far end, acquire log).  With `pool` the handler is given a real,
    fresh UpstreamConnectionPool (as Threadless does) whose acquire() is wrapped to record its argument."""
    if not pool:
        return w.new_client() + (None,)
    import socket
    from harness.sim import Peer, ScriptedSocket
    from proxy.http.handler import HttpProtocolHandler
    from proxy.core.connection import UpstreamConnectionPool
    a, b = socket.socketpair()
    peer = Peer(b)
    cs = ScriptedSocket(a, 'client', peer, strict=False)
    w.clients.append((cs, peer))
    up = UpstreamConnectionPool()
    acquired = []
    real_acquire = up.acquire

    def acquire(addr):
        acquired.append((addr[0], addr[1]))
        return real_acquire(addr)
    up.acquire = acquire
    h = HttpProtocolHandler(
        HttpProtocolHandler.create(cs, ('127.0.0.1', 54321)),
        flags=_pool_flags(), event_queue=None, uid=None, upstream_conn_pool=up,
    )
    h.initialize()
    return h, cs, peer, acquired


def _first_line(x):
    return bytes(x).split(b'\r\n', 1)[0]


def run_handler(request, pool=False, want_acquired=False):
    """Feed `request` (one segment) to a fresh real handler (with `pool`: --enable-conn-pool and a
    fresh real UpstreamConnectionPool).  Returns (outcome, client_first_line, connect addr or None,
    upstream_first_line or None) [+ the list of keys given to pool.acquire]."""
    w = _world(pool)
    del w.connects[:]
    h, cs, cp, acquired = _new_client(w, pool)
    try:
        cs.script_recv(('data', request))
        td = w.tick(h, R=[cs.fileno()], W=[])
        raised = isinstance(td, tuple)
        if not raised:
            for _ in range(4):
                ev = w.events(h)
                wr = [fd for fd, m in ev.items() if m & 2]
                if not wr:
                    break
                t2 = w.tick(h, R=[], W=wr)
                if isinstance(t2, tuple):
                    break
        cp.pump()
        client = _first_line(cp.inbox) if cp.inbox else b''
        connect = None
        upstream = None
        if w.connects:
            assert len(w.connects) == 1
            connect = w.connects[0]
            us, up, _ = w.upstreams[-1]
            up.pump()
            upstream = _first_line(up.inbox) if up.inbox else b''
        if raised:
            out = 'raised ' + type(td[1]).__name__
        elif connect is not None:
            out = 'tunnel' if h.request.is_https_tunnel else 'forward'
        elif client:
            out = 'reject'
        elif td is True:
            out = 'close'
        else:
            out = 'incomplete'
        if want_acquired:
            return out, client, connect, upstream, list(acquired or [])
        return out, client, connect, upstream
    finally:
        try:
            h.shutdown()
        except Exception:
            pass
        for s, p in w.clients:
            w._quiet_close(s, p)
        for s, p, _ in w.upstreams:
            w._quiet_close(s, p)
        del w.clients[:]
        del w.upstreams[:]


def handle_line(request, pool=False):
    out, client, connect, upstream, acquired = run_handler(request, pool, want_acquired=True)
    acq = ''
    if pool:
        assert len(acquired) <= 1
        acq = ' acquire=' + ('None' if not acquired else '%s:%d' % (hx(acquired[0][0].encode('utf-8')), acquired[0][1]))
    if out == 'incomplete':
        return 'incomplete' + acq
    if connect is None:
        return '%s client=%s connect=None' % (out, hx(client)) + acq
    host, port = connect
    return '%s client=%s connect=%s:%d upstream=%s' % (
        out, hx(client), hx(host.encode('utf-8')), port, hx(upstream)) + acq


class _FakeSock:
    def __init__(self, log, family, typ, proto):
        self.log = log
        self.family = family
        log.append(('socket', family, typ, proto))

    def settimeout(self, t):
        pass

    def connect(self, addr):
        self.log.append(('connect', self.family, addr))


def run_route(host, port, src):
    """Real new_socket_connection with the socket module of proxy.common.utils recorded."""
    import socket as real
    import proxy.common.utils as U
    log = []

    class Shim:
        AF_INET, AF_INET6, SOCK_STREAM = real.AF_INET, real.AF_INET6, real.SOCK_STREAM

        @staticmethod
        def socket(family, typ, proto):
            return _FakeSock(log, family, typ, proto)

        @staticmethod
        def create_connection(addr, timeout=None, source_address=None):
            log.append(('create_connection', addr, source_address))
            return 'conn'
    orig = U.socket
    U.socket = Shim
    try:
        try:
            U.new_socket_connection((host, port), source_address=src)
        except Exception as e:
            return 'exc ' + exc_name(e), log
    finally:
        U.socket = orig
    conns = [e for e in log if e[0] in ('connect', 'create_connection')]
    if len(conns) != 1:
        return 'calls=%d' % len(conns), log
    e = conns[0]
    if e[0] == 'create_connection':
        a, s = e[1], e[2]
        return 'name %s %d src=%s' % (hx(a[0].encode('utf-8')), a[1],
                                      'None' if s is None else '%s:%d' % (hx(s[0].encode('utf-8')), s[1])), log
    fam, a = e[1], e[2]
    if fam == real.AF_INET:
        return 'inet %s %d' % (hx(a[0].encode('utf-8')), a[1]), log
    return 'inet6 %s %s' % (hx(a[0].encode('utf-8')), ' '.join(str(x) for x in a[1:])), log


def url_line(raw):
    from proxy.http.url import Url
    try:
        return 'ok ' + P.url_str(Url.from_bytes(raw))
    except Exception as e:
        return 'exc ' + exc_name(e)


def _request(case):
    t = bytes.fromhex(case['raw'])
    if case['method'] == 'CONNECT':
        return b'CONNECT ' + t + b' HTTP/1.1\r\n\r\n'
    return case['method'].encode() + b' ' + t + b' HTTP/1.1\r\nHost: x\r\n\r\n'


def impl(case):
    k = case['kind']
    if k == 'url':
        out = [url_line(bytes.fromhex(case['raw']))]
    elif k == 'req':
        req = _request(case)
        out = [P.feed_line('REQ', [req]), handle_line(req, bool(case.get('pool')))]
    elif k == 'route':
        src = None if case['src'] is None else (bytes.fromhex(case['src'][0]).decode('utf-8'), case['src'][1])
        return [run_route(bytes.fromhex(case['host']).decode('utf-8'), case['port'], src)[0]]
    else:
        raise ValueError(k)
    if case.get('spec'):
        out.append(spec_line_py(case['spec']))
    return out


def _lit(host):
    try:
        return ipaddress.ip_address(host).version
    except ValueError:
        return 0


def model_lines(case):
    k = case['kind']
    if k == 'url':
        out = ['hp url ' + (case['raw'] or '-')]
    elif k == 'req':
        r = _request(case).hex()
        out = ['hp parse REQ ' + r, 'conn handle %d %s' % (bool(case.get('pool')), r)]
    elif k == 'route':
        v = _lit(bytes.fromhex(case['host']).decode('utf-8'))
        src = case['src']
        return ['conn route %d %d %s %d %s %d' % (
            v == 4, v == 6, case['host'] or '-', case['port'],
            'None' if src is None else (src[0] or '-'), 0 if src is None else src[1])]
    else:
        raise ValueError(k)
    if case.get('spec'):
        out.append(spec_line_model(case['spec']))
    return out


# --------------------------------------------------------------------------- oracle

def in_domain(case):
    c = case.get('cls')
    if c == 'grammar':
        return True
    if c in D8B_CLASSES:
        return 'D8b' in OPEN
    return False


def reference(case):
    """Independent interpretation of an in-grammar target: (user, pass, host_text, bare_host, port, pathq)."""
    s = case['spec']
    t = bytes.fromhex(case['raw'])
    if s['form'] == 'origin':
        return None, None, None, None, None, t
    if s['form'] == 'absolute':
        txt = t.decode('utf-8')
        sp = urllib.parse.urlsplit(txt)
        rest = txt[txt.index('//') + 2 + len(sp.netloc):]
        user = None if sp.username is None else sp.username.encode()
        pw = None if sp.password is None else sp.password.encode()
        bare = sp.hostname.encode('utf-8') if sp.hostname is not None else b''
        port = sp.port
        pathq = rest.encode('utf-8')
    else:
        ui, at, hp = t.rpartition(b'@')
        user = pw = None
        if at:
            user, _, pw = ui.partition(b':')
            if b':' not in ui:
                pw = None
        if hp.startswith(b'['):
            bare, _, after = hp[1:].partition(b']')
            port = int(after[1:]) if after.startswith(b':') and after[1:].isdigit() else None
        else:
            bare, c, p = hp.rpartition(b':')
            if not c:
                bare, port = hp, None
            else:
                port = int(p) if p.isdigit() else None
        pathq = b''
    v = _lit(bare.decode('utf-8'))
    text = b'[' + bare + b']' if v == 6 else bare
    return user, pw, text, bare, port, pathq


def _lower(x):
    return x.decode('utf-8').lower() if x is not None else None


def oracle(case):
    k = case['kind']
    if k == 'route':
        hk = case.get('hk')
        if hk is None:
            return None
        host = bytes.fromhex(case['host']).decode('utf-8')
        v = _lit(host)
        if {'v4': 4, 'v6': 6, 'reg': 0}[hk] != v:
            return 'generator-literal-kind-disagrees-with-ipaddress'
        src = None if case['src'] is None else (bytes.fromhex(case['src'][0]).decode('utf-8'), case['src'][1])
        line, log = run_route(host, case['port'], src)
        conns = [e for e in log if e[0] in ('connect', 'create_connection')]
        if len(conns) != 1:
            return 'not-exactly-one-connect-call'
        e = conns[0]
        import socket as real
        if v == 4:
            ok = e[0] == 'connect' and e[1] == real.AF_INET and tuple(e[2]) == (host, case['port'])
        elif v == 6:
            ok = e[0] == 'connect' and e[1] == real.AF_INET6 and tuple(e[2]) == (host, case['port'], 0, 0)
        else:
            ok = e[0] == 'create_connection' and tuple(e[1]) == (host, case['port'])
        return None if ok else 'connect-call-differs-from-address'
    if case.get('cls') == 'damaged' and k == 'req':
        return _oracle_damaged(case)
    if case.get('cls') == 'ui-nocolon' and in_domain(case):
        # RFC 3986 userinfo without a colon is valid: the target must be accepted
        if k == 'url':
            return 'valid-target-rejected' if url_line(bytes.fromhex(case['raw'])).startswith('exc') else None
        return 'valid-target-rejected' if run_handler(_request(case), bool(case.get('pool')))[2] is None else None
    if not in_domain(case) or not case.get('spec'):
        return None
    s = case['spec']
    try:
        user, pw, text, bare, port, pathq = reference(case)
    except Exception as e:     # the reference parser must accept what the grammar produces
        return 'reference-parser-raises-' + type(e).__name__
    # the generator's intention and the reference parser must agree (sanity of the oracle itself)
    if s['form'] != 'origin':
        if _lower(bare) != _lower(bytes.fromhex(s['ht'])) or port != s['port']:
            return 'reference-parser-disagrees-with-generator'
    if k == 'url':
        from proxy.http.url import Url
        try:
            u = Url.from_bytes(bytes.fromhex(case['raw']))
        except Exception as e:
            return 'valid-target-rejected-' + exc_name(e)
        if s['form'] == 'origin':
            if (u.hostname, u.port, u.remainder) != (None, None, pathq):
                return 'origin-form-fields-differ'
            return None
        if _lower(u.hostname) != _lower(text):
            return 'host-differs'
        if u.port != port:
            return 'port-differs'
        if (u.username, u.password) != (user, pw):
            return 'userinfo-differs'
        if (u.remainder or b'') != pathq:
            return 'path-differs'
        return None
    # req: parser attributes + the connect actually made
    req = _request(case)
    kk, p = P.feed('REQ', [req])
    pool = bool(case.get('pool'))
    out, client, connect, upstream, acquired = run_handler(req, pool, want_acquired=True)
    if s['form'] == 'origin':
        if kk != 'ok' or p.host is not None or p.path != pathq:
            return 'origin-form-fields-differ'
        return 'origin-form-connects' if connect is not None else None
    if kk != 'ok':
        return 'valid-target-rejected'
    tunnel = case['method'] == 'CONNECT'
    want_port = port if port is not None else (443 if tunnel else 80)
    if _lower(p.host) != _lower(text):
        return 'host-differs'
    if p.port != want_port:
        return 'derived-port-differs'
    if (p.path or b'') != pathq:
        return 'path-differs'
    if connect is None:
        return 'valid-target-rejected' if out == 'reject' else 'valid-target-no-connect'
    if connect[0].lower() != _lower(bare):
        return 'connect-host-differs'
    if connect[1] != want_port:
        return 'connect-port-differs'
    if pool and (len(acquired) != 1 or acquired[0][0].lower() != _lower(bare) or acquired[0][1] != want_port):
        return 'pool-key-differs-from-address'
    if tunnel:
        if not client.startswith(b'HTTP/1.1 200'):
            return 'tunnel-not-acknowledged'
    elif upstream != case['method'].encode() + b' ' + (pathq or b'/') + b' HTTP/1.1':
        return 'forwarded-request-line-differs'
    return None


def _oracle_damaged(case):
    t = bytes.fromhex(case['raw'])
    out, client, connect, upstream, acquired = run_handler(_request(case), bool(case.get('pool')), want_acquired=True)
    for kh, _ in acquired:
        if kh.encode('utf-8') not in t:
            return 'damaged-target-pool-key-host-not-in-target'
    if connect is None:
        return None
    host, port = connect
    if host.encode('utf-8') not in t:
        return 'damaged-target-connects-to-host-not-in-target'
    vals = {80, 443}
    for tok in re.split(rb'[:/@\]\[?]', t):
        try:
            vals.add(int(tok))
        except ValueError:
            pass
    if port not in vals:
        return 'damaged-target-connects-to-port-not-in-target'
    return None


def classify(case, sig):
    c = case.get('cls')
    if c == 'port0' and sig in ('derived-port-differs', 'valid-target-no-connect'):
        return 'D8b'
    if c == 'ui-nocolon' and sig == 'valid-target-rejected':
        return 'D8b'
    return None


def finding_witnesses():
    return {
        'D8b': _mk('req', 'port0', _spec('absolute', None, 'reg', b'h', 0, b'/'), 'GET'),
    }


# --------------------------------------------------------------------------- generator

def _spec(form, ui, hk, ht, port, pathq, scheme=b'http'):
    return {'form': form, 'scheme': scheme.hex(), 'user': None if ui is None else ui[0].hex(),
            'pass': None if ui is None else ui[1].hex(), 'hk': hk, 'ht': ht.hex(), 'port': port,
            'pathq': pathq.hex()}


def _mk(kind, cls, spec, method=None, raw=None, pool=False):
    c = {'kind': kind, 'cls': cls, 'raw': (spec_render(spec) if raw is None else raw).hex(),
         'spec': spec if raw is None else None}
    if kind == 'req':
        c['method'] = method
        c['pool'] = int(bool(pool))     # 1: handler run with --enable-conn-pool and a fresh real pool
    return c


def _pooled(cases):
    """every request case also with --enable-conn-pool"""
    out = []
    for c in cases:
        out.append(c)
        if c['kind'] == 'req':
            out.append(dict(c, pool=1))
    return out


LABELS = [b'example', b'com', b'a', b'b-c', b'h', b'localhost', b'WWW', b'Ex-Ample', b'xn--bcher-kva', b'xn--e1afmkfd',
          b'x1', b'0a', b'test~1', b'under_score', b'b\xc3\xbccher', b'\xd0\xbf\xd1\x80\xd0\xb8\xd0\xbc\xd0\xb5\xd1\x80',
          b'\xe4\xbe\x8b\xe3\x81\x88', b'%41bc', b"sub!$&'()*+,;=delims", b'80', b'1e3']
USERS = [b'user', b'u', b'', b'U-1', b'a.b', b'%40x', b'j~s', b'x!y', b'\xc3\xa9']
PASSES = [b'pass', b'p', b'', b'P%3Aq', b's3cr3t!', b'a=b&c', b'\xc3\xa9\xc3\xa8']
SEGS = [b'', b'a', b'b.txt', b'p%20q', b'a;b=c', b'\xc3\xa9', b'x:y', b'u@v', b'(1)', b'$&+,=', b'~t', b'*', b"'", b'-._',
        b'http:', b'[', b']']
QUERIES = [None, None, b'', b'x=1&y=2', b'u=http://o.example/p', b'q=a/b?c', b'k=v;w', b'r=[1]', b'e=%2F', b't=a@b:c',
           b'//', b'\xc3\xa9=1']
PORTS = [None, None, None, 0, 1, 80, 443, 8080, 8899, 65535]


def gen_regname(rng):
    n = rng.choice([1, 1, 2, 2, 3, 4])
    return b'.'.join(rng.choice(LABELS) for _ in range(n)) + (b'.' if rng.random() < 0.05 else b'')


def gen_ipv4(rng):
    return '.'.join(str(rng.choice([0, 1, 9, 10, 99, 100, 127, 192, 255, rng.randrange(256)])) for _ in range(4)).encode()


def _hexgroup(rng, v):
    s = '%x' % v
    if rng.random() < 0.3:
        s = s.rjust(rng.choice([len(s), 4]), '0')
    m = rng.randrange(3)
    return s.upper() if m == 0 else s if m == 1 else ''.join(c.upper() if rng.random() < 0.5 else c for c in s)


def gen_ipv6(rng):
    """A valid IPv6 address text in one of its many spellings."""
    fixed = ['::', '::1', '1::', '::ffff:1.2.3.4', '::1.2.3.4', '64:ff9b::192.0.2.33', '2001:db8::1', 'fe80::1',
             '1:2:3:4:5:6:7:8', '1:2:3:4:5:6:7::', '::2:3:4:5:6:7:8', '1::8', '1:2:3:4:5:6:1.2.3.4', 'FF02::1:FF00:0',
             '2001:DB8:0:0:8:800:200C:417A', '0:0:0:0:0:0:0:0', '0:0:0:0:0:0:0:1', '::0', '0::', 'a::b:0:0:c']
    if rng.random() < 0.3:
        return rng.choice(fixed).encode()
    tail4 = rng.random() < 0.2
    ngroups = 6 if tail4 else 8
    vals = [rng.choice([0, 0, 0, 1, 0xa, 0xff, 0xabc, 0xffff, 0x2001, 0xdb8, rng.randrange(65536)]) for _ in range(ngroups)]
    groups = [_hexgroup(rng, v) for v in vals]
    if rng.random() < 0.7:
        # compress a run (RFC 4291 allows '::' for one or more groups of zeros; ipaddress accepts any single '::')
        i = rng.randrange(ngroups)
        j = rng.randrange(i + 1, ngroups + 1)
        for q in range(i, j):
            vals[q] = 0
        left, right = groups[:i], groups[j:]
        txt = ':'.join(left) + '::' + ':'.join(right)
        if tail4:
            txt += ('' if txt.endswith('::') else ':') + gen_ipv4(rng).decode()
    else:
        txt = ':'.join(groups)
        if tail4:
            txt += ':' + gen_ipv4(rng).decode()
    ipaddress.IPv6Address(txt)
    return txt.encode()


def gen_host(rng):
    r = rng.random()
    if r < 0.45:
        return 'reg', gen_regname(rng)
    if r < 0.6:
        return 'v4', gen_ipv4(rng)
    return 'v6', gen_ipv6(rng)


def gen_pathq(rng, allow_empty):
    if allow_empty and rng.random() < 0.2:
        return b''
    n = rng.choice([0, 1, 1, 2, 3])
    first = rng.choice([s for s in SEGS if s != b''] + [b'']) if n else b''
    p = b'/' + first
    for _ in range(max(0, n - 1)):
        p += b'/' + rng.choice(SEGS)
    q = rng.choice(QUERIES)
    if q is not None:
        p += b'?' + q
    if p.startswith(b'//'):
        p = b'/x' + p[1:]
    return p


def gen_port(rng):
    p = rng.choice(PORTS)
    if p is None and rng.random() < 0.3:
        p = rng.randrange(1, 65536)
    return p


def gen_spec(rng, form):
    if form == 'origin':
        return _spec('origin', None, 'reg', b'x', None, gen_pathq(rng, False))
    hk, ht = gen_host(rng)
    ui = (rng.choice(USERS), rng.choice(PASSES)) if rng.random() < 0.25 else None
    port = gen_port(rng)
    pathq = gen_pathq(rng, True) if form == 'absolute' else b''
    scheme = b'http' if form == 'authority' or rng.random() < 0.9 else b'https'
    return _spec(form, ui, hk, ht, port, pathq, scheme)


def spec_class(s):
    if s['form'] == 'origin':
        return 'grammar'
    if s['port'] == 0:
        return 'port0'
    return 'grammar'


def damage(rng, t):
    """Syntactically damaged variants of a rendered target."""
    t = bytearray(t)
    m = rng.randrange(16)
    pos = rng.randrange(len(t) + 1)
    if m == 0 and b']' in t:
        del t[t.index(b']')]
    elif m == 1 and b'[' in t:
        del t[t.index(b'[')]
    elif m == 2:
        t[pos:pos] = b':'
    elif m == 3:
        t[pos:pos] = b'@'
    elif m == 4:
        t[pos:pos] = rng.choice([b' ', b'\t', b'  '])
    elif m == 5:
        t[pos:pos] = bytes([rng.choice([0xff, 0x80, 0xc3, 0xe2, 0x00, 0xfe])])
    elif m == 6:
        i = t.rfind(b':')
        if i >= 0:
            t[i + 1:i + 1] = rng.choice([b'+', b'-', b' ', b'_', b'0', b'00', b'0x', b'8_', b'\x0b'])
    elif m == 7:
        i = t.rfind(b':')
        if i >= 0 and i + 2 <= len(t):
            t[i + 2:i + 2] = b'_'
    elif m == 8:
        t += rng.choice([b':', b':80', b':65536', b':99999', b':-1', b':+80', b':8_0', b': 80', b':80 ', b':0x50',
                         b':' + b'9' * 30, b':\xd9\xa8\xd9\xa0'])
    elif m == 9:
        # empty host
        i = t.find(b'//')
        j = t.find(b'/', i + 2) if i >= 0 else -1
        if i >= 0:
            t[i + 2:(j if j >= 0 else len(t))] = rng.choice([b'', b':80', b'@', b'u:p@', b'[]', b'[]:80', b'[', b']'])
    elif m == 10:
        t = t.replace(b'[', b'').replace(b']', b'')
    elif m == 11 and len(t):
        del t[rng.randrange(len(t))]
    elif m == 12:
        t = t.replace(b'http://', rng.choice([b'HTTP://', b'ftp://', b'http:/', b'http:', b'://', b'http:///', b'//', b'htt p://']), 1)
    elif m == 13:
        t = t.replace(b'@', rng.choice([b'@@', b'', b':@', b'@:']), 1)
    elif m == 14:
        t = t.replace(b':', rng.choice([b'::', b'', b':@']), 1)
    else:
        t[pos:pos] = rng.choice([b'/', b'//', b'#', b'?', b'[', b']', b'%', b'\r', b'\n'])
    return bytes(t)


HAND_DAMAGED = [
    b'http://[::1/', b'http://::1]/', b'http://::1/', b'http://::1:80/', b'http://1:2:3:4:5:6:7:8/', b'http://h::80/',
    b'http://h:80:80/', b'http://:80/', b'http:///', b'http:///p', b'http://', b'http://@h/', b'http://a@b@c/',
    b'http://a:b@c:d@e/', b'http://a:b@c@d/', b'http://a:b@c@d:81/x', b'http://user@h/', b'http://u:p:q@h/', b'http://h:/', b'http://h:+80/', b'http://h:8_0/',
    b'http://h:0x50/', b'http://h:-80/', b'http://h:65536/', b'http://h:99999/', b'http://h:080/', b'http://h:00/',
    b'http://\xff/', b'http://h\xff:1:2/', b'http://[::\xff]:80/', b'HTTP://h/', b'ftp://h/', b'https://h/', b'//h/x',
    b'//h:0/x', b'///x', b'h', b'h:80', b'[::1]:80', b'*', b'', b'http://[]/', b'http://[]:80/', b'http://[/',
    b'http://]/', b'http://[h]/', b'http://[h]:80/', b'http://h?x=1', b'http://h#f', b'http://u:p@[::1]/x',
    b'http://u:p@[::1]:80/x', b'http://h:80@evil/', b'http://evil:80@h:81/', b'http://h:1:2:3/', b'http://a:b:c/',
    b'http://a:b:80/', b'http://h:9' + b'9' * 40 + b'/', b'http://h:' + b'1' * 4301 + b'/',
]
HAND_CONNECT = [
    b'h:443', b'h', b'h:0', b'h:', b':443', b'[::1]:443', b'[::1]', b'::1:443', b'::1', b'u:p@h:1', b'u@h:1', b'u:p@[::1]',
    b'h:443/', b'h:443/x', b'http://h:443/', b'http://h/', b'/x', b'//h:1', b'h:+443', b'h:4_43', b'h:65536', b'h:-1',
    b'\xff:443', b'[::1]:0', b'[]:443', b'[h]:443', b'h:1:2', b'a@b@c:1', b'h:443 ', b'h :443', b'h:99999999999999999999',
]
ROUTE_HOSTS = ['1.2.3.4', '127.0.0.1', '::1', '::', '2001:db8::1', '::ffff:1.2.3.4', '[::1]', 'example.com', 'h',
               '1.2.3', '01.2.3.4', '1.2.3.4 ', '', '::1%eth0', '1.2.3.4.5', 'b\u00fccher.example', '256.1.1.1',
               ':::', '1::2::3', 'localhost', '0x7f.1', '1.2.3.4:80', 'u:p@[::1]']


def _route(host, port, src=None, hk=None):
    return {'kind': 'route', 'host': host.encode('utf-8').hex(), 'port': port,
            'src': None if src is None else [src[0].encode('utf-8').hex(), src[1]], 'hk': hk}


def corpus():
    cs = []
    for s in [
        _spec('origin', None, 'reg', b'x', None, b'/'),
        _spec('origin', None, 'reg', b'x', None, b'/a/b?u=http://o/'),
        _spec('absolute', None, 'reg', b'example.com', None, b'/'),
        _spec('absolute', None, 'reg', b'example.com', None, b''),
        _spec('absolute', None, 'reg', b'example.com', 8080, b'/a?b'),
        _spec('absolute', (b'user', b'pass'), 'reg', b'h', 81, b'/x'),
        _spec('absolute', (b'', b''), 'v4', b'10.1.2.3', None, b'/'),
        _spec('absolute', None, 'v6', b'::1', None, b'/x'),
        _spec('absolute', None, 'v6', b'::1', 8080, b'/x'),
        _spec('absolute', None, 'v6', b'::', None, b''),
        _spec('absolute', None, 'v6', b'1::', 1, b'/'),
        _spec('absolute', None, 'v6', b'::ffff:1.2.3.4', None, b'/'),
        _spec('absolute', None, 'v6', b'1:2:3:4:5:6:7:8', 65535, b'/'),
        _spec('absolute', (b'u', b'p'), 'v6', b'2001:DB8::a', 80, b'/x'),
        _spec('absolute', (b'u', b'p'), 'v6', b'::1', None, b'/x'),          # was D8c (fixed dbfef2b)
        _spec('absolute', None, 'reg', b'h', 0, b'/'),                      # D8b
        _spec('absolute', None, 'reg', b'b\xc3\xbccher.example', None, b'/\xc3\xa9'),
        _spec('absolute', None, 'reg', b'xn--bcher-kva.example', 443, b'/', b'https'),
    ]:
        cs.append(_mk('url', spec_class(s), s))
        cs.append(_mk('req', spec_class(s), s, 'GET'))
    for s in [
        _spec('authority', None, 'reg', b'example.com', 443, b''),
        _spec('authority', None, 'reg', b'example.com', None, b''),
        _spec('authority', None, 'v4', b'127.0.0.1', 8443, b''),
        _spec('authority', None, 'v6', b'::1', 443, b''),
        _spec('authority', None, 'v6', b'2001:db8::1', None, b''),
        _spec('authority', (b'u', b'p'), 'reg', b'h', 1, b''),
        _spec('authority', None, 'reg', b'h', 0, b''),                      # D8b
        _spec('authority', (b'u', b'p'), 'v6', b'::1', None, b''),          # was D8c (fixed dbfef2b)
    ]:
        cs.append(_mk('url', spec_class(s), s))
        cs.append(_mk('req', spec_class(s), s, 'CONNECT'))
    for t in HAND_DAMAGED:
        cls = 'ui-nocolon' if t == b'http://user@h/' else 'damaged'
        cs.append(_mk('url', cls, None, raw=t))
        if b' ' not in t:
            cs.append(_mk('req', cls, None, 'GET', raw=t))
    for t in HAND_CONNECT:
        cls = 'ui-nocolon' if t == b'u@h:1' else 'damaged'
        cs.append(_mk('url', cls, None, raw=t))
        cs.append(_mk('req', cls, None, 'CONNECT', raw=t))
    for h in ROUTE_HOSTS:
        cs.append(_route(h, 80))
    cs.append(_route('1.2.3.4', 8080, ('10.0.0.1', 0), 'v4'))
    cs.append(_route('::1', 443, ('::', 0), 'v6'))
    cs.append(_route('example.com', 443, ('10.0.0.1', 5), 'reg'))
    return _pooled(cs)


def generate(rng, tier):
    big = tier == 'thorough'
    n = 25000 if big else 900
    for i in range(n):
        form = rng.choice(['origin', 'absolute', 'absolute', 'absolute', 'authority', 'authority'])
        s = gen_spec(rng, form)
        cls = spec_class(s)
        method = 'CONNECT' if form == 'authority' else rng.choice(['GET', 'GET', 'POST', 'HEAD'])
        if method == 'POST':
            method = 'GET'
        yield _mk('url', cls, s)
        yield _mk('req', cls, s, method)
        if form != 'origin' and (s['hk'] == 'v6' or rng.random() < 0.4):
            yield _mk('req', cls, s, method, pool=True)
        if form != 'origin':
            yield _route(bytes.fromhex(s['ht']).decode('utf-8'), s['port'] if s['port'] is not None else 80,
                         None if rng.random() < 0.8 else ('127.0.0.1', 0), s['hk'])
        # RFC-valid spellings the implementation is known not to accept (D8b): correspondence only unless open
        if form != 'origin' and rng.random() < 0.08:
            t2 = spec_render(s, userinfo=rng.choice([u for u in USERS if u]) + b'@')
            yield _mk('url', 'ui-nocolon', None, raw=t2)
            yield _mk('req', 'ui-nocolon', None, method, raw=t2)
        # damaged variants
        if form != 'origin' or rng.random() < 0.3:
            t = spec_render(s)
            for _ in range(2 if big else 1):
                d = damage(rng, t)
                if rng.random() < 0.3:
                    d = damage(rng, d)
                if d == t:
                    continue
                yield _mk('url', 'damaged', None, raw=d)
                if b' ' not in d and b'\r\n' not in d:
                    yield _mk('req', 'damaged', None, method, raw=d, pool=rng.random() < 0.3)
    # arbitrary small byte strings over the delimiter alphabet (Url level)
    alpha = b'h1:@/[].?#+_ \xff-0a'
    for _ in range(8000 if big else 700):
        k = rng.choice([1, 2, 3, 4, 6, 9, 14])
        raw = bytes(rng.choice(alpha) for _ in range(k))
        if rng.random() < 0.5:
            raw = rng.choice([b'http://', b'//', b'https://', b'http:']) + raw
        yield _mk('url', 'damaged', None, raw=raw)
        if b' ' not in raw and rng.random() < 0.3:
            yield _mk('req', 'damaged', None, rng.choice(['GET', 'CONNECT']), raw=raw)
    # exhaustive small scope: every string over the delimiter alphabet up to a length, as the
    # authority of an absolute-form target and as a bare (authority-form / origin-form) target
    import itertools
    alpha2 = b'a1:@/[]'
    for n in range(0, (7 if big else 4)):
        for tup in itertools.product(alpha2, repeat=n):
            a = bytes(tup)
            yield _mk('url', 'damaged', None, raw=b'http://' + a)
            if a:
                yield _mk('url', 'damaged', None, raw=a)
    for _ in range(600 if big else 80):
        h = rng.choice(ROUTE_HOSTS + [gen_ipv6(rng).decode(), gen_ipv4(rng).decode(), gen_regname(rng).decode('utf-8')])
        if rng.random() < 0.3:
            h = damage(rng, h.encode('utf-8')).decode('utf-8', 'ignore')
        yield _route(h, rng.choice([0, 1, 80, 443, 65535, 65536, -1]), None if rng.random() < 0.7 else ('0.0.0.0', 0))


def neighbours(case):
    if case['kind'] == 'route' or not case.get('raw'):
        return
    t = bytes.fromhex(case['raw'])
    import random
    rng = random.Random(len(t))
    for _ in range(6):
        d = damage(rng, t)
        yield _mk('url', 'damaged', None, raw=d)


def search(rng):
    return list(generate(rng, 'quick'))


def describe(case):
    k = case['kind']
    if k == 'route':
        return ['route lit=%d' % _lit(bytes.fromhex(case['host']).decode('utf-8'))]
    out = ['%s cls=%s%s' % (k, case.get('cls'), ' pool' if case.get('pool') else '')]
    s = case.get('spec')
    if s:
        out.append('form=%s host=%s port=%s ui=%d' % (
            s['form'], s['hk'] if s['form'] != 'origin' else '-',
            'none' if s['port'] is None else '0' if s['port'] == 0 else 'explicit', s['user'] is not None))
    return out


def nontrivial(case):
    if case['kind'] == 'route':
        return case.get('hk') is not None
    return in_domain(case) and bool(case.get('spec'))
