import PxModel.Listen
/-!
Helper lemmas for C19 (`PxProofs/C19.lean`): what `bindAll` returns, the shape
of the pool `ListenerPool.setup` builds and what `Proxy.setup` reads back from it.
-/
namespace Px.Listen

/-- the addresses `bindAll` binds when it succeeds: zeros replaced by the kernel's choice -/
def resolve (a : Nat → Nat) : Nat → List (Host × Nat) → List (Host × Nat)
  | _, [] => []
  | i, (h, p) :: rest => (h, if p = 0 then a i else p) :: resolve a (i + 1) rest

theorem bindAll_error (a : Nat → Nat) (i : Nat) (b pl : List (Host × Nat)) (e : Err)
    (h : bindAll a i b pl = .error e) : e = .addrInUse := by
  induction pl generalizing i b with
  | nil => simp [bindAll] at h
  | cons x rest ih =>
    obtain ⟨hh, p⟩ := x
    unfold bindAll at h
    split at h
    · split at h
      · rename_i e' heq; cases h; exact ih _ _ heq
      · cases h
    · split at h
      · cases h; rfl
      · split at h
        · rename_i e' heq; cases h; exact ih _ _ heq
        · cases h

theorem bindAll_ok_eq (a : Nat → Nat) (i : Nat) (b pl r : List (Host × Nat))
    (h : bindAll a i b pl = .ok r) : r = resolve a i pl := by
  induction pl generalizing i b r with
  | nil => simp [bindAll] at h; simp [resolve, h]
  | cons x rest ih =>
    obtain ⟨hh, p⟩ := x
    unfold bindAll at h
    split at h
    · rename_i hp
      split at h
      · cases h
      · rename_i r' heq; cases h; simp [resolve, hp, ih _ _ _ heq]
    · rename_i hp
      split at h
      · cases h
      · split at h
        · cases h
        · rename_i r' heq; cases h; simp [resolve, hp, ih _ _ _ heq]

/-- success ⇒ the bound addresses are pairwise distinct, new, and have a non-zero port -/
theorem bindAll_ok_nodup (a : Nat → Nat) (i : Nat) (b pl r : List (Host × Nat))
    (h : bindAll a i b pl = .ok r) (hk : kernelFresh a i b pl = true) :
    (∀ x ∈ r, x ∉ b) ∧ r.Nodup ∧ ∀ x ∈ r, x.2 ≠ 0 := by
  induction pl generalizing i b r with
  | nil => simp [bindAll] at h; subst h; simp
  | cons x rest ih =>
    obtain ⟨hh, p⟩ := x
    unfold bindAll at h
    unfold kernelFresh at hk
    split at h
    · rename_i hp
      simp only [hp, if_true, Bool.and_eq_true, bne_iff_ne, ne_eq, Bool.not_eq_true',
        List.contains_eq_mem, decide_eq_false_iff_not] at hk
      split at h
      · cases h
      · rename_i r' heq; cases h
        obtain ⟨h1, h2, h3⟩ := ih _ _ _ heq hk.2
        refine ⟨?_, ?_, ?_⟩
        · intro x hx
          rcases List.mem_cons.1 hx with rfl | hx
          · exact hk.1.2
          · exact fun hb => h1 x hx (List.mem_cons_of_mem _ hb)
        · refine List.nodup_cons.2 ⟨fun hm => h1 _ hm (List.mem_cons_self), h2⟩
        · intro x hx
          rcases List.mem_cons.1 hx with rfl | hx
          · exact hk.1.1
          · exact h3 x hx
    · rename_i hp
      simp only [hp, if_false] at hk
      split at h
      · cases h
      · rename_i hnb
        split at h
        · cases h
        · rename_i r' heq; cases h
          obtain ⟨h1, h2, h3⟩ := ih _ _ _ heq hk
          refine ⟨?_, ?_, ?_⟩
          · intro x hx
            rcases List.mem_cons.1 hx with rfl | hx
            · exact hnb
            · exact fun hb => h1 x hx (List.mem_cons_of_mem _ hb)
          · refine List.nodup_cons.2 ⟨fun hm => h1 _ hm (List.mem_cons_self), h2⟩
          · intro x hx
            rcases List.mem_cons.1 hx with rfl | hx
            · exact hp
            · exact h3 x hx

/-- success ⇒ the fixed requests are pairwise distinct and none was bound before -/
theorem bindAll_ok_fixed (a : Nat → Nat) (i : Nat) (b pl r : List (Host × Nat))
    (h : bindAll a i b pl = .ok r) :
    (pl.filter (fun x => x.2 ≠ 0)).Nodup ∧ ∀ x ∈ pl, x.2 ≠ 0 → x ∉ b := by
  induction pl generalizing i b r with
  | nil => simp
  | cons x rest ih =>
    obtain ⟨hh, p⟩ := x
    unfold bindAll at h
    split at h
    · rename_i hp
      split at h
      · cases h
      · rename_i r' heq
        obtain ⟨h1, h2⟩ := ih _ _ _ heq
        refine ⟨by simpa [List.filter_cons, hp] using h1, ?_⟩
        intro x hx hx0
        rcases List.mem_cons.1 hx with rfl | hx
        · exact absurd hp hx0
        · exact fun hb => h2 x hx hx0 (List.mem_cons_of_mem _ hb)
    · rename_i hp
      split at h
      · cases h
      · rename_i hnb
        split at h
        · cases h
        · rename_i r' heq
          obtain ⟨h1, h2⟩ := ih _ _ _ heq
          refine ⟨?_, ?_⟩
          · simp only [List.filter_cons, hp, ne_eq, not_false_eq_true, decide_true, if_true]
            refine List.nodup_cons.2 ⟨fun hm => ?_, h1⟩
            have := List.mem_filter.1 hm
            exact h2 _ this.1 (by simpa using this.2) (List.mem_cons_self)
          · intro x hx hx0
            rcases List.mem_cons.1 hx with rfl | hx
            · exact hnb
            · exact fun hb => h2 x hx hx0 (List.mem_cons_of_mem _ hb)

/-- sufficient for success: distinct fixed requests, none bound before, and the
    kernel never hands out one of them -/
theorem bindAll_succeeds (a : Nat → Nat) (i : Nat) (b pl : List (Host × Nat))
    (hnd : (pl.filter (fun x => x.2 ≠ 0)).Nodup)
    (hb : ∀ x ∈ pl, x.2 ≠ 0 → x ∉ b)
    (hav : ∀ j, ∀ x ∈ pl, x.2 ≠ 0 → a j ≠ x.2) :
    ∃ r, bindAll a i b pl = .ok r := by
  induction pl generalizing i b with
  | nil => exact ⟨[], rfl⟩
  | cons x rest ih =>
    obtain ⟨hh, p⟩ := x
    unfold bindAll
    by_cases hp : p = 0
    · simp only [hp, if_true]
      have hnd' : (rest.filter (fun x => x.2 ≠ 0)).Nodup := by
        simpa [List.filter_cons, hp] using hnd
      obtain ⟨r, hr⟩ := ih (i + 1) ((hh, a i) :: b) hnd'
        (fun x hx hx0 hm => by
          rcases List.mem_cons.1 hm with rfl | hm
          · exact hav i _ (List.mem_cons_of_mem _ hx) hx0 rfl
          · exact hb x (List.mem_cons_of_mem _ hx) hx0 hm)
        (fun j x hx => hav j x (List.mem_cons_of_mem _ hx))
      exact ⟨_, by rw [hr]⟩
    · have hnb : (hh, p) ∉ b := hb _ List.mem_cons_self hp
      simp only [hp, if_false, hnb]
      have hnd2 : ((hh, p) :: rest.filter (fun x => x.2 ≠ 0)).Nodup := by
        simpa [List.filter_cons, hp] using hnd
      obtain ⟨hnotin, hnd'⟩ := List.nodup_cons.1 hnd2
      obtain ⟨r, hr⟩ := ih (i + 1) ((hh, p) :: b) hnd'
        (fun x hx hx0 hm => by
          rcases List.mem_cons.1 hm with rfl | hm
          · exact hnotin (List.mem_filter.2 ⟨hx, by simpa using hx0⟩)
          · exact hb x (List.mem_cons_of_mem _ hx) hx0 hm)
        (fun j x hx => hav j x (List.mem_cons_of_mem _ hx))
      exact ⟨_, by rw [hr]⟩

/-! ### `resolve` on the product plan -/

theorem resolve_append (a : Nat → Nat) (i : Nat) (x y : List (Host × Nat)) :
    resolve a i (x ++ y) = resolve a i x ++ resolve a (i + x.length) y := by
  induction x generalizing i with
  | nil => simp [resolve]
  | cons z x ih =>
    obtain ⟨h, p⟩ := z
    simp [resolve, ih, Nat.add_assoc, Nat.add_comm 1]

theorem resolve_map_pair (a : Nat → Nat) (i : Nat) (h : Host) (ps : List Nat) :
    resolve a i (ps.map (fun p => (h, p))) = (resolvePorts a i ps).map (fun p => (h, p)) := by
  induction ps generalizing i with
  | nil => simp [resolve, resolvePorts]
  | cons p ps ih => simp [resolve, resolvePorts, ih]

theorem resolve_fixed (a : Nat → Nat) (i : Nat) (pl : List (Host × Nat))
    (h : ∀ x ∈ pl, x.2 ≠ 0) : resolve a i pl = pl := by
  induction pl generalizing i with
  | nil => simp [resolve]
  | cons z pl ih =>
    obtain ⟨hh, p⟩ := z
    have hp : p ≠ 0 := h (hh, p) List.mem_cons_self
    simp [resolve, hp, ih (i + 1) (fun x hx => h x (List.mem_cons_of_mem _ hx))]

theorem resolvePorts_fixed (a : Nat → Nat) (i : Nat) (ps : List Nat) (h : 0 ∉ ps) :
    resolvePorts a i ps = ps := by
  induction ps generalizing i with
  | nil => simp [resolvePorts]
  | cons p ps ih =>
    have hp : p ≠ 0 := fun h0 => h (by simp [h0])
    simp [resolvePorts, hp, ih (i + 1) (fun hm => h (List.mem_cons_of_mem _ hm))]

theorem resolvePorts_length (a : Nat → Nat) (i : Nat) (ps : List Nat) :
    (resolvePorts a i ps).length = ps.length := by
  induction ps generalizing i with
  | nil => simp [resolvePorts]
  | cons p ps ih => simp [resolvePorts, ih]

theorem resolve_length (a : Nat → Nat) (i : Nat) (pl : List (Host × Nat)) :
    (resolve a i pl).length = pl.length := by
  induction pl generalizing i with
  | nil => simp [resolve]
  | cons z pl ih => obtain ⟨h, p⟩ := z; simp [resolve, ih]

theorem nodup_map_pair (h : Host) (l : List Nat) :
    (l.map (fun p => (h, p))).Nodup ↔ l.Nodup := by
  simp [List.Nodup, List.pairwise_map]

theorem plan_cons (c : Config) (h : Host) (hs : List Host) :
    plan c (h :: hs) = (tcpPorts c).map (fun p => (h, p)) ++ plan c hs := by
  simp [plan]

theorem mem_plan (c : Config) (hs : List Host) (x : Host × Nat) :
    x ∈ plan c hs ↔ x.1 ∈ hs ∧ x.2 ∈ tcpPorts c := by
  obtain ⟨h, p⟩ := x
  simp only [plan, List.mem_flatMap, List.mem_map, Prod.mk.injEq]
  constructor
  · rintro ⟨h', hh', p', hp', rfl, rfl⟩; exact ⟨hh', hp'⟩
  · rintro ⟨hh, hp⟩; exact ⟨h, hh, p, hp, rfl, rfl⟩

theorem plan_length (c : Config) (hs : List Host) :
    (plan c hs).length = hs.length * (tcpPorts c).length := by
  induction hs with
  | nil => simp [plan]
  | cons h hs ih => rw [plan_cons, List.length_append, ih]; simp [Nat.succ_mul, Nat.add_comm]

/-- the fixed part of the plan is duplicate-free when addresses and fixed ports are -/
theorem plan_fixed_nodup (c : Config) (hs : List Host) (hhs : hs.Nodup)
    (hp : ((tcpPorts c).filter (· ≠ 0)).Nodup) :
    ((plan c hs).filter (fun x => x.2 ≠ 0)).Nodup := by
  induction hs with
  | nil => simp [plan]
  | cons h hs ih =>
    obtain ⟨hnot, hhs'⟩ := List.nodup_cons.1 hhs
    rw [plan_cons, List.filter_append, List.nodup_append]
    refine ⟨?_, ih hhs', ?_⟩
    · rw [List.filter_map, nodup_map_pair]
      simpa [Function.comp_def] using hp
    · intro x hx y hy hxy
      subst hxy
      have h1 := (List.mem_filter.1 hx).1
      have h2 := (List.mem_filter.1 hy).1
      rw [List.mem_map] at h1
      obtain ⟨p, _, rfl⟩ := h1
      exact hnot ((mem_plan c hs _).1 h2).1

/-! ### the pool and what `Proxy.setup` reads back from it -/

def tcpOf (x : Host × Nat) : Listener := .tcp x.1 x.2

/-- the unix listener, when configured, is created first -/
def pre (c : Config) : List Listener := if c.unix then [Listener.unix] else []

theorem listen_ok (c : Config) (e : Env) (pool : List Listener) (h : listen c e = .ok pool) :
    bindAll e.assign (off c) [] (plan c e.hs) = .ok (resolve e.assign (off c) (plan c e.hs)) ∧
    pool = pre c ++ (resolve e.assign (off c) (plan c e.hs)).map tcpOf := by
  unfold listen at h
  split at h
  · cases h
  · rename_i r heq
    have hr := bindAll_ok_eq _ _ _ _ _ heq
    subst hr
    cases h
    exact ⟨heq, rfl⟩

theorem listen_error (c : Config) (e : Env) (err : Err) (h : listen c e = .error err) :
    err = .addrInUse := by
  unfold listen at h
  split at h
  · rename_i e' heq; cases h; exact bindAll_error _ _ _ _ _ heq
  · cases h

theorem portsOf_map (h : Host) (l : List Nat) :
    portsOf (l.map (fun p => tcpOf (h, p))) = .ok l := by
  induction l with
  | nil => simp [portsOf]
  | cons p l ih => simp [portsOf, tcpOf] at ih ⊢; simp [ih]

theorem boundPorts_append (x y : List Listener) : boundPorts (x ++ y) = boundPorts x ++ boundPorts y := by
  induction x with
  | nil => simp [boundPorts]
  | cons z x ih => cases z <;> simp [boundPorts, ih]

theorem boundPorts_map (l : List (Host × Nat)) : boundPorts (l.map tcpOf) = l.map (·.2) := by
  induction l with
  | nil => simp [boundPorts]
  | cons z l ih => simp [boundPorts, tcpOf, ih]

theorem boundPorts_pre (c : Config) : boundPorts (pre c) = [] := by
  unfold pre; split <;> simp [boundPorts]

/-- ports bound on the first address, in creation order -/
theorem firstBlock (c : Config) (e : Env) :
    resolvePorts e.assign (off c) (tcpPorts c) =
      if c.unix then boundAdditional c e else boundPrimary c e :: boundAdditional c e := by
  unfold tcpPorts off boundAdditional boundPrimary
  cases c.unix <;> simp [resolvePorts]

theorem resolve_plan_cons (c : Config) (a : Nat → Nat) (h0 : Host) (hs : List Host) :
    resolve a (off c) (plan c (h0 :: hs)) =
      (resolvePorts a (off c) (tcpPorts c)).map (fun p => (h0, p)) ++
        resolve a (off c + (tcpPorts c).length) (plan c hs) := by
  rw [plan_cons, resolve_append, resolve_map_pair]; simp

theorem writeBack_pool (c : Config) (e : Env) (h0 : Host) (hs : List Host) (so : List Nat → List Nat) :
    writeBack c so (pre c ++ (resolve e.assign (off c) (plan c (h0 :: hs))).map tcpOf) =
      .ok (if c.unix then c.port else boundPrimary c e,
           so (if !c.unix && (boundAdditional c e).contains (boundPrimary c e)
               then (boundAdditional c e).filter (· ≠ boundPrimary c e) else boundAdditional c e)) := by
  rw [resolve_plan_cons, firstBlock]
  have hlen : ((boundAdditional c e).map (fun p => tcpOf (h0, p))).length = c.ports.length := by
    simp [boundAdditional, resolvePorts_length]
  cases hu : c.unix
  · simp only [pre, hu, Bool.false_eq_true, if_false, List.nil_append, List.map_append, List.map_cons,
      List.map_map, List.cons_append]
    unfold writeBack
    simp only [hu, Bool.false_eq_true, if_false, tcpOf, List.drop_succ_cons, List.drop_zero]
    have ht : List.take c.ports.length
        (List.map (tcpOf ∘ fun p => (h0, p)) (boundAdditional c e) ++
          List.map tcpOf (resolve e.assign (off c + (tcpPorts c).length) (plan c hs))) =
        (boundAdditional c e).map (fun p => tcpOf (h0, p)) := by
      apply List.take_left'
      simp [boundAdditional, resolvePorts_length]
    rw [ht, portsOf_map]
    simp [hlen]
  · simp only [pre, hu, if_true, List.map_append, List.map_map, List.cons_append, List.nil_append]
    unfold writeBack
    simp only [hu, if_true, List.drop_succ_cons, List.drop_zero]
    have ht : List.take c.ports.length
        (List.map (tcpOf ∘ fun p => (h0, p)) (boundAdditional c e) ++
          List.map tcpOf (resolve e.assign (off c + (tcpPorts c).length) (plan c hs))) =
        (boundAdditional c e).map (fun p => tcpOf (h0, p)) := by
      apply List.take_left'
      simp [boundAdditional, resolvePorts_length]
    rw [ht, portsOf_map]
    simp [hlen]

/-! ### `setup` as a whole -/

theorem setOrder_ne_nil (c : Config) (hs : List Host) (h : SetOrder c hs) : hs ≠ [] := by
  intro h0
  have := h.2.2 c.hostname List.mem_cons_self
  simp [h0] at this

theorem setOrder_single (c : Config) (hs : List Host) (h : SetOrder c hs)
    (hall : ∀ h ∈ c.hostnames, h = c.hostname) : hs = [c.hostname] := by
  obtain ⟨hnd, hsub, hsup⟩ := h
  have hall' : ∀ x ∈ hs, x = c.hostname := by
    intro x hx
    rcases List.mem_cons.1 (hsub x hx) with h1 | h1
    · exact h1
    · exact hall x h1
  have hmem := hsup c.hostname List.mem_cons_self
  match hs, hnd, hall', hmem with
  | [], _, _, hm => simp at hm
  | [a], _, ha, _ => simp [ha a List.mem_cons_self]
  | a :: b :: t, hnd, ha, _ =>
    have h1 := ha a List.mem_cons_self
    have h2 := ha b (List.mem_cons_of_mem _ List.mem_cons_self)
    have := (List.nodup_cons.1 hnd).1
    simp [h1, h2] at this

/-- what `Proxy.setup` stores in `flags.ports` -/
def reportedAdditional (c : Config) (e : Env) : List Nat :=
  e.setOrder (if !c.unix && (boundAdditional c e).contains (boundPrimary c e)
    then (boundAdditional c e).filter (· ≠ boundPrimary c e) else boundAdditional c e)

theorem setup_started (c : Config) (e : Env) (fs0 : Fs) (st : Started) (hne : e.hs ≠ [])
    (h : setup c e fs0 = .started st) :
    bindAll e.assign (off c) [] (plan c e.hs) = .ok (resolve e.assign (off c) (plan c e.hs)) ∧
    st.pool = pre c ++ (resolve e.assign (off c) (plan c e.hs)).map tcpOf ∧
    st.flagsPort = (if c.unix then c.port else boundPrimary c e) ∧
    st.flagsPorts = reportedAdditional c e ∧
    st.fs = writePortFile c st.flagsPort st.flagsPorts (fsListening c e fs0) := by
  unfold setup at h
  split at h
  · cases h
  · rename_i pool hl
    obtain ⟨hb, hp⟩ := listen_ok c e pool hl
    obtain ⟨h0, hs', hhs⟩ := List.exists_cons_of_ne_nil hne
    have hw := writeBack_pool c e h0 hs' e.setOrder
    rw [← hhs, ← hp] at hw
    rw [hw] at h
    simp only [Outcome.started.injEq] at h
    subst h
    exact ⟨hb, hp, rfl, rfl, rfl⟩

theorem setup_of_bind (c : Config) (e : Env) (fs0 : Fs) (r : List (Host × Nat)) (hne : e.hs ≠ [])
    (hb : bindAll e.assign (off c) [] (plan c e.hs) = .ok r) : ∃ st, setup c e fs0 = .started st := by
  have hr := bindAll_ok_eq _ _ _ _ _ hb
  subst hr
  have hl : listen c e = .ok (pre c ++ (resolve e.assign (off c) (plan c e.hs)).map tcpOf) := by
    unfold listen; rw [hb]; rfl
  obtain ⟨h0, hs', hhs⟩ := List.exists_cons_of_ne_nil hne
  have hw := writeBack_pool c e h0 hs' e.setOrder
  rw [← hhs] at hw
  unfold setup
  rw [hl]
  simp only [hw]
  exact ⟨_, rfl⟩

theorem setup_of_bind_error (c : Config) (e : Env) (fs0 : Fs) (err : Err)
    (hb : bindAll e.assign (off c) [] (plan c e.hs) = .error err) :
    setup c e fs0 = .failed .addrInUse (fsListening c e fs0) := by
  have he := bindAll_error _ _ _ _ _ hb
  subst he
  have hl : listen c e = .error .addrInUse := by unfold listen; rw [hb]
  unfold setup
  rw [hl]

/-- the ports bound on the first address are pairwise distinct and non-zero -/
theorem firstBlock_nodup (c : Config) (e : Env) (h0 : Host) (hs : List Host) (hhs : e.hs = h0 :: hs)
    (hb : bindAll e.assign (off c) [] (plan c e.hs) = .ok (resolve e.assign (off c) (plan c e.hs)))
    (hk : KernelFresh c e) :
    (resolvePorts e.assign (off c) (tcpPorts c)).Nodup ∧ 0 ∉ resolvePorts e.assign (off c) (tcpPorts c) := by
  obtain ⟨_, hnd, hnz⟩ := bindAll_ok_nodup _ _ _ _ _ hb hk
  rw [hhs, resolve_plan_cons] at hnd hnz
  constructor
  · exact (nodup_map_pair h0 _).1 (List.nodup_append.1 hnd).1
  · intro hm
    exact hnz (h0, 0) (List.mem_append_left _ (List.mem_map.2 ⟨0, hm, rfl⟩)) rfl

/-- inside the quantifier every TCP port bound anywhere is one bound on the first address -/
theorem bound_iff_firstBlock (c : Config) (e : Env) (hq : InQuantifier c) (hso : SetOrder c e.hs) (p : Nat) :
    p ∈ (resolve e.assign (off c) (plan c e.hs)).map (·.2) ↔
      p ∈ resolvePorts e.assign (off c) (tcpPorts c) := by
  by_cases hz : 0 ∈ tcpPorts c
  · have hs1 := setOrder_single c e.hs hso (hq hz)
    rw [hs1, resolve_plan_cons]
    simp [plan, resolve, List.map_map, Function.comp_def]
  · have hfix : ∀ x ∈ plan c e.hs, x.2 ≠ 0 := by
      intro x hx h0
      exact hz (h0 ▸ ((mem_plan c e.hs x).1 hx).2)
    rw [resolve_fixed _ _ _ hfix, resolvePorts_fixed _ _ _ hz]
    obtain ⟨h0, hs', hhs⟩ := List.exists_cons_of_ne_nil (setOrder_ne_nil c e.hs hso)
    constructor
    · intro hm
      obtain ⟨x, hx, rfl⟩ := List.mem_map.1 hm
      exact ((mem_plan c e.hs x).1 hx).2
    · intro hm
      exact List.mem_map.2 ⟨(h0, p), (mem_plan c e.hs _).2 ⟨by simp [hhs], hm⟩, rfl⟩

end Px.Listen
