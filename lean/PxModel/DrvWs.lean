import PxModel.Ws
import PxModel.Sha1
namespace Px.Ws

def errStr : Err → String
  | .structError => "structError" | .indexError => "indexError"
  | .assertion => "assertion" | .valueError => "valueError"

def boolStr (b : Bool) : String := if b then "1" else "0"

def frameStr (f : Frame) : String :=
  s!"fin={boolStr f.fin} rsv={boolStr f.rsv1}{boolStr f.rsv2}{boolStr f.rsv3} op={f.opcode} masked={boolStr f.masked} mask={hexOpt f.mask} data={hex f.data}"

def parseBool (s : String) : Bool := s == "1"

def instStr (i : Inst) : String :=
  let pl := match i.plen with | none => "None" | some n => toString n
  s!"fin={boolStr i.fin} rsv={boolStr i.rsv1}{boolStr i.rsv2}{boolStr i.rsv3} op={i.opcode} masked={boolStr i.masked} plen={pl} mask={hexOpt i.mask} data={hexOpt i.data}"

def optHex (s : String) : Option (Option Bytes) :=
  if s == "None" then some none else (unhex s).map some

def endStr : LoopEnd → String
  | .drained => "drained" | .closed => "closed" | .failed e => s!"exc {errStr e}" | .fuel => "fuel"

/-- one operation on the reused instance; `none` = malformed op -/
def instOp (rnd : Bytes) (s : Inst) (tok : String) : Option (Except String (Inst × String)) :=
  match tok.splitOn "=" with
  | ["R"] => some (.ok (s.reset, "reset"))
  | ["B"] =>
    match buildSt rnd s with
    | .ok (s', raw) => some (.ok (s', s!"built {hex raw} {instStr s'}"))
    | .error e => some (.error s!"exc build {errStr e}")
  | ["P", raw] =>
    match unhex raw with
    | none => none
    | some raw =>
      match parseSt s raw with
      | .ok (s', t) => some (.ok (s', s!"parsed {instStr s'} tail={hex t}"))
      | .error e => some (.error s!"exc parse {errStr e}")
  | ["S", spec] =>
    match spec.splitOn "," with
    | [fl, op, m, mask, data] =>
      match fl.toList, op.toNat?, optHex mask, optHex data with
      | [a, b, c, d], some op, some mask, some data =>
        some (.ok ({ s with fin := a == '1', rsv1 := b == '1', rsv2 := c == '1', rsv3 := d == '1',
                            opcode := op, masked := parseBool m, mask := mask, data := data }, "set"))
      | _, _, _, _ => none
    | _ => none
  | _ => none

def instRun (rnd : Bytes) : Inst → List String → List String → Option (List String)
  | _, [], acc => some acc.reverse
  | s, tok :: toks, acc =>
    match instOp rnd s tok with
    | none => none
    | some (.error e) => some (e :: acc).reverse
    | some (.ok (s', out)) => instRun rnd s' toks (out :: acc)

/-- `ws build <fin> <r1> <r2> <r3> <opcode> <masked> <mask|None> <rnd> <data>`
    `ws parse <raw>`  `ws rt <fin> … <data> <tail>` (build, append tail, parse) -/
def drv (args : List String) : String :=
  let mkFrame (fin r1 r2 r3 op m mask data : String) : Option Frame := do
    let op ← op.toNat?
    let mask ← if mask == "None" then some none else (unhex mask).map some
    let data ← unhex data
    some { fin := parseBool fin, rsv1 := parseBool r1, rsv2 := parseBool r2, rsv3 := parseBool r3,
           opcode := op, masked := parseBool m, mask := mask, data := data }
  match args with
  | ["build", fin, r1, r2, r3, op, m, mask, rnd, data] =>
    match mkFrame fin r1 r2 r3 op m mask data, unhex rnd with
    | some f, some rnd =>
      match build rnd f with
      | .ok x => s!"ok {hex x}"
      | .error e => s!"exc {errStr e}"
    | _, _ => "bad-op"
  | ["parse", raw] =>
    match unhex raw with
    | some raw =>
      match parse raw with
      | .ok (f, t) => s!"ok {frameStr f} tail={hex t}"
      | .error e => s!"exc {errStr e}"
    | none => "bad-op"
  | ["rt", fin, r1, r2, r3, op, m, mask, rnd, data, tail] =>
    match mkFrame fin r1 r2 r3 op m mask data, unhex rnd, unhex tail with
    | some f, some rnd, some tail =>
      match build rnd f with
      | .error e => s!"exc build {errStr e}"
      | .ok x =>
        match parse (x ++ tail) with
        | .ok (g, t) => s!"ok {frameStr g} tail={hex t}"
        | .error e => s!"exc parse {errStr e}"
    | _, _, _ => "bad-op"
  | "inst" :: rnd :: ops =>
    match unhex rnd with
    | none => "bad-op"
    | some rnd =>
      match instRun rnd Inst.fresh ops [] with
      | none => "bad-op"
      | some outs => " | ".intercalate outs
  | ["text", data] =>
    match unhex data with
    | none => "bad-op"
    | some d =>
      match text d with
      | .ok x => s!"ok {hex x}"
      | .error e => s!"exc {errStr e}"
  | ["loop", raw] =>
    match unhex raw with
    | none => "bad-op"
    | some raw =>
      let r := webLoopTop raw
      " | ".intercalate (r.1.map instStr ++ [endStr r.2])
  | ["accept", guid, key] =>
    match unhex guid, unhex key with
    | some g, some k => s!"ok {hex (Px.Sha1.keyToAccept g k)}"
    | _, _ => "bad-op"
  | ["mask", data, mask] =>
    match unhex data, unhex mask with
    | some d, some m =>
      match applyMask d m with
      | .ok x => s!"ok {hex x}"
      | .error e => s!"exc {errStr e}"
    | _, _ => "bad-op"
  | _ => "bad-op"

end Px.Ws
