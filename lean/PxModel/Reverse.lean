import PxModel.Build
import PxModel.Conn
/-
  Model of the reverse proxy request path (first request of a connection):

  * proxy/http/server/web.py      `HttpWebServerPlugin.on_request_complete`, `_try_route`
                                  (route regexes registered from `ReverseProxy.routes()`;
                                  no route -> `NOT_FOUND_RESPONSE_PKT` + teardown)
  * proxy/http/server/reverse.py  `ReverseProxy.handle_request`, `handle_upstream_data`,
                                  `on_client_connection_close`
  * proxy/http/server/plugin.py   `ReverseProxyBasePlugin` (`routes`, `regexes`, `handle_route`)
  * proxy/core/base/tcp_upstream.py `initialize_upstream`, `read_from_descriptors`

  Parameters of the environment (DESIGN.md §3.2): which route patterns match
  the request path (`matches`, computed with the real `re` by the harness),
  what `random.choice` returns (`pick`, an index per plugin — at most one call
  per plugin and request), what a plugin's `handle_route` returns for this
  request (`DynRes`), whether `connect()` is refused, what `recv` on the
  upstream socket yields.

  Not modelled (out of scope of C12, stated in the harness's ASSUMPTIONS):
  the TLS handshake of `upstream.wrap` (only *that* it is requested is
  recorded), `before_routing` overrides (the base-class identity is assumed),
  `handle_route` returning a ready `TcpServerConnection`, plugins overriding
  `protocols()`/`regexes()`, `--enable-static-server` (C13), access logging,
  follow-up requests of a kept-alive connection (C04).
-/
namespace Px.Reverse

open Px.Parser (Parser)
open Px.Url (Url utf8Valid)
open Px.Build (intToDec)

inductive Err
  | indexError      -- `random.choice` on an empty sequence / Url.from_bytes(b'')
  | valueError      -- ValueError / UnicodeDecodeError (Url.from_bytes, text_(hostname), text_() in emit, to_chunks)
  | httpProtocol    -- HttpProtocolException (scheme not allowed; connection refused)
  | assertion       -- `assert self.choice and self.choice.hostname`, `build()`'s assert
  | typeError       -- `pattern.match(None)`
  | plugin          -- whatever the plugin's `handle_route` raised
  | keyError        -- `request.header(b'host')` in `emit_request_complete` without a Host field
  deriving DecidableEq, Repr

def urlErr : Px.Url.Err → Err
  | .indexError => .indexError | .valueError => .valueError | .httpProtocol => .httpProtocol

def buildErr : Px.Build.Err → Err
  | .assertion => .assertion | .valueError => .valueError

/-- what `plugin.handle_route(request, pattern)` returned for this request -/
inductive DynRes
  | url (u : Url)             -- a `Url` object
  | literal (resp : Bytes)    -- a `memoryview`: literal response
  | raises (e : Err)
  deriving DecidableEq, Repr

/-- one element of `plugin.routes()`; `pat` identifies the regular expression -/
inductive Route
  | static (pat : Nat) (urls : List Bytes)    -- `(regex, [upstream urls])`
  | dynamic (pat : Nat) (res : DynRes)        -- `regex` (str) + the plugin's `handle_route`
  deriving DecidableEq, Repr

def Route.pat : Route → Nat
  | .static p _ => p
  | .dynamic p _ => p

/-- `plugin.routes()` in order -/
abbrev Plugin := List Route
/-- `ReverseProxy.plugins` in order (`flags.plugins[b'ReverseProxyBasePlugin']`) -/
abbrev Table := List Plugin

structure Cfg where
  /-- `--rewrite-host-header` -/
  rewriteHost : Bool := false
  httpProto : Bytes := Px.Gen.httpProto
  httpsProto : Bytes := Px.Gen.httpsProto
  defaultHttpPort : Nat := Px.Gen.defaultHttpPort
  defaultHttpsPort : Nat := Px.Gen.defaultHttpsPort
  allowedSchemes : List Bytes := Px.Gen.defaultAllowedUrlSchemes
  bufSize : Nat := Px.Gen.defaultBufferSize
  disableHeaders : List Bytes := Px.Gen.defaultDisableHeaders
  notFound : Bytes := Px.Gen.pkt_NOT_FOUND_RESPONSE_PKT
  badRequest : Bytes := Px.Gen.pkt_BAD_REQUEST_RESPONSE_PKT

/-- `ReverseProxy` instance state plus ghost observables (`connects`, `wraps`, `closes`). -/
structure St where
  /-- `self.client` (its buffer of queued memoryviews) -/
  client : Conn := {}
  /-- `self.choice` -/
  choice : Option Url := none
  /-- `self.upstream` -/
  upstream : Option Conn := none
  /-- ghost: every address handed to `new_socket_connection`, in order -/
  connects : List (Bytes × Int) := []
  /-- ghost: `server_hostname` of every `upstream.wrap(...)` request -/
  wraps : List Bytes := []
  /-- ghost: number of `upstream.close()` calls made by `on_client_connection_close` -/
  closes : Nat := 0
  deriving DecidableEq, Repr

/-- result of one callback: new state, the teardown signal that reaches
    `HttpProtocolHandler` and the exception that ended the callback, if any
    (`httpProtocol` is caught by `handle_data`, everything else escapes
    `handle_events`; both end the connection). -/
structure Res where
  st : St
  teardown : Bool
  exc : Option Err
  deriving DecidableEq, Repr

/-- the inner `for route in plugin.routes(): … break`: first route whose pattern matches -/
def firstMatch (m : Nat → Bool) (p : Plugin) : Option Route := p.find? (fun r => m r.pat)

/-- what the body of the matching branch does, as a value -/
inductive Act
  | url (u : Url)          -- `self.choice = …; needs_upstream = True`
  | lit (resp : Bytes)     -- `self.client.queue(choice)`
  | fail (e : Err) (choice : Option Url)   -- raises `e`; `choice`: what `self.choice` was set to before
  deriving DecidableEq, Repr

/-- `str(url)` (`Url.__str__`) decodes the truthy scheme / hostname / remainder with `text_` -/
def strOk (u : Url) : Bool :=
  (match u.scheme with | some x => utf8Valid x | none => true) &&
  (match u.hostname with | some x => utf8Valid x | none => true) &&
  (match u.remainder with | some x => utf8Valid x | none => true)

/-- the matching branch for route `r` (`pick` = what `random.choice` indexes) -/
def routeAct (cfg : Cfg) (pick : Nat) : Route → Act
  | .static _ urls =>
    match urls[pick]? with
    | none => .fail .indexError none                  -- `random.choice([])`
    | some raw =>
      match Px.Url.fromBytes cfg.allowedSchemes raw with
      | .error e => .fail (urlErr e) none
      | .ok u => .url u
  | .dynamic _ (.url u) =>
    -- `self.choice = choice; needs_upstream = True; self._upstream_proxy_pass = str(self.choice)`
    if strOk u then .url u else .fail .valueError (some u)
  | .dynamic _ (.literal resp) => .lit resp      -- (`'{0} bytes'.format(len(choice))` cannot raise)
  | .dynamic _ (.raises e) => .fail e none

/-- the routes loop of `handle_request`: every plugin in order, within a plugin
    the first matching route (`break`), state threaded through; the `Bool` is
    `needs_upstream`.  `i` is the position of the head plugin in `self.plugins`. -/
def routeLoop (cfg : Cfg) (m : Nat → Bool) (pick : Nat → Nat) :
    Nat → Table → St → Bool → St × Bool × Option Err
  | _, [], s, needs => (s, needs, none)
  | i, p :: ps, s, needs =>
    match firstMatch m p with
    | none => routeLoop cfg m pick (i + 1) ps s needs
    | some r =>
      match routeAct cfg (pick i) r with
      | .fail e none => (s, needs, some e)
      | .fail e (some u) => ({ s with choice := some u }, true, some e)
      | .url u => routeLoop cfg m pick (i + 1) ps { s with choice := some u } true
      | .lit resp => routeLoop cfg m pick (i + 1) ps { s with client := s.client.queue resp } needs

/-- the port expression
    `choice.port or DEFAULT_HTTP_PORT if choice.scheme == HTTP_PROTO else choice.port or DEFAULT_HTTPS_PORT` -/
def portOf (cfg : Cfg) (u : Url) : Int :=
  let dflt : Int := if u.scheme == some cfg.httpProto then Int.ofNat cfg.defaultHttpPort
                    else Int.ofNat cfg.defaultHttpsPort
  match u.port with
  | some v => if v != 0 then v else dflt
  | none => dflt

/-- `hostname + (COLON + bytes_(port) if port is not None else b'')` -/
def authority (u : Url) (h : Bytes) : Bytes :=
  h ++ (match u.port with | some v => COLON :: intToDec v | none => [])

/-- `connect_host`: `text_(hostname)` with one leading `[` and trailing `]` removed when both are
    present (IPv6 literal; the socket layer wants the bare address) -/
def connectHost (h : Bytes) : Bytes :=
  if h.head? == some Px.Url.LBR && h.getLast? == some Px.Url.RBR then (h.drop 1).dropLast else h

/-- the `host=` argument of `request.build(...)` -/
def hostArg (cfg : Cfg) (u : Url) (h : Bytes) : Option Bytes :=
  if cfg.rewriteHost then some (authority u h) else none

/-- `request.path = self.choice.remainder` -/
def retarget (req : Parser) (u : Url) : Parser := { req with path := u.remainder }

/-- the `if needs_upstream:` block -/
def forward (cfg : Cfg) (connectOk : Bool) (req : Parser) (s : St) : Res :=
  match s.choice with
  | none => ⟨s, true, some .assertion⟩
  | some u =>
    match u.hostname with
    | none => ⟨s, true, some .assertion⟩
    | some h =>
      if h.isEmpty then ⟨s, true, some .assertion⟩
      else if !utf8Valid h then ⟨s, true, some .valueError⟩        -- text_(self.choice.hostname)
      else
        let port := portOf cfg u
        -- initialize_upstream(connect_host, port): TcpServerConnection, `closed = True` until connected
        let s := { s with upstream := some { closed := true } }
        -- upstream.connect(): new_socket_connection(addr)
        let s := { s with connects := s.connects ++ [(connectHost h, port)] }
        if !connectOk then ⟨s, true, some .httpProtocol⟩           -- ConnectionRefusedError -> HttpProtocolException
        else
          let s := { s with upstream := some {} }
          let s := if u.scheme == some cfg.httpsProto then { s with wraps := s.wraps ++ [h] } else s
          match Px.Build.build cfg.bufSize cfg.disableHeaders (retarget req u) none (hostArg cfg u h) with
          | .error e => ⟨s, true, some (buildErr e)⟩
          | .ok pkt => ⟨{ s with upstream := some (({} : Conn).queue pkt) }, false, none⟩

/-- `ReverseProxy.handle_request(request)` (with the identity `before_routing`) -/
def handleRequest (cfg : Cfg) (m : Nat → Bool) (pick : Nat → Nat) (connectOk : Bool)
    (t : Table) (req : Parser) (s : St) : Res :=
  if req.path.isNone && t.any (fun p => !p.isEmpty) then ⟨s, true, some .typeError⟩
  else
    match routeLoop cfg m pick 0 t s false with
    | (s, _, some e) => ⟨s, true, some e⟩
    | (s, true, none) => forward cfg connectOk req s
    | (s, false, none) => ⟨s, false, none⟩

/-- some registered route regex matches (`_try_route`'s loop finds a route) -/
def anyMatch (m : Nat → Bool) (t : Table) : Bool := t.any (fun p => p.any (fun r => m r.pat))

/-- `path = self.request.path or b'/'` -/
def webPath (req : Parser) : Bytes :=
  match req.path with
  | some x => if x.isEmpty then [SLASH] else x
  | none => [SLASH]

/-- `HttpWebServerPlugin.emit_request_complete()`: with `--enable-events` a REQUEST_COMPLETE
    event is published whose payload is a *copy* (url / method / decoded header names and values /
    body); the request object itself is not changed, so the only thing that matters for what
    follows is whether building the payload raises:
    `assert self.request.port`, `self.request.header(b'host')` (KeyError without a Host field),
    strict `text_()` of the Host value, path, method and every header name and value. -/
def emitRequestComplete (events : Bool) (req : Parser) : Option Err :=
  if !events then none
  else if !(match req.port with | some v => v != 0 | none => false) then some .assertion
  else
    match Px.Parser.header req (b "host") with
    | .error _ => some .keyError
    | .ok hv =>
      let opt (x : Option Bytes) : Bool := match x with | some y => utf8Valid y | none => true
      if utf8Valid hv && opt req.path && opt req.method &&
          (req.headers.getD []).all (fun e => utf8Valid e.1 && utf8Valid e.2.2)
      then none else some .valueError

/-- what `on_request_complete()` does once the path check and `emit_request_complete()` are
    behind it: `_try_route` (→ `ReverseProxy.handle_request`), else 404.  The only web plugin
    is `ReverseProxy`, the static server is off. -/
def routeRequest (cfg : Cfg) (m : Nat → Bool) (pick : Nat → Nat) (connectOk : Bool)
    (t : Table) (req : Parser) (s : St) : Res :=
  if anyMatch m t then handleRequest cfg m pick connectOk t req s
  else ⟨{ s with client := s.client.queue cfg.notFound }, true, none⟩

/-- the first statement of `on_request_complete()` (since eb09b1e): a request path that does not
    decode as UTF-8 is answered with `BAD_REQUEST_RESPONSE_PKT` and torn down — before
    `emit_request_complete()` and before any routing, whatever the route table is. -/
def badPath (cfg : Cfg) (s : St) : Res :=
  ⟨{ s with client := s.client.queue cfg.badRequest }, true, none⟩

/-- `HttpWebServerPlugin.on_request_complete()` with `--enable-events` off -/
def onRequestComplete (cfg : Cfg) (m : Nat → Bool) (pick : Nat → Nat) (connectOk : Bool)
    (t : Table) (req : Parser) (s : St) : Res :=
  if !utf8Valid (webPath req) then badPath cfg s
  else routeRequest cfg m pick connectOk t req s

/-- `HttpWebServerPlugin.on_request_complete()` for a completed web-server
    request when the only web plugin is `ReverseProxy` and the static server is off:
    the path check, then `emit_request_complete()` (an exception there escapes), then routing
    with the very same request object.  `events` is `--enable-events`. -/
def onRequestCompleteEv (cfg : Cfg) (events : Bool) (m : Nat → Bool) (pick : Nat → Nat) (connectOk : Bool)
    (t : Table) (req : Parser) (s : St) : Res :=
  if !utf8Valid (webPath req) then badPath cfg s
  else
    match emitRequestComplete events req with
    | some e => ⟨s, true, some e⟩
    | none => routeRequest cfg m pick connectOk t req s

/-- what the environment supplies for one client connection -/
structure ConnIn where
  m : Nat → Bool
  pick : Nat → Nat
  connectOk : Bool
  req : Parser

/-- successive client connections handled by one process: flags (`cfg`, `events`) and the plugin
    classes (`t`) are shared, every connection gets a fresh `HttpProtocolHandler` / `ReverseProxy`
    (state `{}`); nothing else is carried over — `Url.from_bytes` is a pure function of its bytes
    and a plugin that edits the `Url` it obtained edits its own object. -/
def runConnections (cfg : Cfg) (events : Bool) (t : Table) : List ConnIn → List Res
  | [] => []
  | c :: cs =>
    onRequestCompleteEv cfg events c.m c.pick c.connectOk t c.req {} :: runConnections cfg events t cs

/-- outcome of `self.upstream.recv(...)` when the upstream descriptor is readable -/
inductive UpEv
  | seg (raw : Bytes)   -- data
  | eof | reset | timedOut | wantRead
  deriving DecidableEq, Repr

/-- `handle_upstream_data(raw)`: `self.client.queue(raw)` -/
def handleUpstreamData (s : St) (raw : Bytes) : St := { s with client := s.client.queue raw }

/-- `TcpUpstreamConnectionHandler.read_from_descriptors` with the upstream
    descriptor readable: new state and the teardown flag. -/
def upstreamRead (s : St) (e : UpEv) : St × Bool :=
  match s.upstream with
  | none => (s, false)
  | some _ =>
    match e with
    | .seg raw => if raw.isEmpty then (s, true) else (handleUpstreamData s raw, false)
    | .eof => (s, true)
    | .reset => (s, true)
    | .timedOut => (s, true)
    | .wantRead => (s, false)

/-- successive readable events until one asks for teardown -/
def relay : List UpEv → St → St × Bool
  | [], s => (s, false)
  | e :: es, s =>
    match upstreamRead s e with
    | (s', true) => (s', true)
    | (s', false) => relay es s'

/-- `ReverseProxy.on_client_connection_close()` -/
def onClientConnectionClose (s : St) : St :=
  match s.upstream with
  | some c => if !c.closed then { s with upstream := none, closes := s.closes + 1 } else s
  | none => s

end Px.Reverse
