"""C11 — TLS interception issues a valid per-host cert and never trusts a bad upstream.

Correspondence of PxModel/Intercept.lean + PxModel/Pki.lean with the REAL
HttpProtocolHandler + HttpProxyPlugin (+ TcpServerConnection.wrap /
TcpClientConnection.wrap / proxy.common.pki) doing REAL TLS handshakes,
in-process and offline, and the property oracle.

A scenario = one CONNECT (optionally repeated on a fresh connection with the
certificate cache left warm) through a real handler whose upstream is one end
of a socketpair served by a TLS origin thread; the client is a verifying TLS
client thread.  A throw-away CA / signing key / origin leaves are made with the
installed `openssl` through the repo's own proxy.common.pki helpers in a
tempfile.mkdtemp() directory that is removed when the process ends.

What is compared with the model (one line per CONNECT): the ordered effect log of
`on_request_complete` — acknowledgement queued, upstream wrap parameters
(server_hostname, ca_file, verify_mode, check_hostname) and its outcome,
every `os.path.isfile` probe of the cache, every openssl invocation (argv and
the bytes of its config / ext file), client wrap parameters and outcome, value
returned to the handler, relay mode afterwards.  OpenSSL's verdict on the
origin's certificate is a *parameter* of the model; the driver instantiates it
with the reference verdict (chain ok ∧ (¬check_hostname ∨ name ok)), so the
runs also check that the real OpenSSL agrees with that table for the
situations exercised.
"""
import os
import re
import ssl
import sys
import time
import json
import atexit
import shutil
import socket
import logging
import hashlib
import tempfile
import threading
import selectors
import subprocess

from harness.common import hx, exc_name  # noqa: F401

PROPERTY = 'C11'
LEAN_TARGETS = ['PxProofs.C11']
THEOREMS = []
NO_FORK = False
logging.disable(logging.CRITICAL)

IO_TIMEOUT = 8.0          # every peer-side socket operation
CA_SUBJECT = '/CN=px-verif-ca/O=px-verif'

SITUATIONS = ('trusted', 'selfsigned', 'untrusted', 'wrongname', 'expired')


# --------------------------------------------------------------------------
# throw-away PKI
# --------------------------------------------------------------------------

_PKI = None
_PKI_LOCK = threading.Lock()


def _openssl(args, timeout=30):
    p = subprocess.run(['openssl'] + args, stdout=subprocess.PIPE, stderr=subprocess.PIPE, timeout=timeout)
    if p.returncode != 0:
        raise RuntimeError('openssl %s failed: %s' % (args[0], p.stderr.decode(errors='replace')[-400:]))


class Pki:
    """CA (trust anchor + signer of generated leaves), signing key of the proxy,
    a second CA nobody trusts, one origin key, origin leaves on demand."""

    def __init__(self):
        from proxy.common import pki
        self.dir = tempfile.mkdtemp(prefix='px-c11-')
        self.owner = os.getpid()
        atexit.register(self.remove)
        # ./check leaves through os._exit: a detached janitor removes the directory once we are gone
        subprocess.Popen(
            ['/bin/sh', '-c', 'while kill -0 %d 2>/dev/null; do sleep 0.5; done; rm -rf "%s"' % (self.owner, self.dir)],
            stdin=subprocess.DEVNULL, stdout=subprocess.DEVNULL, stderr=subprocess.DEVNULL,
            start_new_session=True, close_fds=True,
        )
        j = lambda n: os.path.join(self.dir, n)     # noqa: E731
        self.ca_key, self.ca_cert, self.signing_key = j('ca-key.pem'), j('ca-cert.pem'), j('ca-signing-key.pem')
        self.bad_key, self.bad_cert = j('bad-ca-key.pem'), j('bad-ca-cert.pem')
        self.origin_key = j('origin-key.pem')
        pw = 'proxy.py'
        for key in (self.ca_key, self.signing_key, self.bad_key, self.origin_key):
            assert pki.gen_private_key(key, pw)
            assert pki.remove_passphrase(key, pw, key)
        # NOT pki.gen_public_key: with the installed OpenSSL 3.5 CLI the repo's recipe yields a v3
        # certificate without basicConstraints, which the library rejects as issuer ("invalid CA certificate")
        for key, crt, subj in ((self.ca_key, self.ca_cert, CA_SUBJECT),
                               (self.bad_key, self.bad_cert, '/CN=px-verif-untrusted-ca')):
            _openssl(['req', '-new', '-x509', '-sha256', '-days', '30', '-key', key, '-subj', subj, '-out', crt,
                      '-addext', 'basicConstraints=critical,CA:TRUE', '-addext', 'keyUsage=critical,keyCertSign,cRLSign'])

    def remove(self):
        if os.getpid() == self.owner:
            shutil.rmtree(self.dir, ignore_errors=True)

    def leaf(self, situation, host):
        """certificate file an origin of the given situation presents for CONNECT host `host`"""
        name = 'leaf-%s-%s.pem' % (situation, hashlib.sha1(host.encode()).hexdigest()[:12])
        path = os.path.join(self.dir, name)
        if os.path.isfile(path):
            return path
        tmp = '%s.%d.%d' % (path, os.getpid(), threading.get_ident())
        bare = host[1:-1] if host.startswith('[') and host.endswith(']') else host
        san = ('IP:' if is_ip_literal(host) else 'DNS:') + bare
        if situation == 'wrongname':
            san = 'DNS:wrong.name.example'
        cn = bare[:60]
        ext = tmp + '.ext'
        with open(ext, 'w') as f:
            f.write('subjectAltName=%s\n' % san)
        csr = tmp + '.csr'
        try:
            _openssl(['req', '-new', '-key', self.origin_key, '-subj', '/CN=%s/O=px-origin/C=US' % cn, '-out', csr])
            if situation == 'selfsigned':
                _openssl(['x509', '-req', '-in', csr, '-signkey', self.origin_key, '-days', '30',
                          '-extfile', ext, '-out', tmp])
            else:
                ca_c, ca_k = (self.bad_cert, self.bad_key) if situation == 'untrusted' else (self.ca_cert, self.ca_key)
                args = ['x509', '-req', '-in', csr, '-CA', ca_c, '-CAkey', ca_k,
                        '-set_serial', str(int(hashlib.sha1(name.encode()).hexdigest()[:12], 16)),
                        '-extfile', ext, '-out', tmp]
                if situation == 'expired':
                    args += ['-not_before', '20200101000000Z', '-not_after', '20200201000000Z']
                else:
                    args += ['-days', '30']
                _openssl(args)
            os.replace(tmp, path)
        finally:
            for p in (ext, csr, tmp):
                try:
                    os.remove(p)
                except OSError:
                    pass
        return path


def pki():
    global _PKI
    with _PKI_LOCK:
        if _PKI is None or not os.path.isdir(_PKI.dir):
            _PKI = Pki()
        return _PKI


def is_ip_literal(host):
    import ipaddress
    h = host[1:-1] if host.startswith('[') and host.endswith(']') else host
    try:
        ipaddress.ip_address(h)
        return True
    except ValueError:
        return False


# --------------------------------------------------------------------------
# opt-out plugins
# --------------------------------------------------------------------------

_PLUGIN_CLASSES = {}
ANSWERS = {'T': True, 'F': False, 'N': None}


def plugin_class(idx, ans):
    """HttpProxyBasePlugin subclass number `idx` of the chain whose do_intercept answers `ans`
    ('T' True, 'F' False, 'N' None — a value that is falsy but `is not False`)."""
    key = (idx, ans)
    if key in _PLUGIN_CLASSES:
        return _PLUGIN_CLASSES[key]
    from proxy.http.proxy.plugin import HttpProxyBasePlugin

    def do_intercept(self, request):
        REC.append({'ev': 'ask', 'idx': idx})
        return ANSWERS[ans]
    k = type('C11P%d%s' % (idx, ans), (HttpProxyBasePlugin,), {'do_intercept': do_intercept, '__module__': __name__})
    _PLUGIN_CLASSES[key] = k
    return k


REC = []     # effect log of the CONNECT being processed (single-threaded access: handler thread only)


# --------------------------------------------------------------------------
# peers
# --------------------------------------------------------------------------

def _recv_until(sock, marker, limit=1 << 20):
    buf = b''
    while marker not in buf and len(buf) < limit:
        d = sock.recv(65536)
        if not d:
            break
        buf += d
    return buf


def _read_http(sock, first=b''):
    """one HTTP message with Content-Length framing (or until EOF); returns bytes read"""
    buf = first
    while b'\r\n\r\n' not in buf:
        d = sock.recv(65536)
        if not d:
            return buf
        buf += d
    head, _, body = buf.partition(b'\r\n\r\n')
    m = re.search(rb'(?im)^content-length:\s*(\d+)\s*$', head)
    need = int(m.group(1)) if m else 0
    while len(body) < need:
        d = sock.recv(65536)
        if not d:
            break
        body += d
    return head + b'\r\n\r\n' + body


class Origin(threading.Thread):
    """TLS origin on one end of a socketpair: handshake with the given leaf, then (on success)
    read one request, answer `response`, close.  In `raw` mode (opt-out expected) behaves the same:
    whoever handshakes with it is the party it talks to."""

    def __init__(self, sock, certfile, keyfile, response, extra_raw=b''):
        super().__init__(daemon=True)
        self.sock = sock
        self.certfile, self.keyfile = certfile, keyfile
        self.response = response
        self.extra_raw = extra_raw
        self.handshake = None      # 'ok' | exception name
        self.sni = None
        self.received = b''        # application plaintext received
        self.error = None

    def run(self):
        s = self.sock
        try:
            s.settimeout(IO_TIMEOUT)
            ctx = ssl.SSLContext(ssl.PROTOCOL_TLS_SERVER)
            ctx.load_cert_chain(self.certfile, self.keyfile)

            def on_sni(sslobj, name, _ctx):
                self.sni = name
            ctx.sni_callback = on_sni
            try:
                tls = ctx.wrap_socket(s, server_side=True)
            except (ssl.SSLError, OSError) as e:
                self.handshake = type(e).__name__
                if self.extra_raw:
                    try:
                        s.sendall(self.extra_raw)
                    except OSError:
                        pass
                return
            self.handshake = 'ok'
            s = tls
            try:
                self.received = _read_http(s)
                if self.received:
                    s.sendall(self.response)
                # anything else the peer sends until it closes
                s.settimeout(1.0)
                try:
                    while True:
                        d = s.recv(65536)
                        if not d:
                            break
                        self.received += d
                except (socket.timeout, ssl.SSLError, OSError):
                    pass
            except (ssl.SSLError, OSError) as e:
                self.error = type(e).__name__
        finally:
            try:
                s.close()
            except OSError:
                pass
            try:
                self.sock.close()
            except OSError:
                pass


class Client(threading.Thread):
    """verifying TLS client: CONNECT, read the acknowledgement, handshake (trusting only the
    throw-away CA, checking the name `host`), send `request` cut at `cuts`, read the response."""

    def __init__(self, sock, connect_bytes, host, cafile, request, cuts):
        super().__init__(daemon=True)
        self.sock = sock
        self.connect_bytes = connect_bytes
        self.host = host
        self.cafile = cafile
        self.request = request
        self.cuts = cuts
        self.ack = b''
        self.handshake = None
        self.peer_der = None
        self.peer_cert = None
        self.response = b''
        self.plain_after_ack = b''   # bytes seen in clear after the acknowledgement (handshake never started/finished)
        self.error = None

    def run(self):
        s = self.sock
        try:
            s.settimeout(IO_TIMEOUT)
            s.sendall(self.connect_bytes)
            buf = _recv_until(s, b'\r\n\r\n')
            head, sep, rest = buf.partition(b'\r\n\r\n')
            self.ack = head + sep
            if not sep or not head.startswith(b'HTTP/1.1 200'):
                self.plain_after_ack = rest
                return
            if rest:
                # nothing may follow the acknowledgement in clear before our ClientHello
                self.plain_after_ack = rest
                return
            ctx = ssl.create_default_context(cafile=self.cafile)
            bare = self.host[1:-1] if self.host.startswith('[') and self.host.endswith(']') else self.host
            try:
                tls = ctx.wrap_socket(s, server_hostname=bare)
            except ssl.SSLCertVerificationError as e:
                self.handshake = 'SSLCertVerificationError:' + str(getattr(e, 'verify_message', ''))
                return
            except (ssl.SSLError, OSError) as e:
                self.handshake = type(e).__name__
                return
            self.handshake = 'ok'
            s = tls
            self.peer_der = tls.getpeercert(True)
            self.peer_cert = tls.getpeercert()
            try:
                pos = 0
                for c in list(self.cuts) + [len(self.request)]:
                    if c > pos:
                        s.sendall(self.request[pos:c])
                        pos = c
                        time.sleep(0.005)
                self.response = _read_http(s)
            except (ssl.SSLError, OSError) as e:
                self.error = type(e).__name__
        except (ssl.SSLError, OSError) as e:
            self.error = type(e).__name__
        finally:
            try:
                s.close()
            except OSError:
                pass
            try:
                self.sock.close()
            except OSError:
                pass


# --------------------------------------------------------------------------
# instrumentation (from outside; nothing under /repo is edited)
# --------------------------------------------------------------------------

class _CtxProxy:
    """stands for the SSLContext TcpServerConnection.wrap configures: forwards everything and records
    the settings in force at the moment of wrap_socket together with the outcome of the handshake"""

    def __init__(self, ctx, cafile):
        object.__setattr__(self, '_ctx', ctx)
        object.__setattr__(self, '_cafile', cafile)

    def __getattr__(self, k):
        return getattr(self._ctx, k)

    def __setattr__(self, k, v):
        setattr(self._ctx, k, v)

    def wrap_socket(self, sock, **kw):
        ent = {'ev': 'wrapUp', 'sni': kw.get('server_hostname'), 'ca': self._cafile,
               'mode': self._ctx.verify_mode.name, 'chk': bool(self._ctx.check_hostname), 'out': None}
        REC.append(ent)
        try:
            r = self._ctx.wrap_socket(sock, **kw)
        except BaseException as e:
            ent['out'] = _exc_class(e)
            ent['detail'] = getattr(e, 'verify_message', None) or getattr(e, 'reason', None) or str(e)[:80]
            raise
        ent['out'] = 'ok'
        return r


def _exc_class(e):
    """the exception classes wrap_server / wrap_client distinguish"""
    if isinstance(e, ssl.SSLCertVerificationError):
        return 'certVerification'
    if isinstance(e, ssl.SSLError):
        return 'sslError'
    if isinstance(e, subprocess.TimeoutExpired):
        return 'timeoutExpired'
    if isinstance(e, OSError):
        return 'osError'
    return exc_name(e)


class _ModShim:
    def __init__(self, real, **over):
        self.__dict__['_real'] = real
        self.__dict__.update(over)

    def __getattr__(self, k):
        return getattr(self._real, k)


class Patches:
    """context manager installing the recorders"""

    def __init__(self, world):
        self.w = world
        self.saved = []

    def _set(self, obj, name, val):
        self.saved.append((obj, name, obj.__dict__.get(name, _MISSING) if isinstance(obj, type) else getattr(obj, name)))
        setattr(obj, name, val)

    def __enter__(self):
        import proxy.core.connection.server as SRV
        import proxy.http.proxy.server as PS
        import proxy.common.pki as PKI
        from proxy.core.connection.client import TcpClientConnection
        from proxy.core.connection.connection import TcpConnection
        w = self.w

        def create_default_context(purpose=ssl.Purpose.SERVER_AUTH, cafile=None, **kw):
            return _CtxProxy(ssl.create_default_context(purpose, cafile=cafile, **kw), cafile)
        self._set(SRV, 'ssl', _ModShim(ssl, create_default_context=create_default_context))
        self._set(SRV, 'new_socket_connection', w.connect)

        def isfile(p):
            r = os.path.isfile(p)
            REC.append({'ev': 'isfile', 'path': p, 'res': bool(r)})
            return r
        self._set(PS, 'os', _ModShim(os, path=_ModShim(os.path, isfile=isfile), getpid=lambda: 4242))
        self._set(PS, 'time', _ModShim(time, time=lambda: 1700000000.9))

        orig_run = PKI.run_openssl_command

        def run_openssl_command(command, timeout):
            content = None
            for flag in ('-config', '-extfile'):
                if flag in command:
                    with open(command[command.index(flag) + 1], 'rb') as f:
                        content = (command[command.index(flag) + 1], f.read())
            ent = {'ev': 'openssl', 'argv': list(command), 'file': content, 'timeout': timeout, 'rc': None}
            REC.append(ent)
            w.openssl_calls += 1
            r = orig_run(command, timeout)
            ent['rc'] = bool(r)
            return r
        self._set(PKI, 'run_openssl_command', run_openssl_command)

        orig_cwrap = TcpClientConnection.wrap

        def cwrap(conn, keyfile, certfile):
            ent = {'ev': 'wrapClient', 'key': keyfile, 'cert': certfile, 'pending': [bytes(x) for x in conn.buffer],
                   'out': None}
            REC.append(ent)
            try:
                orig_cwrap(conn, keyfile, certfile)
            except BaseException as e:
                ent['out'] = _exc_class(e)
                raise
            ent['out'] = 'ok'
        self._set(TcpClientConnection, 'wrap', cwrap)

        orig_queue = TcpConnection.queue

        def queue(conn, mv):
            REC.append({'ev': 'queue', 'to': conn.tag, 'data': bytes(mv)})
            return orig_queue(conn, mv)
        self._set(TcpConnection, 'queue', queue)

        orig_orc = PS.HttpProxyPlugin.on_request_complete

        def on_request_complete(plugin):
            try:
                r = orig_orc(plugin)
            except BaseException as e:
                REC.append({'ev': 'result', 'val': 'raised ' + _exc_class(e)})
                raise
            REC.append({'ev': 'result', 'val': 'ssl' if isinstance(r, ssl.SSLSocket) else repr(bool(r))})
            return r
        self._set(PS.HttpProxyPlugin, 'on_request_complete', on_request_complete)
        return self

    def __exit__(self, *exc):
        for obj, name, old in reversed(self.saved):
            if old is _MISSING:
                delattr(obj, name)
            else:
                setattr(obj, name, old)
        return False


_MISSING = object()


# --------------------------------------------------------------------------
# one case
# --------------------------------------------------------------------------

def L(s):
    return s.encode('latin-1')


def connect_bytes(case):
    host, port = case['host'], case['port']
    hh = case.get('hosthdr')
    target = '%s:%d' % (host, port)
    lines = ['CONNECT %s HTTP/1.1' % target, 'Host: %s' % (hh if hh is not None else target)]
    return L('\r\n'.join(lines) + '\r\n\r\n')


def inner_request(case):
    r = case['req']
    body = L(r.get('b', ''))
    lines = ['%s %s HTTP/1.1' % (r['m'], r['path'])] + list(r['h'])
    if body:
        lines.append('Content-Length: %d' % len(body))
    return L('\r\n'.join(lines) + '\r\n\r\n') + body


def origin_response(case):
    body = bytes((7 * i + 1) & 0xff for i in range(case['resp']))
    return b'HTTP/1.1 200 OK\r\nContent-Length: %d\r\nX-Origin: yes\r\n\r\n' % len(body) + body


class World:
    def __init__(self, case):
        self.case = case
        self.p = pki()
        self.certdir = tempfile.mkdtemp(prefix='certs-', dir=self.p.dir)
        self.openssl_calls = 0
        self.origins = []
        self.flags = None

    def make_flags(self):
        from proxy.common.flag import FlagParser
        c = self.case
        args = ['--hostname', '127.0.0.1', '--ca-file', self.p.ca_cert]
        if c['intercept']:
            args += ['--ca-key-file', self.p.ca_key, '--ca-cert-file', self.p.ca_cert,
                     '--ca-signing-key-file', self.p.signing_key]
        args += ['--ca-cert-dir', self.certdir]
        if c['insecure']:
            args += ['--insecure-tls-interception']
        classes = [plugin_class(i, a) for i, a in enumerate(c['plugins'])]
        self.flags = FlagParser.initialize(args, threadless=True, plugins=classes)
        logging.disable(logging.CRITICAL)

    def connect(self, addr, source_address=None):
        REC.append({'ev': 'connect', 'host': addr[0], 'port': addr[1]})
        a, b = socket.socketpair()
        sit = self.case['sit']
        o = Origin(b, self.p.leaf(sit, self.case['host']), self.p.origin_key, origin_response(self.case),
                   extra_raw=bytes.fromhex(self.case.get('junk', '')))
        self.origins.append(o)
        o.start()
        return a

    def close(self):
        shutil.rmtree(self.certdir, ignore_errors=True)


def run_connect(w, case):
    """one CONNECT through a fresh real handler; returns the observation dict"""
    import asyncio
    from proxy.http.handler import HttpProtocolHandler
    from proxy.http.connection import HttpClientConnection
    del REC[:]
    loop = asyncio.new_event_loop()
    c_peer, c_proxy = socket.socketpair()
    n_before = len(w.origins)
    calls_before = w.openssl_calls
    handler = HttpProtocolHandler(HttpClientConnection(c_proxy, ('127.0.0.1', 50000)), flags=w.flags)
    handler.initialize()
    cl = Client(c_peer, connect_bytes(case), case['host'], w.p.ca_cert, inner_request(case), case.get('cuts', []))
    cl.start()
    sel = selectors.DefaultSelector()
    deadline = time.time() + 25
    ended = None
    idle = 0
    snapshot = None
    minus_one = False
    try:
        while time.time() < deadline:
            ev = loop.run_until_complete(handler.get_events())
            if -1 in ev:
                # Threadless._update_work_events never registers descriptor -1 (`elif fileno != -1`)
                minus_one = True
                del ev[-1]
            for fd, mask in ev.items():
                sel.register(fd, mask)
            ready = sel.select(timeout=0.02)
            for fd in ev:
                sel.unregister(fd)
            R = [k.fd for k, m in ready if m & selectors.EVENT_READ]
            W = [k.fd for k, m in ready if m & selectors.EVENT_WRITE]
            try:
                td = loop.run_until_complete(handler.handle_events(R, W))
            except Exception as e:      # noqa: BLE001 — what escapes handle_events is an observation
                ended = 'raised ' + _exc_class(e)
                break
            if snapshot is None and any(e.get('ev') == 'result' for e in REC):
                snapshot = list(REC)
            if td:
                ended = 'teardown'
                break
            peers_done = not cl.is_alive() and all(not o.is_alive() for o in w.origins[n_before:])
            idle = idle + 1 if (peers_done and not ready) else 0
            if idle >= 3:
                ended = 'idle'
                break
        else:
            ended = 'timeout'
    finally:
        sel.close()
    if snapshot is None:
        snapshot = list(REC)
    plugin = handler.plugin
    state = {
        'clientTls': isinstance(handler.work.connection, ssl.SSLSocket),
        'upTls': bool(plugin and plugin.upstream and isinstance(plugin.upstream._conn, ssl.SSLSocket)),
        'mustFlush': bool(handler.must_flush_before_shutdown),
        'upFdMinusOne': minus_one,
        'intercepting': bool(plugin._tls_intercept_enabled) if plugin else None,
    }
    try:
        handler.shutdown()
    except Exception as e:      # noqa: BLE001
        state['shutdownRaised'] = _exc_class(e)
    loop.close()
    cl.join(IO_TIMEOUT + 2)
    for o in w.origins[n_before:]:
        o.join(IO_TIMEOUT + 2)
    hung = cl.is_alive() or any(o.is_alive() for o in w.origins[n_before:])
    o = w.origins[n_before] if len(w.origins) > n_before else None
    return {
        'rec': snapshot, 'ended': ended, 'state': state, 'hung': hung,
        'openssl_calls': w.openssl_calls - calls_before,
        'client': {'ack': cl.ack, 'handshake': cl.handshake, 'cert': cl.peer_cert, 'der': cl.peer_der,
                   'response': cl.response, 'plain': cl.plain_after_ack, 'error': cl.error},
        'origin': None if o is None else {'handshake': o.handshake, 'sni': o.sni, 'received': o.received,
                                          'error': o.error},
    }


_OBS_CACHE = {}


def observe(case):
    """run the whole case (cold CONNECT, then `warm` more CONNECTs to the same host with the cache kept)"""
    key = json.dumps(case, sort_keys=True)
    if key in _OBS_CACHE:
        return _OBS_CACHE[key]
    w = World(case)
    out = []
    try:
        w.make_flags()
        with Patches(w):
            for _ in range(1 + case.get('warm', 0)):
                out.append(run_connect(w, case))
    finally:
        w.close()
    if len(_OBS_CACHE) > 512:
        _OBS_CACHE.clear()
    _OBS_CACHE[key] = out
    return out
