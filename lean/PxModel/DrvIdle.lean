import PxModel.Idle
namespace Px.Idle

def parseEv1 (tok : String) : Option Ev :=
  match tok.splitOn "," with
  | ["r", t, k] => do some (.clientRead (← t.toInt?) (← k.toNat?))
  | ["e", t] => do some (.clientReadEnd (← t.toInt?))
  | ["w", t, f] => do some (.clientWrite (← t.toInt?) (f == "1"))
  | ["u", t, k] => do some (.upstream (← t.toInt?) (← k.toNat?))
  | ["i", t] => do some (.loopIter (← t.toInt?))
  | _ => none

/-- a leading `~` marks an event whose observation the harness cannot take
    (first half of a combined readable+writable `handle_events` call, the
    threaded loop's very first check) -/
def parseEv (tok : String) : Option (Bool × Ev) :=
  if tok.startsWith "~" then (parseEv1 (tok.drop 1).toString).map (fun e => (true, e))
  else (parseEv1 tok).map (fun e => (false, e))

def statusStr : Status → String
  | .open => "o"
  | .reaped t => s!"R{t}"
  | .torn t => s!"T{t}"

/-- observation after one event handled at the event's own time -/
def obs (cfg : Cfg) (s : St) (e : Ev) : String :=
  match s.status with
  | .open =>
    s!"{s.lastActivity}:{s.numBuffer}:{s.reaperRuns}:{if isInactive cfg s e.time then 1 else 0}:{if s.readsTorn then "l" else "o"}"
  | .reaped t => s!"R{t}"
  | .torn t => s!"T{t}"

def traceOut (cfg : Cfg) : St → List (Bool × Ev) → List String
  | _, [] => []
  | s, (silent, e) :: r =>
    let s' := step cfg s e
    if silent then traceOut cfg s' r else obs cfg s' e :: traceOut cfg s' r

def drvTrace (cfg : Cfg) (start : String) (evs : List String) : String :=
  match start.toInt?, evs.mapM parseEv with
  | some t0, some tr => "ok " ++ "|".intercalate (traceOut cfg (init t0) tr)
  | _, _ => "bad-op"

def natsStr (l : List Nat) : String := ",".intercalate (l.map toString)

/-- `idle trace <threaded> <timeout> <sel> <wait> <cleanup> <start> <ev>…`   (explicit cadence constants)
    `idle itrace <threaded> <timeout> <start> <ev>…`                        (generated constants)
    `idle cadence <sel> <wait> <cleanup> <n>` / `idle icadence <n>` : reaper iterations among the first `n`
    `idle iperiod` : iterations between reaper runs for the generated constants -/
def drv (args : List String) : String :=
  match args with
  | "trace" :: th :: to :: sel :: wait :: cl :: start :: evs =>
    match to.toInt?, sel.toNat?, wait.toNat?, cl.toNat? with
    | some to, some sel, some wait, some cl =>
      drvTrace { timeout := to, threaded := th == "1", sel := sel, wait := wait, cleanup := cl } start evs
    | _, _, _, _ => "bad-op"
  | "itrace" :: th :: to :: start :: evs =>
    match to.toInt? with
    | some to => drvTrace (implCfg to (th == "1")) start evs
    | none => "bad-op"
  | ["cadence", sel, wait, cl, n] =>
    match sel.toNat?, wait.toNat?, cl.toNat?, n.toNat? with
    | some sel, some wait, some cl, some n =>
      let cfg : Cfg := { timeout := 0, threaded := false, sel := sel, wait := wait, cleanup := cl }
      s!"ok runs={natsStr (reaperIters cfg n 0 0)}"
    | _, _, _, _ => "bad-op"
  | ["icadence", n] =>
    match n.toNat? with
    | some n => s!"ok runs={natsStr (reaperIters (implCfg 0 false) n 0 0)}"
    | none => "bad-op"
  | ["iperiod"] => s!"ok period={period (implCfg 0 false)}"
  | _ => "bad-op"

end Px.Idle
