import PxModel.Persist
import PxModel.DrvRelay
import PxModel.DrvReverse
/-
  Driver glue for the persistent-connection models (C04), first token `persist`.

    persist fwd <maxSend> <connectOk 0|1> <disableCSV|-> <tick>…
        <tick>  <m|r><cR><cW><uR><uW>:<cRecv>:<cSend>:<uRecv>:<uSend>     (tokens of `relay run`, no <app>)
    persist web <routes> <matchtable> <seg>…
        <routes>      `-` or `<pat>.<plugin>,…`  (routes[HTTP] in dict order)
        <matchtable>  `-` or `<pathhex>=<bits>;…`  bits indexed by pattern id
    persist rev <rewrite 0|1> <table> <matchtable> <ev>…
        <table>  as for `rev run`;  <ev>  c<hex> | f | u<i>.<hex>
-/
namespace Px.Persist
open Px Px.Parser

def bufOptStr : Option Bytes → String
  | none => "None"
  | some x => Relay.digest x

def pipeStr : Option Parser → String
  | none => "None"
  | some p => s!"{p.state.num}/{bufOptStr p.buffer}/{Relay.b01 (isUpgrade p)}"

def phaseStr : Phase → String
  | .first p => s!"first:{p.state.num}/{bufOptStr p.buffer}"
  | .http req pipe => s!"http:rb={bufOptStr req.buffer}:{pipeStr pipe}"
  | .tunnel => "tunnel"
  | .done => "done"

def addrStr (a : Connect.Addr) : String := hex a.host ++ ":" ++ toString a.port

def parseTick (s : String) : Option (Bool × Relay.Tick) := Relay.parseTick (s ++ ":a/None/None/0")

def fObs (cfg : Forward.Cfg) (ok : Bool) (s : FSt) : List (Bool × Relay.Tick) → List String × FSt
  | [] => ([], s)
  | (m, t) :: ts =>
    match fstepWith m cfg ok s t with
    | (s1, .cont) =>
      let r := fObs cfg ok s1 ts
      (s!"ret=c {Relay.stStr s1.rs} ph={if s1.rs.mustFlush then "-" else phaseStr s1.phase}" :: r.1, r.2)
    | (s1, r) => ([s!"ret={Relay.retStr r} {Relay.stStr s1.rs} ph=-"], s1)

def parseMatch (s : String) : Option (Bytes → Nat → Bool) :=
  if s == "-" then some (fun _ _ => false)
  else do
    let rows ← (s.splitOn ";").mapM (fun row => match row.splitOn "=" with
      | [p, bits] => do
        let p ← unhex p
        some (p, bits.toList.map (· == '1'))
      | _ => none)
    some (fun path i => match rows.find? (fun r => r.1 == path) with
      | some r => r.2.getD i false
      | none => false)

def parseRoutes (s : String) : Option (List (Nat × Nat)) :=
  if s == "-" then some []
  else (s.splitOn ",").mapM (fun r => match r.splitOn "." with
    | [a, c] => do let a ← a.toNat?; let c ← c.toNat?; some (a, c)
    | _ => none)

/-- the recording route plugin of harness/c04.py: what its `handle_request` queues -/
def recResp (k : Nat) (p : Parser) : Bytes :=
  let payload := b "route" ++ natToDec k ++ [124] ++ p.method.getD [] ++ [124] ++ p.path.getD [] ++ [124] ++ p.body.getD []
  b "HTTP/1.1 200 OK\r\nContent-Length: " ++ natToDec payload.length ++ CRLF ++ CRLF ++ payload

def wphaseStr : WPhase → String
  | .first => "first" | .routed => "routed" | .closing => "closing" | .raised => "raised" | .other => "other"

def natOptStr : Option Nat → String
  | none => "None"
  | some n => toString n

def callStr (c : Nat × Parser) : String := s!"{c.1}:{hexOpt c.2.method}:{hexOpt c.2.path}:{hexOpt c.2.body}"

/-- the pipeline parser is observable while the connection is being read (an exception leaves the
    Python object half-updated, and the connection is closed then) -/
def pipeObs (ph : WPhase) (p : Option Parser) : String :=
  if ph == .first || ph == .routed then pipeStr p else "-"

def wStr (st : WSt × Option Parser) : String :=
  let s := st.1
  if s.phase == .other then "ph=other" else
  s!"ph={wphaseStr s.phase} rq={s.request.state.num}/{bufOptStr s.request.buffer} route={natOptStr s.route} " ++
  s!"pipe={pipeObs s.phase st.2} calls=[{",".intercalate (s.calls.map callStr)}] out={Relay.bufStr s.out}"

def parseREv (s : String) : Option REv :=
  match s.toList with
  | ['f'] => some .uflush
  | 'c' :: h => (unhex (String.ofList h)).map .cseg
  | 'u' :: rest =>
    match (String.ofList rest).splitOn "." with
    | [i, h] => do let i ← i.toNat?; let h ← unhex h; some (.useg i h)
    | _ => none
  | _ => none

def rStr (st : RSt × Option Parser) : String :=
  let s := st.1
  let cs := ",".intercalate (s.rv.connects.map Px.Reverse.addrStr)
  if s.phase == .other then "ph=other" else
  s!"ph={wphaseStr s.phase} rq={s.request.state.num}/{bufOptStr s.request.buffer} pipe={pipeObs s.phase st.2} " ++
  s!"handled={s.handled} connects=[{cs}] cur={natOptStr s.current} up={Px.Reverse.connStr s.rv.upstream} " ++
  s!"wrote={Px.Reverse.hexList s.wrote} client={Relay.bufStr s.rv.client.buffer}"

def drv (args : List String) : String :=
  match args with
  | "fwd" :: maxSend :: ok :: disable :: ticks =>
    let dis : Option (List Bytes) := if disable == "-" then some [] else (disable.splitOn ",").mapM unhex
    match maxSend.toNat?, dis, ticks.mapM parseTick with
    | some m, some dis, some ts =>
      let cfg : Forward.Cfg := { disable := dis }
      let s0 := finit m
      let r := fObs cfg (ok == "1") s0 ts
      let cs := ",".intercalate (r.2.connects.map addrStr)
      " | ".intercalate (s!"init {Relay.stStr s0.rs} ph={phaseStr s0.phase}" :: r.1) ++ s!" || connects=[{cs}]"
    | _, _, _ => "bad-op"
  | "web" :: routes :: mt :: segs =>
    match parseRoutes routes, parseMatch mt, unhexAll segs with
    | some rs, some m, some segs =>
      let cfg : WCfg := { routes := rs, matchPat := m, respond := recResp }
      wStr (wrun cfg ({}, none) segs)
    | _, _, _ => "bad-op"
  | "rev" :: rw :: table :: mt :: evs =>
    match Px.Reverse.parseTable table, parseMatch mt, evs.mapM parseREv with
    | some t, some m, some evs =>
      let cfg : RCfg := { rv := { rewriteHost := rw == "1" }, table := t, matchPat := m }
      rStr (rrun cfg ({}, none) evs)
    | _, _, _ => "bad-op"
  | _ => "bad-op"

end Px.Persist
