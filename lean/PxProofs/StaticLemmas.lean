import PxModel.StaticPath
/-! Helper lemmas for C13 (static file server confinement): `split`/`join`,
    the `normpath` stack machine, the prefix test. -/
namespace Px.Static

/-- a path component that is a name: non-empty and without a separator -/
def Name (c : Str) : Prop := c ≠ [] ∧ '/' ∉ c

/-- a component a normalised absolute path may contain: a name other than `.` and `..` -/
def Clean (c : Str) : Prop := Name c ∧ c ≠ DOT ∧ c ≠ DOTDOT

def AllClean (cs : List Str) : Prop := ∀ c ∈ cs, Clean c

instance (c : Str) : Decidable (Clean c) := by unfold Clean Name; infer_instance
instance (cs : List Str) : Decidable (AllClean cs) := by unfold AllClean; infer_instance

/-! ### split / join -/

theorem splitSep_ne_nil (s : Str) : splitSep s ≠ [] := by
  induction s with
  | nil => simp [splitSep]
  | cons c cs ih =>
    unfold splitSep
    split
    · simp
    · split <;> simp

theorem splitSep_noSlash (s : Str) : ∀ c ∈ splitSep s, '/' ∉ c := by
  induction s with
  | nil => simp [splitSep]
  | cons c cs ih =>
    unfold splitSep
    split
    · intro x hx
      simp at hx
      rcases hx with rfl | hx
      · simp
      · exact ih x hx
    · rename_i hc
      split
      · rename_i h; exact absurd h (splitSep_ne_nil cs)
      · rename_i p ps h
        rw [h] at ih
        intro x hx
        simp at hx
        rcases hx with rfl | hx
        · have := ih p (by simp)
          simp only [List.mem_cons, not_or]
          exact ⟨fun e => hc e.symm, this⟩
        · exact ih x (by simp [hx])

theorem splitSep_append (a b : Str) : splitSep (a ++ '/' :: b) = splitSep a ++ splitSep b := by
  induction a with
  | nil => simp [splitSep]
  | cons c cs ih =>
    simp only [List.cons_append]
    by_cases hc : c = '/'
    · simp [splitSep, hc, ih]
    · rw [splitSep, if_neg hc, ih]
      conv => rhs; rw [splitSep, if_neg hc]
      cases h : splitSep cs with
      | nil => exact absurd h (splitSep_ne_nil cs)
      | cons p ps => simp

theorem splitSep_of_noSlash (c : Str) (h : '/' ∉ c) : splitSep c = [c] := by
  induction c with
  | nil => simp [splitSep]
  | cons x xs ih =>
    simp only [List.mem_cons, not_or] at h
    rw [splitSep, if_neg (fun e => h.1 e.symm), ih h.2]

theorem splitSep_joinSep (cs : List Str) (hne : cs ≠ []) (h : ∀ c ∈ cs, '/' ∉ c) :
    splitSep (joinSep cs) = cs := by
  induction cs with
  | nil => exact absurd rfl hne
  | cons x rest ih =>
    cases rest with
    | nil => simp [joinSep, splitSep_of_noSlash x (h x (by simp))]
    | cons y rest =>
      rw [joinSep, splitSep_append, splitSep_of_noSlash x (h x (by simp)),
        ih (by simp) (fun c hc => h c (by simp [hc]))]
      simp

theorem joinSep_append (a b : List Str) (ha : a ≠ []) (hb : b ≠ []) :
    joinSep (a ++ b) = joinSep a ++ '/' :: joinSep b := by
  induction a with
  | nil => exact absurd rfl ha
  | cons x rest ih =>
    cases rest with
    | nil =>
      cases b with
      | nil => exact absurd rfl hb
      | cons y b' => simp [joinSep]
    | cons y rest =>
      have := ih (by simp)
      simp only [List.cons_append] at this ⊢
      rw [joinSep, this, joinSep]
      simp

theorem joinSep_head_ne_slash (cs : List Str) (hne : cs ≠ []) (h : AllClean cs) :
    ∃ c tl, joinSep cs = c :: tl ∧ c ≠ '/' := by
  cases cs with
  | nil => exact absurd rfl hne
  | cons x rest =>
    have hx := h x (by simp)
    obtain ⟨⟨hne, hns⟩, _, _⟩ := hx
    cases x with
    | nil => exact absurd rfl hne
    | cons c tl =>
      simp only [List.mem_cons, not_or] at hns
      cases rest with
      | nil => exact ⟨c, tl, by simp [joinSep], fun e => hns.1 e.symm⟩
      | cons y rest => exact ⟨c, tl ++ '/' :: joinSep (y :: rest), by simp [joinSep], fun e => hns.1 e.symm⟩

theorem joinSep_getLast_ne_slash (cs : List Str) (hne : cs ≠ []) (h : AllClean cs) :
    ∃ c, (joinSep cs).getLast? = some c ∧ c ≠ '/' := by
  induction cs with
  | nil => exact absurd rfl hne
  | cons x rest ih =>
    cases rest with
    | nil =>
      obtain ⟨⟨hne', hns⟩, _, _⟩ := h x (by simp)
      simp only [joinSep]
      cases hl : x.getLast? with
      | none => simp [List.getLast?_eq_none_iff] at hl; exact absurd hl hne'
      | some c =>
        refine ⟨c, rfl, ?_⟩
        intro e; subst e
        exact hns (List.mem_of_getLast? hl)
    | cons y rest =>
      obtain ⟨c, hc, hcs⟩ := ih (by simp) (fun c hc => h c (by simp [hc]))
      refine ⟨c, ?_, hcs⟩
      rw [joinSep]
      have hne2 : joinSep (y :: rest) ≠ [] := by
        intro e; rw [e] at hc; simp at hc
      rw [show x ++ '/' :: joinSep (y :: rest) = (x ++ ['/']) ++ joinSep (y :: rest) by simp]
      rw [List.getLast?_append, hc]; rfl

/-! ### the spec-side helpers agree with the code-side ones -/

theorem segmentsAux_eq (s cur : Str) :
    segmentsAux s cur = match splitSep s with
      | [] => []
      | p :: ps => (cur.reverse ++ p) :: ps := by
  induction s generalizing cur with
  | nil => simp [segmentsAux, splitSep]
  | cons c cs ih =>
    by_cases hc : c = '/'
    · rw [segmentsAux, if_pos hc, ih, splitSep, if_pos hc]
      cases h : splitSep cs with
      | nil => exact absurd h (splitSep_ne_nil cs)
      | cons p ps => simp
    · rw [segmentsAux, if_neg hc, ih, splitSep, if_neg hc]
      cases h : splitSep cs with
      | nil => exact absurd h (splitSep_ne_nil cs)
      | cons p ps => simp

theorem segments_eq (s : Str) : segments s = splitSep s := by
  rw [segments, segmentsAux_eq]
  cases h : splitSep s with
  | nil => exact absurd h (splitSep_ne_nil s)
  | cons p ps => simp

theorem beforeQuery_eq (p : Str) : beforeQuery p = queryStrip p := by
  induction p with
  | nil => rfl
  | cons c cs ih =>
    by_cases hc : c = '?'
    · simp [beforeQuery, queryStrip, hc]
    · simp only [beforeQuery, if_neg hc, ih, queryStrip]
      simp [List.takeWhile, hc]

/-! ### the normpath loop on absolute paths -/

theorem head?_ne_dotdot (st : List Str) (h : AllClean st) : st.head? ≠ some DOTDOT := by
  cases st with
  | nil => simp
  | cons x xs =>
    simp only [List.head?_cons, ne_eq, Option.some.injEq]
    exact (h x (by simp)).2.2

theorem step_clean (abs : Bool) (st : List Str) (c : Str) (hc : Clean c) : step abs st c = c :: st := by
  obtain ⟨⟨hne, _⟩, hd, hdd⟩ := hc
  simp [step, hne, hd, hdd]

theorem fold_push (abs : Bool) (rc st : List Str) (h : AllClean rc) :
    rc.foldl (step abs) st = rc.reverse ++ st := by
  induction rc generalizing st with
  | nil => simp
  | cons x xs ih =>
    rw [List.foldl_cons, step_clean abs st x (h x (by simp)), ih _ (fun c hc => h c (by simp [hc]))]
    simp

theorem allClean_dropLast (out : List Str) (h : AllClean out) : AllClean out.dropLast :=
  fun c hc => h c (List.dropLast_subset out hc)

theorem allClean_append (a b : List Str) (ha : AllClean a) (hb : AllClean b) : AllClean (a ++ b) := by
  intro c hc
  rcases List.mem_append.mp hc with h | h
  · exact ha c h
  · exact hb c h

/-- on an absolute path (`abs = true`) and a stack without `..`, normpath's loop
    is the plain stack machine `resolveSegs` -/
theorem fold_eq_resolve (segs : List Str) (hs : ∀ c ∈ segs, '/' ∉ c) (out : List Str) (hout : AllClean out) :
    segs.foldl (step true) out.reverse = (resolveSegs out segs).reverse ∧ AllClean (resolveSegs out segs) := by
  induction segs generalizing out with
  | nil => exact ⟨rfl, hout⟩
  | cons s rest ih =>
    have hrest : ∀ c ∈ rest, '/' ∉ c := fun c hc => hs c (by simp [hc])
    have hsl : '/' ∉ s := hs s (by simp)
    rw [List.foldl_cons, resolveSegs]
    by_cases h1 : s = [] ∨ s = ['.']
    · rw [if_pos h1]
      have : step true out.reverse s = out.reverse := by
        unfold step; rw [if_pos (by simpa [DOT] using h1)]
      rw [this]; exact ih hrest out hout
    · rw [if_neg h1]
      by_cases h2 : s = ['.', '.']
      · rw [if_pos h2]
        have : step true out.reverse s = out.dropLast.reverse := by
          unfold step
          rw [if_neg (by simpa [DOT] using h1)]
          have hh : out.reverse.head? ≠ some DOTDOT :=
            head?_ne_dotdot _ (fun c hc => hout c (by simpa using hc))
          rw [if_neg (by
            intro hor
            rcases hor with h | h | h
            · exact h (by simp [h2, DOTDOT])
            · exact absurd h.1 (by simp)
            · exact hh h), List.tail_reverse]
        rw [this]; exact ih hrest _ (allClean_dropLast out hout)
      · rw [if_neg h2]
        have hc : Clean s := by
          refine ⟨⟨fun e => h1 (Or.inl e), hsl⟩, fun e => h1 (Or.inr e), fun e => h2 e⟩
        have : step true out.reverse s = (out ++ [s]).reverse := by
          rw [step_clean true _ s hc]; simp
        rw [this]
        exact ih hrest _ (allClean_append _ _ hout (by intro c hc'; simp at hc'; subst hc'; exact hc))

/-! ### splitroot / normpath on absolute paths -/

theorem splitroot_one (c : Char) (tl : Str) (hc : c ≠ '/') : splitroot ('/' :: c :: tl) = (['/'], c :: tl) := by
  simp [splitroot, hc]

theorem splitroot_two (c : Char) (tl : Str) (hc : c ≠ '/') :
    splitroot ('/' :: '/' :: c :: tl) = (['/', '/'], c :: tl) := by
  simp [splitroot, hc]

theorem splitroot_abs (p : Str) :
    ∃ ini rest, splitroot ('/' :: p) = (ini, rest) ∧ (ini = ['/'] ∨ ini = ['/', '/']) := by
  unfold splitroot
  rw [if_neg (by simp)]
  split
  · exact ⟨_, _, rfl, Or.inl rfl⟩
  · rename_i h
    simp only [not_or, Decidable.not_not] at h
    refine ⟨_, _, rfl, Or.inr ?_⟩
    cases p with
    | nil => simp at h
    | cons c tl =>
      have : c = '/' := by simpa using h.1
      simp [this]

/-- shape of `normpath` on an absolute path: one or two slashes, then clean
    components joined by single slashes -/
theorem normpath_abs (p : Str) :
    ∃ ini st, (ini = ['/'] ∨ ini = ['/', '/']) ∧ AllClean st ∧ normpath ('/' :: p) = ini ++ joinSep st := by
  obtain ⟨ini, rest, hsr, hini⟩ := splitroot_abs p
  have hf := fold_eq_resolve (splitSep rest) (splitSep_noSlash rest) [] (by intro c hc; simp at hc)
  refine ⟨ini, resolveSegs [] (splitSep rest), hini, hf.2, ?_⟩
  unfold normpath
  rw [if_neg (by simp), hsr]
  have hne : ini.isEmpty = false := by rcases hini with h | h <;> simp [h]
  simp only [hne, Bool.not_false]
  have hf1 := hf.1
  simp only [List.reverse_nil] at hf1
  rw [hf1, List.reverse_reverse, if_neg]
  rcases hini with h | h <;> simp [h]

/-- `normpath(root + '/' + q)` for a normalised absolute root with at least one component -/
theorem normpath_root_join (ini : Str) (hini : ini = ['/'] ∨ ini = ['/', '/'])
    (rc : List Str) (hne : rc ≠ []) (hrc : AllClean rc) (q : Str) :
    normpath (ini ++ joinSep rc ++ '/' :: q) = ini ++ joinSep (resolveSegs rc (splitSep q)) ∧
      AllClean (resolveSegs rc (splitSep q)) := by
  obtain ⟨c, tl, hj, hc⟩ := joinSep_head_ne_slash rc hne hrc
  have hsplit : splitSep (joinSep rc ++ '/' :: q) = rc ++ splitSep q := by
    rw [splitSep_append, splitSep_joinSep rc hne (fun x hx => (hrc x hx).1.2)]
  have hf := fold_eq_resolve (splitSep q) (splitSep_noSlash q) rc hrc
  have hfold : (splitSep (joinSep rc ++ '/' :: q)).foldl (step true) [] =
      (resolveSegs rc (splitSep q)).reverse := by
    rw [hsplit, List.foldl_append, fold_push true rc [] hrc, List.append_nil, hf.1]
  refine ⟨?_, hf.2⟩
  have hsr : splitroot (ini ++ joinSep rc ++ '/' :: q) = (ini, joinSep rc ++ '/' :: q) := by
    rcases hini with h | h
    · subst h; rw [hj]; simpa using splitroot_one c (tl ++ '/' :: q) hc
    · subst h; rw [hj]; simpa using splitroot_two c (tl ++ '/' :: q) hc
  have hne' : ini.isEmpty = false := by rcases hini with h | h <;> simp [h]
  unfold normpath
  rw [if_neg (by rcases hini with h | h <;> simp [h]), hsr]
  simp only [hne', Bool.not_false]
  rw [hfold, List.reverse_reverse, if_neg]
  rcases hini with h | h <;> simp [h]

/-! ### the prefix test -/

theorem rstripSep_eq_self (s : Str) (c : Char) (h : s.getLast? = some c) (hc : c ≠ '/') : rstripSep s = s := by
  unfold rstripSep
  have h2 : s.reverse.head? = some c := by rw [List.head?_reverse]; exact h
  cases hr : s.reverse with
  | nil => rw [hr] at h2; simp at h2
  | cons x xs =>
    rw [hr] at h2
    simp only [List.head?_cons, Option.some.injEq] at h2
    subst h2
    rw [List.dropWhile_cons_of_neg (by simpa using hc), ← hr, List.reverse_reverse]

/-- strictly below `rc`: `rc` is a proper prefix of the component list -/
def Inside (rc comps : List Str) : Prop := rc <+: comps ∧ rc.length < comps.length

instance (rc comps : List Str) : Decidable (Inside rc comps) := by unfold Inside; infer_instance

theorem inside_iff (rc comps : List Str) : Inside rc comps ↔ ∃ cs, cs ≠ [] ∧ comps = rc ++ cs := by
  constructor
  · rintro ⟨⟨cs, rfl⟩, hl⟩
    refine ⟨cs, ?_, rfl⟩
    intro e; subst e; simp at hl
  · rintro ⟨cs, hne, rfl⟩
    refine ⟨List.prefix_append _ _, ?_⟩
    cases cs with
    | nil => exact absurd rfl hne
    | cons x xs => simp

/-- the code's `startswith(root.rstrip('/') + '/')` on normalised absolute
    strings is exactly "the components extend the root's by at least one" -/
theorem allowed_iff (ini : Str) (rc st : List Str) (hne : rc ≠ []) (hrc : AllClean rc) (hst : AllClean st) :
    (rstripSep (ini ++ joinSep rc) ++ ['/']).isPrefixOf (ini ++ joinSep st) = true ↔ Inside rc st := by
  obtain ⟨c, hl, hc⟩ := joinSep_getLast_ne_slash rc hne hrc
  have hrs : rstripSep (ini ++ joinSep rc) = ini ++ joinSep rc :=
    rstripSep_eq_self _ c (by rw [List.getLast?_append, hl]; rfl) hc
  rw [hrs, List.isPrefixOf_iff_prefix, inside_iff]
  constructor
  · rintro ⟨r, hr⟩
    have hr' : joinSep rc ++ '/' :: r = joinSep st := by
      have : ini ++ (joinSep rc ++ '/' :: r) = ini ++ joinSep st := by simpa using hr
      exact List.append_cancel_left this
    have hstne : st ≠ [] := by
      intro e; subst e; simp [joinSep] at hr'
    have := congrArg splitSep hr'
    rw [splitSep_append, splitSep_joinSep rc hne (fun x hx => (hrc x hx).1.2),
      splitSep_joinSep st hstne (fun x hx => (hst x hx).1.2)] at this
    exact ⟨splitSep r, splitSep_ne_nil r, this.symm⟩
  · rintro ⟨cs, hcs, rfl⟩
    refine ⟨joinSep cs, ?_⟩
    rw [joinSep_append rc cs hne hcs]
    simp

/-! ### components of a normalised absolute string -/

theorem filter_nonempty_clean (st : List Str) (h : AllClean st) :
    st.filter (fun c => !c.isEmpty) = st := by
  rw [List.filter_eq_self]
  intro c hc
  have := (h c hc).1.1
  cases c with
  | nil => exact absurd rfl this
  | cons x xs => rfl

theorem pathComps_form (ini : Str) (hini : ini = ['/'] ∨ ini = ['/', '/']) (st : List Str) (hst : AllClean st) :
    pathComps (ini ++ joinSep st) = st ∧ lead (ini ++ joinSep st) = ini := by
  by_cases hne : st = []
  · subst hne
    rcases hini with h | h <;> subst h <;> simp [pathComps, lead, joinSep, splitSep]
  · obtain ⟨c, tl, hj, hc⟩ := joinSep_head_ne_slash st hne hst
    have hs := splitSep_joinSep st hne (fun x hx => (hst x hx).1.2)
    have hf := filter_nonempty_clean st hst
    rcases hini with h | h <;> subst h
    · constructor
      · have : ['/'] ++ joinSep st = [] ++ '/' :: joinSep st := by simp
        rw [pathComps, this, splitSep_append, hs]
        simpa [splitSep] using hf
      · rw [hj]; simp [lead, List.takeWhile, hc]
    · constructor
      · have : ['/', '/'] ++ joinSep st = [] ++ '/' :: ([] ++ '/' :: joinSep st) := by simp
        rw [pathComps, this, splitSep_append, splitSep_append, hs]
        simpa [splitSep] using hf
      · rw [hj]; simp [lead, List.takeWhile, hc]

/-- components of the normalised static root -/
def rootComps (dir : Str) : List Str := pathComps (normpath dir)

/-- guard of the C13 theorems: the configured directory is an absolute path
    (any spelling) and is not the file-system root -/
def ProperAbs (dir : Str) : Prop := dir.head? = some '/' ∧ rootComps dir ≠ []

instance (dir : Str) : Decidable (ProperAbs dir) := by unfold ProperAbs; infer_instance

theorem root_form (dir : Str) (h : ProperAbs dir) :
    ∃ ini, (ini = ['/'] ∨ ini = ['/', '/']) ∧ AllClean (rootComps dir) ∧
      normpath dir = ini ++ joinSep (rootComps dir) ∧ lead (normpath dir) = ini := by
  obtain ⟨habs, _⟩ := h
  cases dir with
  | nil => simp at habs
  | cons c p =>
    simp only [List.head?_cons, Option.some.injEq] at habs
    subst habs
    obtain ⟨ini, st, hini, hst, hn⟩ := normpath_abs p
    have hp := pathComps_form ini hini st hst
    refine ⟨ini, hini, ?_, ?_, ?_⟩
    · rw [rootComps, hn, hp.1]; exact hst
    · rw [rootComps, hn, hp.1]
    · rw [hn, hp.2]

/-- the whole decision of `_try_static_or_404` in terms of the specification's `resolve` -/
theorem decide_char (dir path : Str) (h : ProperAbs dir) :
    AllClean (resolve (rootComps dir) path) ∧
    targetOf dir path = lead (normpath dir) ++ joinSep (resolve (rootComps dir) path) ∧
    (allowed dir (targetOf dir path) = true ↔ Inside (rootComps dir) (resolve (rootComps dir) path)) := by
  obtain ⟨ini, hini, hrc, hroot, hlead⟩ := root_form dir h
  have hj := normpath_root_join ini hini (rootComps dir) h.2 hrc (queryStrip path)
  have hres : resolve (rootComps dir) path = resolveSegs (rootComps dir) (splitSep (queryStrip path)) := by
    rw [resolve, segments_eq, beforeQuery_eq]
  have ht : targetOf dir path = ini ++ joinSep (resolve (rootComps dir) path) := by
    rw [targetOf, rootOf, hroot, hres]; exact hj.1
  refine ⟨by rw [hres]; exact hj.2, by rw [hlead]; exact ht, ?_⟩
  rw [allowed, rootOf, ht]
  conv => lhs; rw [hroot]
  exact allowed_iff ini (rootComps dir) _ h.2 hrc (by rw [hres]; exact hj.2)

/-! ### further normpath facts -/

/-- `normpath` fixes every string of the normalised absolute shape -/
theorem normpath_clean (ini : Str) (hini : ini = ['/'] ∨ ini = ['/', '/']) (st : List Str) (hst : AllClean st) :
    normpath (ini ++ joinSep st) = ini ++ joinSep st := by
  by_cases hne : st = []
  · subst hne
    rcases hini with h | h <;> subst h <;>
      simp [normpath, splitroot, joinSep, splitSep, step, DOT]
  · obtain ⟨c, tl, hj, hc⟩ := joinSep_head_ne_slash st hne hst
    have hsr : splitroot (ini ++ joinSep st) = (ini, joinSep st) := by
      rcases hini with h | h
      · subst h; rw [hj]; simpa using splitroot_one c tl hc
      · subst h; rw [hj]; simpa using splitroot_two c tl hc
    have hne' : ini.isEmpty = false := by rcases hini with h | h <;> simp [h]
    unfold normpath
    rw [if_neg (by rcases hini with h | h <;> simp [h]), hsr]
    simp only [hne', Bool.not_false]
    rw [splitSep_joinSep st hne (fun x hx => (hst x hx).1.2), fold_push true st [] hst]
    simp only [List.append_nil, List.reverse_reverse]
    rw [if_neg]
    rcases hini with h | h <;> simp [h]

theorem queryStrip_append (p q : Str) (h : '?' ∉ p) : queryStrip (p ++ '?' :: q) = p := by
  induction p with
  | nil => simp [queryStrip]
  | cons c cs ih =>
    simp only [List.mem_cons, not_or] at h
    have hc : c ≠ '?' := fun e => h.1 e.symm
    have := ih h.2
    simp only [queryStrip] at this ⊢
    rw [List.cons_append, List.takeWhile_cons_of_pos (by simpa using hc), this]

theorem queryStrip_self (p : Str) (h : '?' ∉ p) : queryStrip p = p := by
  induction p with
  | nil => simp [queryStrip]
  | cons c cs ih =>
    simp only [List.mem_cons, not_or] at h
    have hc : c ≠ '?' := fun e => h.1 e.symm
    have := ih h.2
    simp only [queryStrip] at this ⊢
    rw [List.takeWhile_cons_of_pos (by simpa using hc), this]

/-! ### strict UTF-8 decoding -/

theorem isCont_iff (c : UInt8) : isCont c = true ↔ 128 ≤ c.toNat ∧ c.toNat ≤ 191 := by
  simp [isCont, UInt8.le_iff_toNat_le]

theorem toNat_ofNat_valid (n : Nat) (h : n < 0xD800 ∨ (0xE000 ≤ n ∧ n < 0x110000)) : (Char.ofNat n).toNat = n := by
  have hv : n.isValidChar := by
    unfold Nat.isValidChar
    rcases h with h | h
    · left; omega
    · right; omega
  simp [Char.ofNat, hv, Char.ofNatAux, Char.toNat]

/-- bytes that never occur in valid UTF-8: C0, C1 (lead bytes of overlong two-byte
    forms such as `c0 ae` = '.', `c0 af` = '/', `c0 80` = NUL) and F5..FF -/
theorem utf8Decode_forbidden (x : Bytes) (s : Str) (h : utf8Decode x = some s) :
    ∀ c ∈ x, c ≠ 0xC0 ∧ c ≠ 0xC1 ∧ c < 0xF5 := by
  fun_induction utf8Decode x generalizing s <;>
    simp_all [isCont_iff, UInt8.lt_iff_toNat_lt, UInt8.le_iff_toNat_le, ← UInt8.toNat_inj] <;> grind

/-- the characters below U+0080 of a decoded string are exactly the bytes below 0x80, in order -/
theorem utf8Decode_ascii (x : Bytes) (s : Str) (h : utf8Decode x = some s) :
    (s.filter (fun c => c.toNat < 128)).map Char.toNat = (x.filter (· < 0x80)).map UInt8.toNat := by
  fun_induction utf8Decode x generalizing s
  case case1 => simp_all
  case case2 a rest ha ih =>
    simp only [Option.map_eq_some_iff] at h
    obtain ⟨s', hs', rfl⟩ := h
    have := ih s' hs'
    have ha' : a.toNat < 128 := by simpa [UInt8.lt_iff_toNat_lt] using ha
    have hc : (Char.ofNat a.toNat).toNat = a.toNat := toNat_ofNat_valid _ (by omega)
    simp [hc, ha', ha, this]
  case case4 a h1 h2 h3 b1 r hc ih =>
    simp only [Option.map_eq_some_iff] at h
    obtain ⟨s', hs', rfl⟩ := h
    have := ih s' hs'
    simp only [isCont_iff] at hc
    simp only [UInt8.lt_iff_toNat_lt, UInt8.toNat_ofNat, Nat.not_lt] at h1 h2 h3
    have hn : (Char.ofNat ((a.toNat - 192) * 64 + lo6 b1)).toNat = (a.toNat - 192) * 64 + lo6 b1 :=
      toNat_ofNat_valid _ (by unfold lo6; omega)
    have ha : ¬ a < 128 := by simp [UInt8.lt_iff_toNat_lt]; omega
    have hb : ¬ b1 < 128 := by simp [UInt8.lt_iff_toNat_lt]; omega
    have hge : ¬ (a.toNat - 192) * 64 + lo6 b1 < 128 := by unfold lo6; omega
    simp [hn, ha, hb, hge, this]
  case case7 a h1 h2 h3 h4 b1 b2 r hc ih =>
    simp only [Option.map_eq_some_iff] at h
    obtain ⟨s', hs', rfl⟩ := h
    have := ih s' hs'
    simp only [Bool.and_eq_true, Bool.or_eq_true, isCont_iff, bne_iff_ne, ne_eq, decide_eq_true_eq,
      UInt8.le_iff_toNat_le, ← UInt8.toNat_inj, UInt8.toNat_ofNat] at hc
    simp only [UInt8.lt_iff_toNat_lt, UInt8.toNat_ofNat, Nat.not_lt] at h1 h2 h3 h4
    obtain ⟨⟨⟨hb1, hb2⟩, he0⟩, hed⟩ := hc
    have hn : (Char.ofNat ((a.toNat - 224) * 4096 + lo6 b1 * 64 + lo6 b2)).toNat =
        (a.toNat - 224) * 4096 + lo6 b1 * 64 + lo6 b2 :=
      toNat_ofNat_valid _ (by unfold lo6; omega)
    have ha : ¬ a < 128 := by simp [UInt8.lt_iff_toNat_lt]; omega
    have hb : ¬ b1 < 128 := by simp [UInt8.lt_iff_toNat_lt]; omega
    have hb' : ¬ b2 < 128 := by simp [UInt8.lt_iff_toNat_lt]; omega
    have hge : ¬ (a.toNat - 224) * 4096 + lo6 b1 * 64 + lo6 b2 < 128 := by unfold lo6; omega
    simp [hn, ha, hb, hb', hge, this]
  case case10 a h1 h2 h3 h4 h5 b1 b2 b3 r hc ih =>
    simp only [Option.map_eq_some_iff] at h
    obtain ⟨s', hs', rfl⟩ := h
    have := ih s' hs'
    simp only [Bool.and_eq_true, Bool.or_eq_true, isCont_iff, bne_iff_ne, ne_eq, decide_eq_true_eq,
      UInt8.le_iff_toNat_le, ← UInt8.toNat_inj, UInt8.toNat_ofNat] at hc
    simp only [UInt8.lt_iff_toNat_lt, UInt8.toNat_ofNat, Nat.not_lt] at h1 h2 h3 h4 h5
    obtain ⟨⟨⟨⟨hb1, hb2⟩, hb3⟩, hf0⟩, hf4⟩ := hc
    have hn : (Char.ofNat ((a.toNat - 240) * 262144 + lo6 b1 * 4096 + lo6 b2 * 64 + lo6 b3)).toNat =
        (a.toNat - 240) * 262144 + lo6 b1 * 4096 + lo6 b2 * 64 + lo6 b3 :=
      toNat_ofNat_valid _ (by unfold lo6; omega)
    have ha : ¬ a < 128 := by simp [UInt8.lt_iff_toNat_lt]; omega
    have hb : ¬ b1 < 128 := by simp [UInt8.lt_iff_toNat_lt]; omega
    have hb' : ¬ b2 < 128 := by simp [UInt8.lt_iff_toNat_lt]; omega
    have hb'' : ¬ b3 < 128 := by simp [UInt8.lt_iff_toNat_lt]; omega
    have hge : ¬ (a.toNat - 240) * 262144 + lo6 b1 * 4096 + lo6 b2 * 64 + lo6 b3 < 128 := by unfold lo6; omega
    simp [hn, ha, hb, hb', hb'', hge, this]
  all_goals simp_all

end Px.Static
