import PxProofs.PersistRefine
import PxProofs.ForwardEmit
/-!
# C04 helper lemmas, part 3: a stream of requests through the follow-up loop, any packing

`oneReq x = some P`: fed to a fresh request parser in one piece, `x` is exactly
one request — complete, nothing left over.  By C03 (`C03_segmentation_request`,
`no_prefix_complete`, `parse_of_complete`) a parser that has been fed a strict
prefix `d` of `x` and is now fed `seg`

* stays incomplete (and canonical) while `d ++ seg` is a strict prefix of `x`,
* is complete exactly when `d ++ seg = x ++ c`, with `c` as its leftover.

`pipeLoop_stream`: hence the loop of fix 84c574d, fed any segment of the stream
`x₁ ++ x₂ ++ …`, completes exactly the requests that end inside the segment, each
handed over as its one-piece parse (up to the byte counter), and is left canonical
for the rest.  `loopSegs_stream`: the same over any list of segments.
-/
namespace Px.Persist
open Px Px.Relay Px.Parser

/-- fed to a fresh request parser in one piece, `x` is exactly one request -/
def oneReq (x : Bytes) : Option Parser :=
  match parse Forward.pcfg (init .request) x with
  | .ok P => if P.state == .complete && P.buffer.isNone then some P else none
  | .error _ => none

theorem oneReq_spec {x : Bytes} {P : Parser} (h : oneReq x = some P) :
    parse Forward.pcfg (init .request) x = .ok P ∧ P.state = .complete ∧ P.buffer = none := by
  unfold oneReq at h
  cases hp : parse Forward.pcfg (init .request) x with
  | error e => simp [hp] at h
  | ok Q =>
    simp only [hp] at h
    by_cases hc : (Q.state == PState.complete && Q.buffer.isNone) = true
    · simp only [hc, if_true, Option.some.injEq] at h
      subst h
      simp only [Bool.and_eq_true, beq_iff_eq, Option.isNone_iff_eq_none] at hc
      exact ⟨rfl, hc.1, hc.2⟩
    · simp [hc] at h

theorem oneReq_ne_nil {x : Bytes} {P : Parser} (h : oneReq x = some P) : x ≠ [] := by
  intro hx
  subst hx
  have : oneReq [] = none := by decide +kernel
  rw [this] at h; cases h

/-- the request as handed over when `n` bytes were counted (the byte counter also counts what
    followed the request in its segment) -/
def withTotal (P : Parser) (n : Nat) : Parser := { P with totalSize := n }

theorem init_not_complete : (init .request).state ≠ .complete := by simp [init]

/-- the parser that has been fed the strict prefix `d` of a request (fresh when `d` is empty) -/
def CanonP (d : Bytes) (p : Parser) : Prop :=
  (d = [] ∧ p = init .request) ∨
  (d ≠ [] ∧ parse Forward.pcfg (init .request) d = .ok p ∧ p.state ≠ .complete)

theorem CanonP.incomplete {d : Bytes} {p : Parser} (h : CanonP d p) : p.state ≠ .complete := by
  rcases h with ⟨_, rfl⟩ | ⟨_, _, h⟩
  · exact init_not_complete
  · exact h

/-- feeding `seg` to the canonical parser of `d` is feeding `d ++ seg` to a fresh one -/
theorem CanonP.parse {d : Bytes} {p : Parser} (h : CanonP d p) (seg : Bytes) :
    Px.Parser.parse Forward.pcfg p seg = Px.Parser.parse Forward.pcfg (init .request) (d ++ seg) := by
  rcases h with ⟨rfl, rfl⟩ | ⟨_, hp, _⟩
  · rfl
  · have := C03_segmentation_request Forward.pcfg [d, seg] (d ++ seg) (by simp)
    simp only [parseAll, hp] at this
    rw [← this]
    cases Px.Parser.parse Forward.pcfg p seg <;> rfl

/-- … while `d ++ seg` stays a strict prefix of the request: incomplete, canonical -/
theorem feed_within {x : Bytes} {P : Parser} (ho : oneReq x = some P) {d seg a : Bytes} {p : Parser}
    (hp : CanonP d p) (hx : x = d ++ seg ++ a) (ha : a ≠ []) (hseg : seg ≠ []) :
    ∃ p', Px.Parser.parse Forward.pcfg p seg = .ok p' ∧ CanonP (d ++ seg) p' := by
  obtain ⟨hparse, hst, hb⟩ := oneReq_spec ho
  obtain ⟨q', hq', hnc⟩ := no_prefix_complete Forward.pcfg (wf_init .request) hparse hst hb (d ++ seg) a hx ha
  refine ⟨q', by rw [hp.parse]; exact hq', .inr ⟨by simp [hseg], hq', hnc⟩⟩

/-- … when `d ++ seg = x ++ c`: complete, the one-piece parse of `x` up to the byte counter, `c` left over -/
theorem feed_complete {x : Bytes} {P : Parser} (ho : oneReq x = some P) {d seg c : Bytes} {p : Parser}
    (hp : CanonP d p) (hx : d ++ seg = x ++ c) :
    ∃ n p', Px.Parser.parse Forward.pcfg p seg = .ok p' ∧ p'.state = .complete ∧
      p'.buffer = (if c.isEmpty then none else some c) ∧ ({ p' with buffer := none } : Parser) = withTotal P n := by
  obtain ⟨hparse, hst, hb⟩ := oneReq_spec ho
  rw [hp.parse, hx]
  have := C03_segmentation_request Forward.pcfg [x, c] (x ++ c) (by simp)
  simp only [parseAll, hparse] at this
  have h2 : Px.Parser.parse Forward.pcfg (init .request) (x ++ c) = Px.Parser.parse Forward.pcfg P c := by
    rw [← this]
    cases Px.Parser.parse Forward.pcfg P c <;> rfl
  rw [h2, Forward.parse_of_complete Forward.pcfg P c hst]
  refine ⟨P.totalSize + c.length, _, rfl, hst, by simp [bufBytes, hb], ?_⟩
  cases P
  simp only [withTotal] at hb ⊢
  simp_all

/-! ## the loop on a stream -/

/-- requests still to come, with their one-piece parses -/
abbrev Reqs := List (Bytes × Parser)

def stream (rs : Reqs) : Bytes := (rs.map (·.1)).flatten

/-- `d` is what has been consumed of the head of `rs`: nothing, or a strict prefix of it -/
def Pre (rs : Reqs) (d : Bytes) : Prop :=
  d = [] ∨ ∃ x P tl u, rs = (x, P) :: tl ∧ x = d ++ u ∧ u ≠ []

/-- pipeline parser after the strict prefix `d` of the next request -/
def Canon (d : Bytes) (pl : Option Parser) : Prop :=
  CanonP d (pl.getD (init .request)) ∧ (d = [] → pl = none)

/-- the requests as handed over: one-piece parses with some byte counters -/
def handed : Reqs → List Nat → List Parser
  | r :: rs, n :: ns => withTotal r.2 n :: handed rs ns
  | _, _ => []

/-- **one call of the loop on a segment of the stream** -/
theorem pipeLoop_stream {σ : Type} (h : Hooks σ) (step : σ → Parser → σ) (I : σ → Prop)
    (hby : ∀ s pl raw, (∀ p, pl = some p → p.state ≠ .complete) → h.bypass s pl raw = none)
    (rs : Reqs) (hone : ∀ r ∈ rs, oneReq r.1 = some r.2)
    (hgood : ∀ r ∈ rs, ∀ s n, I s →
      h.complete s (withTotal r.2 n) = .next (step s (withTotal r.2 n)) none ∧ I (step s (withTotal r.2 n)))
    (d seg rest : Bytes) (pl : Option Parser) (hcanon : Canon d pl) (hpre : Pre rs d) (hseg : seg ≠ [])
    (hstream : d ++ seg ++ rest = stream rs) (fuel : Nat) (hfuel : seg.length < fuel) (s : σ) (hI : I s) :
    ∃ (done rs' : Reqs) (ns : List Nat) (d' : Bytes) (pl' : Option Parser),
      rs = done ++ rs' ∧ ns.length = done.length ∧
      pipeLoop h fuel s pl seg = ((handed done ns).foldl step s, pl', .ok) ∧
      Canon d' pl' ∧ Pre rs' d' ∧ d' ++ rest = stream rs' ∧ I ((handed done ns).foldl step s) := by
  induction rs generalizing d seg pl fuel s with
  | nil =>
    exfalso
    simp only [stream, List.map_nil, List.flatten_nil, List.append_eq_nil_iff] at hstream
    exact hseg hstream.1.2
  | cons r tl ih =>
    obtain ⟨x, P⟩ := r
    have ho : oneReq x = some P := hone (x, P) (by simp)
    have hxne := oneReq_ne_nil ho
    -- x = d ++ u
    obtain ⟨u, hxu, hune⟩ : ∃ u, x = d ++ u ∧ u ≠ [] := by
      rcases hpre with rfl | ⟨x', P', tl', u, he, hx, hu⟩
      · exact ⟨x, by simp, hxne⟩
      · simp only [List.cons.injEq, Prod.mk.injEq] at he
        obtain ⟨⟨rfl, _⟩, _⟩ := he
        exact ⟨u, hx, hu⟩
    have hst : seg ++ rest = u ++ stream tl := by
      have : d ++ (seg ++ rest) = d ++ (u ++ stream tl) := by
        simp only [stream, List.map_cons, List.flatten_cons] at hstream
        rw [← List.append_assoc, hstream, hxu, List.append_assoc]
        rfl
      exact List.append_cancel_left this
    obtain ⟨fuel, rfl⟩ : ∃ f, fuel = f + 1 := ⟨fuel - 1, by omega⟩
    have hsegE : seg.isEmpty = false := by simpa using hseg
    have hbyp : h.bypass s pl seg = none := by
      apply hby
      intro p hp
      have := hcanon.1.incomplete
      rw [hp] at this
      exact this
    -- does the head request end inside this segment?
    have hcase : (∃ a, a ≠ [] ∧ u = seg ++ a ∧ rest = a ++ stream tl) ∨ (∃ c, seg = u ++ c ∧ stream tl = c ++ rest) := by
      rcases List.append_eq_append_iff.1 hst with ⟨a, h1, h2⟩ | ⟨c, h1, h2⟩
      · by_cases ha : a = []
        · subst ha
          exact .inr ⟨[], by simpa using h1.symm, by simpa using h2.symm⟩
        · exact .inl ⟨a, ha, h1, h2⟩
      · exact .inr ⟨c, h1, h2⟩
    rcases hcase with ⟨a, ha, hu, hrest⟩ | ⟨c, hsegc, htl⟩
    · -- no: the parser stays incomplete
      obtain ⟨p', hp', hc'⟩ := feed_within ho hcanon.1 (by rw [hxu, hu, List.append_assoc]) ha hseg
      refine ⟨[], (x, P) :: tl, [], d ++ seg, some p', rfl, rfl, ?_, ⟨hc', fun h0 => ?_⟩, ?_, ?_, by simpa [handed] using hI⟩
      · unfold pipeLoop
        simp only [hsegE, Bool.false_eq_true, if_false, hbyp, hp']
        have : (p'.state == PState.complete) = false := by simpa using hc'.incomplete
        simp [this, handed]
      · simp at h0; exact absurd h0.2 hseg
      · exact .inr ⟨x, P, tl, a, rfl, by rw [hxu, hu, List.append_assoc], ha⟩
      · simp only [stream, List.map_cons, List.flatten_cons]
        rw [hrest, hxu, hu]
        simp [stream, List.append_assoc]
    · -- yes: it is handed over, the loop goes on with what is left of the segment
      obtain ⟨n, p', hp', hpst, hpbuf, hclr⟩ :=
        feed_complete ho hcanon.1 (show d ++ seg = x ++ c by rw [hsegc, hxu, List.append_assoc])
      obtain ⟨hg, hI'⟩ := hgood (x, P) (by simp) s n hI
      have hpstb : (p'.state == PState.complete) = true := by simp [hpst]
      by_cases hc : c = []
      · subst hc
        refine ⟨[(x, P)], tl, [n], [], none, rfl, rfl, ?_, ⟨.inl ⟨rfl, rfl⟩, fun _ => rfl⟩, .inl rfl, ?_, by simpa [handed] using hI'⟩
        · unfold pipeLoop
          simp only [hsegE, Bool.false_eq_true, if_false, hbyp, hp', hpstb, if_true, hclr, hg, hpbuf,
            List.isEmpty_nil]
          simp [handed]
        · simpa using htl.symm
      · have hcE : c.isEmpty = false := by simpa using hc
        have hfuel' : c.length < fuel := by
          have : seg.length = u.length + c.length := by rw [hsegc]; simp
          have : 0 < u.length := List.length_pos_iff.mpr hune
          omega
        obtain ⟨done, rs', ns, d', pl', e1, e2, e3, e4, e5, e6, e7⟩ :=
          ih (fun r hr => hone r (by simp [hr])) (fun r hr => hgood r (by simp [hr])) [] c none
            ⟨.inl ⟨rfl, rfl⟩, fun _ => rfl⟩ (.inl rfl) hc (by simpa using htl.symm) fuel hfuel'
            (step s (withTotal P n)) hI'
        refine ⟨(x, P) :: done, rs', n :: ns, d', pl', by rw [e1]; rfl, by simp [e2], ?_, e4, e5, e6,
          by simpa [handed] using e7⟩
        unfold pipeLoop
        simp only [hsegE, Bool.false_eq_true, if_false, hbyp, hp', hpstb, if_true, hclr, hg, hpbuf, hcE, e3]
        simp [handed]

/-! ## … and on any list of segments -/

/-- successive calls of the loop, one per client segment, while it returns normally -/
def loopSegs {σ : Type} (h : Hooks σ) : σ → Option Parser → List Bytes → σ × Option Parser × LoopEnd
  | s, pl, [] => (s, pl, .ok)
  | s, pl, x :: xs =>
    match pipeLoop h (x.length + 1) s pl x with
    | (s', pl', .ok) => loopSegs h s' pl' xs
    | r => r

theorem handed_append (a b : Reqs) (ns ms : List Nat) (h : ns.length = a.length) :
    handed (a ++ b) (ns ++ ms) = handed a ns ++ handed b ms := by
  induction a generalizing ns with
  | nil => cases ns <;> simp_all [handed]
  | cons r a ih =>
    cases ns with
    | nil => simp at h
    | cons n ns => simp only [List.cons_append, handed, List.cons.injEq, true_and]; exact ih ns (by simpa using h)

theorem handed_length (a : Reqs) (ns : List Nat) (h : ns.length = a.length) : (handed a ns).length = a.length := by
  induction a generalizing ns with
  | nil => cases ns <;> simp [handed]
  | cons r a ih =>
    cases ns with
    | nil => simp at h
    | cons n ns => simp only [handed, List.length_cons]; rw [ih ns (by simpa using h)]

/-- the requests handed over are the one-piece parses, up to the byte counter -/
theorem handed_spec (a : Reqs) (ns : List Nat) (h : ns.length = a.length) :
    (handed a ns).map (fun P => withTotal P 0) = a.map (fun r => withTotal r.2 0) := by
  induction a generalizing ns with
  | nil => cases ns <;> simp [handed]
  | cons r a ih =>
    cases ns with
    | nil => simp at h
    | cons n ns =>
      simp only [handed, List.map_cons, List.cons.injEq]
      exact ⟨by simp [withTotal], ih ns (by simpa using h)⟩

theorem loopSegs_stream {σ : Type} (h : Hooks σ) (step : σ → Parser → σ) (I : σ → Prop)
    (hby : ∀ s pl raw, (∀ p, pl = some p → p.state ≠ .complete) → h.bypass s pl raw = none)
    (segs : List Bytes) (hne : ∀ seg ∈ segs, seg ≠ [])
    (rs : Reqs) (hone : ∀ r ∈ rs, oneReq r.1 = some r.2)
    (hgood : ∀ r ∈ rs, ∀ s n, I s →
      h.complete s (withTotal r.2 n) = .next (step s (withTotal r.2 n)) none ∧ I (step s (withTotal r.2 n)))
    (d rest : Bytes) (pl : Option Parser) (hcanon : Canon d pl) (hpre : Pre rs d)
    (hstream : d ++ segs.flatten ++ rest = stream rs) (s : σ) (hI : I s) :
    ∃ (done rs' : Reqs) (ns : List Nat) (d' : Bytes) (pl' : Option Parser),
      rs = done ++ rs' ∧ ns.length = done.length ∧
      loopSegs h s pl segs = ((handed done ns).foldl step s, pl', .ok) ∧
      Canon d' pl' ∧ Pre rs' d' ∧ d' ++ rest = stream rs' ∧ I ((handed done ns).foldl step s) := by
  induction segs generalizing rs d pl s with
  | nil =>
    exact ⟨[], rs, [], d, pl, rfl, rfl, by simp [loopSegs, handed], hcanon, hpre, by simpa using hstream,
      by simpa [handed] using hI⟩
  | cons seg segs ih =>
    obtain ⟨done1, rs1, ns1, d1, pl1, e1, e2, e3, e4, e5, e6, e7⟩ :=
      pipeLoop_stream h step I hby rs hone hgood d seg (segs.flatten ++ rest) pl hcanon hpre (hne seg (by simp))
        (by simpa [List.append_assoc] using hstream) (seg.length + 1) (by omega) s hI
    have hone1 : ∀ r ∈ rs1, oneReq r.1 = some r.2 := fun r hr => hone r (by rw [e1]; simp [hr])
    have hgood1 : ∀ r ∈ rs1, ∀ s n, I s →
        h.complete s (withTotal r.2 n) = .next (step s (withTotal r.2 n)) none ∧ I (step s (withTotal r.2 n)) :=
      fun r hr => hgood r (by rw [e1]; simp [hr])
    obtain ⟨done2, rs2, ns2, d2, pl2, f1, f2, f3, f4, f5, f6, f7⟩ :=
      ih (fun x hx => hne x (by simp [hx])) rs1 hone1 hgood1 d1 pl1 e4 e5
        (by simpa [List.append_assoc] using e6) ((handed done1 ns1).foldl step s) e7
    have hh : (handed (done1 ++ done2) (ns1 ++ ns2)).foldl step s =
        (handed done2 ns2).foldl step ((handed done1 ns1).foldl step s) := by
      rw [handed_append done1 done2 ns1 ns2 e2, List.foldl_append]
    refine ⟨done1 ++ done2, rs2, ns1 ++ ns2, d2, pl2, by rw [e1, f1, List.append_assoc], by simp [e2, f2], ?_,
      f4, f5, f6, by rw [hh]; exact f7⟩
    rw [loopSegs, e3]
    simp only
    rw [f3, hh]

/-- the whole stream delivered: every request handed over, the pipeline parser idle -/
theorem loopSegs_all {σ : Type} (h : Hooks σ) (step : σ → Parser → σ) (I : σ → Prop)
    (hby : ∀ s pl raw, (∀ p, pl = some p → p.state ≠ .complete) → h.bypass s pl raw = none)
    (segs : List Bytes) (hne : ∀ seg ∈ segs, seg ≠ [])
    (rs : Reqs) (hone : ∀ r ∈ rs, oneReq r.1 = some r.2)
    (hgood : ∀ r ∈ rs, ∀ s n, I s →
      h.complete s (withTotal r.2 n) = .next (step s (withTotal r.2 n)) none ∧ I (step s (withTotal r.2 n)))
    (d : Bytes) (pl : Option Parser) (hcanon : Canon d pl) (hpre : Pre rs d)
    (hstream : d ++ segs.flatten = stream rs) (s : σ) (hI : I s) :
    ∃ ns : List Nat, ns.length = rs.length ∧
      loopSegs h s pl segs = ((handed rs ns).foldl step s, none, .ok) := by
  obtain ⟨done, rs', ns, d', pl', e1, e2, e3, e4, e5, e6, _⟩ :=
    loopSegs_stream h step I hby segs hne rs hone hgood d [] pl hcanon hpre (by simpa using hstream) s hI
  have hone' : ∀ r ∈ rs', oneReq r.1 = some r.2 := fun r hr => hone r (by rw [e1]; simp [hr])
  have hd' : d' = [] := by
    rcases e5 with h0 | ⟨x, P, tl, u, hrs, hx, hu⟩
    · exact h0
    · exfalso
      rw [hrs] at e6
      simp only [stream, List.map_cons, List.flatten_cons, List.append_nil] at e6
      have := congrArg List.length e6
      rw [hx] at this
      simp only [List.length_append] at this
      have : 0 < u.length := List.length_pos_iff.mpr hu
      omega
  subst hd'
  have hrs' : rs' = [] := by
    cases rs' with
    | nil => rfl
    | cons r tl =>
      exfalso
      have := oneReq_ne_nil (hone' r (by simp))
      simp only [stream, List.map_cons, List.flatten_cons, List.nil_append] at e6
      have h2 := congrArg List.length e6
      simp only [List.length_nil, List.length_append] at h2
      have : 0 < r.1.length := List.length_pos_iff.mpr this
      omega
  subst hrs'
  have hpl : pl' = none := e4.2 rfl
  subst hpl
  simp only [List.append_nil] at e1
  subst e1
  exact ⟨ns, e2, e3⟩

end Px.Persist
