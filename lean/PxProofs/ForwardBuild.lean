import PxProofs.ForwardInv
import PxProofs.BuildLemmas
/-!
# C02 helper lemmas, part 3: what `HttpParser.build` + `build_http_request` emit

The forwarded packet is `request-line CRLF (name ": " value CRLF)* CRLF payload`, where the
header lines are `finalDict (headerDict p disable) payload` — the rebuilt header dict plus the
`Content-Length` that `build_http_request` sets when there is a payload and no Transfer-Encoding.
-/
namespace Px.Forward

open Px.Parser Px.Build

/-- `self.path or b'/'` -/
def pathOf (p : Parser) : Bytes :=
  match p.path with
  | some x => if x.isEmpty then [SLASH] else x
  | none => [SLASH]

/-- the header dict after `build_http_request`'s own addition: `Content-Length` (this exact
    spelling) is set when there is a non-empty payload and no Transfer-Encoding field -/
def finalDict (hd : HDict) (body : Option Bytes) : HDict :=
  if (match body with | some x => !x.isEmpty | none => false) && !hd.any (fun e => lower e.1 == teName) then
    dSet hd nCL (natToDec (body.getD []).length)
  else hd

/-- header lines as `build_http_pkt` writes them: `name ": " value CRLF` -/
def renderDict (hd : HDict) : Bytes := (hd.map (fun e => buildHeader e.1 e.2 ++ CRLF)).flatten

theorem buildRequest_eq (m path v : Bytes) (hd : HDict) (body : Option Bytes) :
    buildRequest [] m path v none hd body false true =
      m ++ SP :: (path ++ SP :: v) ++ CRLF ++ (renderDict (finalDict hd body) ++ CRLF ++ body.getD []) := by
  have hl : (fun (x : Bytes × Bytes) => match x with | (k, v) => buildHeader k v ++ CRLF) =
      (fun e => buildHeader e.1 e.2 ++ CRLF) := by funext ⟨k, v⟩; rfl
  unfold buildRequest buildPkt finalDict renderDict
  simp only [b_transfer_encoding', b_Content_Length', Bool.not_true, Bool.and_false, Bool.false_eq_true,
    if_false, join]
  rw [hl]
  cases body with
  | none => simp
  | some x => simp [List.append_assoc]

/-- when `build` succeeds the packet has this shape -/
theorem buildFor_ok {cfg : Cfg} {p : Parser} {out : Bytes} (h : buildFor cfg p = .ok out) :
    ∃ body, bodyOrChunks cfg.bufSize p = .ok body ∧ p.ty = .request ∧
      out = (p.method.getD []) ++ SP :: (pathOf p ++ SP :: (p.version.getD [])) ++ CRLF ++
        (renderDict (finalDict (headerDict p cfg.disable) body) ++ CRLF ++ body.getD []) := by
  unfold buildFor at h
  cases hb : build cfg.bufSize Px.Gen.defaultDisableHeaders p (some cfg.disable) none with
  | error e => simp [hb] at h
  | ok x =>
    simp only [hb, Except.ok.injEq] at h; subst h
    unfold build at hb
    simp only [] at hb
    generalize hcond : (!(_ && _ && p.ty == PType.request)) = c at hb
    cases c with
    | true => simp at hb
    | false =>
      simp only [Bool.false_eq_true, if_false] at hb
      cases hbody : bodyOrChunks cfg.bufSize p with
      | error e => simp [hbody] at hb
      | ok body =>
        simp only [hbody, Except.ok.injEq] at hb
        subst hb
        refine ⟨body, rfl, ?_, ?_⟩
        · simp only [Bool.not_eq_false', Bool.and_eq_true, beq_iff_eq] at hcond
          exact hcond.2
        · rw [buildRequest_eq]; rfl

/-- conversely, for a request parser with a non-empty method and version `build` does not assert -/
theorem buildFor_eq (cfg : Cfg) (p : Parser) {m v : Bytes} (hm : p.method = some m) (hmn : m ≠ [])
    (hv : p.version = some v) (hvn : v ≠ []) (hty : p.ty = .request) :
    buildFor cfg p =
      match bodyOrChunks cfg.bufSize p with
      | .error e => .error (.build e)
      | .ok body => .ok (m ++ SP :: (pathOf p ++ SP :: v) ++ CRLF ++
          (renderDict (finalDict (headerDict p cfg.disable) body) ++ CRLF ++ body.getD [])) := by
  have hm' : m.isEmpty = false := by simpa using hmn
  have hv' : v.isEmpty = false := by simpa using hvn
  unfold buildFor build
  simp only [hm, hv, hty, hm', hv', Bool.not_false, Bool.and_self, beq_self_eq_true, Bool.not_true,
    Bool.false_eq_true, if_false, Option.getD_some]
  cases bodyOrChunks cfg.bufSize p with
  | error e => rfl
  | ok body => simp only [buildRequest_eq]; rfl

/-! ### membership in the treated header map -/

theorem mem_hdrSet {h : Headers} {k : Bytes} {v : Bytes × Bytes} {x : Bytes × (Bytes × Bytes)}
    (hx : x ∈ hdrSet h k v) : x = (k, v) ∨ x ∈ h := by
  unfold hdrSet at hx
  split at hx
  · simp only [List.mem_map] at hx
    obtain ⟨a, ha, rfl⟩ := hx
    split
    · exact .inl rfl
    · exact .inr ha
  · simp only [List.mem_append, List.mem_singleton] at hx
    rcases hx with hx | hx
    · exact .inr hx
    · exact .inl hx

theorem mem_keptEntries {cfg : Cfg} {h : Headers} {x : Bytes × (Bytes × Bytes)} (hx : x ∈ keptEntries cfg h) :
    x ∈ h ∧ x.1 ≠ lower cfg.proxyAuthorization ∧ x.1 ≠ lower cfg.proxyConnection := by
  unfold keptEntries hdrDel at hx
  simp only [List.mem_filter, bne_iff_ne, ne_eq] at hx
  exact ⟨hx.1.1, hx.1.2, hx.2⟩

/-- the header maps `on_request_complete` (first) and `on_client_data` (later) leave behind -/
def treatedMap (first : Bool) (cfg : Cfg) (h : Headers) : Headers :=
  if first then withVia cfg (keptEntries cfg h) else keptEntries cfg h

theorem treated_headers (first : Bool) (cfg : Cfg) (p : Parser) :
    ((if first then treatFirst cfg p else treatLater cfg p).headers).getD [] =
      treatedMap first cfg (p.headers.getD []) := by
  cases first with
  | true =>
    simp only [if_true, treatFirst_eq, treatedMap]
    cases p.headers <;> simp [keptEntries, hdrDel]
  | false =>
    simp only [Bool.false_eq_true, if_false, treatLater_eq, treatedMap]
    cases p.headers <;> simp [keptEntries, hdrDel]

theorem hdrInv_treatedMap (first : Bool) (cfg : Cfg) {h : Headers} (hi : HdrInv h) :
    HdrInv (treatedMap first cfg h) := by
  unfold treatedMap
  split
  · exact hdrInv_withVia cfg (hdrInv_keptEntries cfg hi)
  · exact hdrInv_keptEntries cfg hi

theorem mem_treatedMap {first : Bool} {cfg : Cfg} {h : Headers} {x : Bytes × (Bytes × Bytes)}
    (hx : x ∈ treatedMap first cfg h) :
    x.1 = viaLower ∨ (x ∈ h ∧ x.1 ≠ lower cfg.proxyAuthorization ∧ x.1 ≠ lower cfg.proxyConnection) := by
  unfold treatedMap at hx
  split at hx
  · unfold withVia at hx
    rcases mem_hdrSet hx with rfl | hx
    · exact .inl rfl
    · exact .inr (mem_keptEntries hx)
  · exact .inr (mem_keptEntries hx)

theorem pinv_treated (first : Bool) (cfg : Cfg) {p : Parser} (hi : PInv p) :
    PInv (if first then treatFirst cfg p else treatLater cfg p) := by
  unfold PInv
  rw [treated_headers]
  exact hdrInv_treatedMap first cfg hi

/-- **no proxy-only field survives the treatment**, whatever the parser state -/
theorem finalDict_no_credentials (first : Bool) (cfg : Cfg) (hc : CfgOk cfg) {p : Parser} (hi : PInv p)
    (body : Option Bytes) :
    ∀ e ∈ finalDict (headerDict (if first then treatFirst cfg p else treatLater cfg p) cfg.disable) body,
      lower e.1 ≠ lower cfg.proxyAuthorization ∧ lower e.1 ≠ lower cfg.proxyConnection := by
  have hvia := hc.2 viaLower (by simp)
  have hcl := hc.2 clName (by simp)
  have hbase : ∀ e ∈ headerDict (if first then treatFirst cfg p else treatLater cfg p) cfg.disable,
      lower e.1 ≠ lower cfg.proxyAuthorization ∧ lower e.1 ≠ lower cfg.proxyConnection := by
    intro e he
    rw [headerDict_of_inv _ _ (pinv_treated first cfg hi), treated_headers] at he
    simp only [List.mem_map, List.mem_filter] at he
    obtain ⟨x, ⟨hx, _⟩, rfl⟩ := he
    have hk := (hdrInv_treatedMap first cfg hi).2 x hx
    rw [← hk]
    rcases mem_treatedMap hx with hv | ⟨_, h1, h2⟩
    · rw [hv]; exact ⟨hvia.2.1, hvia.2.2⟩
    · exact ⟨h1, h2⟩
  intro e he
  unfold finalDict at he
  generalize (_ && !(List.any _ _)) = c at he
  cases c with
  | true =>
    simp only [if_true] at he
    rcases Px.Codec.mem_dSet he with rfl | ⟨he, _⟩
    · simp only [lower_nCL]; exact ⟨hcl.2.1, hcl.2.2⟩
    · exact hbase e he
  | false => exact hbase e (by simpa using he)

end Px.Forward
