import PxModel.Forward
/-
  Specification side of C02: HTTP/1.x requests as *data* (what a client means
  and how it chose to spell it), their rendering by the RFC 7230 grammar

      request-line  = method SP request-target SP HTTP-version CRLF
      header-field  = field-name ":" OWS field-value OWS          (each followed by CRLF)
      message-body  = Content-Length bytes | chunked-body
      chunked-body  = *( chunk-size [ chunk-ext ] CRLF chunk-data CRLF )
                      "0"-size [ chunk-ext ] CRLF CRLF            (no trailer part: not supported by the decoder)

  and what a proxy has to hand to the origin (`fwdSpec`), compared up to the
  relation `Req.semEq`.  Nothing here mentions the parser or the builder.
-/
namespace Px.Forward

/-- one header field as the client spelled it -/
structure Field where
  name : Bytes      -- any casing
  pre : Bytes       -- OWS between ":" and the value
  value : Bytes
  post : Bytes      -- OWS between the value and CRLF
  deriving DecidableEq, Repr

/-- one chunk as the client spelled it -/
structure ChunkSpec where
  sz : Bytes        -- chunk-size text (any hex spelling)
  ext : Bytes       -- chunk extension: empty or `;…`
  data : Bytes
  deriving DecidableEq, Repr

inductive Framing
  | none                                                        -- no body, no framing header
  | contentLength                                               -- body delimited by the Content-Length field
  | chunked (chunks : List ChunkSpec) (lastSz lastExt : Bytes)   -- Transfer-Encoding: chunked, this layout
  deriving DecidableEq, Repr

inductive Target
  | absolute (host : Bytes) (port : Option Bytes) (pathq : Bytes)   -- `http://host[:port]path[?query]`
  | origin (pathq : Bytes)                                         -- `/path[?query]`
  deriving DecidableEq, Repr

structure Req where
  method : Bytes
  target : Target
  version : Bytes
  fields : List Field
  body : Bytes           -- the decoded content
  framing : Framing
  deriving DecidableEq, Repr

/-! ### rendering -/

def httpScheme : Bytes := [104, 116, 116, 112]             -- "http"
def schemeSep : Bytes := [58, 47, 47]                     -- "://"

def portPart : Option Bytes → Bytes
  | some p => COLON :: p
  | none => []

def renderTarget : Target → Bytes
  | .absolute host port pathq => httpScheme ++ schemeSep ++ host ++ portPart port ++ pathq
  | .origin pathq => pathq

def renderField (f : Field) : Bytes := f.name ++ COLON :: (f.pre ++ f.value ++ f.post) ++ CRLF

def renderFields (fs : List Field) : Bytes := (fs.map renderField).flatten

def renderChunks : List ChunkSpec → Bytes
  | [] => []
  | c :: cs => c.sz ++ c.ext ++ CRLF ++ (c.data ++ CRLF ++ renderChunks cs)

def renderBody (r : Req) : Bytes :=
  match r.framing with
  | .none => []
  | .contentLength => r.body
  | .chunked cs lsz lext => renderChunks cs ++ (lsz ++ lext ++ CRLF ++ CRLF)

def requestLine (r : Req) : Bytes := r.method ++ SP :: (renderTarget r.target ++ SP :: r.version)

def render (r : Req) : Bytes :=
  requestLine r ++ CRLF ++ (renderFields r.fields ++ CRLF ++ renderBody r)

/-! ### well-formedness (decidable) -/

def isDigit (c : UInt8) : Bool := 48 ≤ c && c ≤ 57
def isAlpha (c : UInt8) : Bool := (65 ≤ c && c ≤ 90) || (97 ≤ c && c ≤ 122)
def isHexDigit (c : UInt8) : Bool := isDigit c || (65 ≤ c && c ≤ 70) || (97 ≤ c && c ≤ 102)

/-- RFC 7230 `tchar` -/
def isTchar (c : UInt8) : Bool :=
  isDigit c || isAlpha c ||
    [33, 35, 36, 37, 38, 39, 42, 43, 45, 46, 94, 95, 96, 124, 126].contains c

def isOws (c : UInt8) : Bool := c == 32 || c == 9

/-- bytes allowed inside a field value: VCHAR, obs-text, SP, HTAB -/
def isFieldByte (c : UInt8) : Bool := (32 ≤ c && c != 127) || c == 9

/-- bytes allowed in host / path / query: visible, no separators of the request line -/
def isTargetByte (c : UInt8) : Bool := 33 ≤ c && c != 127

/-- host bytes: visible ASCII, none of `: @ / ? # [ ]` (reg-name / IPv4; IPv6 literals are C14's subject) -/
def isHostByte (c : UInt8) : Bool :=
  33 ≤ c && c < 127 && !([58, 64, 47, 63, 35, 91, 93].contains c)

def tokenOk (x : Bytes) : Bool := !x.isEmpty && x.all isTchar

def valueOk (v : Bytes) : Bool :=
  v.all isFieldByte && (match v.head? with | some c => !isOws c | none => true) &&
    (match v.getLast? with | some c => !isOws c | none => true)

def fieldOk (f : Field) : Bool := tokenOk f.name && f.pre.all isOws && f.post.all isOws && valueOk f.value

def pathqOk (pq : Bytes) : Bool := pq.all isTargetByte && (pq.isEmpty || pq.head? == some SLASH)

def targetOk : Target → Bool
  | .absolute host port pathq =>
    !host.isEmpty && host.all isHostByte &&
      (match port with
       | some p => !p.isEmpty && p.all isDigit && (pyInt 10 p).isSome     -- digits that `int()` reads (≤ 4300 of them)
       | none => true) &&
      pathqOk pathq
  | .origin pathq => !pathq.isEmpty && pathqOk pathq

def nameIs (k : Bytes) (f : Field) : Bool := lower f.name == k

def clName : Bytes := [99, 111, 110, 116, 101, 110, 116, 45, 108, 101, 110, 103, 116, 104]                  -- "content-length"
def teName : Bytes := [116, 114, 97, 110, 115, 102, 101, 114, 45, 101, 110, 99, 111, 100, 105, 110, 103]    -- "transfer-encoding"
def chunkedTok : Bytes := [99, 104, 117, 110, 107, 101, 100]                                                -- "chunked"

/-- `1*HEXDIG [ ";" ext ]` announcing `n` bytes -/
def sizeLineOk (sz ext : Bytes) (n : Nat) : Bool :=
  !sz.isEmpty && sz.all isHexDigit && pyInt 16 sz == some (Int.ofNat n) &&
    (ext.isEmpty || ext.head? == some 59) && ext.all (fun c => c != 13 && c != 10)

def framingOk (r : Req) : Bool :=
  match r.framing with
  | .none => r.body.isEmpty && !r.fields.any (nameIs clName) && !r.fields.any (nameIs teName)
  | .contentLength =>
    !r.fields.any (nameIs teName) &&
      r.fields.any (fun f => nameIs clName f && !f.value.isEmpty && f.value.all isDigit &&
        pyInt 10 f.value == some (Int.ofNat r.body.length))
  | .chunked cs lsz lext =>
    !r.fields.any (nameIs clName) &&
      r.fields.any (fun f => nameIs teName f && lower f.value == chunkedTok) &&
      r.body == (cs.map (·.data)).flatten &&
      cs.all (fun c => sizeLineOk c.sz c.ext c.data.length && !c.data.isEmpty) &&
      sizeLineOk lsz lext 0

/-- a well-formed HTTP/1.x request: tokens, no CR/LF in values, OWS only around
    values, case-insensitively unique field names, framing consistent with the
    framing fields, not CONNECT (authority-form: a tunnel, nothing is forwarded) -/
def Req.WF (r : Req) : Prop :=
  tokenOk r.method = true ∧ r.method ≠ Px.Gen.connectMethod ∧
  targetOk r.target = true ∧
  (r.version = Px.Gen.http11 ∨ r.version = Px.Gen.http10) ∧
  (∀ f ∈ r.fields, fieldOk f = true) ∧
  (r.fields.map (fun f => lower f.name)).Nodup ∧
  framingOk r = true

instance (r : Req) : Decidable r.WF := by unfold Req.WF; infer_instance

/-- the request is in absolute-form (a proxy request) -/
def Req.isAbsolute (r : Req) : Bool := match r.target with | .absolute .. => true | .origin _ => false

/-! ### what the origin has to receive -/

def viaLower : Bytes := [118, 105, 97]      -- "via"

/-- configurations the property speaks about: the operator does not disable the framing
    fields or Via, the names of the proxy-only fields are not those either, and the
    re-chunking size is positive -/
def CfgOk (cfg : Cfg) : Prop :=
  cfg.bufSize ≠ 0 ∧
  ∀ k ∈ [viaLower, clName, teName],
    cfg.disable.contains k = false ∧ k ≠ lower cfg.proxyAuthorization ∧ k ≠ lower cfg.proxyConnection

instance (cfg : Cfg) : Decidable (CfgOk cfg) := by unfold CfgOk; infer_instance

/-- fields a proxy does not pass on: its own credentials, Proxy-Connection, operator-disabled names -/
def removed (cfg : Cfg) (f : Field) : Bool :=
  let k := lower f.name
  k == lower cfg.proxyAuthorization || k == lower cfg.proxyConnection || cfg.disable.contains k

def viaField (cfg : Cfg) : Field := { name := viaName, pre := [SP], value := viaValue cfg, post := [] }

def originTarget : Target → Target
  | .absolute _ _ pathq => .origin (if pathq.isEmpty then [SLASH] else pathq)
  | .origin pathq => .origin pathq

/-- RFC 7230 §5.7.1: the proxy's entry is appended to a received Via field
    (comma-separated list), otherwise a Via field is added -/
def addVia (cfg : Cfg) (fs : List Field) : List Field :=
  if fs.any (nameIs viaLower) then
    fs.map (fun f => if nameIs viaLower f then { f with value := f.value ++ commaSp ++ viaValue cfg } else f)
  else fs ++ [viaField cfg]

/-- the request the origin must see, `via = true`: with a Via field naming the proxy -/
def fwdSpecWith (via : Bool) (cfg : Cfg) (r : Req) : Req :=
  let kept := r.fields.filter (fun f => !removed cfg f)
  { r with target := originTarget r.target, fields := if via then addVia cfg kept else kept }

def fwdSpec (cfg : Cfg) (r : Req) : Req := fwdSpecWith true cfg r

/-! ### semantic equality -/

/-- fields other than Content-Length as (lower-cased name, value) -/
def otherFields (r : Req) : List (Bytes × Bytes) :=
  (r.fields.filter (fun f => !nameIs clName f)).map (fun f => (lower f.name, f.value))

/-- numeric values of the Content-Length fields (`none` = unreadable) -/
def clValues (r : Req) : List (Option Int) :=
  (r.fields.filter (nameIs clName)).map (fun f => pyInt 10 f.value)

/-- same method, target and version; the same header fields up to name case,
    OWS and order, where equal-valued repetitions of Content-Length count once;
    byte-identical decoded body -/
def Req.semEq (a b : Req) : Prop :=
  a.method = b.method ∧ a.target = b.target ∧ a.version = b.version ∧
  (otherFields a).Perm (otherFields b) ∧
  (clValues a ⊆ clValues b ∧ clValues b ⊆ clValues a) ∧
  a.body = b.body

instance (a b : Req) : Decidable (a.semEq b) := by unfold Req.semEq; infer_instance

end Px.Forward
