import PxModel.Idle
/-!
Helper definitions (trace predicates, the ghost list of client-side I/O times)
and lemmas for property C20.  The property theorems are in `PxProofs/C20.lean`.
-/
namespace Px.Idle

/-! ## Trace predicates used as hypotheses -/

/-- times never go backwards: every event is no earlier than `lo` and than its predecessors -/
def Mono : Int → List Ev → Prop
  | _, [] => True
  | lo, e :: r => lo ≤ e.time ∧ Mono e.time r

/-- is `e`, handled in state `s`, a genuine client-side read or write?
    (a writable report with nothing queued does no I/O; a readable report after reading ended is not read) -/
def clientIO (s : St) : Ev → Bool
  | .clientRead _ _ => !s.readsTorn
  | .clientReadEnd _ => !s.readsTorn
  | .clientWrite _ _ => s.numBuffer != 0
  | _ => false

/-- ghost observation: the times of all client-side reads / writes handled on the
    (still open) connection while the trace runs from `s` -/
def ioTimes (cfg : Cfg) : St → List Ev → List Int
  | _, [] => []
  | s, e :: r =>
    (if s.status = .open ∧ clientIO s e = true then [e.time] else []) ++ ioTimes cfg (step cfg s e) r

/-- events during which the connection stays idle: no client read, nothing queued
    (a writable report is allowed: with an empty buffer it does nothing) -/
def Quiet : Ev → Prop
  | .clientRead _ _ => False
  | .clientReadEnd _ => False
  | .clientWrite _ _ => True
  | .upstream _ k => k = 0
  | .loopIter _ => True

instance : DecidablePred Quiet := fun e => by
  cases e <;> simp only [Quiet] <;> infer_instance

/-- every loop iteration ends no earlier than the previous one (`last`) and at most `D` later -/
def Paced (D : Int) : Int → List Ev → Prop
  | _, [] => True
  | last, e :: r =>
    match e with
    | .loopIter t => last ≤ t ∧ t ≤ last + D ∧ Paced D t r
    | _ => Paced D last r

def decMono : (lo : Int) → (tr : List Ev) → Decidable (Mono lo tr)
  | _, [] => isTrue trivial
  | lo, e :: r =>
    have := decMono e.time r
    (inferInstance : Decidable (lo ≤ e.time ∧ Mono e.time r))

instance (lo : Int) (tr : List Ev) : Decidable (Mono lo tr) := decMono lo tr

def decPaced (D : Int) : (last : Int) → (tr : List Ev) → Decidable (Paced D last tr)
  | _, [] => isTrue trivial
  | last, .loopIter t :: r =>
    have := decPaced D t r
    (inferInstance : Decidable (last ≤ t ∧ t ≤ last + D ∧ Paced D t r))
  | last, .clientRead _ _ :: r => decPaced D last r
  | last, .clientReadEnd _ :: r => decPaced D last r
  | last, .clientWrite _ _ :: r => decPaced D last r
  | last, .upstream _ _ :: r => decPaced D last r

instance (D last : Int) (tr : List Ev) : Decidable (Paced D last tr) := decPaced D last tr

/-- time of the last loop iteration of the trace (`last` if there is none) -/
def lastIter : Int → List Ev → Int
  | last, [] => last
  | last, e :: r =>
    match e with
    | .loopIter t => lastIter t r
    | _ => lastIter last r

/-! ## Basic facts about `run` / `step` -/

theorem run_nil (cfg : Cfg) (s : St) : run cfg s [] = s := rfl

theorem run_cons (cfg : Cfg) (s : St) (e : Ev) (r : List Ev) :
    run cfg s (e :: r) = run cfg (step cfg s e) r := rfl

theorem run_append (cfg : Cfg) (s : St) (a b : List Ev) :
    run cfg s (a ++ b) = run cfg (run cfg s a) b := by
  simp [run, List.foldl_append]

/-- nothing happens to a connection that is no longer open -/
theorem step_closed (cfg : Cfg) (s : St) (e : Ev) (h : s.status ≠ .open) :
    (step cfg s e).status = s.status := by
  cases hs : s.status with
  | «open» => exact absurd hs h
  | reaped t0 => cases e <;> simp only [step, hs] <;> (try split) <;> simp_all
  | torn t0 => cases e <;> simp only [step, hs] <;> (try split) <;> simp_all

theorem run_closed (cfg : Cfg) (tr : List Ev) : ∀ (s : St), s.status ≠ .open →
    (run cfg s tr).status = s.status := by
  induction tr with
  | nil => intro s _; rfl
  | cons e r ih =>
    intro s h
    have h1 := step_closed cfg s e h
    rw [run_cons, ih _ (by rw [h1]; exact h), h1]

theorem run_reaped (cfg : Cfg) (tr : List Ev) (s : St) (t : Int) (h : s.status = .reaped t) :
    (run cfg s tr).status = .reaped t := by
  rw [run_closed cfg tr s (by rw [h]; intro h'; cases h'), h]

/-- a non-loop event never reaps: it leaves an open connection open or tears it down -/
theorem step_status_nonloop (cfg : Cfg) (s : St) (e : Ev) (h : ∀ t, e ≠ .loopIter t) (ho : s.status = .open) :
    (step cfg s e).status = .open ∨ ∃ t, (step cfg s e).status = .torn t := by
  cases e with
  | loopIter t => exact absurd rfl (h t)
  | clientRead t k => simp only [step, ho, connStep]; split <;> simp_all
  | clientReadEnd t =>
    simp only [step, ho, connStep]; split
    · simp_all
    · by_cases hb : s.numBuffer = 0 <;> simp [hb]
  | clientWrite t f =>
    simp only [step, ho, connStep]; split
    · simp_all
    · by_cases hc : (s.readsTorn && (if f = true then s.numBuffer - 1 else s.numBuffer) == 0) = true
      · exact .inr ⟨t, by simp only [hc, if_true]⟩
      · exact .inl (by simp only [hc]; simp)
  | upstream t k => simp only [step, ho, connStep]; simp

/-- what the reaper decides on an open connection -/
theorem step_loop_open (cfg : Cfg) (s : St) (t : Int) (h : s.status = .open) :
    (step cfg s (.loopIter t)).status =
      if due cfg s.tick = true ∧ isInactive cfg s t = true then .reaped t else .open := by
  simp only [step, h]
  by_cases hd : due cfg s.tick = true <;> by_cases hi : isInactive cfg s t = true <;> simp [hd, hi]

theorem isInactive_iff (cfg : Cfg) (s : St) (now : Int) :
    isInactive cfg s now = true ↔ s.numBuffer = 0 ∧ now - s.lastActivity > cfg.timeout := by
  simp [isInactive, St.hasBuffer]

/-- `last_activity` after one event: unchanged, or the event's time exactly when it was client I/O -/
theorem step_la (cfg : Cfg) (s : St) (e : Ev) :
    (step cfg s e).lastActivity =
      if s.status = .open ∧ clientIO s e = true then e.time else s.lastActivity := by
  by_cases ho : s.status = .open
  · cases e with
    | loopIter t => simp only [step, clientIO]; split <;> simp
    | clientRead t k =>
      simp only [step, ho, connStep, clientIO, Ev.time]
      cases s.readsTorn <;> simp
    | clientReadEnd t =>
      simp only [step, ho, connStep, clientIO, Ev.time]
      cases s.readsTorn <;> simp
    | clientWrite t f =>
      simp only [step, ho, connStep, clientIO, Ev.time]
      by_cases hb : s.numBuffer = 0 <;> simp [hb]
    | upstream t k => simp [step, ho, connStep, clientIO]
  · have : (step cfg s e).lastActivity = s.lastActivity := by
      cases hs : s.status with
      | «open» => exact absurd hs ho
      | reaped t0 => cases e <;> simp only [step, hs] <;> (try split) <;> simp_all
      | torn t0 => cases e <;> simp only [step, hs] <;> (try split) <;> simp_all
    rw [this, if_neg (fun h => ho h.1)]

theorem Mono_append_left : ∀ (a b : List Ev) (lo : Int), Mono lo (a ++ b) → Mono lo a := by
  intro a; induction a with
  | nil => intro b lo _; trivial
  | cons e r ih => intro b lo h; exact ⟨h.1, ih b _ h.2⟩

/-- Under non-decreasing times `last_activity` dominates the start value and every
    client-side I/O time of the trace. -/
theorem la_dominates (cfg : Cfg) (tr : List Ev) : ∀ (s : St) (lo : Int), Mono lo tr → s.lastActivity ≤ lo →
    s.lastActivity ≤ (run cfg s tr).lastActivity ∧ ∀ u ∈ ioTimes cfg s tr, u ≤ (run cfg s tr).lastActivity := by
  induction tr with
  | nil => intro s lo _ _; exact ⟨Int.le_refl _, by simp [ioTimes]⟩
  | cons e r ih =>
    intro s lo hm hs
    have hla := step_la cfg s e
    have ⟨h1, h2⟩ := ih (step cfg s e) e.time hm.2 (by rw [hla]; split <;> first | exact Int.le_refl _ | exact Int.le_trans hs hm.1)
    rw [run_cons]
    refine ⟨?_, ?_⟩
    · refine Int.le_trans ?_ h1
      rw [hla]; split <;> first | exact Int.le_refl _ | exact Int.le_trans hs hm.1
    · intro u hu
      simp only [ioTimes, List.mem_append] at hu
      rcases hu with hu | hu
      · by_cases hc : s.status = .open ∧ clientIO s e = true
        · rw [if_pos hc] at hu hla
          simp only [List.mem_singleton] at hu
          subst hu; rw [← hla]; exact h1
        · rw [if_neg hc] at hu; simp at hu
      · exact h2 u hu

/-- If the trace ends with the connection reaped at `t`, there is a loop iteration
    at `t` that found the connection open and inactive (and the reaper due). -/
theorem reaped_split (cfg : Cfg) (tr : List Ev) : ∀ (s : St) (t : Int), s.status = .open →
    (run cfg s tr).status = .reaped t →
    ∃ pre rest, tr = pre ++ .loopIter t :: rest ∧ (run cfg s pre).status = .open ∧
      due cfg (run cfg s pre).tick = true ∧ isInactive cfg (run cfg s pre) t = true := by
  induction tr with
  | nil => intro s t ho h; rw [run_nil, ho] at h; cases h
  | cons e r ih =>
    intro s t ho h
    rw [run_cons] at h
    by_cases hs : (step cfg s e).status = .open
    · obtain ⟨pre, rest, h1, h2, h3, h4⟩ := ih _ t hs h
      exact ⟨e :: pre, rest, by rw [h1]; rfl, h2, h3, h4⟩
    · rw [run_closed cfg r _ hs] at h
      by_cases hl : ∃ t', e = .loopIter t'
      · obtain ⟨t', rfl⟩ := hl
        rw [step_loop_open cfg s t' ho] at h
        by_cases hc : due cfg s.tick = true ∧ isInactive cfg s t' = true
        · rw [if_pos hc] at h
          cases h
          exact ⟨[], r, rfl, ho, hc.1, hc.2⟩
        · rw [if_neg hc] at h; cases h
      · rcases step_status_nonloop cfg s e (fun t' he => hl ⟨t', he⟩) ho with h' | ⟨t', h'⟩
        · exact absurd h' hs
        · rw [h'] at h; cases h

/-! ## Cadence -/

theorem due_iff (cfg : Cfg) (h : cfg.threaded = true ∨ 0 < cfg.sel + cfg.wait) (k : Nat) :
    due cfg k = true ↔ period cfg ≤ k := by
  by_cases ht : cfg.threaded = true
  · simp [due, period, ht]
  · have hp : 0 < cfg.sel + cfg.wait := by rcases h with h | h <;> first | exact h | exact absurd h ht
    simp only [due, period, ht, Bool.false_or, decide_eq_true_eq, if_false, Bool.false_eq_true]
    generalize cfg.sel + cfg.wait = p at hp
    generalize cfg.cleanup = c
    rw [← Nat.lt_succ_iff, Nat.div_lt_iff_lt_mul hp, Nat.succ_mul]
    omega

/-! ## The bounded-delay argument -/

/-- an open connection with nothing queued whose last client-side I/O was at `t0` -/
structure IdleAt (s : St) (t0 : Int) : Prop where
  op : s.status = .open
  nb : s.numBuffer = 0
  la : s.lastActivity = t0

theorem quiet_step (cfg : Cfg) (s : St) (e : Ev) (t0 : Int) (hi : IdleAt s t0) (hq : Quiet e)
    (hn : ∀ t, e ≠ .loopIter t) : step cfg s e = s := by
  cases e with
  | loopIter t => exact absurd rfl (hn t)
  | clientRead t k => exact absurd hq (by simp [Quiet])
  | clientReadEnd t => exact absurd hq (by simp [Quiet])
  | clientWrite t f => simp [step, hi.op, connStep, hi.nb]
  | upstream t k =>
    simp only [Quiet] at hq; subst hq
    have ho := hi.op
    cases s; simp only at ho; subst ho; simp [step, connStep]

theorem loop_step_reap (cfg : Cfg) (s : St) (t t0 : Int) (hi : IdleAt s t0)
    (hd : due cfg s.tick = true) (ht : t0 + cfg.timeout < t) :
    (step cfg s (.loopIter t)).status = .reaped t := by
  rw [step_loop_open cfg s t hi.op, if_pos]
  refine ⟨hd, (isInactive_iff cfg s t).2 ⟨hi.nb, ?_⟩⟩
  rw [hi.la]; omega

theorem loop_step_keep_due (cfg : Cfg) (s : St) (t t0 : Int) (hi : IdleAt s t0)
    (hd : due cfg s.tick = true) (ht : t ≤ t0 + cfg.timeout) :
    IdleAt (step cfg s (.loopIter t)) t0 ∧ (step cfg s (.loopIter t)).tick = 1 := by
  have hni : isInactive cfg s t = false := by
    cases h : isInactive cfg s t with
    | false => rfl
    | true => have := ((isInactive_iff cfg s t).1 h).2; rw [hi.la] at this; omega
  refine ⟨⟨?_, ?_, ?_⟩, ?_⟩ <;> simp [step, hd, hi.op, hni, hi.nb, hi.la]

theorem loop_step_keep_notdue (cfg : Cfg) (s : St) (t t0 : Int) (hi : IdleAt s t0)
    (hd : due cfg s.tick = false) :
    IdleAt (step cfg s (.loopIter t)) t0 ∧ (step cfg s (.loopIter t)).tick = s.tick + 1 := by
  refine ⟨⟨?_, ?_, ?_⟩, ?_⟩ <;> simp [step, hd, hi.op, hi.nb, hi.la]

theorem succ_mul_cast (n : Nat) (D : Int) : ((n + 1 : Nat) : Int) * D = (n : Int) * D + D := by
  rw [Int.natCast_succ, Int.add_mul, Int.one_mul]

theorem natmul_nonneg (n : Nat) (D : Int) (hD : 0 ≤ D) : 0 ≤ (n : Int) * D :=
  Int.mul_nonneg (Int.natCast_nonneg n) hD

/-- Phase B: the idle threshold has already passed at the previous iteration (`last`);
    the reaper is due at the latest `m` iterations from now. -/
theorem phaseB (cfg : Cfg) (N : Nat) (D t0 : Int) (hdue : ∀ k, due cfg k = true ↔ N ≤ k) (hD : 0 ≤ D)
    (tr : List Ev) : ∀ (s : St) (last : Int) (m : Nat) (Bd : Int), IdleAt s t0 →
    t0 + cfg.timeout < last → N ≤ s.tick + m → last + D + (m : Int) * D ≤ Bd →
    (∀ e ∈ tr, Quiet e) → Paced D last tr →
    (∃ t, (run cfg s tr).status = .reaped t ∧ t ≤ Bd) ∨
      ((run cfg s tr).status = .open ∧ lastIter last tr + D ≤ Bd) := by
  induction tr with
  | nil =>
    intro s last m Bd hi _ _ hB _ _
    have := natmul_nonneg m D hD
    exact .inr ⟨hi.op, by simp only [lastIter]; omega⟩
  | cons e r ih =>
    intro s last m Bd hi hl hm hB hq hp
    have hqr : ∀ e ∈ r, Quiet e := fun x hx => hq x (List.mem_cons_of_mem _ hx)
    have hqe : Quiet e := hq e List.mem_cons_self
    rw [run_cons]
    cases e with
    | loopIter t =>
      simp only [Paced] at hp
      simp only [lastIter]
      obtain ⟨hp1, hp2, hp3⟩ := hp
      have := natmul_nonneg m D hD
      cases hd : due cfg s.tick with
      | true =>
        have hr := loop_step_reap cfg s t t0 hi hd (by omega)
        exact .inl ⟨t, run_reaped cfg r _ t hr, by omega⟩
      | false =>
        have hlt : ¬ N ≤ s.tick := fun h => by rw [(hdue _).2 h] at hd; cases hd
        obtain ⟨hi', htick⟩ := loop_step_keep_notdue cfg s t t0 hi hd
        cases m with
        | zero => omega
        | succ m' =>
          have hc := succ_mul_cast m' D
          exact ih _ t m' Bd hi' (by omega) (by rw [htick]; omega) (by omega) hqr hp3
    | clientReadEnd t => exact absurd hqe (by simp [Quiet])
    | clientRead t k =>
      rw [quiet_step cfg s _ t0 hi hqe (by intro t h; cases h)]
      exact ih s last m Bd hi hl hm hB hqr hp
    | clientWrite t f =>
      rw [quiet_step cfg s _ t0 hi hqe (by intro t h; cases h)]
      exact ih s last m Bd hi hl hm hB hqr hp
    | upstream t k =>
      rw [quiet_step cfg s _ t0 hi hqe (by intro t h; cases h)]
      exact ih s last m Bd hi hl hm hB hqr hp

/-- Phase A: the previous iteration (`last`) was not yet past the idle threshold. -/
theorem phaseA (cfg : Cfg) (N : Nat) (D t0 : Int) (hdue : ∀ k, due cfg k = true ↔ N ≤ k) (hD : 0 ≤ D)
    (tr : List Ev) : ∀ (s : St) (last : Int), IdleAt s t0 → last ≤ t0 + cfg.timeout →
    (∀ e ∈ tr, Quiet e) → Paced D last tr →
    (∃ t, (run cfg s tr).status = .reaped t ∧ t ≤ t0 + cfg.timeout + D + (N : Int) * D) ∨
      ((run cfg s tr).status = .open ∧ lastIter last tr + D ≤ t0 + cfg.timeout + D + (N : Int) * D) := by
  induction tr with
  | nil =>
    intro s last hi hl _ _
    have := natmul_nonneg N D hD
    exact .inr ⟨hi.op, by simp only [lastIter]; omega⟩
  | cons e r ih =>
    intro s last hi hl hq hp
    have hqr : ∀ e ∈ r, Quiet e := fun x hx => hq x (List.mem_cons_of_mem _ hx)
    have hqe : Quiet e := hq e List.mem_cons_self
    cases e with
    | loopIter t =>
      simp only [Paced] at hp
      obtain ⟨hp1, hp2, hp3⟩ := hp
      have hN := natmul_nonneg N D hD
      by_cases hth : t ≤ t0 + cfg.timeout
      · -- still below the threshold: whatever the reaper does, the connection stays
        rw [run_cons]; simp only [lastIter]
        cases hd : due cfg s.tick with
        | true => exact ih _ t (loop_step_keep_due cfg s t t0 hi hd hth).1 hth hqr hp3
        | false => exact ih _ t (loop_step_keep_notdue cfg s t t0 hi hd).1 hth hqr hp3
      · cases hd : due cfg s.tick with
        | true =>
          have hr := loop_step_reap cfg s t t0 hi hd (by omega)
          rw [run_cons]
          exact .inl ⟨t, run_reaped cfg r _ t hr, by omega⟩
        | false =>
          have hlt : ¬ N ≤ s.tick := fun h => by rw [(hdue _).2 h] at hd; cases hd
          obtain ⟨hi', htick⟩ := loop_step_keep_notdue cfg s t t0 hi hd
          cases N with
          | zero => omega
          | succ n =>
            have hc := succ_mul_cast n D
            have := phaseB cfg (n + 1) D t0 hdue hD r _ t n (t0 + cfg.timeout + D + ((n + 1 : Nat) : Int) * D)
              hi' (by omega) (by rw [htick]; omega) (by omega) hqr hp3
            rw [run_cons]; simp only [lastIter]; exact this
    | clientReadEnd t => exact absurd hqe (by simp [Quiet])
    | clientRead t k =>
      rw [run_cons, quiet_step cfg s _ t0 hi hqe (by intro t h; cases h)]
      exact ih s last hi hl hqr hp
    | clientWrite t f =>
      rw [run_cons, quiet_step cfg s _ t0 hi hqe (by intro t h; cases h)]
      exact ih s last hi hl hqr hp
    | upstream t k =>
      rw [run_cons, quiet_step cfg s _ t0 hi hqe (by intro t h; cases h)]
      exact ih s last hi hl hqr hp

/-- every loop iteration of a paced trace is no later than the last one -/
theorem le_lastIter (D : Int) (tr : List Ev) : ∀ (last : Int), Paced D last tr →
    last ≤ lastIter last tr ∧ ∀ t, Ev.loopIter t ∈ tr → t ≤ lastIter last tr := by
  induction tr with
  | nil => intro last _; exact ⟨Int.le_refl _, by simp⟩
  | cons e r ih =>
    intro last hp
    cases e with
    | loopIter t' =>
      simp only [Paced] at hp
      simp only [lastIter]
      have ⟨h1, h2⟩ := ih t' hp.2.2
      refine ⟨Int.le_trans hp.1 h1, ?_⟩
      intro t ht
      rcases List.mem_cons.1 ht with h | h
      · cases h; exact h1
      · exact h2 t h
    | clientRead t' k =>
      simp only [Paced] at hp; simp only [lastIter]
      have ⟨h1, h2⟩ := ih last hp
      exact ⟨h1, fun t ht => h2 t (by rcases List.mem_cons.1 ht with h | h <;> first | exact h | cases h)⟩
    | clientWrite t' f =>
      simp only [Paced] at hp; simp only [lastIter]
      have ⟨h1, h2⟩ := ih last hp
      exact ⟨h1, fun t ht => h2 t (by rcases List.mem_cons.1 ht with h | h <;> first | exact h | cases h)⟩
    | clientReadEnd t' =>
      simp only [Paced] at hp; simp only [lastIter]
      have ⟨h1, h2⟩ := ih last hp
      exact ⟨h1, fun t ht => h2 t (by rcases List.mem_cons.1 ht with h | h <;> first | exact h | cases h)⟩
    | upstream t' k =>
      simp only [Paced] at hp; simp only [lastIter]
      have ⟨h1, h2⟩ := ih last hp
      exact ⟨h1, fun t ht => h2 t (by rcases List.mem_cons.1 ht with h | h <;> first | exact h | cases h)⟩

/-- cadence of the loop: starting from `tick = k ≤ N`, the next `N - k` iterations do not
    run the reaper, the one after does, and leaves `tick = 1` -/
theorem reaperIters_skip (cfg : Cfg) (N : Nat) (hdue : ∀ k, due cfg k = true ↔ N ≤ k) :
    ∀ (j n k i : Nat), k + j = N → reaperIters cfg (j + 1 + n) k i = (i + j + 1) :: reaperIters cfg n 1 (i + j + 1) := by
  intro j
  induction j with
  | zero =>
    intro n k i hk
    have hd : due cfg k = true := (hdue k).2 (by omega)
    have : 0 + 1 + n = n + 1 := by omega
    rw [this]; simp [reaperIters, hd]
  | succ j ih =>
    intro n k i hk
    have hd : due cfg k = false := by
      cases h : due cfg k with
      | false => rfl
      | true => have := (hdue k).1 h; omega
    have : j + 1 + 1 + n = (j + 1 + n) + 1 := by omega
    rw [this]; simp only [reaperIters, hd, Bool.false_eq_true, if_false]
    rw [ih n (k + 1) (i + 1) (by omega)]
    have : i + 1 + j + 1 = i + (j + 1) + 1 := by omega
    rw [this]

/-! ## Piece level: queued pieces (possibly empty) drain -/

theorem effMax_pos (m : Nat) : 0 < effMax m := by
  unfold effMax
  split
  · exact (by decide : 0 < Px.Gen.defaultMaxSendSize)
  · omega

/-- an empty head piece is popped by any flush in which `send()` returns (0 == len) -/
theorem flush_empty_head (m a : Nat) (r : List Nat) : flushPieces m (some a) (0 :: r) = r := by
  simp [flushPieces]

/-- a flush pops at most the head piece -/
theorem flush_length (m : Nat) (acc : Option Nat) (ps : List Nat) :
    (flushPieces m acc ps).length = ps.length ∨ (flushPieces m acc ps).length + 1 = ps.length := by
  cases ps with
  | nil => simp [flushPieces]
  | cons p r =>
    cases acc with
    | none => simp [flushPieces]
    | some a =>
      simp only [flushPieces]
      split <;> simp

/-- bytes still to go plus one per piece: what every successful flush decreases -/
def weight : List Nat → Nat
  | [] => 0
  | p :: r => p + 1 + weight r

theorem flush_weight (m a : Nat) (ha : 1 ≤ a) (p : Nat) (r : List Nat) :
    weight (flushPieces m (some a) (p :: r)) + 1 ≤ weight (p :: r) := by
  have hm := effMax_pos m
  simp only [flushPieces]
  split
  · simp only [weight]; omega
  · rename_i hne
    simp only [weight]
    have : 1 ≤ min a (min p (effMax m)) := by
      have : p ≠ 0 := by intro h; subst h; simp at hne
      omega
    omega

/-- however the pieces are cut (empty ones included), `weight` flushes in which the socket
    accepts at least one byte empty the buffer -/
theorem flush_drains (m : Nat) (accs : List Nat) : ∀ (ps : List Nat), (∀ a ∈ accs, 1 ≤ a) →
    weight ps ≤ accs.length → accs.foldl (fun ps a => flushPieces m (some a) ps) ps = [] := by
  induction accs with
  | nil =>
    intro ps _ h
    cases ps with
    | nil => rfl
    | cons p r => simp [weight] at h
  | cons a as ih =>
    intro ps ha h
    simp only [List.foldl_cons]
    apply ih _ (fun x hx => ha x (List.mem_cons_of_mem _ hx))
    cases ps with
    | nil => simp [flushPieces, weight]
    | cons p r =>
      have := flush_weight m a (ha a List.mem_cons_self) p r
      simp only [List.length_cons] at h
      omega

/-- the counter of the trace model is the number of queued pieces -/
def PInv (ps : PSt) : Prop := ps.st.numBuffer = ps.pieces.length

theorem pinv_init (t0 : Int) : PInv (pinit t0) := rfl

theorem pinv_step (cfg : Cfg) (m : Nat) (ps : PSt) (e : PEv) (h : PInv ps) : PInv (pstep cfg m ps e) := by
  unfold PInv at *
  cases hs : ps.st.status with
  | «open» =>
    cases e with
    | loopIter t => simp only [pstep, PEv.toEv, step, hs]; split <;> simpa using h
    | clientReadEnd t =>
      simp only [pstep, PEv.toEv, step, hs, connStep]; split <;> simpa using h
    | clientRead t lens =>
      simp only [pstep, PEv.toEv, step, hs, connStep]
      cases ps.st.readsTorn <;> simp [h]
    | upstream t lens => simp [pstep, PEv.toEv, step, hs, connStep, h]
    | clientWrite t acc =>
      simp only [pstep, PEv.toEv, step, hs, connStep]
      have hl := flush_length m acc ps.pieces
      by_cases h0 : ps.st.numBuffer = 0
      · have : ps.pieces = [] := List.eq_nil_of_length_eq_zero (by omega)
        simp [h0, this, flushPieces]
      · simp only [h0, if_false]
        by_cases hlt : (flushPieces m acc ps.pieces).length < ps.pieces.length
        · simp only [hlt, decide_true, if_true]; omega
        · simp only [hlt, decide_false]; simp; omega
  | reaped t0 =>
    have : (step cfg ps.st (e.toEv m ps)).numBuffer = ps.st.numBuffer := by
      cases e <;> simp only [PEv.toEv, step, hs] <;> (try split) <;> simp_all
    simp only [pstep, hs, this]; exact h
  | torn t0 =>
    have : (step cfg ps.st (e.toEv m ps)).numBuffer = ps.st.numBuffer := by
      cases e <;> simp only [PEv.toEv, step, hs] <;> (try split) <;> simp_all
    simp only [pstep, hs, this]; exact h

theorem pinv_run (cfg : Cfg) (m : Nat) (tr : List PEv) : ∀ (ps : PSt), PInv ps → PInv (prun cfg m ps tr) := by
  induction tr with
  | nil => intro ps h; exact h
  | cons e r ih => intro ps h; exact ih _ (pinv_step cfg m ps e h)

/-- a writable report on a connection that is still being read: it stays open and still read,
    and the pieces are what `flush` leaves -/
theorem pstep_write (cfg : Cfg) (m : Nat) (ps : PSt) (t : Int) (acc : Option Nat)
    (ho : ps.st.status = .open) (hr : ps.st.readsTorn = false) :
    (pstep cfg m ps (.clientWrite t acc)).st.status = .open ∧
    (pstep cfg m ps (.clientWrite t acc)).st.readsTorn = false ∧
    (pstep cfg m ps (.clientWrite t acc)).pieces = flushPieces m acc ps.pieces := by
  simp only [pstep, PEv.toEv, step, ho, connStep]
  by_cases h0 : ps.st.numBuffer = 0 <;> simp [h0, ho, hr]

end Px.Idle
