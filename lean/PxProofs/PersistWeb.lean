import PxProofs.PersistSeg
/-!
# C04 helper lemmas, part 5: web server and reverse proxy over requests that never share a segment
-/
namespace Px.Persist
open Px Px.Parser

theorem wrun_append (cfg : WCfg) (s : WSt) (a b : List Bytes) :
    wrun cfg s (a ++ b) = wrun cfg (wrun cfg s a) b := by
  induction a generalizing s with
  | nil => rfl
  | cons x xs ih => simp only [List.cons_append, wrun]; exact ih _

/-- the first request of a web-server connection -/
def WebFirstOk (cfg : WCfg) (x : Bytes) (P : Parser) (k : Nat) : Prop :=
  oneReq x = some P ∧ isWebRequest P = true ∧ isWebsocketUpgrade P = false ∧
  Px.Url.utf8Valid (webPath P) = true ∧ tryRoute cfg (webPath P) = some k ∧ isKeepAlive P = true

/-- a follow-up request (keep-alive) -/
def WebLaterOk (x : Bytes) (P : Parser) : Prop := oneReq x = some P ∧ isKeepAlive P = true

/-- the handler's first-request phase over the pieces of one web request -/
theorem wrun_first (cfg : WCfg) (segs : List Bytes) (p P : Parser) (k : Nat)
    (hf : Forward.feedUntilComplete Forward.pcfg p segs = .ok (P, [])) (hc : P.state = .complete)
    (hnc : p.state ≠ .complete) (hw : isWebRequest P = true) (hws : isWebsocketUpgrade P = false)
    (hu : Px.Url.utf8Valid (webPath P) = true) (hr : tryRoute cfg (webPath P) = some k)
    (s : WSt) (hph : s.phase = .first) (hrq : s.request = p) :
    wrun cfg s segs = { s with phase := .routed, request := P, route := some k,
                               out := s.out ++ [cfg.respond k P], calls := s.calls ++ [(k, P)] } := by
  induction segs generalizing p s with
  | nil =>
    simp only [Forward.feedUntilComplete, Except.ok.injEq, Prod.mk.injEq] at hf
    rw [hf.1] at hnc; exact absurd hc hnc
  | cons x xs ih =>
    unfold Forward.feedUntilComplete at hf
    cases hp : parse Forward.pcfg p x with
    | error e => simp [hp] at hf
    | ok p' =>
      simp only [hp] at hf
      by_cases hpc : p'.state = .complete
      · simp only [hpc, beq_self_eq_true, if_true, Except.ok.injEq, Prod.mk.injEq] at hf
        obtain ⟨rfl, rfl⟩ := hf
        simp only [wrun, wseg, hph, hrq, hp, hpc, bne_self_eq_false, Bool.false_eq_true, if_false, hw, hws,
          Bool.not_true, Bool.or_self, hu, hr]
      · have hb : (p'.state == PState.complete) = false := by simpa using hpc
        simp only [hb, Bool.false_eq_true, if_false] at hf
        have hne : (p'.state != PState.complete) = true := by simpa using hpc
        have h1 : wseg cfg s x = { s with request := p' } := by
          simp only [wseg, hph, hrq, hp, hne, if_true]
        rw [wrun, h1, ih p' hf hpc { s with request := p' } hph rfl]

/-- the keep-alive pipeline parser over the pieces of one follow-up request -/
theorem wrun_later (cfg : WCfg) (segs : List Bytes) (p P : Parser) (k : Nat)
    (hf : Forward.feedUntilComplete Forward.pcfg p segs = .ok (P, [])) (hc : P.state = .complete)
    (hnc : p.state ≠ .complete) (hka : isKeepAlive P = true)
    (s : WSt) (hph : s.phase = .routed) (hrt : s.route = some k) (hrk : isKeepAlive s.request = true)
    (hpipe : s.pipe = some p ∨ (s.pipe = none ∧ p = init .request)) :
    wrun cfg s segs = { s with pipe := none, out := s.out ++ [cfg.respond k P], calls := s.calls ++ [(k, P)] } := by
  induction segs generalizing p s with
  | nil =>
    simp only [Forward.feedUntilComplete, Except.ok.injEq, Prod.mk.injEq] at hf
    rw [hf.1] at hnc; exact absurd hc hnc
  | cons x xs ih =>
    unfold Forward.feedUntilComplete at hf
    cases hp : parse Forward.pcfg p x with
    | error e => simp [hp] at hf
    | ok p' =>
      simp only [hp] at hf
      have hgd : s.pipe.getD (init .request) = p := by
        rcases hpipe with h | ⟨h, rfl⟩ <;> simp [h]
      by_cases hpc : p'.state = .complete
      · simp only [hpc, beq_self_eq_true, if_true, Except.ok.injEq, Prod.mk.injEq] at hf
        obtain ⟨rfl, rfl⟩ := hf
        simp only [wrun, wseg, hph, hrt, hrk, Bool.not_true, Bool.false_eq_true, if_false, hgd, hp, hpc,
          beq_self_eq_true, if_true, hka]
      · have hb : (p'.state == PState.complete) = false := by simpa using hpc
        simp only [hb, Bool.false_eq_true, if_false] at hf
        have h1 : wseg cfg s x = { s with pipe := some p' } := by
          simp only [wseg, hph, hrt, hrk, Bool.not_true, Bool.false_eq_true, if_false, hgd, hp, hb]
        rw [wrun, h1, ih p' hf hpc { s with pipe := some p' } hph hrt hrk (.inl rfl)]

theorem wrun_laters (cfg : WCfg) (k : Nat) (xs : List Bytes) (Ps : List Parser) (segss : List (List Bytes))
    (hl : All₂ WebLaterOk xs Ps) (hc : All₂ Cuts segss xs)
    (s : WSt) (hph : s.phase = .routed) (hrt : s.route = some k) (hrk : isKeepAlive s.request = true)
    (hpipe : s.pipe = none) :
    wrun cfg s segss.flatten = { s with out := s.out ++ Ps.map (cfg.respond k), calls := s.calls ++ Ps.map (k, ·) } := by
  induction hl generalizing segss s with
  | nil => cases hc; simp [wrun]
  | @cons x P xs Ps hx _ ih =>
    cases hc with
    | @cons segs _ segss' _ hcx hcs =>
      have h1 := wrun_later cfg segs (init .request) P k (feed_cuts hx.1 hcx) (oneReq_spec hx.1).2.1
        init_not_complete hx.2 s hph hrt hrk (.inr ⟨hpipe, rfl⟩)
      rw [List.flatten_cons, wrun_append, h1,
        ih segss' hcs { s with pipe := none, out := s.out ++ [cfg.respond k P], calls := s.calls ++ [(k, P)] }
          hph hrt hrk rfl]
      simp [List.append_assoc, hpipe]

/-- **web server, segment level** -/
theorem wrun_requests (cfg : WCfg) (x₁ : Bytes) (P₁ : Parser) (k : Nat) (xs : List Bytes) (Ps : List Parser)
    (segs₁ : List Bytes) (segss : List (List Bytes))
    (h1 : WebFirstOk cfg x₁ P₁ k) (hl : All₂ WebLaterOk xs Ps) (hc1 : Cuts segs₁ x₁) (hc : All₂ Cuts segss xs) :
    wrun cfg {} (segs₁ ++ segss.flatten) =
      { phase := .routed, request := P₁, route := some k, pipe := none,
        out := (P₁ :: Ps).map (cfg.respond k), calls := (P₁ :: Ps).map (k, ·) } := by
  obtain ⟨ho, hw, hws, hu, hr, hka⟩ := h1
  have f := wrun_first cfg segs₁ (init .request) P₁ k (feed_cuts ho hc1) (oneReq_spec ho).2.1
    init_not_complete hw hws hu hr {} rfl rfl
  rw [wrun_append, f, wrun_laters cfg k xs Ps segss hl hc _ rfl rfl hka rfl]
  simp


/-! ## reverse proxy: routes answered by the plugin itself -/
open Px Px.Parser Px.Reverse

/-- in every plugin the first matching route (if any) is a dynamic route whose `handle_route`
    returns a literal response -/
def litOnly (m : Nat → Bool) (t : Table) : Bool :=
  t.all (fun p => match firstMatch m p with
    | none => true
    | some (.dynamic _ (.literal _)) => true
    | _ => false)

/-- the literal responses of the matching routes, in plugin order -/
def litResps (m : Nat → Bool) (t : Table) : List Bytes :=
  t.filterMap (fun p => match firstMatch m p with
    | some (.dynamic _ (.literal r)) => some r
    | _ => none)

theorem routeLoop_lit (cfg : Reverse.Cfg) (m : Nat → Bool) (pick : Nat → Nat) (t : Table) (i : Nat) (s : Reverse.St)
    (needs : Bool) (h : litOnly m t = true) :
    routeLoop cfg m pick i t s needs =
      ({ s with client := { s.client with buffer := s.client.buffer ++ litResps m t } }, needs, none) := by
  induction t generalizing i s with
  | nil => simp [routeLoop, litResps]
  | cons p ps ih =>
    simp only [litOnly, List.all_cons, Bool.and_eq_true] at h
    have hps : litOnly m ps = true := h.2
    unfold routeLoop
    cases hf : firstMatch m p with
    | none =>
      simp only []
      rw [ih _ _ hps]
      simp [litResps, hf]
    | some r =>
      have h1 := h.1
      rw [hf] at h1
      cases r with
      | «static» pat urls => simp at h1
      | dynamic pat res =>
        cases res with
        | url u => simp at h1
        | raises e => simp at h1
        | literal resp =>
          simp only [routeAct]
          rw [ih _ _ hps]
          simp [litResps, hf, Conn.queue, List.append_assoc]

theorem handleRequest_lit (cfg : Reverse.Cfg) (m : Nat → Bool) (pick : Nat → Nat) (ok : Bool) (t : Table)
    (req : Parser) (s : Reverse.St) (hp : req.path.isSome = true) (h : litOnly m t = true) :
    handleRequest cfg m pick ok t req s =
      ⟨{ s with client := { s.client with buffer := s.client.buffer ++ litResps m t } }, false, none⟩ := by
  unfold handleRequest
  have : req.path.isNone = false := by
    cases hpp : req.path <;> simp [hpp] at hp ⊢
  simp only [this, Bool.false_and, Bool.false_eq_true, if_false, routeLoop_lit cfg m pick t 0 s false h]

theorem onRequestComplete_lit (cfg : Reverse.Cfg) (m : Nat → Bool) (pick : Nat → Nat) (ok : Bool) (t : Table)
    (req : Parser) (s : Reverse.St) (hp : req.path.isSome = true) (hu : Px.Url.utf8Valid (Reverse.webPath req) = true)
    (hm : anyMatch m t = true) (h : litOnly m t = true) :
    onRequestComplete cfg m pick ok t req s =
      ⟨{ s with client := { s.client with buffer := s.client.buffer ++ litResps m t } }, false, none⟩ := by
  unfold onRequestComplete
  rw [if_neg (by rw [hu]; simp), if_pos hm]
  exact handleRequest_lit cfg m pick ok t req s hp h

theorem rrun_append (cfg : RCfg) (s : RSt) (a b : List REv) : rrun cfg s (a ++ b) = rrun cfg (rrun cfg s a) b := by
  induction a generalizing s with
  | nil => rfl
  | cons x xs ih => simp only [List.cons_append, rrun]; exact ih _

/-- first request of a reverse-proxied connection, answered by the plugin(s) -/
def RevFirstOk (cfg : RCfg) (x : Bytes) (P : Parser) : Prop :=
  oneReq x = some P ∧ isWebRequest P = true ∧ isWebsocketUpgrade P = false ∧ P.path.isSome = true ∧
  Px.Url.utf8Valid (webPath P) = true ∧ anyMatch (cfg.matchPat (webPath P)) cfg.table = true ∧
  litOnly (cfg.matchPat (webPath P)) cfg.table = true ∧ isKeepAlive P = true

def RevLaterOk (cfg : RCfg) (x : Bytes) (P : Parser) : Prop :=
  oneReq x = some P ∧ P.path.isSome = true ∧ litOnly (cfg.matchPat (revPath P)) cfg.table = true ∧
  isKeepAlive P = true

/-- what the plugin(s) answer to a parsed request -/
def revAnswer (cfg : RCfg) (first : Bool) (P : Parser) : List Bytes :=
  litResps (cfg.matchPat (if first then webPath P else revPath P)) cfg.table

theorem rrun_first (cfg : RCfg) (segs : List Bytes) (p P : Parser)
    (hf : Forward.feedUntilComplete Forward.pcfg p segs = .ok (P, [])) (hc : P.state = .complete)
    (hnc : p.state ≠ .complete) (hw : isWebRequest P = true) (hws : isWebsocketUpgrade P = false)
    (hpa : P.path.isSome = true) (hu : Px.Url.utf8Valid (webPath P) = true)
    (hm : anyMatch (cfg.matchPat (webPath P)) cfg.table = true)
    (hl : litOnly (cfg.matchPat (webPath P)) cfg.table = true)
    (s : RSt) (hph : s.phase = .first) (hrq : s.request = p) :
    rrun cfg s (segs.map .cseg) =
      { s with phase := .routed, request := P, handled := s.handled + 1,
               rv := { s.rv with client := { s.rv.client with buffer := s.rv.client.buffer ++ revAnswer cfg true P } } } := by
  induction segs generalizing p s with
  | nil =>
    simp only [Forward.feedUntilComplete, Except.ok.injEq, Prod.mk.injEq] at hf
    rw [hf.1] at hnc; exact absurd hc hnc
  | cons x xs ih =>
    unfold Forward.feedUntilComplete at hf
    cases hp : parse Forward.pcfg p x with
    | error e => simp [hp] at hf
    | ok p' =>
      simp only [hp] at hf
      by_cases hpc : p'.state = .complete
      · simp only [hpc, beq_self_eq_true, if_true, Except.ok.injEq, Prod.mk.injEq] at hf
        obtain ⟨rfl, rfl⟩ := hf
        have hr : rfirst cfg { s with request := p' } p' =
            { s with phase := .routed, request := p', handled := s.handled + 1,
                     rv := { s.rv with client := { s.rv.client with buffer := s.rv.client.buffer ++ revAnswer cfg true p' } } } := by
          unfold rfirst
          have hinv : (!(cfg.table.any (fun pl => !pl.isEmpty) && !Px.Url.utf8Valid (webPath p')) &&
              anyMatch (cfg.matchPat (webPath p')) cfg.table) = true := by rw [hu, hm]; simp
          simp only [hinv, if_true, onRequestComplete_lit cfg.rv _ _ true cfg.table p' s.rv hpa hu hm hl, afterHandle,
            Nat.sub_self, List.replicate_zero, List.append_nil, hph]
          simp [revAnswer]
        have hstep : rstep cfg s (.cseg x) = rfirst cfg { s with request := p' } p' := by
          simp only [rstep, hph, hrq, hp, hpc, bne_self_eq_false, Bool.false_eq_true, if_false, hw, hws,
            Bool.not_true, Bool.or_self]
          simp
        rw [List.map_cons, List.map_nil, rrun, rrun, hstep, hr]
      · have hb : (p'.state == PState.complete) = false := by simpa using hpc
        simp only [hb, Bool.false_eq_true, if_false] at hf
        have hne : (p'.state != PState.complete) = true := by simpa using hpc
        have h1 : rstep cfg s (.cseg x) = { s with request := p' } := by
          simp only [rstep, hph, hrq, hp, hne, if_true]
          simp
        rw [List.map_cons, rrun, h1, ih p' hf hpc { s with request := p' } hph rfl]

theorem rrun_later (cfg : RCfg) (segs : List Bytes) (p P : Parser)
    (hf : Forward.feedUntilComplete Forward.pcfg p segs = .ok (P, [])) (hc : P.state = .complete)
    (hnc : p.state ≠ .complete) (hpa : P.path.isSome = true)
    (hl : litOnly (cfg.matchPat (revPath P)) cfg.table = true) (hka : isKeepAlive P = true)
    (s : RSt) (hph : s.phase = .routed) (hrk : isKeepAlive s.request = true)
    (hpipe : s.pipe = some p ∨ (s.pipe = none ∧ p = init .request)) :
    rrun cfg s (segs.map .cseg) =
      { s with pipe := none, handled := s.handled + 1,
               rv := { s.rv with client := { s.rv.client with buffer := s.rv.client.buffer ++ revAnswer cfg false P } } } := by
  induction segs generalizing p s with
  | nil =>
    simp only [Forward.feedUntilComplete, Except.ok.injEq, Prod.mk.injEq] at hf
    rw [hf.1] at hnc; exact absurd hc hnc
  | cons x xs ih =>
    unfold Forward.feedUntilComplete at hf
    cases hp : parse Forward.pcfg p x with
    | error e => simp [hp] at hf
    | ok p' =>
      simp only [hp] at hf
      have hgd : s.pipe.getD (init .request) = p := by
        rcases hpipe with h | ⟨h, rfl⟩ <;> simp [h]
      by_cases hpc : p'.state = .complete
      · simp only [hpc, beq_self_eq_true, if_true, Except.ok.injEq, Prod.mk.injEq] at hf
        obtain ⟨rfl, rfl⟩ := hf
        have hstep : rstep cfg s (.cseg x) =
            { s with pipe := none, handled := s.handled + 1,
                     rv := { s.rv with client := { s.rv.client with buffer := s.rv.client.buffer ++ revAnswer cfg false p' } } } := by
          simp only [rstep, hph, hrk, Bool.not_true, Bool.false_eq_true, if_false, hgd, hp, hpc, beq_self_eq_true,
            if_true, handleRequest_lit cfg.rv _ _ true cfg.table p' s.rv hpa hl, afterHandle, Nat.sub_self,
            List.replicate_zero, List.append_nil, hka]
          simp [revAnswer]
        rw [List.map_cons, List.map_nil, rrun, rrun, hstep]
      · have hb : (p'.state == PState.complete) = false := by simpa using hpc
        simp only [hb, Bool.false_eq_true, if_false] at hf
        have h1 : rstep cfg s (.cseg x) = { s with pipe := some p' } := by
          simp only [rstep, hph, hrk, Bool.not_true, Bool.false_eq_true, if_false, hgd, hp, hb]
          simp
        rw [List.map_cons, rrun, h1, ih p' hf hpc { s with pipe := some p' } hph hrk (.inl rfl)]

theorem rrun_laters (cfg : RCfg) (xs : List Bytes) (Ps : List Parser) (segss : List (List Bytes))
    (hl : All₂ (RevLaterOk cfg) xs Ps) (hc : All₂ Cuts segss xs)
    (s : RSt) (hph : s.phase = .routed) (hrk : isKeepAlive s.request = true) (hpipe : s.pipe = none) :
    rrun cfg s (segss.flatten.map .cseg) =
      { s with handled := s.handled + Ps.length,
               rv := { s.rv with client := { s.rv.client with
                 buffer := s.rv.client.buffer ++ (Ps.map (revAnswer cfg false)).flatten } } } := by
  induction hl generalizing segss s with
  | nil => cases hc; simp [rrun]
  | @cons x P xs Ps hx _ ih =>
    cases hc with
    | @cons segs _ segss' _ hcx hcs =>
      obtain ⟨ho, hpa, hlit, hka⟩ := hx
      have h1 := rrun_later cfg segs (init .request) P (feed_cuts ho hcx) (oneReq_spec ho).2.1
        init_not_complete hpa hlit hka s hph hrk (.inr ⟨hpipe, rfl⟩)
      rw [List.flatten_cons, List.map_append, rrun_append, h1, ih segss' hcs]
      · simp [List.append_assoc, hpipe, Nat.add_assoc, Nat.add_comm 1]
      · exact hph
      · exact hrk
      · rfl

/-- **reverse proxy, segment level**: every request is answered by the plugin(s) themselves -/
theorem rrun_requests (cfg : RCfg) (x₁ : Bytes) (P₁ : Parser) (xs : List Bytes) (Ps : List Parser)
    (segs₁ : List Bytes) (segss : List (List Bytes))
    (h1 : RevFirstOk cfg x₁ P₁) (hl : All₂ (RevLaterOk cfg) xs Ps) (hc1 : Cuts segs₁ x₁) (hc : All₂ Cuts segss xs) :
    rrun cfg {} ((segs₁ ++ segss.flatten).map .cseg) =
      { phase := .routed, request := P₁, pipe := none, handled := 1 + Ps.length,
        rv := { client := { buffer := revAnswer cfg true P₁ ++ (Ps.map (revAnswer cfg false)).flatten } } } := by
  obtain ⟨ho, hw, hws, hpa, hu, hm, hlit, hka⟩ := h1
  have f := rrun_first cfg segs₁ (init .request) P₁ (feed_cuts ho hc1) (oneReq_spec ho).2.1
    init_not_complete hw hws hpa hu hm hlit {} rfl rfl
  rw [List.map_append, rrun_append, f, rrun_laters cfg xs Ps segss hl hc _ rfl hka rfl]
  simp [List.append_assoc]

end Px.Persist
