import PxModel.PluginChain
import PxProofs.ChainLemmas
/-!
# C08 — with proxy authentication on, unauthenticated requests reach nothing

Property theorems only; helper lemmas are in `PxProofs/ChainLemmas.lean`.  The
model (`PxModel/Auth.lean`, `PxModel/PluginChain.lean`) is tied to
`proxy/http/proxy/auth.py`, `proxy/common/flag.py`, `proxy/common/plugins.py`,
`proxy/http/proxy/server.py`, `proxy/http/handler.py` and
`proxy/http/exception/*.py` by the correspondence check `harness/c08.py`.

Modelling notes.
* The specification of "carries exactly the configured credentials" is `credOk`
  (ChainLemmas): split at blanks the header value has exactly two parts, the
  first is `basic` in any letter case, the second equals the configured code
  byte for byte.  `C08_accept_shape` shows that every value of the shape
  *blanks scheme blanks code blanks* satisfies it.
* The header is looked up under the lower-cased key of the parser's header map,
  so the header *name* matches in any letter case; a duplicated header line
  keeps the last value (`C08_dup_last_wins`, about the model's `parseHeaders`,
  which mirrors `HttpParser._process_header` / `add_header`).
* "No request-handling hook of a later plugin runs" — the two per-connection
  lifecycle callbacks (`on_access_log`, `on_upstream_connection_close`) of every
  plugin do run at close (C09); `reqHook` names the request-handling hooks.
-/
namespace Px.Chain
open Px

/-- a configuration with basic authentication on -/
def AuthOn (cfg : Cfg) (c : Bytes) : Prop := cfg.authCode = some c ∧ c ≠ []

example : AuthOn ⟨Auth.authCode (some (b "user:pass")), []⟩ (b "dXNlcjpwYXNz") := by
  refine ⟨by decide +kernel, by decide +kernel⟩

/-- **C08 reject.**  Authentication on, first request (any method — CONNECT
included —, any target, any other headers) whose `proxy-authorization` value is
absent or not exactly the configured credentials: `on_request_complete` raises
`ProxyAuthenticationFailed`, and the *only* effect is the invocation of the auth
plugin's own `before_upstream_connection` — for every list of user plugins
configured after it and whether or not the origin would accept a connection. -/
theorem C08_reject (cfg : Cfg) (c : Bytes) (hc : AuthOn cfg c) (users : List Plugin) (ok : Bool) (r : Req)
    (hbad : ¬ CredOk c (hVal? r.headers Auth.PROXY_AUTHORIZATION)) :
    onRequestComplete cfg (authPlugin cfg :: users) ok r =
      ([Eff.call 0 .before (.req r)], ⟨false, .error .authFailed⟩) := by
  have hchk : Auth.check cfg.authCode (hVal? r.headers Auth.PROXY_AUTHORIZATION) = false := by
    rw [hc.1]
    cases h : Auth.check (some c) (hVal? r.headers Auth.PROXY_AUTHORIZATION) with
    | false => rfl
    | true => exact absurd ((check_iff c hc.2 _).1 h) hbad
  rw [onRequestComplete_eq]
  simp [beforeChain, chain, authPlugin, hchk]

/-- … hence no connection attempt, no byte for the upstream, nothing but the 407
is queued, and no plugin other than the auth plugin is invoked -/
theorem C08_reject_effects (cfg : Cfg) (c : Bytes) (hc : AuthOn cfg c) (users : List Plugin) (ok : Bool) (r : Req)
    (hbad : ¬ CredOk c (hVal? r.headers Auth.PROXY_AUTHORIZATION)) :
    let l := (onRequestComplete cfg (authPlugin cfg :: users) ok r).1
    connects l = [] ∧ upBytes l = [] ∧ (∀ i h a, Eff.call i h a ∈ l → i = 0) := by
  rw [C08_reject cfg c hc users ok r hbad]
  refine ⟨by simp [connOf], by simp [upOfE], ?_⟩
  intro i h a hm
  simp at hm
  exact hm.1

/-- **C08 accept.**  A request carrying the configured credentials passes the
auth plugin unchanged (it is the plugin's return value, handed to the next plugin). -/
theorem C08_accept (cfg : Cfg) (c : Bytes) (hc : AuthOn cfg c) (r : Req)
    (hgood : CredOk c (hVal? r.headers Auth.PROXY_AUTHORIZATION)) :
    (authPlugin cfg).before r = .pass r := by
  have : Auth.check cfg.authCode (hVal? r.headers Auth.PROXY_AUTHORIZATION) = true := by
    rw [hc.1]; exact (check_iff c hc.2 _).2 hgood
  simp [authPlugin, this]

/-- without configured credentials the plugin lets every request through -/
theorem C08_auth_off (cfg : Cfg) (h : cfg.authCode = none) (r : Req) : (authPlugin cfg).before r = .pass r := by
  simp [authPlugin, Auth.check, h]

/-- blanks around the two tokens and the letter case of the scheme are
immaterial: every value `blanks* scheme blanks+ code blanks*` is accepted -/
theorem C08_accept_shape (c s w0 w1 w2 : Bytes) (hs : lower s = Auth.BASIC) (hsn : noWs s) (hsne : s ≠ [])
    (hcn : noWs c) (hcne : c ≠ []) (h0 : allWs w0) (h1 : allWs w1) (h1ne : w1 ≠ []) (h2 : allWs w2) :
    credOk c (w0 ++ s ++ w1 ++ c ++ w2) := by
  unfold credOk
  rw [splitWs_two w0 s w1 c w2 h0 hsn hsne h1 h1ne hcn hcne h2]
  simp [hs]

example : credOk (b "dXNlcjpwYXNz") (b "\t bAsIc \x0b  dXNlcjpwYXNz \r") := by decide +kernel
example : ¬ credOk (b "dXNlcjpwYXNz") (b "Basic dXNlcjpwYXNz; realm=x") := by decide +kernel
example : ¬ credOk (b "dXNlcjpwYXNz") (b "Basic dxnlcjpwyxnz") := by decide +kernel
example : ¬ credOk (b "dXNlcjpwYXNz") (b "Bearer dXNlcjpwYXNz") := by decide +kernel
example : ¬ credOk (b "dXNlcjpwYXNz") (b "BasicdXNlcjpwYXNz") := by decide +kernel

/-- **C08 duplicated header.**  The value found under a key is the one of the
*last* header line filed under that key (name compared after `strip().lower()`),
whatever lines with the same name precede it. -/
theorem C08_dup_last_wins (pre post : List Bytes) (l : Bytes) (h : ∀ m ∈ post, lineKey m ≠ lineKey l) :
    hVal? (parseHeaders (pre ++ l :: post)) (lineKey l) = some (lineVal l) := by
  unfold parseHeaders
  rw [List.foldl_append, List.foldl_cons, foldl_processHeader_other post _ _ h, processHeader_same]

/-- a header name that no line carries is absent -/
theorem C08_absent (lines : List Bytes) (k : Bytes) (h : ∀ m ∈ lines, lineKey m ≠ k) :
    hVal? (parseHeaders lines) k = none := by
  unfold parseHeaders
  rw [foldl_processHeader_other lines _ _ h]
  rfl

example : lineKey (b "PROXY-Authorization :  Basic abc ") = Auth.PROXY_AUTHORIZATION := by decide +kernel
example : hVal? (parseHeaders [b "Proxy-Authorization: Basic good", b "proxy-authorization: Basic bad"])
    Auth.PROXY_AUTHORIZATION = some (b "Basic bad") := by decide +kernel

/-- **C08 response.**  At handler level the connection's first request failing
authentication queues exactly the 407 packet of `proxy/http/responses.py` for
the client and puts the connection into flush-then-close; the plugin object
exists (`dispatched`), no upstream does — also when further bytes (`rest`: more
requests, anything) arrived in the same read behind the request: they are not
looked at. -/
theorem C08_response (cfg : Cfg) (c : Bytes) (hc : AuthOn cfg c) (users : List Plugin) (ok : Bool) (r : Req)
    (hbad : ¬ CredOk c (hVal? r.headers Auth.PROXY_AUTHORIZATION)) (rest : Bytes) (more : List (Req × Bytes)) :
    step cfg (authPlugin cfg :: users) {} (.first r ok rest more) =
      ({ dispatched := true, clBuf := [Px.Gen.pkt_PROXY_AUTH_FAILED_RESPONSE_PKT], closing := true },
       [Eff.call 0 .before (.req r), .clQ Px.Gen.pkt_PROXY_AUTH_FAILED_RESPONSE_PKT]) := by
  have hf : firstStep cfg (authPlugin cfg :: users) {} r ok =
      ({ dispatched := true, clBuf := [Px.Gen.pkt_PROXY_AUTH_FAILED_RESPONSE_PKT], closing := true },
       [Eff.call 0 .before (.req r), .clQ Px.Gen.pkt_PROXY_AUTH_FAILED_RESPONSE_PKT]) := by
    rw [firstStep_eq, C08_reject cfg c hc users ok r hbad]
    simp [raise, Exc.response, tearReq, clItems]
  simp [step, hf]

/-- **C08 whole connection.**  Whatever the client, the (non-existent) upstream
and the socket do afterwards, and however often `shutdown()` runs: over the whole
connection there is no connection attempt, no byte for an upstream, the only
thing ever queued for the client is the 407 packet, and the only request-handling
hook invoked is the auth plugin's own check. -/
theorem C08_reject_conn (cfg : Cfg) (c : Bytes) (hc : AuthOn cfg c) (users : List Plugin) (ok : Bool) (r : Req)
    (hbad : ¬ CredOk c (hVal? r.headers Auth.PROXY_AUTHORIZATION)) (rest : Bytes) (more : List (Req × Bytes))
    (evs : List Ev) (n : Nat)
    (l : Log) (hl : l = conn cfg (authPlugin cfg :: users) (.first r ok rest more :: evs) n) :
    connects l = [] ∧ upBytes l = [] ∧ clItems l = [Px.Gen.pkt_PROXY_AUTH_FAILED_RESPONSE_PKT] ∧
    (∀ i h a, Eff.call i h a ∈ l → reqHook h = true → (i = 0 ∧ h = .before)) := by
  subst hl
  have hstep := C08_response cfg c hc users ok r hbad rest more
  have hq : Quiet (step cfg (authPlugin cfg :: users) {} (.first r ok rest more)).1 := by
    rw [hstep]; exact ⟨rfl, Or.inl rfl⟩
  obtain ⟨_, hall⟩ := quiet_run cfg (authPlugin cfg :: users) _ evs hq
  obtain ⟨q1, q2, q3, q4⟩ := quiet_obs _ hall
  obtain ⟨f1, f2, f3, f4⟩ := sdPart_obs (authPlugin cfg :: users)
    (run cfg (authPlugin cfg :: users) {} (.first r ok rest more :: evs)).1 n
  have hbody : (run cfg (authPlugin cfg :: users) {} (.first r ok rest more :: evs)).2 =
      [Eff.call 0 .before (.req r), .clQ Px.Gen.pkt_PROXY_AUTH_FAILED_RESPONSE_PKT] ++
        (run cfg (authPlugin cfg :: users) (step cfg (authPlugin cfg :: users) {} (.first r ok rest more)).1 evs).2 := by
    simp only [run]; rw [hstep]
  unfold conn
  rw [hbody]
  refine ⟨?_, ?_, ?_, ?_⟩
  · simp only [connects_append, q1, f1]; simp [connOf]
  · simp only [upBytes_append, q2, f2]; simp [upOfE]
  · simp only [clItems_append, q3, f3]; simp [clItems]
  · intro i h a hm hr
    simp only [List.mem_append, List.mem_cons, List.mem_nil_iff, or_false] at hm
    rcases hm with ((hm | hm) | hm) | hm
    · injection hm with h1 h2 h3; exact ⟨h1, h2⟩
    · cases hm
    · exact absurd hm (q4 i h a)
    · have := f4 i h a hm; rw [hr] at this; cases this

/-- **C08 order (model).**  `Plugins.load` of `defaults ++ [auth] ++ requested`:
the auth plugin lies in a prefix of the loaded list that contains no requested
plugin `q` other than itself, unless `q` is also a default plugin — i.e. the
auth plugin precedes every user plugin. -/
theorem C08_order_model (bk auth q : Bytes) (defaults requested : List (Bytes × Bytes))
    (hq : q ≠ auth) (hqd : q ∉ loadBucket bk defaults []) :
    ∃ pre t, loadBucket bk (defaults ++ (auth, bk) :: requested) [] = pre ++ t ∧ auth ∈ pre ∧ q ∉ pre := by
  rw [loadBucket_append]
  have e : loadBucket bk ((auth, bk) :: requested) (loadBucket bk defaults []) =
      loadBucket bk requested (loadBucket bk [(auth, bk)] (loadBucket bk defaults [])) :=
    loadBucket_append bk [(auth, bk)] requested _
  rw [e]
  obtain ⟨t, ht, _⟩ := loadBucket_ext bk requested (loadBucket bk [(auth, bk)] (loadBucket bk defaults []))
  refine ⟨_, t, ht, ?_, ?_⟩
  · simp only [loadBucket, BEq.rfl, Bool.true_and]
    split
    · simp
    · rename_i h
      simp only [Bool.not_eq_true', List.contains_eq_mem, decide_eq_false_iff_not, Decidable.not_not] at h
      exact h
  · simp only [loadBucket, BEq.rfl, Bool.true_and]
    split
    · simp [hqd, hq]
    · exact hqd

/-- one row of the generated table: the model's `loadBucket` reproduces what the
real `Plugins.load` returned, the auth plugin is loaded, and it precedes every
requested plugin -/
def rowOk (row : List (Bytes × Bytes) × Bytes × List Bytes × List Bytes) : Bool :=
  let (arg, auth, req, res) := row
  loadBucket HPB arg [] == res &&
  (auth.isEmpty ||
    (res.contains auth && req.all fun q => q == auth || !res.contains q || res.idxOf auth < res.idxOf q))

/-- **C08 order (code).**  For every flag combination of the generated table
(`harness/gen_constants.py`: with / without basic auth, 0–3 requested plugins in
different orders, duplicates, the auth plugin requested again, other plugin
kinds mixed in): the list the real `FlagParser.initialize` loaded is the one the
model computes, and in it the auth plugin precedes every requested plugin. -/
theorem C08_order : Px.Gen.pluginOrderTable.all rowOk = true := by decide +kernel

/-- the table is not trivial: it has rows with authentication and ≥ 2 requested plugins -/
example : (Px.Gen.pluginOrderTable.filter fun row => !row.2.1.isEmpty && row.2.2.1.length ≥ 2).length ≥ 3 := by
  decide +kernel

/-- `Clean z`: the header map has neither a `proxy-authorization` nor a `proxy-connection` key -/
def Clean (z : Req) : Prop :=
  dHas z.headers Auth.PROXY_AUTHORIZATION = false ∧ dHas z.headers Auth.PROXY_CONNECTION = false

theorem lower_PA : lower Auth.PROXY_AUTHORIZATION = Auth.PROXY_AUTHORIZATION := by decide +kernel
theorem lower_PC : lower Auth.PROXY_CONNECTION = Auth.PROXY_CONNECTION := by decide +kernel
theorem via_ne_PA : lower (b "Via") ≠ Auth.PROXY_AUTHORIZATION := by decide +kernel
theorem via_ne_PC : lower (b "Via") ≠ Auth.PROXY_CONNECTION := by decide +kernel

theorem clean_fwdLater (y : Req) : Clean (fwdLater y) := by
  unfold Clean fwdLater Req.delHeaders STRIP
  simp only [List.foldl_cons, List.foldl_nil, Req.delHeader, lower_PA, lower_PC]
  exact ⟨dHas_dDel_of_not _ _ _ (dHas_dDel_same _ _), dHas_dDel_same _ _⟩

theorem clean_fwdFirst (y : Req) : Clean (fwdFirst y) := by
  have h := clean_fwdLater y
  unfold Clean fwdFirst Req.addHeader hAdd at *
  unfold fwdLater at h
  exact ⟨by rw [dHas_dSet_other _ _ _ _ via_ne_PA]; exact h.1, by rw [dHas_dSet_other _ _ _ _ via_ne_PC]; exact h.2⟩

/-- every header name written by `build` is the original name of a map entry
whose key is not disabled; for a `Clean` request none of them was filed under
`proxy-authorization` -/
theorem buildHeaders_keys (z : Req) (dis : List Bytes) (kv : Bytes × Bytes) (h : kv ∈ z.buildHeaders dis) :
    ∃ e ∈ z.headers, e.2.1 = kv.1 ∧ dis.contains (lower e.1) = false := by
  unfold Req.buildHeaders at h
  have gen : ∀ (hs : HMap) (acc : List (Bytes × Bytes)),
      kv ∈ hs.foldl (fun acc e => if dis.contains (lower e.1) then acc else dSet acc e.2.1 e.2.2) acc →
      (∃ a ∈ acc, a.1 = kv.1) ∨ ∃ e ∈ hs, e.2.1 = kv.1 ∧ dis.contains (lower e.1) = false := by
    intro hs
    induction hs with
    | nil => intro acc h; left; exact ⟨kv, h, rfl⟩
    | cons e rest ih =>
      intro acc h
      simp only [List.foldl_cons] at h
      rcases ih _ h with ⟨a, ha, hk⟩ | ⟨e', he', hk⟩
      · split at ha
        · left; exact ⟨a, ha, hk⟩
        · rename_i hdis
          rcases mem_dSet_key _ _ _ _ ha with h1 | ⟨a', ha', h1⟩
          · right; exact ⟨e, List.mem_cons_self, by rw [← hk, h1], by simpa using hdis⟩
          · left; exact ⟨a', ha', by rw [h1, hk]⟩
      · right; exact ⟨e', List.mem_cons_of_mem _ he', hk⟩
  rcases gen _ _ h with ⟨a, ha, _⟩ | h
  · cases ha
  · exact h

/-- **C08 strip, first request.**  Whatever the plugins did to the request:
everything `on_request_complete` queues for the upstream is `build` of a request
whose header map has no `proxy-authorization` (and no `proxy-connection`) key. -/
theorem C08_strip_first (cfg : Cfg) (ps : List Plugin) (ok : Bool) (r : Req) :
    ∀ x ∈ upBytes (onRequestComplete cfg ps ok r).1, ∃ z, Clean z ∧ x = z.build cfg.disableHeaders := by
  have hac : ∀ up y, ∀ x ∈ upBytes (afterConnect cfg ps up y).1, ∃ z, Clean z ∧ x = z.build cfg.disableHeaders := by
    intro up y x hx
    rw [afterConnect_eq] at hx
    split at hx <;> (try split at hx) <;> (try split at hx) <;> simp [upOfE] at hx
    subst hx
    exact ⟨_, clean_fwdFirst _, rfl⟩
  have hab : ∀ dc y, ∀ x ∈ upBytes (afterBefore cfg ps ok dc y).1, ∃ z, Clean z ∧ x = z.build cfg.disableHeaders := by
    intro dc y x hx
    rw [afterBefore_eq] at hx
    split at hx
    · split at hx
      · simp at hx
      · simp only [upBytes_append, upBytes_connectUpstream, List.nil_append] at hx
        exact hac _ _ x hx
    · exact hac _ _ x hx
  intro x hx
  rw [onRequestComplete_eq] at hx
  split at hx
  · simp [beforeChain] at hx
  · simp only [beforeChain, upBytes_append, upBytes_chain, List.nil_append] at hx
    exact hab _ _ x hx
  · simp only [beforeChain, upBytes_append, upBytes_chain, List.nil_append] at hx
    exact hab _ _ x hx

/-- an upgrade request was forwarded on this connection before or within this read
    (the only situation, besides a CONNECT tunnel, in which client bytes are passed on raw) -/
def UpgradeIn (ps : List Plugin) (st : St) (more : List (Req × Bytes)) : Prop :=
  st.upgraded = true ∨ ∃ q ∈ more, ∃ y, (creqChain ps q.1).2 = .done y ∧ (fwdLater y).isUpgrade = true

theorem tearReq_upgraded (st : St) (l : Log) : (tearReq st l).1.upgraded = st.upgraded := by
  unfold tearReq; split <;> rfl
theorem raise_upgraded (st : St) (l : Log) (e : Exc) : (raise st l e).1.upgraded = st.upgraded := by
  unfold raise; split <;> simp [tearReq_upgraded]

theorem follow_upgraded (cfg : Cfg) (ps : List Plugin) (st : St) (r : Req)
    (h : (follow cfg ps st r).1.upgraded = true) :
    st.upgraded = true ∨ ∃ y, (creqChain ps r).2 = .done y ∧ (fwdLater y).isUpgrade = true := by
  rw [follow_eq] at h
  split at h
  · left; rw [raise_upgraded] at h; exact h
  · left; exact h
  · rename_i y hy
    right; exact ⟨y, hy, h⟩

theorem follow_up (cfg : Cfg) (ps : List Plugin) (st : St) (r : Req) :
    ∀ x ∈ upBytes (follow cfg ps st r).2, ∃ z, Clean z ∧ x = z.build cfg.disableHeaders := by
  intro x hx
  rw [follow_eq] at hx
  split at hx
  · simp at hx
  · simp at hx
  · simp [upOfE] at hx
    subst hx
    exact ⟨_, clean_fwdLater _, rfl⟩

/-- **C08 strip, every request of a read.**  However many complete requests are
packed into one read: everything the follow-up loop queues for the upstream is
`build` of a request without `proxy-authorization` / `proxy-connection` keys —
except raw bytes passed on after an upgrade request was forwarded. -/
theorem C08_strip_pipeline (cfg : Cfg) (ps : List Plugin) (st : St) (raw : Bytes) (more : List (Req × Bytes)) :
    ∀ x ∈ upBytes (pipeline cfg ps st raw more).2,
      (∃ z, Clean z ∧ x = z.build cfg.disableHeaders) ∨
      (UpgradeIn ps st more ∧ (x = raw ∨ ∃ q ∈ more, x = q.2)) := by
  induction more generalizing st raw with
  | nil =>
    intro x hx
    simp only [pipeline] at hx
    split at hx
    · rename_i hu
      simp [upOfE] at hx
      exact Or.inr ⟨Or.inl hu, Or.inl hx⟩
    · simp at hx
  | cons q more ih =>
    obtain ⟨r, rest⟩ := q
    intro x hx
    simp only [pipeline] at hx
    split at hx
    · rename_i hu
      simp [upOfE] at hx
      exact Or.inr ⟨Or.inl hu, Or.inl hx⟩
    · split at hx
      · exact Or.inl (follow_up cfg ps st r x hx)
      · simp only [upBytes_append, List.mem_append] at hx
        rcases hx with hx | hx
        · exact Or.inl (follow_up cfg ps st r x hx)
        · rcases ih _ _ x hx with h | ⟨hup, hraw⟩
          · exact Or.inl h
          · right
            constructor
            · rcases hup with hup | ⟨q, hq, y, hy, hu⟩
              · rcases follow_upgraded cfg ps st r hup with h | ⟨y, hy, hu⟩
                · exact Or.inl h
                · exact Or.inr ⟨(r, rest), List.mem_cons_self, y, hy, hu⟩
              · exact Or.inr ⟨q, List.mem_cons_of_mem _ hq, y, hy, hu⟩
            · rcases hraw with rfl | ⟨q, hq, rfl⟩
              · exact Or.inr ⟨(r, x), List.mem_cons_self, rfl⟩
              · exact Or.inr ⟨q, List.mem_cons_of_mem _ hq, rfl⟩

theorem clientData_up (cfg : Cfg) (ps : List Plugin) (st : St) (raw : Bytes) (more : List (Req × Bytes)) :
    ∀ x ∈ upBytes (clientData cfg ps st raw more).2,
      (∃ z, Clean z ∧ x = z.build cfg.disableHeaders) ∨ (st.tunnel = true ∧ x = raw) ∨
      (UpgradeIn ps st more ∧ (x = raw ∨ ∃ q ∈ more, x = q.2)) := by
  intro x hx
  unfold clientData at hx
  split at hx
  · rw [noUpstreamData_eq] at hx
    split at hx <;> simp at hx
  · split at hx
    · rename_i ht
      simp [upOfE] at hx
      exact Or.inr (Or.inl ⟨ht, hx⟩)
    · rcases C08_strip_pipeline cfg ps st raw more x hx with h | h
      · exact Or.inl h
      · exact Or.inr (Or.inr h)

/-- **C08 strip, later requests.**  Every item an event queues for the upstream is
`build` of a request without `proxy-authorization` / `proxy-connection` keys —
the first request and every later one, however the requests are packed into
reads — or raw client data passed through a CONNECT tunnel or after a forwarded
upgrade request.  (`st'` is the state in which the client bytes are handled: the
state before a `cdata` event, the state after `on_request_complete` for bytes
packed behind the first request.) -/
theorem C08_strip_later (cfg : Cfg) (ps : List Plugin) (st : St) (ev : Ev) :
    ∀ x ∈ upBytes (step cfg ps st ev).2,
      (∃ z, Clean z ∧ x = z.build cfg.disableHeaders) ∨
      (∃ st' raw more, (ev = .cdata raw more ∧ st' = st ∨
                        ∃ r ok, ev = .first r ok raw more ∧ st' = (firstStep cfg ps st r ok).1) ∧
        ((st'.tunnel = true ∧ x = raw) ∨ (UpgradeIn ps st' more ∧ (x = raw ∨ ∃ q ∈ more, x = q.2)))) := by
  intro x hx
  have hfirst : ∀ r ok, ∀ x ∈ upBytes (firstStep cfg ps st r ok).2, ∃ z, Clean z ∧ x = z.build cfg.disableHeaders := by
    intro r ok x hx
    rw [firstStep_eq] at hx
    split at hx
    · simp only [raise_upBytes] at hx
      exact C08_strip_first cfg ps ok r x hx
    · exact C08_strip_first cfg ps ok r x hx
  cases ev with
  | first r ok rest more =>
    simp only [step] at hx
    split at hx
    · simp at hx
    · split at hx
      · exact Or.inl (hfirst r ok x hx)
      · simp only [upBytes_append, List.mem_append] at hx
        rcases hx with hx | hx
        · exact Or.inl (hfirst r ok x hx)
        · rcases clientData_up cfg ps _ rest more x hx with h | h
          · exact Or.inl h
          · exact Or.inr ⟨_, rest, more, Or.inr ⟨r, ok, rfl, rfl⟩, h⟩
  | first400 =>
    simp only [step] at hx
    split at hx <;> simp [upOfE] at hx
  | cdata raw more =>
    simp only [step] at hx
    split at hx
    · simp at hx
    · rcases clientData_up cfg ps st raw more x hx with h | h
      · exact Or.inl h
      · exact Or.inr ⟨st, raw, more, Or.inl ⟨rfl, rfl⟩, h⟩
  | udata raw =>
    simp only [step] at hx
    split at hx
    · simp at hx
    · rw [upstreamData_eq] at hx
      split at hx <;> simp [upOfE] at hx
  | ueof => simp only [step] at hx; split at hx <;> simp [drain, upBytes, upOfE] at hx
  | ceof => simp only [step] at hx; split at hx <;> simp [drain, upBytes, upOfE] at hx
  | cabort => simp only [step] at hx; split at hx <;> simp [upOfE] at hx
  | flush =>
    simp only [step] at hx
    split at hx
    · simp at hx
    · split at hx
      · simp at hx
      · split at hx <;> simp [upOfE] at hx

/-- **C08 no smuggling.**  On a connection that is no tunnel and on which no
upgrade request is forwarded, no packing of requests into a read makes a byte
sequence reach the upstream other than rebuilt requests without
`proxy-authorization` / `proxy-connection`. -/
theorem C08_no_smuggling (cfg : Cfg) (ps : List Plugin) (st : St) (raw : Bytes) (more : List (Req × Bytes))
    (ht : st.tunnel = false) (hu : ¬ UpgradeIn ps st more) :
    ∀ x ∈ upBytes (step cfg ps st (.cdata raw more)).2, ∃ z, Clean z ∧ x = z.build cfg.disableHeaders := by
  intro x hx
  simp only [step] at hx
  split at hx
  · simp at hx
  · rcases clientData_up cfg ps st raw more x hx with h | ⟨h, _⟩ | ⟨h, _⟩
    · exact h
    · rw [ht] at h; cases h
    · exact absurd h hu

theorem firstStep_upgraded (cfg : Cfg) (ps : List Plugin) (st : St) (r : Req) (ok : Bool) :
    (firstStep cfg ps st r ok).1.upgraded = st.upgraded := by
  rw [firstStep_eq]; split <;> simp [raise_upgraded]

/-- **C08 an upgrade offer in the first request changes nothing.**  Whatever the
first request of a connection carries — in particular `Connection: Upgrade` /
`Upgrade: …` headers (websocket or h2c offers) — it never switches the connection
to raw relay (only a *forwarded follow-up* upgrade request does): on a
non-tunnel connection every later request, one per read or packed, is still
forwarded rebuilt without `proxy-authorization` / `proxy-connection`, as long as
no follow-up upgrade request is forwarded. -/
theorem C08_first_request_upgrade_still_stripped (cfg : Cfg) (ps : List Plugin) (r : Req) (ok : Bool)
    (raw : Bytes) (more : List (Req × Bytes))
    (ht : (firstStep cfg ps {} r ok).1.tunnel = false)
    (hu : ∀ q ∈ more, ∀ y, (creqChain ps q.1).2 = .done y → (fwdLater y).isUpgrade = false) :
    (firstStep cfg ps {} r ok).1.upgraded = false ∧
    ∀ x ∈ upBytes (step cfg ps (firstStep cfg ps {} r ok).1 (.cdata raw more)).2,
      ∃ z, Clean z ∧ x = z.build cfg.disableHeaders := by
  have hup : (firstStep cfg ps {} r ok).1.upgraded = false := by rw [firstStep_upgraded]
  refine ⟨hup, C08_no_smuggling cfg ps _ raw more ht ?_⟩
  rintro (h | ⟨q, hq, y, hy, hiu⟩)
  · rw [hup] at h; cases h
  · rw [hu q hq y hy] at hiu; cases hiu

/-- the statement is about requests that *are* upgrade offers too -/
example : ({ method := b "GET", path := b "/", version := Px.Gen.http11, host := b "h", port := 80, tunnel := false,
             headers := parseHeaders [b "Connection: keep-alive, Upgrade", b "Upgrade: h2c"], body := [] } : Req).isUpgrade
    = true := by decide +kernel

/-- a `Clean` request really loses the credentials on the wire: no header line
built from it was filed under `proxy-authorization` -/
theorem C08_clean_build (z : Req) (hz : Clean z) (dis : List Bytes) (kv : Bytes × Bytes)
    (h : kv ∈ z.buildHeaders dis) : ∃ e ∈ z.headers, e.2.1 = kv.1 ∧ e.1 ≠ Auth.PROXY_AUTHORIZATION := by
  obtain ⟨e, he, hk, _⟩ := buildHeaders_keys z dis kv h
  refine ⟨e, he, hk, ?_⟩
  intro heq
  have := hz.1
  simp only [dHas, List.any_eq_false] at this
  exact this e he (by simp [heq])

end Px.Chain
