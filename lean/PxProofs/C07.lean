import PxModel.Relay
import PxProofs.ConnLemmas
import PxProofs.RelayLemmas
/-!
# C07 — queued output is fully delivered before the proxy closes a connection

Property theorems only; lemmas are in `PxProofs/RelayLemmas.lean`.  The model
(`PxModel/Relay.lean`: `tick` = `HttpProtocolHandler.handle_events`, `step` =
one executor round, `run`, `shutdown` / `flushLoop` = threaded
`shutdown()` / `_flush()`) is tied to the code by `harness/c07.py`.

How the pieces give the property.  In threadless mode `shutdown()` does not
flush (`C07_threaded`, second part), so everything rests on *when*
`handle_events` returns `True`:
`C07_no_early_close` — never while output is pending for the client, unless the
client's own `send` failed in that very tick (then the client cannot be
delivered to any more); `C07_prompt` — in a final-flush state, the tick that
empties the buffer returns `True`; `C07_only_shrinks` / `C07_reads_off` — while
it is non-empty nothing is read that could postpone the close for ever on a
connection without upstream, and pending output only shrinks once reads are
torn down; `C07_delivered` — if the client keeps accepting at least a byte per
round, the run ends in teardown with every pending byte accepted by its
`send`, in order.  `D15` (an upstream *write* failure used to return `True` at
once and drop the client's pending output) is fixed in /repo; the model follows
the fixed code and `C07_upstream_write_failure_drains` replays the old witness.
-/
namespace Px.Relay
open Px Px.Conn

/-- **no early close (one call of `handle_events`, any readiness, any outcomes).**
If `handle_events` returns `True` while the client buffer is non-empty, then in
that call the client was reported writable and its `send` raised
(`BrokenPipeError` / `OSError` / `SSLWantWriteError`). -/
theorem C07_no_early_close (s : St) (t : Tick) (h : (tick s t).2 = .teardown)
    (hb : (tick s t).1.client.hasBuffer = true) : ClientSendFailed s t :=
  tick_no_early_close s t h hb

/-- the hypotheses are satisfiable: a final flush hit by a broken pipe -/
example :
    let s := st0 .local 0 [[1, 2, 3]] [] true false
    let t : Tick := ⟨false, true, false, false, .blocking, .blocking, .brokenPipe, .blocking, .raised⟩
    (tick s t).2 = .teardown ∧ (tick s t).1.client.hasBuffer = true ∧ ClientSendFailed s t := by
  decide

/-- **no early close, whole runs.**  A run (any schedule) that ends in teardown
with client output still pending ended with a tick whose client `send` failed. -/
theorem C07_no_early_close_run (s : St) (ticks : List Tick) (h : (run s ticks).2 = .teardown)
    (hb : (run s ticks).1.client.hasBuffer = true) :
    ∃ s0 t, t ∈ ticks ∧ ClientSendFailed s0 t ∧ step s0 t = run s ticks :=
  run_no_early_close ticks s h hb

/-- **the former D15 schedule.**  Tunnel; the upstream sends two segments while
the client is not writable; the client sends data; the upstream flush of that
data fails with `BrokenPipeError`.  `handle_events` no longer returns `True`
there: reads are torn down, the acknowledgement and both segments stay queued,
the failing upstream flush is retried (and fails again) without harm, and three
writable rounds later the run ends in teardown with everything delivered. -/
theorem C07_upstream_write_failure_drains :
    let h1 : Bytes := [83, 45, 72, 45, 49]
    let h2 : Bytes := [83, 45, 72, 45, 50]
    let pre : List Tick := [
      ⟨false, false, true, false, .blocking, .data h1, .blocking, .blocking, .raised⟩,
      ⟨false, false, true, false, .blocking, .data h2, .blocking, .blocking, .raised⟩,
      ⟨true, false, false, false, .data [99], .blocking, .blocking, .blocking, .raised⟩,
      ⟨false, false, false, true, .blocking, .blocking, .blocking, .brokenPipe, .raised⟩]
    let post : List Tick := [
      ⟨false, true, false, true, .blocking, .blocking, .sent 1000000, .brokenPipe, .raised⟩,
      ⟨false, true, false, false, .blocking, .blocking, .sent 1000000, .blocking, .raised⟩,
      ⟨false, true, false, false, .blocking, .blocking, .sent 1000000, .blocking, .raised⟩]
    (run (initTunnel 0) pre).2 = .cont ∧
    (run (initTunnel 0) pre).1.readsTeared = true ∧
    (run (initTunnel 0) pre).1.client.buffer = [ack, h1, h2] ∧
    (run (initTunnel 0) (pre ++ post)).2 = .teardown ∧
    (run (initTunnel 0) (pre ++ post)).1.client.buffer = [] ∧
    (run (initTunnel 0) (pre ++ post)).1.sentC = ack ++ h1 ++ h2 := by
  decide

/-- **prompt close.**  In a state with the final-flush flag (`must_flush_before_shutdown`)
or with reads torn down, the first call of `handle_events` after which the client
buffer is empty returns `True` (for every readiness set and every outcome). -/
theorem C07_prompt (s : St) (t : Tick) (hf : s.mustFlush = true ∨ s.readsTeared = true)
    (hi : FlushInv s) (he : (tick s t).1.client.hasBuffer = false) : (tick s t).2 = .teardown :=
  tick_prompt s t hf hi he

/-- `FlushInv` (the flag is up only while output is pending) is an invariant of
the model: it holds initially and every tick preserves it -/
theorem C07_flushInv (s : St) (ticks : List Tick) (hi : FlushInv s) :
    FlushInv (run s ticks).1 ∧ ∀ t, FlushInv (tick s t).1 :=
  ⟨run_flushInv ticks s hi, fun t => tick_flushInv s t hi⟩

example : FlushInv (st0 .local 0 [[1, 2, 3]] [] true false) ∧ FlushInv (initTunnel 0) := by
  unfold FlushInv; decide

/-- **read interest is off during a requested final flush**: `get_events` does not
register the client for reading, nothing is read from it, and the flag stays up
until the round that returns `True`. -/
theorem C07_reads_off (s : St) (t : Tick) (hm : s.mustFlush = true) :
    (events s).cR = false ∧ (step s t).1.recvC = s.recvC ∧
    ((step s t).2 = .cont → (step s t).1.mustFlush = true) :=
  step_mustFlush s t hm

/-- **pending output only shrinks** once reads are torn down (upstream closed or
failed, client half-closed) or a close was requested on a connection without
upstream (400 / 404 / 407 / 502, web-server reply): a round removes a prefix `w`
of the pending bytes and appends exactly `w` to what the client's `send`
accepted; nothing is read from either peer; no exception escapes; the state
stays a final-flush state until teardown. -/
theorem C07_only_shrinks (s : St) (t : Tick) (hf : FinalFlush s) :
    (∃ w, s.client.buffer.flatten = w ++ (step s t).1.client.buffer.flatten ∧
      (step s t).1.sentC = s.sentC ++ w ∧ pending (step s t).1.client ≤ pending s.client) ∧
    (step s t).1.recvU = s.recvU ∧ (step s t).1.recvC = s.recvC ∧
    (step s t).2 ≠ .raised ∧ ((step s t).2 = .cont → FinalFlush (step s t).1) := by
  obtain ⟨_, _, h3, h4, _, h6, h7⟩ := step_final s t hf
  exact ⟨step_only_shrinks s t hf, h3, h4, h6, h7⟩

example : FinalFlush (st0 .local 0 [[1, 2, 3]] [] true false) ∧
    FinalFlush (st0 .tunnel 0 [[1]] [] false true) := by
  unfold FinalFlush; decide

/-- **delivery.**  From a final-flush state with output pending (any size, any
number of pieces), every run in which the client is writable and accepts at
least one byte per round — however short the writes — and that is at least as
long as the pending measure, ends in teardown with the client buffer empty and
every pending byte accepted by the client's `send`, in order.  (The hypothesis asks every round of the run to be such a
round; a client that stops reading for ever is outside the property.) -/
theorem C07_delivered (s : St) (ticks : List Tick) (hf : FinalFlush s) (hi : FlushInv s)
    (hb : s.client.hasBuffer = true) (hg : ∀ t ∈ ticks, GoodTick t)
    (hn : pending s.client ≤ ticks.length) :
    (run s ticks).2 = .teardown ∧ (run s ticks).1.client.buffer = [] ∧
    (run s ticks).1.sentC = s.sentC ++ s.client.buffer.flatten :=
  run_delivered ticks s hf hi hb hg hn

example :
    let s := st0 .local 2 [[1, 2, 3], [4]] [] true false
    let t : Tick := ⟨true, true, true, true, .blocking, .blocking, .sent 1, .blocking, .raised⟩
    FinalFlush s ∧ FlushInv s ∧ s.client.hasBuffer = true ∧ GoodTick t ∧ pending s.client = 6 := by
  refine ⟨by unfold FinalFlush; decide, by unfold FlushInv; decide, by decide, ⟨rfl, 0, rfl⟩, by decide⟩

/-- **threaded mode.**  `shutdown()` with a selector (`threaded = true`): `_flush`
sends until the buffer is empty or a `send` fails; bytes accepted followed by
bytes left are exactly what was pending; if the connection gets closed with
output left, a `BrokenPipeError` / `OSError` event is in the script; ending
`drained` means everything was accepted.  Without a selector (threadless)
`shutdown()` closes without sending anything — which is why `handle_events`
must not return `True` early (`C07_no_early_close`). -/
theorem C07_threaded (m : Nat) (c : Conn) (script : List SelEv) (hc : c.closed = false) :
    (shutdown true m c script).sent ++ (shutdown true m c script).client.buffer.flatten
      = c.buffer.flatten ∧
    ((shutdown true m c script).client.closed = true →
      (shutdown true m c script).client.buffer ≠ [] →
        ((shutdown true m c script).flushEnd = some .brokenPipe ∧ .ready .brokenPipe ∈ script) ∨
        ((shutdown true m c script).flushEnd = some .osError ∧
          (.ready .osError ∈ script ∨ .ready .sslWantWrite ∈ script))) ∧
    ((shutdown true m c script).flushEnd = some .drained →
      (shutdown true m c script).client.buffer = [] ∧
      (shutdown true m c script).sent = c.buffer.flatten) ∧
    ((shutdown false m c script).sent = [] ∧ (shutdown false m c script).client.buffer = c.buffer ∧
      (shutdown false m c script).client.closed = true) := by
  have hacc := flushLoop_account m script c []
  have hcl := flushLoop_closed m script c []
  obtain ⟨e1, e2, e3, e4⟩ := flushLoop_end m script c []
  refine ⟨?_, ?_, ?_, by simp [shutdown]⟩
  all_goals
    unfold shutdown
    cases hb : c.hasBuffer with
    | false =>
      have : c.buffer = [] := (hasBuffer_false_iff c).mp hb
      simp [this]
    | true =>
      simp only [Bool.true_and, if_true]
      rcases hfl : flushLoop m c [] script with ⟨c1, sent, e⟩
      rw [hfl] at hacc e1 e2 e3 e4 hcl
      simp only [List.nil_append] at hacc e1 e2 e3 e4 hcl
      cases e <;> simp_all

example : ({ buffer := [[1, 2, 3], [4]] } : Conn).closed = false := rfl

/-- **threaded mode terminates with everything sent** when the selector reports
the client writable often enough and each such `send` takes at least a byte. -/
theorem C07_threaded_drains (m : Nat) (c : Conn) (script : List SelEv) (hb : c.hasBuffer = true)
    (hg : ∀ e ∈ script, e = .timeout ∨ ∃ k, e = .ready (.sent (k + 1)))
    (hn : pending c ≤ readyCount script) :
    (shutdown true m c script).flushEnd = some .drained ∧
    (shutdown true m c script).sent = c.buffer.flatten ∧
    (shutdown true m c script).client.buffer = [] ∧
    (shutdown true m c script).client.closed = true ∧
    (shutdown true m c script).pluginClosed = true := by
  obtain ⟨d1, d2⟩ := flushLoop_drains m script c [] hg hn
  obtain ⟨e1, _, _, _⟩ := flushLoop_end m script c []
  unfold shutdown
  simp only [hb, Bool.true_and, if_true]
  rcases hfl : flushLoop m c [] script with ⟨c1, sent, e⟩
  rw [hfl] at d1 d2 e1
  simp only at d1 d2 e1
  subst d1
  simp_all

example :
    let c : Conn := { buffer := [[1, 2, 3], [4]] }
    let script : List SelEv := [.timeout, .ready (.sent 2), .ready (.sent 9), .timeout, .ready (.sent 1),
      .ready (.sent 1), .ready (.sent 1), .ready (.sent 1)]
    c.hasBuffer = true ∧ pending c ≤ readyCount script ∧
      (shutdown true 0 c script).sent = [1, 2, 3, 4] := by
  decide

/-- **exceptions.**  The only way an exception escapes `handle_events` in this
model is the application-level handling of a client segment (`Tick.app =
raised`: the request pipeline parser on a plain-HTTP exchange choking on a
malformed follow-up request, or a route handler) — never on a tunnel, never in
a tick that does not read the client. -/
theorem C07_raised_only_app (s : St) (t : Tick) (h : (tick s t).2 = .raised) :
    s.kind ≠ .tunnel ∧ t.app = .raised ∧ t.cR = true :=
  tick_raised s t h

example :
    let s := initHttp 0 [71]
    let t : Tick := ⟨true, false, false, false, .data [0], .blocking, .blocking, .blocking, .raised⟩
    (tick s t).2 = .raised := by decide

/-! ### the idle reaper cannot take pending output away -/

/-- **not reaped while output is pending.**  In every state with a non-empty
client buffer, for every clock reading and every timeout (zero and negative
included), `is_inactive()` is false, so `Threadless._cleanup_inactive` does not
close the connection: pending output can leave only through flushes
(`C07_only_shrinks`, `C07_delivered`), never through the reaper's
`shutdown()` (which sends nothing, `C07_threaded`). -/
theorem C07_not_reaped_while_pending (s : St) (h : s.client.hasBuffer = true)
    (elapsed timeout : Int) : isInactive s elapsed timeout = false := by
  simp [isInactive, h]

/-- the reaper closes exactly the drained connections idle past the timeout -/
theorem C07_reaped_iff (s : St) (elapsed timeout : Int) :
    isInactive s elapsed timeout = true ↔ s.client.buffer = [] ∧ elapsed > timeout := by
  simp [isInactive, Conn.hasBuffer]

example : isInactive (st0 .local 0 [] [] false false) 11 10 = true ∧
    isInactive (st0 .local 0 [[1]] [] true false) 1000000 (-5) = false := by decide

/-- **a connection is closed only when drained** — runs with reaper events at
arbitrary moments, clock readings and timeouts interleaved with arbitrary
ticks: if the run ends with the connection closed by the proxy (teardown or
reaper) while client output is still pending, then it ended by a teardown in a
tick whose client `send` failed; in particular a run that ends `reaped` has an
empty client buffer. -/
theorem C07_closed_only_when_drained (evs : List Ev) (s : St)
    (hend : (runEv s evs).2 = .teardown ∨ (runEv s evs).2 = .reaped)
    (hb : (runEv s evs).1.client.hasBuffer = true) :
    (runEv s evs).2 = .teardown ∧ ∃ s0 t, Ev.tick t ∈ evs ∧ ClientSendFailed s0 t := by
  induction evs generalizing s with
  | nil => simp [runEv] at hend
  | cons e es ih =>
    cases e with
    | tick t =>
      unfold runEv at hend hb ⊢
      rcases hst : step s t with ⟨s1, r⟩
      rw [hst] at hend hb
      cases r with
      | cont =>
        simp only at hend hb
        obtain ⟨a, s0, t0, m, f⟩ := ih s1 hend hb
        exact ⟨a, s0, t0, by simp [m], f⟩
      | teardown =>
        simp only at hb
        refine ⟨rfl, s, t, by simp, ?_⟩
        apply step_no_early_close s t
        · rw [hst]
        · rw [hst]; exact hb
      | raised => simp at hend
    | reap el to =>
      unfold runEv at hend hb ⊢
      split at hend
      · rename_i hi
        rw [if_pos hi] at hb
        simp only at hb
        rw [C07_not_reaped_while_pending s hb] at hi
        simp at hi
      · rename_i hi
        rw [if_neg hi] at hb ⊢
        obtain ⟨a, s0, t0, m, f⟩ := ih s hend hb
        exact ⟨a, s0, t0, by simp [m], f⟩

/-- the hypotheses are satisfiable: the reaper passes over a pending final flush
whatever the clock says, a broken pipe then ends the run with output pending -/
example :
    let s := st0 .local 0 [[1, 2, 3]] [] true false
    let evs : List Ev := [.reap 1000000 0, .reap 5 (-1),
      .tick ⟨false, true, false, false, .blocking, .blocking, .brokenPipe, .blocking, .raised⟩]
    (runEv s evs).2 = .teardown ∧ (runEv s evs).1.client.hasBuffer = true := by decide

/-- and a drained idle connection is reaped -/
example :
    let s := st0 .tunnel 0 [[1, 2, 3]] [] false false
    let evs : List Ev := [.reap 99 10,
      .tick ⟨false, true, false, false, .blocking, .blocking, .sent 9, .blocking, .raised⟩, .reap 10 10, .reap 11 10]
    (runEv s evs).2 = .reaped ∧ (runEv s evs).1.sentC = [1, 2, 3] := by decide

end Px.Relay
