import PxModel.Build
import PxModel.Generated
/-
  Model of the response builders of proxy/http/responses.py (okResponse,
  permanentRedirectResponse, seeOthersResponse and the canned packets),
  of HttpRequestRejected.response (proxy/http/exception/http_request_rejected.py)
  and of build_websocket_handshake_response (proxy/common/utils.py), all on top
  of `Px.Build.buildResponse`.  `gzip.compress` is an opaque function parameter.
-/
namespace Px.Resp

open Px.Build

def http11 : Bytes := Px.Gen.http11

/-- `okResponse(content, headers, compress, min_compression_length, **kwargs)`;
    the `**kwargs` that reach `build_http_response` are `protocol_version`,
    `conn_close` and `no_cl`.  `headers = None` and `{}` behave alike. -/
def okResponse (gz : Bytes → Bytes) (content : Option Bytes) (headers : HDict) (compress : Bool)
    (minLen : Int) (version : Bytes) (connClose noCl : Bool) : Bytes :=
  let contentTruthy := match content with | some c => !c.isEmpty | none => false
  let doCompress := compress && contentTruthy && decide (Int.ofNat (content.getD []).length > minLen)
  let headers := if doCompress then dSet headers (b "Content-Encoding") (b "gzip") else headers
  let body := if doCompress && contentTruthy then content.map gz else content
  buildResponse (Int.ofNat Px.Gen.code_OK) version (some (b "OK")) headers body connClose noCl

/-- `permanentRedirectResponse(location)` -/
def permanentRedirectResponse (location : Bytes) : Bytes :=
  buildResponse (Int.ofNat Px.Gen.code_PERMANENT_REDIRECT) http11 (some (b "Permanent Redirect"))
    [(b "Location", location), (b "Content-Length", b "0")] none true false

/-- `seeOthersResponse(location)` -/
def seeOthersResponse (location : Bytes) : Bytes :=
  buildResponse (Int.ofNat Px.Gen.code_SEE_OTHER) http11 (some (b "See Other"))
    [(b "Location", location), (b "Content-Length", b "0")] none true false

/-- `HttpRequestRejected(status_code, reason, headers, body).response(request)`:
    `None` when `status_code` is falsy (None or 0) -/
def rejectedResponse (status : Option Int) (reason : Option Bytes) (headers : HDict)
    (body : Option Bytes) : Option Bytes :=
  match status with
  | none => none
  | some s => if s == 0 then none else some (buildResponse s http11 reason headers body true false)

/-- `build_websocket_handshake_response(accept)` -/
def wsHandshakeResponse (accept : Bytes) : Bytes :=
  buildResponse (Int.ofNat Px.Gen.code_SWITCHING_PROTOCOLS) http11 (some (b "Switching Protocols"))
    [(b "Upgrade", b "websocket"), (b "Connection", b "Upgrade"), (b "Sec-WebSocket-Accept", accept)]
    none false false

/-! The canned packets, as the calls in responses.py build them (tied to the
    generated literals by `C06_canned_built`). -/
def agent : Bytes := Px.Gen.proxyAgentHeaderValue
def agentKey : Bytes := Px.Gen.proxyAgentHeaderKey

def builtTunnelEstablished : Bytes :=
  buildResponse 200 http11 (some (b "Connection established")) [] none false true
def builtTunnelUnsupportedScheme : Bytes :=
  buildResponse 400 http11 (some (b "Unsupported protocol scheme")) [] none true true
def builtProxyAuthFailed : Bytes :=
  buildResponse 407 http11 (some (b "Proxy Authentication Required"))
    [(agentKey, agent), (b "Proxy-Authenticate", b "Basic")] (some (b "Proxy Authentication Required")) true true
def builtBadRequest : Bytes :=
  buildResponse 400 http11 (some (b "BAD REQUEST")) [(b "Server", agent)] none true false
def builtNotFound : Bytes :=
  buildResponse 404 http11 (some (b "NOT FOUND")) [(b "Server", agent)] none true false
def builtNotImplemented : Bytes :=
  buildResponse 501 http11 (some (b "NOT IMPLEMENTED")) [(b "Server", agent)] none true false
def builtBadGateway : Bytes :=
  buildResponse 502 http11 (some (b "Bad Gateway")) [(agentKey, agent)] (some (b "Bad Gateway")) true true

end Px.Resp
