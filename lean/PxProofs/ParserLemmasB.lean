import PxProofs.ParserLemmas
/-!
# Lemmas about the HTTP parser model for C03, part B

Header map; `_process_line` / `_process_headers` as "find a line, then process
it" (`lineStep`, `hdrStep`); the invariant `Inv` of parser states; fuel
independence and the append lemma of the header sub-automaton.
-/
namespace Px.Parser

/-! ### the header map -/

theorem find_map_upd (k k' : Bytes) (v : Bytes × Bytes) (h : Headers) :
    (h.map (fun e => if e.1 == k then (k, v) else e)).find? (·.1 == k') =
      if k' = k then (if h.any (·.1 == k) then some (k, v) else none) else h.find? (·.1 == k') := by
  induction h with
  | nil => simp
  | cons e es ih =>
    rw [List.map_cons, List.find?_cons, List.any_cons, List.find?_cons, ih]
    cases hb : (e.1 == k) with
    | true =>
      have he : e.1 = k := by simpa using hb
      simp only [if_true, Bool.true_or]
      by_cases hk : k' = k
      · subst hk; simp
      · have : (k == k') = false := by simp; exact fun h => hk h.symm
        have h2 : (e.1 == k') = false := by rw [he]; exact this
        simp only [this, h2, hk, if_false]
    | false =>
      have he : ¬ e.1 = k := by simpa using hb
      simp only [Bool.false_eq_true, if_false, Bool.false_or]
      by_cases hk : k' = k
      · subst hk; simp only [hb, if_true]
      · simp only [hk, if_false]

theorem hdrGet_hdrSet_same (h : Headers) (k : Bytes) (v : Bytes × Bytes) :
    hdrGet (hdrSet h k v) k = some v := by
  unfold hdrGet hdrSet
  split
  · rename_i ha
    rw [find_map_upd]; simp [ha]
  · rename_i ha
    have : h.find? (·.1 == k) = none := by
      simp only [List.any_eq_true, not_exists, not_and, Bool.not_eq_true] at ha
      simp only [List.find?_eq_none, Bool.not_eq_true]
      exact ha
    simp [List.find?_append, this]

theorem hdrGet_hdrSet_ne (h : Headers) (k k' : Bytes) (v : Bytes × Bytes) (hne : k' ≠ k) :
    hdrGet (hdrSet h k v) k' = hdrGet h k' := by
  unfold hdrGet hdrSet
  split
  · rw [find_map_upd]; simp [hne]
  · have : ¬ (k = k') := fun h => hne h.symm
    simp [List.find?_append, this]

theorem any_iff_hdrGet (h : Headers) (k : Bytes) : h.any (·.1 == k) = (hdrGet h k).isSome := by
  unfold hdrGet
  induction h with
  | nil => simp
  | cons e es ih =>
    simp only [List.any_cons, List.find?_cons]
    by_cases he : (e.1 == k) = true
    · simp [he]
    · simp only [he, Bool.false_or]
      simp only [Bool.not_eq_true] at he
      simp [ih]

/-! ### sub-automata as "find a line, then process it" -/

/-- the part of `_process_line` after a complete line was found -/
def lineStep (cfg : Cfg) (p : Parser) (line : Bytes) : Except Err Parser :=
  match p.ty with
  | .request =>
    match splitN1 SP 2 line with
    | [m, u, v] =>
      if m.isEmpty then .error .httpProtocol else
      match Px.Url.fromBytes cfg.allowedSchemes u with
      | .error e => .error (urlErr e)
      | .ok url =>
        .ok { setLineAttributes cfg
                { p with method := some m, isTunnel := p.isTunnel || m == cfg.connectMethod } url with
              version := some v, state := .lineRcvd }
    | _ => .error .httpProtocol
  | .response =>
    match splitN1 SP 2 line with
    | [v, c] => .ok { p with version := some v, code := some c, state := .lineRcvd }
    | [v, c, r] => .ok { p with version := some v, code := some c, reason := some r, state := .lineRcvd }
    | _ => .error .indexError

theorem processLine_eq (cfg : Cfg) (p : Parser) (raw : Bytes) :
    processLine cfg p raw = match splitCRLF raw with
      | none => .ok (p, false, raw)
      | some (line, rest) => (lineStep cfg p line).map (fun q => (q, !rest.isEmpty, rest)) := by
  unfold processLine lineStep
  cases splitCRLF raw with
  | none => rfl
  | some pr =>
    obtain ⟨line, rest⟩ := pr
    simp only []
    cases p.ty with
    | request =>
      simp only []
      split
      · rename_i m u v heq
        simp only [heq]
        cases m with
        | nil => rfl
        | cons _ _ =>
          simp only [List.isEmpty_cons, Bool.false_eq_true, if_false]
          cases Px.Url.fromBytes cfg.allowedSchemes u <;> rfl
      · rename_i hne
        split
        · rename_i m u v heq; exact absurd heq (hne m u v)
        · rfl
    | response =>
      simp only []
      split
      · rename_i v c heq; simp only [heq]; rfl
      · rename_i v c r heq; simp only [heq]; rfl
      · rename_i hne1 hne2
        split
        · rename_i v c heq; exact absurd heq (hne1 v c)
        · rename_i v c r heq; exact absurd heq (hne2 v c r)
        · rfl

/-- fields that decide the framing of the message -/
def SameFraming (p q : Parser) : Prop :=
  q.ty = p.ty ∧ q.headers = p.headers ∧ q.body = p.body ∧ q.chunk = p.chunk ∧
    q.contentExpected = p.contentExpected ∧ q.isChunked = p.isChunked

theorem setLineAttributes_framing (cfg : Cfg) (p : Parser) (u : Px.Url.Url) :
    SameFraming p (setLineAttributes cfg p u) ∧ (setLineAttributes cfg p u).state = p.state := by
  unfold setLineAttributes SameFraming
  split <;> simp

theorem lineStep_spec {cfg : Cfg} {p q : Parser} {line : Bytes} (h : lineStep cfg p line = .ok q) :
    q.state = .lineRcvd ∧ SameFraming p q := by
  unfold lineStep at h
  split at h
  · split at h
    · split at h
      · simp at h
      · split at h
        · simp at h
        · simp only [Except.ok.injEq] at h
          subst h
          have := fun q0 u0 => (setLineAttributes_framing cfg q0 u0).1
          exact ⟨rfl, (this _ _).1, (this _ _).2.1, (this _ _).2.2.1, (this _ _).2.2.2.1,
            (this _ _).2.2.2.2.1, (this _ _).2.2.2.2.2⟩
    · simp at h
  · split at h
    · simp only [Except.ok.injEq] at h; subst h; exact ⟨rfl, rfl, rfl, rfl, rfl, rfl, rfl⟩
    · simp only [Except.ok.injEq] at h; subst h; exact ⟨rfl, rfl, rfl, rfl, rfl, rfl, rfl⟩
    · simp at h

/-- the part of `_process_headers` after a complete line was found -/
def hdrStep (p : Parser) (line : Bytes) : Except Err Parser :=
  if p.state == .lineRcvd || p.state == .rcvingHeaders then
    (if (strip line).isEmpty then .ok { p with state := .headersComplete }
     else processHeader { p with state := .rcvingHeaders } line)
  else .ok p

theorem processHeaders_succ (f : Nat) (p : Parser) (raw : Bytes) :
    processHeaders (f + 1) p raw = match splitCRLF raw with
      | none => .ok (p, false, raw)
      | some (line, rest) => match hdrStep p line with
        | .error e => .error e
        | .ok q => if rest.isEmpty || q.state == .headersComplete then .ok (q, !rest.isEmpty, rest)
                   else processHeaders f q rest := by
  rw [processHeaders]; rfl

theorem CLK : lower (b "content-length") = b "content-length" := by decide +kernel

theorem header_addHeader_ne (p : Parser) (key value k' : Bytes) (h : lower key ≠ lower k') :
    header (addHeader p key value) k' = header p k' := by
  unfold header addHeader
  cases p.headers with
  | none =>
    simp only [Option.getD_none]
    rw [hdrGet_hdrSet_ne _ _ _ _ (Ne.symm h)]; rfl
  | some hs =>
    simp only [Option.getD_some]
    rw [hdrGet_hdrSet_ne _ _ _ _ (Ne.symm h)]

theorem header_addHeader_same (p : Parser) (key value k' : Bytes) (h : lower key = lower k') :
    header (addHeader p key value) k' = .ok value := by
  unfold header addHeader
  simp only [← h, hdrGet_hdrSet_same]

/-- `contentExpected` is backed by a positive Content-Length header -/
def ClOk (p : Parser) : Prop :=
  p.contentExpected = true → ∃ clv cl, header p (b "content-length") = .ok clv ∧ pyInt 10 clv = some cl ∧ 0 < cl

theorem processHeader_spec {p q : Parser} {line : Bytes} (h : processHeader p line = .ok q) :
    q.state = p.state ∧ q.ty = p.ty ∧ q.body = p.body ∧ q.chunk = p.chunk ∧ (ClOk p → ClOk q) := by
  unfold processHeader at h
  split at h
  rename_i key value _
  simp only [] at h
  split at h
  · rename_i hk
    simp only [beq_iff_eq] at hk
    split at h
    · simp at h
    · rename_i v hv
      simp only [Except.ok.injEq] at h; subst h
      refine ⟨rfl, rfl, rfl, rfl, fun _ hce => ?_⟩
      simp only [decide_eq_true_eq] at hce
      refine ⟨value, v, ?_, hv, hce⟩
      exact header_addHeader_same p key value _ (by rw [hk, CLK])
  · rename_i hk
    simp only [beq_iff_eq] at hk
    have hne : lower key ≠ lower (b "content-length") := by rw [CLK]; exact hk
    split at h
    · simp only [Except.ok.injEq] at h; subst h
      refine ⟨rfl, rfl, rfl, rfl, fun hp hce => ?_⟩
      obtain ⟨clv, cl, h1, h2, h3⟩ := hp hce
      exact ⟨clv, cl, by rw [← h1]; exact header_addHeader_ne p key value _ hne, h2, h3⟩
    · simp only [Except.ok.injEq] at h; subst h
      refine ⟨rfl, rfl, rfl, rfl, fun hp hce => ?_⟩
      obtain ⟨clv, cl, h1, h2, h3⟩ := hp hce
      exact ⟨clv, cl, by rw [← h1]; exact header_addHeader_ne p key value _ hne, h2, h3⟩

/-! ### invariants of parser states -/

structure InvCore (p : Parser) : Prop where
  chunkWF : ∀ c, p.chunk = some c → c.WF
  clOk : ClOk p
  bodyLt : p.state ≠ .complete → p.contentExpected = true → ∀ clv cl,
    header p (b "content-length") = .ok clv → pyInt 10 clv = some cl →
    Int.ofNat (p.body.getD []).length < cl
  early : p.state.num < 4 → p.body = none
  line : p.state.num ≤ 2 → p.contentExpected = false ∧ p.isChunked = false ∧ p.headers = none

/-- in the body phase the framing is known: chunked, Content-Length, or a
    close-delimited response -/
def Framed (p : Parser) : Prop :=
  (p.state = .headersComplete ∨ p.state = .rcvingBody) →
    p.isChunked = true ∨ p.contentExpected = true ∨
      (p.ty = .response ∧ hasHeader p (b "content-length") = false)

/-- Well-formedness of a parser state (every state reachable from `init ty`,
    `inv_init` / `stepOnce_inv`). -/
def Inv (p : Parser) : Prop := InvCore p ∧ Framed p

theorem inv_init (ty : PType) : Inv (init ty) := by
  refine ⟨⟨?_, ?_, ?_, ?_, ?_⟩, ?_⟩
  · intro c h; simp [init] at h
  · intro h; simp [init] at h
  · intro _ h; simp [init] at h
  · intro _; rfl
  · intro _; exact ⟨rfl, rfl, rfl⟩
  · intro h; simp [init] at h

theorem invCore_complete {p : Parser} (h : InvCore p) : InvCore { p with state := .complete } :=
  ⟨h.chunkWF, h.clOk, fun hne => absurd rfl hne, fun hn => by simp [PState.num] at hn,
   fun hn => by simp [PState.num] at hn⟩

theorem inv_complete {p : Parser} (h : InvCore p) : Inv { p with state := .complete } :=
  ⟨invCore_complete h, fun hs => by simp at hs⟩

/-- after the request/status line: same framing fields, state `lineRcvd` -/
theorem invCore_lineRcvd {p q : Parser} (h : InvCore p) (hp : p.state = .initialized)
    (_hs : q.state = .lineRcvd) (hf : SameFraming p q) : InvCore q := by
  obtain ⟨h1, h2, h3, h4, h5, h6⟩ := hf
  have hl := h.line (by simp [hp, PState.num])
  have hhd : ∀ k, header q k = header p k := fun k => by unfold header; rw [h2]
  refine ⟨?_, ?_, ?_, ?_, ?_⟩
  · intro c hc; exact h.chunkWF c (h4 ▸ hc)
  · intro hce; rw [h5, hl.1] at hce; simp at hce
  · intro _ hce; rw [h5, hl.1] at hce; simp at hce
  · intro _; rw [h3]; exact h.early (by simp [hp, PState.num])
  · intro _; rw [h5, h6, h2]; exact hl

theorem header_inj {p : Parser} {k a c : Bytes} (h1 : header p k = .ok a) (h2 : header p k = .ok c) : a = c := by
  rw [h1] at h2; exact Except.ok.inj h2

/-- with no body yet, a backed `contentExpected` gives the body-length bound -/
theorem bodyLt_of_none {q : Parser} (hc : ClOk q) (hb : q.body = none) :
    q.contentExpected = true → ∀ clv cl, header q (b "content-length") = .ok clv →
      pyInt 10 clv = some cl → Int.ofNat (q.body.getD []).length < cl := by
  intro hce clv cl h1 h2
  obtain ⟨clv', cl', h1', h2', h3⟩ := hc hce
  have := header_inj h1 h1'; subst this
  rw [h2] at h2'; simp only [Option.some.injEq] at h2'; subst h2'
  simpa [hb] using h3

theorem hdrStep_spec {p q : Parser} {line : Bytes} (hs : p.state = .lineRcvd ∨ p.state = .rcvingHeaders)
    (hi : InvCore p) (h : hdrStep p line = .ok q) :
    InvCore q ∧ q.ty = p.ty ∧ (q.state = .headersComplete ∨ q.state = .rcvingHeaders) := by
  have hbody : p.body = none := hi.early (by rcases hs with h | h <;> simp [h, PState.num])
  unfold hdrStep at h
  have : (p.state == .lineRcvd || p.state == .rcvingHeaders) = true := by
    rcases hs with h | h <;> simp [h]
  rw [if_pos this] at h
  split at h
  · simp only [Except.ok.injEq] at h; subst h
    refine ⟨⟨hi.chunkWF, hi.clOk, fun _ => bodyLt_of_none hi.clOk hbody, ?_, ?_⟩, rfl, .inl rfl⟩
    · intro hn; simp [PState.num] at hn
    · intro hn; simp [PState.num] at hn
  · obtain ⟨h1, h2, h3, h4, h5⟩ := processHeader_spec h
    have hcq : ClOk q := h5 hi.clOk
    have hbq : q.body = none := by rw [h3]; exact hbody
    refine ⟨⟨?_, hcq, fun _ => bodyLt_of_none hcq hbq, fun _ => hbq, ?_⟩, h2, .inr h1⟩
    · intro c hc; rw [h4] at hc; exact hi.chunkWF c hc
    · intro hn; rw [h1] at hn; simp [PState.num] at hn

/-- outside the header states `hdrStep` does nothing -/
theorem hdrStep_other {p : Parser} (line : Bytes) (h1 : p.state ≠ .lineRcvd) (h2 : p.state ≠ .rcvingHeaders) :
    hdrStep p line = .ok p := by
  unfold hdrStep
  have : (p.state == .lineRcvd || p.state == .rcvingHeaders) = false := by simp [h1, h2]
  rw [this]; rfl

/-- one unit of fuel per line is enough: every line takes at least two bytes -/
theorem processHeaders_fuel (f1 f2 : Nat) (p : Parser) (u : Bytes) (h1 : u.length < f1) (h2 : u.length < f2) :
    processHeaders f1 p u = processHeaders f2 p u := by
  induction f1 generalizing f2 p u with
  | zero => omega
  | succ f1 ih =>
    cases f2 with
    | zero => omega
    | succ f2 =>
      rw [processHeaders_succ, processHeaders_succ]
      cases hs : splitCRLF u with
      | none => rfl
      | some pr =>
        obtain ⟨line, rest⟩ := pr
        have := splitCRLF_some_length hs
        simp only
        cases hdrStep p line with
        | error e => rfl
        | ok q =>
          simp only
          split
          · rfl
          · exact ih f2 q rest (by omega) (by omega)

theorem processHeaders_append (f f' : Nat) (p : Parser) (u b : Bytes) (hp : p.state ≠ .headersComplete)
    (hf : u.length < f) (hf' : (u ++ b).length < f') (hb : b ≠ []) :
    (∀ e, processHeaders f p u = .error e → processHeaders f' p (u ++ b) = .error e) ∧
    (∀ q m r, processHeaders f p u = .ok (q, m, r) →
      (q.state = .headersComplete → processHeaders f' p (u ++ b) = .ok (q, true, r ++ b)) ∧
      (q.state ≠ .headersComplete →
        processHeaders f' p (u ++ b) = processHeaders ((r ++ b).length + 1) q (r ++ b))) := by
  induction f generalizing f' p u with
  | zero => omega
  | succ f ih =>
    cases f' with
    | zero => omega
    | succ f' =>
      rw [processHeaders_succ, processHeaders_succ]
      cases hs : splitCRLF u with
      | none =>
        simp only
        refine ⟨fun e h => by simp at h, fun q m r h => ?_⟩
        simp only [Except.ok.injEq, Prod.mk.injEq] at h
        obtain ⟨rfl, rfl, rfl⟩ := h
        refine ⟨fun h => absurd h hp, fun _ => ?_⟩
        rw [← processHeaders_succ]
        exact processHeaders_fuel _ _ _ _ hf' (by omega)
      | some pr =>
        obtain ⟨line, rest⟩ := pr
        have hlen := splitCRLF_some_length hs
        rw [splitCRLF_append_some hs b]
        simp only
        cases hh : hdrStep p line with
        | error e => exact ⟨fun e h => by simpa using h, fun q m r h => by simp at h⟩
        | ok q =>
          simp only
          have hne : (rest ++ b).isEmpty = false := by simp [hb]
          by_cases hq : q.state = .headersComplete
          · simp only [hq, beq_self_eq_true, Bool.or_true, if_true, hne, Bool.not_false]
            refine ⟨fun e h => by simp at h, fun q' m r h => ?_⟩
            simp only [Except.ok.injEq, Prod.mk.injEq] at h
            obtain ⟨rfl, rfl, rfl⟩ := h
            exact ⟨fun _ => rfl, fun h => absurd hq h⟩
          · have hq' : (q.state == .headersComplete) = false := by simp [hq]
            simp only [hq', Bool.or_false, hne, Bool.false_eq_true, if_false]
            by_cases hr : rest = []
            · subst hr
              simp only [List.isEmpty_nil, if_true]
              refine ⟨fun e h => by simp at h, fun q' m r h => ?_⟩
              simp only [Except.ok.injEq, Prod.mk.injEq] at h
              obtain ⟨rfl, rfl, rfl⟩ := h
              refine ⟨fun h => absurd h hq, fun _ => ?_⟩
              simp only [List.length_append, List.nil_append] at hf' ⊢
              exact processHeaders_fuel _ _ _ _ (by simp only [List.length_nil] at hlen; omega) (by omega)
            · have : rest.isEmpty = false := by simp [hr]
              simp only [this, Bool.false_eq_true, if_false]
              simp only [List.length_append] at hf'
              exact ih f' q rest hq (by omega) (by simp only [List.length_append]; omega)
end Px.Parser
