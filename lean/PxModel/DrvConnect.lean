import PxModel.Connect
import PxModel.DrvParser
namespace Px.Connect

def errStr : Err → String
  | .httpProtocol => "httpProtocol" | .unicodeError => "unicodeError"

def optBytes (s : String) : Option (Option Bytes) :=
  if s == "None" then some none else (unhex s).map some

def optInt (s : String) : Option (Option Int) :=
  if s == "None" then some none else s.toInt?.map some

def firstLine (x : Bytes) : Bytes :=
  match splitCRLF x with
  | some (l, _) => l
  | none => x

def outcomeStr : Outcome → String
  | .incomplete => "incomplete"
  | .reject400 => s!"reject client={hex (firstLine Px.Gen.pkt_BAD_REQUEST_RESPONSE_PKT)} connect=None"
  | .closeSilent => "close client=- connect=None"
  | .reject502 => s!"reject client={hex (firstLine Px.Gen.pkt_BAD_GATEWAY_RESPONSE_PKT)} connect=None"
  | .connected a tunnel line =>
    if tunnel then
      s!"tunnel client={hex (firstLine Px.Gen.pkt_PROXY_TUNNEL_ESTABLISHED_RESPONSE_PKT)} connect={hex a.host}:{a.port} upstream=-"
    else s!"forward client=- connect={hex a.host}:{a.port} upstream={hex line}"

def parseForm (s : String) : Option Form :=
  if s == "origin" then some .origin else if s == "absolute" then some .absolute
  else if s == "authority" then some .authority else none

def parseHost (k t : String) : Option Host := do
  let t ← unhex t
  if k == "reg" then some (.regName t) else if k == "v4" then some (.ipv4 t)
  else if k == "v6" then some (.ipv6 t) else none

/-- `conn addr <pool 0|1> <host|None> <port|None>`           connect_upstream's address formation
    `conn route <isV4 0|1> <isV6 0|1> <host> <port> <srcHost|None> <srcPort>`   new_socket_connection
    `conn handle <pool 0|1> <seg>…`                          first request through handler + proxy plugin
                                                             (pool: --enable-conn-pool, also prints the key given to acquire)
    `conn spec <form> <scheme> <user|None> <pass|None> <reg|v4|v6> <hosttext> <port|None> <pathq>`
        grammar guard and rendering of the specification-side `Target` -/
def drv (args : List String) : String :=
  match args with
  | ["addr", pool, h, p] =>
    match optBytes h, optInt p with
    | some h, some p =>
      match connectUpstreamP (pool == "1") h p with
      | .ok a => s!"ok {hex a.host} {a.port}"
      | .error e => "exc " ++ errStr e
    | _, _ => "bad-op"
  | ["route", v4, v6, h, p, sh, sp] =>
    match unhex h, p.toInt?, optBytes sh, sp.toInt? with
    | some h, some p, some sh, some sp =>
      let src := sh.map (fun x => (x, sp))
      match newSocketConnection (fun _ => v4 == "1") (fun _ => v6 == "1") ⟨h, p⟩ src with
      | .inet h p => s!"inet {hex h} {p}"
      | .inet6 h p f s => s!"inet6 {hex h} {p} {f} {s}"
      | .name h p src => s!"name {hex h} {p} src=" ++
          (match src with | none => "None" | some (a, q) => s!"{hex a}:{q}")
    | _, _, _, _ => "bad-op"
  | "handle" :: pool :: segs =>
    match Px.Parser.unhexAll segs with
    | some segs =>
      let acq := match (handleFirst {} (pool == "1") segs), pool == "1" with
        | .connected a _ _, true => s!" acquire={hex a.host}:{a.port}"
        | _, true => " acquire=None"
        | _, false => ""
      outcomeStr (handleFirst {} (pool == "1") segs) ++ acq
    | none => "bad-op"
  | ["spec", form, scheme, user, pass, hk, ht, port, pathq] =>
    match parseForm form, unhex scheme, optBytes user, optBytes pass, parseHost hk ht, unhex pathq with
    | some form, some scheme, some user, some pass, some host, some pathq =>
      let port : Option (Option Nat) := if port == "None" then some none else port.toNat?.map some
      match port with
      | none => "bad-op"
      | some port =>
        let ui := match user, pass with
          | some u, some p => some (u, p)
          | _, _ => none
        let t : Target := { form := form, scheme := scheme, userinfo := ui, host := host, port := port, pathq := pathq }
        s!"wf={if t.wf Px.Gen.defaultAllowedUrlSchemes then 1 else 0} raw={hex (renderT t)} bare={hex t.host.bare}"
    | _, _, _, _, _, _ => "bad-op"
  | _ => "bad-op"

end Px.Connect
