import PxModel.Exec
import PxProofs.ExecLemmas
/-!
# C05 — one connection cannot take down or stall the executor serving the others

Property theorems only; the lemmas are in `PxProofs/ExecLemmas.lean`.  The model
(`PxModel/Selector.lean`, `PxModel/Exec.lean`) is tied to
`proxy/core/work/threadless.py`, `proxy/core/work/fd/{fd,local}.py` and CPython's
`selectors.EpollSelector` by the correspondence checks `harness/c05.py` /
`harness/c10.py` (real `LocalFdExecutor`, real `DefaultSelector`, real sockets).

A work is abstract: in every round the environment chooses what its
`get_events()` returns or that it raises, what its task returns or that it
raises, which descriptors it opens and closes, what its `shutdown()` closes and
whether it raises.  The theorems quantify over *all* such environments.
-/
namespace Px.Exec
open Px.Sel

/-- executor as constructed: no works, empty registry, empty selector, any descriptor table -/
def fresh (k : Kernel) : Exec := { works := [], registered := [], sk := { map := [], k := k } }

theorem fresh_inv (k : Kernel) : Inv (fresh k) := by
  constructor <;> simp [fresh, cell, regOf]

/-- states reachable by any history of rounds (`_run_once`) and reaper runs
    (`_cleanup_inactive`) — any number of works, any behaviour of each of them,
    any readiness, any arrival satisfying `ArriveOk` -/
inductive Reach : Exec → Prop
  | init (k : Kernel) : Reach (fresh k)
  | round {x y : Exec} {log : Log} (env : RoundEnv) : Reach x → ArriveOk x env →
      runOnce x env = .ok (y, log) → Reach y
  | reap {x y : Exec} (inactive : WorkId → Bool) (sd : WorkId → Shutdown) : Reach x →
      reap x inactive sd = .ok y → Reach y

/-- the invariant holds in every reachable state -/
theorem C05_reach_inv {x : Exec} (h : Reach x) : Inv x := by
  induction h with
  | init k => exact fresh_inv k
  | round env _ ha hr ih =>
    obtain ⟨y', log', h', hi'⟩ := runOnce_ok _ env ih ha
    rw [hr] at h'; cases h'; exact hi'
  | reap inactive sd _ hr ih =>
    obtain ⟨y', h', hi', _⟩ := reap_ok _ inactive sd ih
    rw [hr] at h'; cases h'; exact hi'

/-- **C05 aliveness.**  From any state satisfying the invariant, for ANY
behaviour of any work — any result or exception of `get_events`, any
`selectors` / `epoll_ctl` error its descriptors provoke, any result or exception
of its task, any descriptors closed or opened meanwhile, a `shutdown()` that
raises — no exception escapes `_run_once`, and the invariant holds again. -/
theorem C05_alive (x : Exec) (env : RoundEnv) (hi : Inv x) (ha : ArriveOk x env) :
    ∃ y log, runOnce x env = .ok (y, log) ∧ Inv y :=
  runOnce_ok x env hi ha

/-- aliveness along every history: a reachable executor never dies -/
theorem C05_alive_forever {x : Exec} (h : Reach x) (env : RoundEnv) (ha : ArriveOk x env) :
    ∃ y log, runOnce x env = .ok (y, log) ∧ Reach y := by
  obtain ⟨y, log, hr, _⟩ := runOnce_ok x env (C05_reach_inv h) ha
  exact ⟨y, log, hr, Reach.round env h ha hr⟩

/-- the reaper never dies either -/
theorem C05_reap_alive {x : Exec} (h : Reach x) (inactive : WorkId → Bool) (sd : WorkId → Shutdown) :
    ∃ y, reap x inactive sd = .ok y ∧ Reach y := by
  obtain ⟨y, hr, _, _⟩ := reap_ok x inactive sd (C05_reach_inv h)
  exact ⟨y, hr, Reach.reap inactive sd h hr⟩

/-- **C05 others keep being served.**  Whatever the other works do in a
round, a work whose own event refresh did not fail and whose own task did not
ask for teardown is still there after the round. -/
theorem C05_others_survive (x : Exec) (env : RoundEnv) (hi : Inv x) (ha : ArriveOk x env) (b : WorkId)
    (hb : b ∈ x.works) :
    ∃ y log, runOnce x env = .ok (y, log) ∧
      (b ∉ log.failed → ¬ (b ∈ log.tasks.map (·.1) ∧ teardown env b = true) → b ∈ y.works) := by
  obtain ⟨y, log, hr, _, _, _, _, _, h4, _⟩ := runOnce_facts x env hi ha
  exact ⟨y, log, hr, h4 b hb⟩

/-- The guard `ArriveOk` is not vacuous … -/
example : ArriveOk (fresh ⟨[5], []⟩) { beh := fun _ => ⟨.ok [], .fls, [], ⟨[], false⟩⟩, ready := [], arrive := some ⟨5, true⟩, prio := [] } := by
  intro a h; cases h; simp [fresh]

/-- … and it excludes exactly a real way to die: a work that closed its client
socket without being torn down (`works` still holds id 5, with descriptor 7
registered and ready), a new connection that is handed the same descriptor
number 5 and whose `initialize()` raises: `work()` overwrites `works[5]`,
`_cleanup(5)` deletes it, and `_create_tasks` then evaluates `self.works[5]`
for the ready descriptor → `KeyError` out of `_run_once`.  (Not reachable with
`HttpProtocolHandler`, which closes its client socket only in `shutdown()`.) -/
def witnessState : Exec :=
  { works := [5], registered := [(5, [(7, 1)])],
    sk := { map := [(7, (1, 5))], k := { open_ := [5, 7], epoll := [(7, 1)] } } }

def witnessEnv : RoundEnv :=
  { beh := fun _ => ⟨.ok [(7, 1)], .fls, [], ⟨[], false⟩⟩, ready := [(7, 1)], arrive := some ⟨5, true⟩, prio := [] }

theorem C05_arrive_guard_witness :
    runOnce witnessState witnessEnv = .error (.worksKeyError 5) ∧ ¬ ArriveOk witnessState witnessEnv := by
  constructor
  · rfl
  · intro h
    have := (h ⟨5, true⟩ rfl).2 rfl
    exact this (by simp [witnessState])

end Px.Exec
