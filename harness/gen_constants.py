"""Translator for constants: dumps the values the Lean models and theorems
depend on from the imported /repo implementation into
lean/PxModel/Generated.lean (rewritten only when the content changes, so an
unchanged tree keeps `lake build` a no-op; a changed constant forces every
theorem that mentions it to be re-checked against what the code says now)."""
import os
import sys

sys.path.insert(0, os.environ.get('VERIF_REPO', '/repo'))

VERIF = os.path.dirname(os.path.dirname(os.path.abspath(__file__)))
OUT = os.path.join(VERIF, 'lean', 'PxModel', 'Generated.lean')


def lbytes(x):
    x = bytes(x)
    return '[' + ', '.join(str(c) for c in x) + ']'


def plugin_order_table():
    """C08/C09: for a fixed table of flag combinations, what FlagParser.initialize hands to
    Plugins.load (class name, plugin bucket, in order), the auth plugin, the requested plugins
    and the resulting HttpProxyBasePlugin list (observed, not recomputed)."""
    import inspect
    import logging
    from proxy.common.flag import FlagParser
    from proxy.common.plugins import Plugins
    from proxy.common.utils import bytes_
    logging.disable(logging.CRITICAL)
    mitm, flt = 'proxy.plugin.ManInTheMiddlePlugin', 'proxy.plugin.FilterByUpstreamHostPlugin'
    combos = [
        (None, [], {}), ('user:pass', [], {}), ('user:pass', [mitm], {}),
        ('user:pass', [flt, mitm], {}), ('user:pass', [mitm, flt], {}),
        ('a:b', [mitm, mitm], {}), ('a:b', [mitm, 'proxy.http.proxy.auth.AuthPlugin'], {}),
        ('a:b', ['proxy.plugin.ModifyChunkResponsePlugin', 'proxy.plugin.WebServerPlugin',
                 'proxy.plugin.ProxyPoolPlugin'], {'enable_web_server': True}),
        (None, [mitm], {}),
    ]
    rows = []
    for auth, req, extra in combos:
        seen = {}
        orig = Plugins.load

        def spy(plugins, abc_plugins=None, _o=orig, _s=seen):
            _s['arg'] = list(plugins)
            _s['res'] = _o(plugins, abc_plugins)
            return _s['res']
        Plugins.load = staticmethod(spy)
        try:
            kw = dict(extra)
            if auth:
                kw['basic_auth'] = auth
            flags = FlagParser.initialize(['--hostname', '127.0.0.1'], threadless=True, plugins=list(req), **kw)
        finally:
            Plugins.load = staticmethod(orig)

        def nm(entry):
            return bytes_(Plugins.importer(entry)[0].__qualname__)

        def bucket(entry):
            for c in inspect.getmro(Plugins.importer(entry)[0]):
                if bytes_(c.__qualname__) in seen['res']:
                    return bytes_(c.__qualname__)
            return b'?'
        rows.append((
            [(nm(e), bucket(e)) for e in seen['arg']],
            nm(bytes_(flags.auth_plugin)) if auth else b'',
            [nm(bytes_(r)) for r in req],
            [bytes_(k.__qualname__) for k in flags.plugins[b'HttpProxyBasePlugin']],
        ))
    return rows


def pki_probe():
    """C11: the byte literals inside proxy.common.pki.get_ext_config / ssl_config, observed by probing
    (p1 = one empty name, p2 = two empty names: p1 = header + prefix, p2 = p1 + COMMA + prefix)."""
    from proxy.common import pki
    from proxy.common.constants import COMMA
    p1, p2 = pki.get_ext_config([''], None), pki.get_ext_config(['', ''], None)
    prefix = p2[len(p1) + len(COMMA):]
    header = p1[:len(p1) - len(prefix)]
    eku = pki.get_ext_config(None, '')
    pip = pki.get_ext_config(['127.0.0.1'], None)
    ip_prefix = pip[len(header):len(pip) - len(b'127.0.0.1')]
    with pki.ssl_config([''], None) as (path, _has):
        with open(path, 'rb') as f:
            content = f.read()
    section = content[len(pki.DEFAULT_CONFIG):len(content) - len(p1)]
    return header, prefix, eku, section, pki.DEFAULT_CONFIG, ip_prefix


def collect():
    from proxy.common import constants as C
    from proxy.http.websocket.frame import WebsocketFrame
    from proxy.http import responses as R
    from proxy.http.parser.types import httpParserStates, httpParserTypes
    from proxy.http.parser.chunk import chunkParserStates
    from proxy.http.methods import httpMethods
    from proxy.core.work import threadless as TL
    out = []

    def B(name, val, doc=None):
        out.append((name, 'Bytes', lbytes(val), doc))

    def N(name, val, doc=None):
        out.append((name, 'Nat', str(int(val)), doc))

    def LB(name, vals, doc=None):
        out.append((name, 'List Bytes', '[' + ', '.join(lbytes(v) for v in vals) + ']', doc))

    B('crlf', C.CRLF)
    B('colon', C.COLON)
    B('whitespace', C.WHITESPACE)
    B('slash', C.SLASH)
    B('http10', C.HTTP_1_0)
    B('http11', C.HTTP_1_1)
    N('defaultHttpPort', C.DEFAULT_HTTP_PORT)
    N('defaultHttpsPort', C.DEFAULT_HTTPS_PORT); B('httpProto', C.HTTP_PROTO); B('httpsProto', C.HTTPS_PROTO)   # C12
    N('defaultPort', C.DEFAULT_PORT)
    N('defaultBufferSize', C.DEFAULT_BUFFER_SIZE)
    N('defaultMaxSendSize', C.DEFAULT_MAX_SEND_SIZE)
    N('defaultTimeout', C.DEFAULT_TIMEOUT)
    LB('defaultDisableHeaders', C.DEFAULT_DISABLE_HEADERS)
    LB('defaultAllowedUrlSchemes', C.DEFAULT_ALLOWED_URL_SCHEMES)
    B('proxyAgentHeaderValue', C.PROXY_AGENT_HEADER_VALUE)
    B('wsGuid', WebsocketFrame.GUID)
    from proxy.http.websocket.frame import websocketOpcodes
    N('wsOpText', websocketOpcodes.TEXT_FRAME, 'opcode WebsocketFrame.text() sends')
    N('wsOpClose', websocketOpcodes.CONNECTION_CLOSE, 'opcode at which the web server\'s websocket loop stops')
    B('connectMethod', httpMethods.CONNECT)
    # parser state numbering
    for k in ('INITIALIZED', 'LINE_RCVD', 'RCVING_HEADERS', 'HEADERS_COMPLETE', 'RCVING_BODY', 'COMPLETE'):
        N('st_' + k, getattr(httpParserStates, k))
    N('ty_REQUEST', httpParserTypes.REQUEST_PARSER)
    N('ty_RESPONSE', httpParserTypes.RESPONSE_PARSER)
    for k in ('WAITING_FOR_SIZE', 'WAITING_FOR_DATA', 'COMPLETE'):
        N('cst_' + k, getattr(chunkParserStates, k))
    # canned packets
    for name in (
        'PROXY_TUNNEL_ESTABLISHED_RESPONSE_PKT', 'PROXY_AUTH_FAILED_RESPONSE_PKT',
        'NOT_FOUND_RESPONSE_PKT', 'NOT_IMPLEMENTED_RESPONSE_PKT', 'BAD_GATEWAY_RESPONSE_PKT',
        'BAD_REQUEST_RESPONSE_PKT', 'PROXY_TUNNEL_UNSUPPORTED_SCHEME',
    ):
        B('pkt_' + name, bytes(getattr(R, name)))
    # C06: response builders' constants, handler protocol numbering
    B('proxyAgentHeaderKey', C.PROXY_AGENT_HEADER_KEY)
    N('defaultMinCompressionLength', C.DEFAULT_MIN_COMPRESSION_LENGTH)
    from proxy.http.protocols import httpProtocols as _HP
    for k in ('UNKNOWN', 'WEB_SERVER', 'HTTP_PROXY', 'SOCKS_PROXY'):
        N('proto_' + k, getattr(_HP, k))
    from proxy.http.codes import httpStatusCodes as _SC
    for k in ('OK', 'SEE_OTHER', 'PERMANENT_REDIRECT', 'BAD_REQUEST', 'SWITCHING_PROTOCOLS'):
        N('code_' + k, getattr(_SC, k))
    # executor cadence (milliseconds / seconds as floats in the code)
    N('selectTimeoutMs', round(C.DEFAULT_SELECTOR_SELECT_TIMEOUT * 1000))
    N('waitTimeoutMs', round(C.DEFAULT_WAIT_FOR_TASKS_TIMEOUT * 1000))
    N('cleanupTimeoutMs', round(C.DEFAULT_INACTIVE_CONN_CLEANUP_TIMEOUT * 1000))
    # C08/C09: header names stripped before forwarding, plugin load order table
    from proxy.http.headers import httpHeaders as _HH
    B('hdrProxyAuthorization', _HH.PROXY_AUTHORIZATION)
    B('hdrProxyConnection', _HH.PROXY_CONNECTION)
    # C11: pki ext-file / config literals
    _h, _p, _e, _s, _d, _ip = pki_probe()
    B('comma', C.COMMA)
    B('pkiSanHeader', _h)
    B('pkiSanEntryPrefix', _p)
    B('pkiSanIpEntryPrefix', _ip, 'prefix of the entry written for a name ipaddress.ip_address accepts')
    B('pkiEkuHeader', _e)
    B('pkiProxySection', _s)
    B('pkiDefaultConfig', _d)
    out.append(('pluginOrderTable',
                'List (List (List UInt8 × List UInt8) × List UInt8 × List (List UInt8) × List (List UInt8))',
                '[' + ',\n  '.join('([%s], %s, [%s], [%s])' % (
                    ', '.join('(%s, %s)' % (lbytes(a), lbytes(b_)) for a, b_ in arg), lbytes(au),
                    ', '.join(lbytes(r) for r in req), ', '.join(lbytes(r) for r in res))
                    for arg, au, req, res in plugin_order_table()) + ']',
                'rows: (argument of Plugins.load as (class, bucket), auth plugin or empty, requested plugins, loaded HttpProxyBasePlugin list)'))
    return out


def render(entries):
    lines = [
        '/- GENERATED by harness/gen_constants.py from the imported /repo implementation.',
        '   Do not edit: rewritten (only when changed) on every check run. -/',
        'namespace Px.Gen',
        '',
    ]
    for name, ty, val, doc in entries:
        if doc:
            lines.append('/-- %s -/' % doc)
        lines.append('def %s : %s := %s' % (name, ty if ty != 'Bytes' else 'List UInt8', val))
    lines += ['', 'end Px.Gen', '']
    return '\n'.join(lines).replace('List Bytes', 'List (List UInt8)')


def main():
    text = render(collect())
    old = open(OUT).read() if os.path.exists(OUT) else None
    if old != text:
        tmp = OUT + '.tmp'
        with open(tmp, 'w') as f:
            f.write(text)
        os.replace(tmp, OUT)
        print('generated constants: rewritten')
    else:
        print('generated constants: unchanged')


if __name__ == '__main__':
    main()
