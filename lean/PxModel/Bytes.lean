/-
  Python `bytes` helpers, modelled with CPython's corner cases.
  Core Lean only (no Mathlib) so that the driver executable links.
-/

abbrev Bytes := List UInt8

namespace Px

/-- ASCII string literal to bytes (model-side constants). -/
def b (s : String) : Bytes := s.toUTF8.toList

def CR : UInt8 := 13
def LF : UInt8 := 10
def CRLF : Bytes := [13, 10]
def SP : UInt8 := 32
def COLON : UInt8 := 58
def SLASH : UInt8 := 47

/-- Python's ASCII whitespace set used by `bytes.strip()` / `bytes.split()`:
    space, \t, \n, \r, \x0b, \x0c. -/
def isWs (c : UInt8) : Bool :=
  c == 32 || c == 9 || c == 10 || c == 13 || c == 11 || c == 12

def lstrip : Bytes → Bytes
  | [] => []
  | c :: cs => if isWs c then lstrip cs else c :: cs

def rstrip (x : Bytes) : Bytes := (lstrip x.reverse).reverse

/-- `x.strip()` -/
def strip (x : Bytes) : Bytes := rstrip (lstrip x)

def lowerByte (c : UInt8) : UInt8 := if 65 ≤ c && c ≤ 90 then c + 32 else c
def upperByte (c : UInt8) : UInt8 := if 97 ≤ c && c ≤ 122 then c - 32 else c

/-- `x.lower()` (ASCII only, as for Python bytes) -/
def lower (x : Bytes) : Bytes := x.map lowerByte
def upper (x : Bytes) : Bytes := x.map upperByte

/-- `x.startswith(p)` -/
def startsWith : Bytes → Bytes → Bool
  | _, [] => true
  | [], _ :: _ => false
  | c :: cs, p :: ps => c == p && startsWith cs ps

/-- `x.split(CRLF, 1)`: `none` when there is no CRLF (len(parts) == 1),
    else `(before first CRLF, after it)`. -/
def splitCRLF : Bytes → Option (Bytes × Bytes)
  | [] => none
  | [_] => none
  | c :: d :: rest =>
    if c == 13 && d == 10 then some ([], rest)
    else match splitCRLF (d :: rest) with
      | none => none
      | some (l, r) => some (c :: l, r)

/-- `x.split(sep, 1)` for a single-byte separator: `none` ⇔ one part. -/
def splitOnce1 (sep : UInt8) : Bytes → Option (Bytes × Bytes)
  | [] => none
  | c :: cs =>
    if c == sep then some ([], cs)
    else match splitOnce1 sep cs with
      | none => none
      | some (l, r) => some (c :: l, r)

/-- `x.split(sep, n)` for a single-byte separator; always returns ≥ 1 part. -/
def splitN1 (sep : UInt8) : Nat → Bytes → List Bytes
  | 0, x => [x]
  | n + 1, x =>
    match splitOnce1 sep x with
    | none => [x]
    | some (l, r) => l :: splitN1 sep n r

/-- `x.split(sep)` for a single-byte separator (unbounded). -/
def splitAll1 (sep : UInt8) (x : Bytes) : List Bytes := splitN1 sep x.length x

/-- `x.rsplit(sep, 1)` for a single-byte separator: `none` ⇔ one part. -/
def rsplitOnce1 (sep : UInt8) (x : Bytes) : Option (Bytes × Bytes) :=
  match splitOnce1 sep x.reverse with
  | none => none
  | some (l, r) => some (r.reverse, l.reverse)

/-- `x.split()` (whitespace split, no empty parts). -/
def splitWsAux : Bytes → Bytes → List Bytes
  | [], cur => if cur.isEmpty then [] else [cur.reverse]
  | c :: cs, cur =>
    if isWs c then
      (if cur.isEmpty then splitWsAux cs [] else cur.reverse :: splitWsAux cs [])
    else splitWsAux cs (c :: cur)

def splitWs (x : Bytes) : List Bytes := splitWsAux x []

/-- `sep.join(parts)` -/
def join (sep : Bytes) : List Bytes → Bytes
  | [] => []
  | [x] => x
  | x :: y :: rest => x ++ sep ++ join sep (y :: rest)

/-- Does `x` contain byte `c`? -/
def containsByte (x : Bytes) (c : UInt8) : Bool := x.any (· == c)

/-- `needle in x` for byte strings -/
def isInfix : Bytes → Bytes → Bool
  | needle, [] => needle.isEmpty
  | needle, c :: cs => startsWith (c :: cs) needle || isInfix needle cs

/-- decimal rendering, `str(n).encode()` for `n ≥ 0` -/
def natToDec (n : Nat) : Bytes := (toString n).toUTF8.toList

def hexDigit (d : Nat) : UInt8 :=
  if d < 10 then UInt8.ofNat (48 + d) else UInt8.ofNat (87 + d)

/-- `'{:x}'.format(n).encode()` -/
def natToHexAux : Nat → Nat → Bytes → Bytes
  | 0, _, acc => acc
  | fuel + 1, n, acc =>
    if n < 16 then hexDigit n :: acc
    else natToHexAux fuel (n / 16) (hexDigit (n % 16) :: acc)

def natToHex (n : Nat) : Bytes := natToHexAux (n + 1) n []

/-! ### hex transport encoding for the line protocol -/

def hexNib (c : Char) : Option Nat :=
  if '0' ≤ c ∧ c ≤ '9' then some (c.toNat - 48)
  else if 'a' ≤ c ∧ c ≤ 'f' then some (c.toNat - 87)
  else if 'A' ≤ c ∧ c ≤ 'F' then some (c.toNat - 55)
  else none

def unhexAux : List Char → Bytes → Option Bytes
  | [], acc => some acc.reverse
  | [_], _ => none
  | a :: c :: rest, acc =>
    match hexNib a, hexNib c with
    | some x, some y => unhexAux rest (UInt8.ofNat (x * 16 + y) :: acc)
    | _, _ => none

/-- `"-"` is the empty byte string; otherwise lower-case hex. -/
def unhex (s : String) : Option Bytes :=
  if s == "-" then some [] else unhexAux s.toList []

def nibChar (n : Nat) : Char :=
  if n < 10 then Char.ofNat (48 + n) else Char.ofNat (87 + n)

def hex (x : Bytes) : String :=
  if x.isEmpty then "-"
  else String.ofList (x.foldr (fun c acc => nibChar (c.toNat / 16) :: nibChar (c.toNat % 16) :: acc) [])

def hexOpt : Option Bytes → String
  | none => "None"
  | some x => hex x

end Px
