import PxProofs.BuildGuards
/-!
# Header-less responses: `build_http_response(status, reason=…, no_cl=True)` without headers and body (C15)
-/
namespace Px.Codec

open Px.Parser Px.Build

/-- **builder → parser, header-less response** (`HTTP/1.1 200 Connection established CRLF CRLF`):
    complete at once, no header map, no body, nothing left over -/
theorem parse_build_resp_headerless (cfg : Cfg) (status : Int) (v : Bytes) (reason : Option Bytes)
    (hv : plainTok v = true) (hr : reasonOK reason = true) :
    ∃ r, parse cfg (init .response) (buildResponse status v reason [] none false true) = .ok r ∧
      r.state = .complete ∧ r.version = some v ∧ r.code = some (intToDec status) ∧
      r.reason = reasonSeen reason ∧ r.headers = none ∧ r.body = none ∧ r.buffer = none := by
  obtain ⟨-, hvsp, hvcr⟩ := plainTok_spec hv
  obtain ⟨hcsp, hccr⟩ := intToDec_plain status
  have hH : resHeaders [] none false true = [] := by decide
  have hpkt : buildResponse status v reason [] none false true = statusLine status v reason ++ CRLF ++ CRLF := by
    rw [buildResponse_eq, hH]; simp [renderHdrs]
  rw [hpkt]
  cases reason with
  | none =>
    have hpl := processLine_response2 cfg (statusLine status v none ++ CRLF ++ CRLF).length CRLF hvsp hcsp
      (line2_noCRLF hvcr hccr)
    have := parse_headerless_response cfg (statusLine status v none) _ _ rfl hpl rfl rfl
    exact ⟨_, this, rfl, rfl, rfl, rfl, rfl, rfl, rfl⟩
  | some x =>
    by_cases hx : x.isEmpty = true
    · have hl : statusLine status v (some x) = v ++ SP :: intToDec status := by simp [statusLine, hx]
      have hpl := processLine_response2 cfg (statusLine status v (some x) ++ CRLF ++ CRLF).length CRLF hvsp hcsp
        (line2_noCRLF hvcr hccr)
      rw [← hl] at hpl
      have := parse_headerless_response cfg (statusLine status v (some x)) _ _ rfl hpl rfl rfl
      refine ⟨_, this, rfl, rfl, rfl, ?_, rfl, rfl, rfl⟩
      simp [resLineParser, reasonSeen, hx]
    · have hl : statusLine status v (some x) = v ++ SP :: (intToDec status ++ SP :: x) := by
        simp [statusLine, hx]
      have hxcr : ∀ c ∈ x, c ≠ CR := by
        simp only [reasonOK, List.all_eq_true, Bool.and_eq_true, bne_iff_ne, ne_eq] at hr
        exact fun c hc => (hr c hc).1
      have hpl := processLine_response3 cfg (statusLine status v (some x) ++ CRLF ++ CRLF).length CRLF hvsp hcsp
        (line3_noCRLF hvcr hccr hxcr)
      rw [← hl] at hpl
      have := parse_headerless_response cfg (statusLine status v (some x)) _ _ rfl hpl rfl rfl
      refine ⟨_, this, rfl, rfl, rfl, ?_, rfl, rfl, rfl⟩
      simp [resLineParser, reasonSeen, hx]

end Px.Codec
