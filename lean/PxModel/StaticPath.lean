import PxModel.Bytes
import PxModel.Generated
/-
  Model of the static file server of proxy/http/server/web.py
  (`HttpWebServerPlugin.on_request_complete` with no route matched,
  `_try_static_or_404` as of the `fix:` commit for path confinement),
  proxy/http/server/plugin.py (`serve_static_file`) and
  proxy/http/responses.py (`okResponse`) + `build_http_response`.

  Request paths arrive as bytes; `utf8Decode` models `bytes.decode('utf-8')`
  (strict: shortest form only, no surrogates, at most U+10FFFF).  After the
  decoding paths are Python `str`s, modelled as `List Char`.  `normpath` is a model of
  CPython's `posixpath.normpath` (the `os.path.normpath` the code calls).
  The file system, `mimetypes.guess_type` and `gzip.compress` are parameters.
  Symbolic links are outside the model: `fs` is keyed by the lexical path
  string handed to `open()`.
-/
namespace Px.Static

abbrev Str := List Char

def DOT : Str := ['.']
def DOTDOT : Str := ['.', '.']

/-- `s.split('/')` (always at least one part) -/
def splitSep : Str → List Str
  | [] => [[]]
  | c :: cs =>
    if c = '/' then [] :: splitSep cs
    else match splitSep cs with
      | [] => [[c]]
      | p :: ps => (c :: p) :: ps

/-- `'/'.join(parts)` -/
def joinSep : List Str → Str
  | [] => []
  | [x] => x
  | x :: y :: rest => x ++ '/' :: joinSep (y :: rest)

/-- `posixpath.splitroot(p)[1:]`: (initial slashes, rest).  One leading slash or
    three and more give `'/'`, exactly two are kept as `'//'`. -/
def splitroot (p : Str) : Str × Str :=
  if p.take 1 ≠ ['/'] then ([], p)
  else if (p.drop 1).take 1 ≠ ['/'] ∨ (p.drop 2).take 1 = ['/'] then (['/'], p.drop 1)
  else (p.take 2, p.drop 2)

/-- one iteration of normpath's `for comp in comps` loop; `st` is `new_comps`
    reversed (top of the stack first); `abs` = `initial_slashes` is non-empty -/
def step (abs : Bool) (st : List Str) (comp : Str) : List Str :=
  if comp = [] ∨ comp = DOT then st
  else if comp ≠ DOTDOT ∨ (abs = false ∧ st = []) ∨ st.head? = some DOTDOT then comp :: st
  else st.tail

/-- `os.path.normpath(p)` on POSIX -/
def normpath (p : Str) : Str :=
  if p = [] then DOT
  else
    let ini := (splitroot p).1
    let st := (splitSep (splitroot p).2).foldl (step (!ini.isEmpty)) []
    let out := ini ++ joinSep st.reverse
    if out = [] then DOT else out

/-- `path.split('?', 1)[0]` -/
def queryStrip (p : Str) : Str := p.takeWhile (· ≠ '?')

/-- `s.rstrip('/')` -/
def rstripSep (s : Str) : Str := (s.reverse.dropWhile (· = '/')).reverse

/-- `root = os.path.normpath(self.flags.static_server_dir)` -/
def rootOf (dir : Str) : Str := normpath dir

/-- `target = os.path.normpath(root + os.sep + path)` (query already stripped) -/
def targetOf (dir path : Str) : Str := normpath (rootOf dir ++ '/' :: queryStrip path)

/-- `target.startswith(root.rstrip(os.sep) + os.sep)` -/
def allowed (dir t : Str) : Bool := (rstripSep (rootOf dir) ++ ['/']).isPrefixOf t

inductive Decision
  | deny
  | openFile (t : Str)
  deriving DecidableEq, Repr

/-- the part of `_try_static_or_404` before the file system is touched -/
def decide (dir path : Str) : Decision :=
  if allowed dir (targetOf dir path) then .openFile (targetOf dir path) else .deny

/-- environment parameters of the model -/
structure Env where
  /-- regular-file contents by the exact string given to `open(path, 'rb')`;
      `none` = `OSError` (missing, directory, not a directory, …) -/
  fs : Str → Option Bytes
  /-- `bytes_(mimetypes.guess_type(path)[0] or 'text/plain')` -/
  mime : Str → Bytes
  /-- `gzip.compress` -/
  gzip : Bytes → Bytes
  /-- `flags.min_compression_length` (an `int` flag) -/
  mcl : Int

/-- the 200 response built by `okResponse(content, headers, compress=True, mcl, conn_close=True)` -/
structure Ok where
  ctype : Bytes
  gz : Bool
  body : Bytes
  deriving DecidableEq, Repr

/-- `compress and content and len(content) > min_compression_length` -/
def doCompress (mcl : Int) (content : Bytes) : Bool :=
  !content.isEmpty && Decidable.decide ((content.length : Int) > mcl)

def okResponse (env : Env) (path : Str) (content : Bytes) : Ok :=
  { ctype := env.mime path
    gz := doCompress env.mcl content
    body := if doCompress env.mcl content then env.gzip content else content }

/-- header dict in insertion order: the two of `serve_static_file`, then
    `Content-Encoding` (okResponse), `Content-Length` (build_http_response),
    `Connection` (build_http_pkt, conn_close=True) -/
def Ok.headers (r : Ok) : List (Bytes × Bytes) :=
  [(b "Content-Type", r.ctype), (b "Cache-Control", b "max-age=86400")] ++
  (if r.gz then [(b "Content-Encoding", b "gzip")] else []) ++
  [(b "Content-Length", if r.body.isEmpty then b "0" else natToDec r.body.length),
   (b "Connection", b "close")]

def headerLine (kv : Bytes × Bytes) : Bytes := kv.1 ++ Gen.colon ++ Gen.whitespace ++ kv.2 ++ Gen.crlf

/-- `build_http_response(200, reason=b'OK', headers, body, conn_close=True)` -/
def Ok.pkt (r : Ok) : Bytes :=
  Gen.http11 ++ Gen.whitespace ++ b "200" ++ Gen.whitespace ++ b "OK" ++ Gen.crlf ++
  (r.headers.map headerLine).flatten ++ Gen.crlf ++ r.body

inductive Outcome
  /-- `BAD_REQUEST_RESPONSE_PKT` queued (request path is not UTF-8); nothing is routed or opened -/
  | badRequest
  /-- `NOT_FOUND_RESPONSE_PKT` queued -/
  | notFound (opened : Option Str)
  | ok (opened : Str) (r : Ok)
  deriving DecidableEq, Repr

/-- the path handed to `open()`, if any -/
def Outcome.opened : Outcome → Option Str
  | .badRequest => none
  | .notFound o => o
  | .ok t _ => some t

/-- bytes queued for the client -/
def Outcome.pkt : Outcome → Option Bytes
  | .badRequest => some Gen.pkt_BAD_REQUEST_RESPONSE_PKT
  | .notFound _ => some Gen.pkt_NOT_FOUND_RESPONSE_PKT
  | .ok _ r => some r.pkt

/-- `HttpWebServerBasePlugin.serve_static_file(target, mcl)` -/
def serveFile (env : Env) (t : Str) : Outcome :=
  if t.contains '\x00' then .notFound (some t)   -- open(): ValueError('embedded null byte'), caught with OSError
  else match env.fs t with
    | none => .notFound (some t)
    | some c => .ok t (okResponse env t c)

/-- `_try_static_or_404` after `text_(path)` -/
def serve (env : Env) (dir path : Str) : Outcome :=
  match decide dir path with
  | .deny => .notFound none
  | .openFile t => serveFile env t

structure Cfg where
  enableStatic : Bool
  dir : Str

def isCont (c : UInt8) : Bool := 0x80 ≤ c && c ≤ 0xBF
def lo6 (c : UInt8) : Nat := c.toNat - 0x80

/-- `bytes.decode('utf-8')` (strict): `none` = UnicodeDecodeError.  Lead bytes
    C0/C1 (overlong two-byte forms, e.g. `c0 ae` = '.', `c0 af` = '/'), E0 with a
    second byte below A0 and F0 with a second byte below 90 (overlong three- and
    four-byte forms), ED A0..BF (surrogates), F4 90.. and F5..FF (above
    U+10FFFF), lone continuation bytes and truncated sequences are rejected. -/
def utf8Decode : Bytes → Option Str
  | [] => some []
  | a :: rest =>
    if a < 0x80 then (utf8Decode rest).map (Char.ofNat a.toNat :: ·)
    else if a < 0xC2 then none
    else if a < 0xE0 then
      match rest with
      | b1 :: r =>
        if isCont b1 then (utf8Decode r).map (Char.ofNat ((a.toNat - 0xC0) * 64 + lo6 b1) :: ·) else none
      | _ => none
    else if a < 0xF0 then
      match rest with
      | b1 :: b2 :: r =>
        if isCont b1 && isCont b2 && (a != 0xE0 || 0xA0 ≤ b1) && (a != 0xED || b1 ≤ 0x9F) then
          (utf8Decode r).map (Char.ofNat ((a.toNat - 0xE0) * 4096 + lo6 b1 * 64 + lo6 b2) :: ·)
        else none
      | _ => none
    else if a < 0xF5 then
      match rest with
      | b1 :: b2 :: b3 :: r =>
        if isCont b1 && isCont b2 && isCont b3 && (a != 0xF0 || 0x90 ≤ b1) && (a != 0xF4 || b1 ≤ 0x8F) then
          (utf8Decode r).map
            (Char.ofNat ((a.toNat - 0xF0) * 262144 + lo6 b1 * 4096 + lo6 b2 * 64 + lo6 b3) :: ·)
        else none
      | _ => none
    else none

/-- `self.request.path or b'/'` -/
def reqBytes : Option Bytes → Bytes
  | none => b "/"
  | some p => if p.isEmpty then b "/" else p

/-- `on_request_complete` when no route is registered for the protocol
    (`_try_route` is then a no-op; routes are C12's subject): a path that is
    not UTF-8 is answered 400 before anything else happens -/
def onRequestComplete (env : Env) (cfg : Cfg) (reqPath : Option Bytes) : Outcome :=
  match utf8Decode (reqBytes reqPath) with
  | none => .badRequest
  | some s =>
    if !cfg.enableStatic then .notFound none
    else serve env cfg.dir s

/-- `Url.from_bytes` + `HttpParser.http_handler_protocol`: a request reaches the
    web-server plugin iff its target starts with one `/` but not with `//`
    (then `request.path` is the target verbatim); everything else carries a
    host and belongs to the proxy plugin. -/
def reachesWeb : Bytes → Bool
  | 47 :: 47 :: _ => false
  | 47 :: _ => true
  | _ => false

/-! ### Specification side, written independently of `normpath`
    (RFC 3986 §5.2.4 "remove dot segments" as a plain stack machine over the
    segments of the request path, started at the components of the root). -/

/-- the part of a request path before the first `?` -/
def beforeQuery : Str → Str
  | [] => []
  | c :: cs => if c = '?' then [] else c :: beforeQuery cs

def segmentsAux : Str → Str → List Str
  | [], cur => [cur.reverse]
  | c :: cs, cur => if c = '/' then cur.reverse :: segmentsAux cs [] else segmentsAux cs (c :: cur)

/-- the `/`-separated segments of a path -/
def segments (p : Str) : List Str := segmentsAux p []

/-- walk the segments from the directory `out`: empty and `.` stay, `..` goes
    to the parent (the parent of the top is the top), a name descends -/
def resolveSegs : List Str → List Str → List Str
  | out, [] => out
  | out, s :: rest =>
    if s = [] ∨ s = ['.'] then resolveSegs out rest
    else if s = ['.', '.'] then resolveSegs out.dropLast rest
    else resolveSegs (out ++ [s]) rest

/-- components of the location a request path names, relative to a root given by its components -/
def resolve (rootComps : List Str) (reqPath : Str) : List Str :=
  resolveSegs rootComps (segments (beforeQuery reqPath))

/-- non-empty components of a path string -/
def pathComps (s : Str) : List Str := (splitSep s).filter (fun c => !c.isEmpty)

/-- leading separators of a path string -/
def lead (s : Str) : Str := s.takeWhile (· = '/')

end Px.Static
