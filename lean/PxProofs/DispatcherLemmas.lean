import PxModel.Dispatcher
/-! Helper lemmas for C18 (event dispatcher fan-out). -/
namespace Px.Disp

/-! ### the dict operations -/

theorem key_mem_of_mem {l : List (SubId × ChanId)} {p : SubId × ChanId} (h : p ∈ l) :
    p.1 ∈ l.map Prod.fst := List.mem_map.2 ⟨p, h, rfl⟩

theorem chan_mem_of_mem {l : List (SubId × ChanId)} {p : SubId × ChanId} (h : p ∈ l) :
    p.2 ∈ l.map Prod.snd := List.mem_map.2 ⟨p, h, rfl⟩

theorem mem_dset (l : List (SubId × ChanId)) (i : SubId) (c : ChanId) (p : SubId × ChanId)
    (hk : (l.map Prod.fst).Nodup) :
    p ∈ dset l i c ↔ p = (i, c) ∨ (p ∈ l ∧ p.1 ≠ i) := by
  induction l with
  | nil => simp [dset]
  | cons h t ih =>
    obtain ⟨k, d⟩ := h
    simp only [List.map_cons, List.nodup_cons] at hk
    have ih := ih hk.2
    by_cases hki : k = i
    · subst hki
      simp only [dset, if_true, List.mem_cons]
      constructor
      · rintro (h | h)
        · exact Or.inl h
        · refine Or.inr ⟨Or.inr h, fun hp => hk.1 (hp ▸ key_mem_of_mem h)⟩
      · rintro (h | ⟨h | h, hp⟩)
        · exact Or.inl h
        · subst h; exact absurd rfl hp
        · exact Or.inr h
    · simp only [dset, if_neg hki, List.mem_cons, ih]
      constructor
      · rintro (h | h | h)
        · subst h; exact Or.inr ⟨Or.inl rfl, hki⟩
        · exact Or.inl h
        · exact Or.inr ⟨Or.inr h.1, h.2⟩
      · rintro (h | ⟨h | h, hp⟩)
        · exact Or.inr (Or.inl h)
        · exact Or.inl h
        · exact Or.inr (Or.inr ⟨h, hp⟩)

theorem mem_ddel (l : List (SubId × ChanId)) (i : SubId) (p : SubId × ChanId) :
    p ∈ ddel l i ↔ p ∈ l ∧ p.1 ≠ i := by
  simp [ddel]

theorem keys_dset (l : List (SubId × ChanId)) (i : SubId) (c : ChanId) :
    (dset l i c).map Prod.fst = if i ∈ l.map Prod.fst then l.map Prod.fst else l.map Prod.fst ++ [i] := by
  induction l with
  | nil => simp [dset]
  | cons h t ih =>
    obtain ⟨k, d⟩ := h
    by_cases hki : k = i
    · subst hki; simp [dset]
    · have : ¬ i = k := fun h => hki h.symm
      simp only [dset, if_neg hki, List.map_cons, ih, List.mem_cons, this, false_or]
      split <;> simp

theorem nodup_keys_dset (l : List (SubId × ChanId)) (i : SubId) (c : ChanId)
    (hk : (l.map Prod.fst).Nodup) : ((dset l i c).map Prod.fst).Nodup := by
  rw [keys_dset]
  split
  · exact hk
  · rename_i h
    rw [List.nodup_append]
    refine ⟨hk, by simp, ?_⟩
    intro a ha b hb
    simp at hb; subst hb
    intro e; subst e; exact h ha

theorem chans_dset_sub (l : List (SubId × ChanId)) (i : SubId) (c d : ChanId)
    (h : d ∈ (dset l i c).map Prod.snd) : d = c ∨ d ∈ l.map Prod.snd := by
  induction l with
  | nil => simp [dset] at h; exact Or.inl h
  | cons hd t ih =>
    obtain ⟨k, e⟩ := hd
    by_cases hki : k = i
    · simp [dset, hki] at h ⊢
      rcases h with h | ⟨a, h⟩
      · exact Or.inl h
      · exact Or.inr (Or.inr ⟨a, h⟩)
    · simp only [dset, if_neg hki, List.map_cons, List.mem_cons] at h ⊢
      rcases h with h | h
      · exact Or.inr (Or.inl h)
      · rcases ih h with h | h
        · exact Or.inl h
        · exact Or.inr (Or.inr h)

theorem nodup_chans_dset (l : List (SubId × ChanId)) (i : SubId) (c : ChanId)
    (hc : (l.map Prod.snd).Nodup) (hn : c ∉ l.map Prod.snd) : ((dset l i c).map Prod.snd).Nodup := by
  induction l with
  | nil => simp [dset]
  | cons hd t ih =>
    obtain ⟨k, e⟩ := hd
    simp only [List.map_cons, List.nodup_cons, List.mem_cons, not_or] at hc hn
    by_cases hki : k = i
    · simp only [dset, if_pos hki, List.map_cons, List.nodup_cons]
      exact ⟨hn.2, hc.2⟩
    · simp only [dset, if_neg hki, List.map_cons, List.nodup_cons]
      refine ⟨fun h => ?_, ih hc.2 hn.2⟩
      rcases chans_dset_sub _ _ _ _ h with h | h
      · exact hn.1 h.symm
      · exact hc.1 h

theorem nodup_keys_filter (l : List (SubId × ChanId)) (q : SubId × ChanId → Bool)
    (hk : (l.map Prod.fst).Nodup) : ((l.filter q).map Prod.fst).Nodup :=
  List.Nodup.sublist (List.Sublist.map _ List.filter_sublist) hk

theorem nodup_chans_filter (l : List (SubId × ChanId)) (q : SubId × ChanId → Bool)
    (hk : (l.map Prod.snd).Nodup) : ((l.filter q).map Prod.snd).Nodup :=
  List.Nodup.sublist (List.Sublist.map _ List.filter_sublist) hk

theorem key_inj {l : List (SubId × ChanId)} (hk : (l.map Prod.fst).Nodup) {j : SubId} {d d' : ChanId}
    (h1 : (j, d) ∈ l) (h2 : (j, d') ∈ l) : d = d' := by
  induction l with
  | nil => cases h1
  | cons hd t ih =>
    simp only [List.map_cons, List.nodup_cons] at hk
    simp only [List.mem_cons] at h1 h2
    rcases h1 with h1 | h1 <;> rcases h2 with h2 | h2
    · rw [← h1] at h2; exact (Prod.mk.inj h2).2.symm
    · exact absurd (by simpa [← h1] using key_mem_of_mem h2) hk.1
    · exact absurd (by simpa [← h2] using key_mem_of_mem h1) hk.1
    · exact ih hk.2 h1 h2

theorem chan_inj {l : List (SubId × ChanId)} (hk : (l.map Prod.snd).Nodup) {j j' : SubId} {d : ChanId}
    (h1 : (j, d) ∈ l) (h2 : (j', d) ∈ l) : j = j' := by
  induction l with
  | nil => cases h1
  | cons hd t ih =>
    simp only [List.map_cons, List.nodup_cons] at hk
    simp only [List.mem_cons] at h1 h2
    rcases h1 with h1 | h1 <;> rcases h2 with h2 | h2
    · rw [← h1] at h2; exact (Prod.mk.inj h2).1.symm
    · exact absurd (by simpa [← h1] using chan_mem_of_mem h2) hk.1
    · exact absurd (by simpa [← h2] using chan_mem_of_mem h1) hk.1
    · exact ih hk.2 h1 h2

theorem dget_some (l : List (SubId × ChanId)) (i : SubId) (d : ChanId) (hk : (l.map Prod.fst).Nodup) :
    dget l i = some d ↔ (i, d) ∈ l := by
  induction l with
  | nil => simp [dget]
  | cons hd t ih =>
    obtain ⟨k, e⟩ := hd
    simp only [List.map_cons, List.nodup_cons] at hk
    by_cases hki : k = i
    · subst hki
      simp only [dget, if_true, List.mem_cons, Option.some.injEq, Prod.mk.injEq, true_and]
      constructor
      · intro h; exact Or.inl h.symm
      · rintro (h | h)
        · exact h.symm
        · exact absurd (key_mem_of_mem h) hk.1
    · have : ¬ i = k := fun h => hki h.symm
      simp [dget, hki, ih hk.2, this]

theorem dget_none (l : List (SubId × ChanId)) (i : SubId) :
    dget l i = none ↔ ∀ d, (i, d) ∉ l := by
  induction l with
  | nil => simp [dget]
  | cons hd t ih =>
    obtain ⟨k, e⟩ := hd
    by_cases hki : k = i
    · subst hki
      simp [dget]
      exact ⟨e, fun h => absurd rfl h⟩
    · have : ¬ i = k := fun h => hki h.symm
      simp [dget, hki, ih, this]


/-! ### sending, broadcasting -/

theorem sendTo_closed (s : St) (c : ChanId) (m : Msg) (h : c ∈ s.closed) :
    sendTo s c m = (s, .closedErr) := by
  simp [sendTo, h]

theorem sendTo_broken (s : St) (c : ChanId) (m : Msg) (h : c ∉ s.closed) (hb : c ∈ s.broken) :
    sendTo s c m = (s, .brokenPipe) := by
  simp [sendTo, h, hb]

theorem sendTo_ok (s : St) (c : ChanId) (m : Msg) (h : c ∉ s.closed) (hb : c ∉ s.broken) :
    sendTo s c m = ({ s with log := s.log ++ [(c, m)] }, .ok) := by
  simp [sendTo, h, hb]

/-- closed form of the `_broadcast` loop when no registered channel was closed
    by the dispatcher before and no channel is registered twice -/
theorem bcast_ok (e : Nat) : ∀ (l : List (SubId × ChanId)) (s : St) (bp : List SubId),
    (∀ p ∈ l, p.2 ∉ s.closed) → (l.map Prod.snd).Nodup →
    bcast e l s bp =
      ({ s with
          log := s.log ++ (l.filter (fun p => !s.broken.contains p.2)).map (fun p => (p.2, Msg.ev e)),
          closed := s.closed ++ (l.filter (fun p => s.broken.contains p.2)).map Prod.snd },
       bp ++ (l.filter (fun p => s.broken.contains p.2)).map Prod.fst, false) := by
  intro l
  induction l with
  | nil => intro s bp _ _; simp [bcast]
  | cons hd t ih =>
    intro s bp ho hn
    obtain ⟨i, c⟩ := hd
    simp only [List.map_cons, List.nodup_cons] at hn
    have hc : c ∉ s.closed := ho (i, c) (List.mem_cons_self ..)
    by_cases hb : c ∈ s.broken
    · have hs := sendTo_broken s c (.ev e) hc hb
      simp only [bcast, hs]
      rw [ih (closeCh s c) (bp ++ [i])]
      · simp [closeCh, hb]
      · intro p hp
        simp only [closeCh, List.mem_append, List.mem_singleton, not_or]
        refine ⟨ho p (List.mem_cons_of_mem _ hp), fun h => hn.1 (h ▸ chan_mem_of_mem hp)⟩
      · exact hn.2
    · have hs := sendTo_ok s c (.ev e) hc hb
      simp only [bcast, hs]
      rw [ih _ bp]
      · simp [hb]
      · intro p hp; exact ho p (List.mem_cons_of_mem _ hp)
      · exact hn.2

theorem foldl_ddel (bp : List SubId) : ∀ (l : List (SubId × ChanId)),
    bp.foldl ddel l = l.filter (fun p => !bp.contains p.1) := by
  induction bp with
  | nil =>
    intro l; simp only [List.foldl_nil, List.contains_nil, Bool.not_false]
    exact (List.filter_eq_self.2 (fun _ _ => rfl)).symm
  | cons i t ih =>
    intro l
    simp only [List.foldl_cons, ih, ddel, List.filter_filter]
    apply List.filter_congr
    intro p _
    simp [Bool.and_comm]
    grind

/-- deleting the ids collected in `broken_pipes` leaves exactly the entries whose channel is not broken -/
theorem filter_not_bp (l : List (SubId × ChanId)) (q : SubId × ChanId → Bool)
    (hk : (l.map Prod.fst).Nodup) :
    l.filter (fun p => !((l.filter q).map Prod.fst).contains p.1) = l.filter (fun p => !q p) := by
  apply List.filter_congr
  intro p hp
  congr 1
  rw [Bool.eq_iff_iff]
  simp only [List.contains_eq_mem, List.mem_map, List.mem_filter, decide_eq_true_eq]
  constructor
  · rintro ⟨a, ⟨ha, hq⟩, he⟩
    obtain ⟨a1, a2⟩ := a
    obtain ⟨p1, p2⟩ := p
    simp only at he; subst he
    have := key_inj hk ha hp
    subst this; exact hq
  · intro h; exact ⟨p, ⟨hp, h⟩, rfl⟩


/-! ### invariant, abstraction, closed forms of `handle` -/

/-- what holds in every state reachable by a fresh-channel history -/
structure Inv (s : St) : Prop where
  keys : (s.subs.map Prod.fst).Nodup
  chans : (s.subs.map Prod.snd).Nodup
  opn : ∀ p ∈ s.subs, p.2 ∉ s.closed
  alive : s.crashed = none

/-- channels the dispatcher holds or has closed -/
def Used (s : St) (d : ChanId) : Prop := d ∈ s.subs.map Prod.snd ∨ d ∈ s.closed

/-- the scan state `(reader gone?, registered under id)` of channel `c` read off a dispatcher state -/
def Abs (c : ChanId) (s : St) (a : Bool × Option SubId) : Prop :=
  (a.1 = true ↔ c ∈ s.broken) ∧ ∀ j, (j, c) ∈ s.subs ↔ a.2 = some j

theorem inv_init : Inv init := ⟨by simp [init], by simp [init], by simp [init], rfl⟩
theorem abs_init (c : ChanId) : Abs c init (false, none) := by simp [Abs, init]

theorem chanLog_append (s : St) (x : List (ChanId × Msg)) (c : ChanId) (s' : St)
    (h : s'.log = s.log ++ x) :
    chanLog s' c = chanLog s c ++ (x.filter (fun p => p.1 == c)).map Prod.snd := by
  simp [chanLog, h]

theorem proj_bcast (l : List (SubId × ChanId)) (br : List ChanId) (m : Msg) (c : ChanId)
    (hn : (l.map Prod.snd).Nodup) :
    (((l.filter (fun p => !br.contains p.2)).map (fun p => (p.2, m))).filter (fun p => p.1 == c)).map Prod.snd
      = if c ∈ l.map Prod.snd ∧ c ∉ br then [m] else [] := by
  induction l with
  | nil => simp
  | cons hd t ih =>
    obtain ⟨i, d⟩ := hd
    simp only [List.map_cons, List.nodup_cons] at hn
    have ih := ih hn.2
    by_cases hdc : d = c
    · subst hdc
      have hnot : ¬ (d ∈ t.map Prod.snd ∧ d ∉ br) := fun h => hn.1 h.1
      rw [if_neg hnot] at ih
      by_cases hb : d ∈ br
      · simp [hb] at ih ⊢
        exact ih
      · simp [hb] at ih ⊢
        exact ih
    · have hcd : ¬ c = d := fun h => hdc h.symm
      have e : (if c ∈ (d :: t.map Prod.snd) ∧ c ∉ br then [m] else [])
          = (if c ∈ t.map Prod.snd ∧ c ∉ br then [m] else []) := by
        simp only [List.mem_cons, hcd, false_or]
      simp only [List.map_cons] at *
      rw [e, ← ih]
      by_cases hb : d ∈ br
      · simp [hb]
      · simp [hb, hdc]

theorem handle_pub (s : St) (e : Nat) (hI : Inv s) :
    handle s (.pub e) =
      { s with
        subs := s.subs.filter (fun p => !s.broken.contains p.2),
        log := s.log ++ (s.subs.filter (fun p => !s.broken.contains p.2)).map (fun p => (p.2, Msg.ev e)),
        closed := s.closed ++ (s.subs.filter (fun p => s.broken.contains p.2)).map Prod.snd } := by
  simp only [handle, bcast_ok e s.subs s [] hI.opn hI.chans, List.nil_append, foldl_ddel]
  rw [filter_not_bp s.subs (fun p => s.broken.contains p.2) hI.keys]

theorem handle_brk (s : St) (c : ChanId) : handle s (.brk c) = { s with broken := c :: s.broken } := rfl

theorem handle_unsub_none (s : St) (i : SubId) (h : dget s.subs i = none) : handle s (.unsub i) = s := by
  simp [handle, h]

theorem handle_unsub_some (s : St) (i : SubId) (d : ChanId) (h : dget s.subs i = some d)
    (hc : d ∉ s.closed) :
    handle s (.unsub i) =
      { s with subs := ddel s.subs i, closed := s.closed ++ [d],
               log := if d ∈ s.broken then s.log else s.log ++ [(d, .unsubscribed)] } := by
  by_cases hb : d ∈ s.broken
  · simp [handle, h, sendTo_broken s d _ hc hb, closeCh, hb]
  · simp [handle, h, sendTo_ok s d _ hc hb, closeCh, hb]

theorem handle_sub_ok (s : St) (i : SubId) (d : ChanId) (hc : d ∉ s.closed) (hb : d ∉ s.broken) :
    handle s (.sub i d) = { s with subs := dset s.subs i d, log := s.log ++ [(d, .subscribed)] } := by
  have := sendTo_ok { s with subs := dset s.subs i d } d .subscribed hc hb
  simp [handle, this]

theorem handle_sub_broken (s : St) (i : SubId) (d : ChanId) (hc : d ∉ s.closed) (hb : d ∈ s.broken) :
    handle s (.sub i d) = { s with subs := ddel (dset s.subs i d) i, closed := s.closed ++ [d] } := by
  have := sendTo_broken { s with subs := dset s.subs i d } d .subscribed hc hb
  simp [handle, this, closeCh]


/-! ### one step of the dispatcher simulates one step of the per-channel scan -/

structure StepOK (c : ChanId) (s s' : St) (a : Bool × Option SubId) (op : Op) : Prop where
  inv : Inv s'
  abs : Abs c s' (scanStep c a op).1
  log : chanLog s' c = chanLog s c ++ (scanStep c a op).2
  used : ∀ d, Used s' d → Used s d ∨ ∃ i, op = .sub i d

theorem sim_brk (c : ChanId) (s : St) (a : Bool × Option SubId) (c' : ChanId)
    (hI : Inv s) (hA : Abs c s a) : StepOK c s (handle s (.brk c')) a (.brk c') := by
  obtain ⟨b, w⟩ := a
  rw [handle_brk]
  refine ⟨⟨hI.keys, hI.chans, hI.opn, hI.alive⟩, ?_, ?_, ?_⟩
  · refine ⟨?_, hA.2⟩
    have := hA.1
    simp only [scanStep, Bool.or_eq_true, beq_iff_eq, List.mem_cons] at this ⊢
    rw [this]
    constructor
    · rintro (h | h)
      · exact Or.inr h
      · exact Or.inl h.symm
    · rintro (h | h)
      · exact Or.inr h.symm
      · exact Or.inl h
  · simp [scanStep, chanLog]
  · intro d h; exact Or.inl h

theorem sim_pub (c : ChanId) (s : St) (a : Bool × Option SubId) (e : Nat)
    (hI : Inv s) (hA : Abs c s a) : StepOK c s (handle s (.pub e)) a (.pub e) := by
  obtain ⟨b, w⟩ := a
  obtain ⟨hb, hw⟩ := hA
  simp only at hb hw
  rw [handle_pub s e hI]
  refine ⟨⟨?_, ?_, ?_, hI.alive⟩, ?_, ?_, ?_⟩
  · exact nodup_keys_filter _ _ hI.keys
  · exact nodup_chans_filter _ _ hI.chans
  · intro p hp
    simp only [List.mem_filter, List.contains_eq_mem, Bool.not_eq_true', decide_eq_false_iff_not] at hp
    simp only [List.mem_append, List.mem_map, List.mem_filter, List.contains_eq_mem, decide_eq_true_eq, not_or]
    refine ⟨hI.opn p hp.1, ?_⟩
    rintro ⟨q, ⟨_, hq⟩, he⟩
    exact hp.2 (he ▸ hq)
  · -- abstraction
    have key : ∀ j, (j, c) ∈ s.subs.filter (fun p => !s.broken.contains p.2) ↔ ((j, c) ∈ s.subs ∧ c ∉ s.broken) := by
      intro j; simp
    cases w with
    | none =>
      refine ⟨by simpa [scanStep] using hb, fun j => ?_⟩
      simp [scanStep, hw j]
    | some j0 =>
      cases b with
      | false =>
        have hnb : c ∉ s.broken := fun h => by simpa using hb.2 h
        refine ⟨by simpa [scanStep] using hb, fun j => ?_⟩
        simp only [scanStep, key, hw j, hnb, not_false_eq_true, and_true]
      | true =>
        have hbr : c ∈ s.broken := hb.1 rfl
        refine ⟨by simpa [scanStep] using hbr, fun j => ?_⟩
        simp [scanStep, hbr]
  · -- log
    rw [chanLog_append s _ c _ rfl, proj_bcast _ _ _ _ hI.chans]
    congr 1
    cases w with
    | none =>
      have : c ∉ s.subs.map Prod.snd := by
        intro h
        obtain ⟨p, hp, he⟩ := List.mem_map.1 h
        obtain ⟨j, d⟩ := p
        simp only at he; subst he
        simpa using (hw j).1 hp
      simp [scanStep, this]
    | some j0 =>
      have hm : c ∈ s.subs.map Prod.snd := chan_mem_of_mem ((hw j0).2 rfl)
      cases b with
      | false =>
        have hnb : c ∉ s.broken := fun h => by simpa using hb.2 h
        simp [scanStep, hm, hnb]
      | true =>
        have hbr : c ∈ s.broken := hb.1 rfl
        simp [scanStep, hbr]
  · intro d h
    left
    rcases h with h | h
    · exact Or.inl (List.Sublist.subset (List.Sublist.map _ List.filter_sublist) h)
    · simp only [List.mem_append] at h
      rcases h with h | h
      · exact Or.inr h
      · exact Or.inl (List.Sublist.subset (List.Sublist.map _ List.filter_sublist) h)


theorem not_chan_of_abs_none {c : ChanId} {s : St} (hw : ∀ j, (j, c) ∈ s.subs ↔ (none : Option SubId) = some j) :
    c ∉ s.subs.map Prod.snd := by
  intro h
  obtain ⟨p, hp, he⟩ := List.mem_map.1 h
  obtain ⟨j, d⟩ := p
  simp only at he; subst he
  simpa using (hw j).1 hp

theorem sim_unsub (c : ChanId) (s : St) (a : Bool × Option SubId) (i : SubId)
    (hI : Inv s) (hA : Abs c s a) : StepOK c s (handle s (.unsub i)) a (.unsub i) := by
  obtain ⟨b, w⟩ := a
  obtain ⟨hb, hw⟩ := hA
  simp only at hb hw
  cases hg : dget s.subs i with
  | none =>
    rw [handle_unsub_none s i hg]
    have hni := (dget_none s.subs i).1 hg
    have hstep : scanStep c (b, w) (.unsub i) = ((b, w), []) := by
      cases w with
      | none => simp [scanStep]
      | some j0 =>
        have : ¬ i = j0 := fun h => hni c (h ▸ (hw j0).2 rfl)
        simp [scanStep, this]
    exact ⟨hI, by rw [hstep]; exact ⟨hb, hw⟩, by rw [hstep]; simp, fun d h => Or.inl h⟩
  | some d =>
    have hid : (i, d) ∈ s.subs := (dget_some s.subs i d hI.keys).1 hg
    have hdc : d ∉ s.closed := hI.opn _ hid
    rw [handle_unsub_some s i d hg hdc]
    have hmem : ∀ p, p ∈ ddel s.subs i ↔ p ∈ s.subs ∧ p.1 ≠ i := mem_ddel s.subs i
    refine ⟨⟨nodup_keys_filter _ _ hI.keys, nodup_chans_filter _ _ hI.chans, ?_, hI.alive⟩, ?_, ?_, ?_⟩
    · intro p hp
      have hp' := (hmem p).1 hp
      simp only [List.mem_append, List.mem_singleton, not_or]
      refine ⟨hI.opn p hp'.1, fun h => hp'.2 ?_⟩
      obtain ⟨p1, p2⟩ := p
      simp only at h; subst h
      exact chan_inj hI.chans hp'.1 hid
    · -- abstraction
      cases w with
      | none =>
        refine ⟨by simpa [scanStep] using hb, fun j => ?_⟩
        have := hw j
        simp [scanStep, hmem] at this ⊢
        intro h; exact absurd h this
      | some j0 =>
        by_cases hij : i = j0
        · subst hij
          refine ⟨by simpa [scanStep] using hb, fun j => ?_⟩
          have := hw j
          simp only [scanStep, if_true, hmem]
          simp at this ⊢
          intro h; exact (this.1 h).symm
        · refine ⟨by simpa [scanStep, hij] using hb, fun j => ?_⟩
          have := hw j
          simp only [scanStep, if_neg hij, hmem]
          simp at this ⊢
          rw [this]
          constructor
          · exact fun h => h.1
          · intro h; exact ⟨h, fun e => hij (e ▸ h).symm⟩
    · -- log
      have hout : (scanStep c (b, w) (.unsub i)).2 =
          if d = c then (if c ∈ s.broken then [] else [Msg.unsubscribed]) else [] := by
        cases w with
        | none =>
          have : d ≠ c := fun h => not_chan_of_abs_none hw (h ▸ chan_mem_of_mem hid)
          simp [scanStep, this]
        | some j0 =>
          have hj0 := (hw j0).2 rfl
          by_cases hij : i = j0
          · subst hij
            have : d = c := key_inj hI.keys hid hj0
            subst this
            cases b with
            | true => simp [scanStep, hb.1 rfl]
            | false =>
              have : d ∉ s.broken := fun h => by simpa using hb.2 h
              simp [scanStep, this]
          · have : d ≠ c := fun h => hij (chan_inj hI.chans (h ▸ hid) hj0)
            simp [scanStep, hij, this]
      rw [hout]
      by_cases hbr : d ∈ s.broken
      · by_cases hdc' : d = c
        · subst hdc'; simp [chanLog, hbr]
        · simp [chanLog, hbr, hdc']
      · by_cases hdc' : d = c
        · subst hdc'; simp [chanLog, hbr]
        · simp [chanLog, hbr, hdc']
    · intro e h
      left
      rcases h with h | h
      · exact Or.inl (List.Sublist.subset (List.Sublist.map _ List.filter_sublist) h)
      · simp only [List.mem_append, List.mem_singleton] at h
        rcases h with h | h
        · exact Or.inr h
        · exact Or.inl (h ▸ chan_mem_of_mem hid)


/-- what `sub i d` does to the scan state of channel `c`, spelled out -/
theorem scanStep_sub (c : ChanId) (b : Bool) (w : Option SubId) (i : SubId) (d : ChanId) :
    scanStep c (b, w) (.sub i d) =
      if d = c then (if b then ((b, none), []) else ((b, some i), [.subscribed]))
      else ((b, if w = some i then none else w), []) := by
  by_cases h : d = c
  · simp [scanStep, h]
  · cases w with
    | none => simp [scanStep, h]
    | some j =>
      by_cases hij : i = j
      · simp [scanStep, h, hij]
      · have : ¬ j = i := fun e => hij e.symm
        simp [scanStep, h, hij, this]

theorem sim_sub (c : ChanId) (s : St) (a : Bool × Option SubId) (i : SubId) (d : ChanId)
    (hI : Inv s) (hA : Abs c s a) (hU : ¬ Used s d) :
    StepOK c s (handle s (.sub i d)) a (.sub i d) := by
  obtain ⟨b, w⟩ := a
  obtain ⟨hb, hw⟩ := hA
  simp only at hb hw
  have hdch : d ∉ s.subs.map Prod.snd := fun h => hU (Or.inl h)
  have hdcl : d ∉ s.closed := fun h => hU (Or.inr h)
  have hne : ∀ p ∈ s.subs, p.2 ≠ d := fun p hp h => hdch (h ▸ chan_mem_of_mem hp)
  have hset : ∀ p, p ∈ dset s.subs i d ↔ p = (i, d) ∨ (p ∈ s.subs ∧ p.1 ≠ i) :=
    fun p => mem_dset s.subs i d p hI.keys
  have hkeys := nodup_keys_dset s.subs i d hI.keys
  have hchans := nodup_chans_dset s.subs i d hI.chans hdch
  -- entries with channel `c ≠ d` after the assignment
  have hother : d ≠ c → ∀ j, (j, c) ∈ dset s.subs i d ↔ (if w = some i then none else w) = some j := by
    intro hdc j
    rw [hset]
    have hcd : ¬ c = d := fun e => hdc e.symm
    simp only [Prod.mk.injEq, hcd, and_false, false_or, hw j]
    by_cases hwi : w = some i
    · subst hwi; simp; intro h; exact h.symm
    · rw [if_neg hwi]
      constructor
      · exact fun h => h.1
      · intro h; exact ⟨h, fun e => hwi (e ▸ h)⟩
  by_cases hbr : d ∈ s.broken
  · rw [handle_sub_broken s i d hdcl hbr]
    have hmem : ∀ p, p ∈ ddel (dset s.subs i d) i ↔ p ∈ s.subs ∧ p.1 ≠ i := by
      intro p
      rw [mem_ddel, hset]
      constructor
      · rintro ⟨h | h, hp⟩
        · subst h; exact absurd rfl hp
        · exact h
      · intro h; exact ⟨Or.inr h, h.2⟩
    refine ⟨⟨nodup_keys_filter _ _ hkeys, nodup_chans_filter _ _ hchans, ?_, hI.alive⟩, ?_, ?_, ?_⟩
    · intro p hp
      have hp' := (hmem p).1 hp
      simp only [List.mem_append, List.mem_singleton, not_or]
      exact ⟨hI.opn p hp'.1, hne p hp'.1⟩
    · rw [scanStep_sub]
      by_cases hdc : d = c
      · subst hdc
        have hbt : b = true := hb.2 hbr
        subst hbt
        refine ⟨by simpa using hbr, fun j => ?_⟩
        simp only [if_true, hmem]
        simp
        intro h; exact absurd rfl (hne _ h)
      · rw [if_neg hdc]
        refine ⟨hb, fun j => ?_⟩
        have h1 := hother hdc j
        rw [hset] at h1
        rw [hmem]
        simp only at h1 ⊢
        rw [← h1]
        have hcd : ¬ c = d := fun e => hdc e.symm
        simp [hcd]
    · rw [scanStep_sub]
      by_cases hdc : d = c
      · subst hdc
        have hbt : b = true := hb.2 hbr
        subst hbt
        simp [chanLog]
      · simp [chanLog, hdc]
    · intro e h
      rcases h with h | h
      · obtain ⟨p, hp, he⟩ := List.mem_map.1 h
        exact Or.inl (Or.inl (he ▸ chan_mem_of_mem ((hmem p).1 hp).1))
      · simp only [List.mem_append, List.mem_singleton] at h
        rcases h with h | h
        · exact Or.inl (Or.inr h)
        · exact Or.inr ⟨i, by rw [h]⟩
  · rw [handle_sub_ok s i d hdcl hbr]
    refine ⟨⟨hkeys, hchans, ?_, hI.alive⟩, ?_, ?_, ?_⟩
    · intro p hp
      rcases (hset p).1 hp with h | h
      · subst h; exact hdcl
      · exact hI.opn p h.1
    · rw [scanStep_sub]
      by_cases hdc : d = c
      · subst hdc
        have hbf : b = false := by
          cases b with
          | false => rfl
          | true => exact absurd (hb.1 rfl) hbr
        subst hbf
        refine ⟨by simpa using hbr, fun j => ?_⟩
        simp only [if_true, hset]
        simp
        constructor
        · rintro (h | h)
          · exact h.symm
          · exact absurd rfl (hne _ h.1)
        · intro h; exact Or.inl h.symm
      · rw [if_neg hdc]
        exact ⟨hb, hother hdc⟩
    · rw [scanStep_sub]
      by_cases hdc : d = c
      · subst hdc
        have hbf : b = false := by
          cases b with
          | false => rfl
          | true => exact absurd (hb.1 rfl) hbr
        subst hbf
        simp [chanLog]
      · simp [chanLog, hdc]
    · intro e h
      rcases h with h | h
      · rcases chans_dset_sub _ _ _ _ h with h | h
        · exact Or.inr ⟨i, by rw [h]⟩
        · exact Or.inl (Or.inl h)
      · exact Or.inl (Or.inr h)

/-- one step, any operation -/
theorem sim_step (c : ChanId) (s : St) (a : Bool × Option SubId) (op : Op)
    (hI : Inv s) (hA : Abs c s a) (hf : ∀ i d, op = .sub i d → ¬ Used s d) :
    StepOK c s (step s op) a op := by
  have hs : step s op = handle s op := by simp [step, hI.alive]
  rw [hs]
  cases op with
  | sub i d => exact sim_sub c s a i d hI hA (hf i d rfl)
  | unsub i => exact sim_unsub c s a i hI hA
  | pub e => exact sim_pub c s a e hI hA
  | brk d => exact sim_brk c s a d hI hA

/-- freshness of the rest of a history relative to a state -/
def FreshFrom (s : St) (ops : List Op) : Prop :=
  (subChans ops).Nodup ∧ ∀ d ∈ subChans ops, ¬ Used s d

theorem freshFrom_init (ops : List Op) (h : Fresh ops) : FreshFrom init ops :=
  ⟨h, fun d _ hu => by simp [Used, init] at hu⟩

/-- **Simulation.**  Along any history whose remaining `sub`s bring fresh
    channels, the invariant is kept and the log of every channel grows by
    exactly what the per-channel scan emits. -/
theorem run_sim (c : ChanId) : ∀ (ops : List Op) (s : St) (a : Bool × Option SubId),
    Inv s → Abs c s a → FreshFrom s ops →
    Inv (run s ops) ∧ chanLog (run s ops) c = chanLog s c ++ scan c a ops := by
  intro ops
  induction ops with
  | nil => intro s a hI _ _; simp [run, scan, hI]
  | cons op r ih =>
    intro s a hI hA hF
    have hf : ∀ i d, op = .sub i d → ¬ Used s d := by
      intro i d e; subst e
      exact hF.2 d (by simp [subChans])
    have hk := sim_step c s a op hI hA hf
    have hF' : FreshFrom (step s op) r := by
      cases op with
      | sub i d =>
        have hn : (d :: subChans r).Nodup := hF.1
        rw [List.nodup_cons] at hn
        refine ⟨hn.2, fun e he hu => ?_⟩
        rcases hk.used e hu with h | ⟨j, h⟩
        · exact hF.2 e (by simp [subChans, he]) h
        · cases h; exact hn.1 he
      | unsub i =>
        refine ⟨hF.1, fun e he hu => ?_⟩
        rcases hk.used e hu with h | ⟨j, h⟩
        · exact hF.2 e he h
        · cases h
      | pub x =>
        refine ⟨hF.1, fun e he hu => ?_⟩
        rcases hk.used e hu with h | ⟨j, h⟩
        · exact hF.2 e he h
        · cases h
      | brk x =>
        refine ⟨hF.1, fun e he hu => ?_⟩
        rcases hk.used e hu with h | ⟨j, h⟩
        · exact hF.2 e he h
        · cases h
    have := ih (step s op) _ hk.inv hk.abs hF'
    refine ⟨by simpa [run] using this.1, ?_⟩
    have e : run s (op :: r) = run (step s op) r := by simp [run]
    rw [e, this.2, hk.log, scan, List.append_assoc]


/-! ### pure facts about the scans (no dispatcher state) -/

theorem mem_subChans {j : SubId} {c : ChanId} : ∀ {ops : List Op}, Op.sub j c ∈ ops → c ∈ subChans ops := by
  intro ops
  induction ops with
  | nil => intro h; cases h
  | cons op r ih =>
    intro h
    cases op with
    | sub i d =>
      rcases List.mem_cons.1 h with h | h
      · cases h; simp [subChans]
      · simp [subChans, ih h]
    | unsub i =>
      rcases List.mem_cons.1 h with h | h
      · cases h
      · simpa [subChans] using ih h
    | pub e =>
      rcases List.mem_cons.1 h with h | h
      · cases h
      · simpa [subChans] using ih h
    | brk d =>
      rcases List.mem_cons.1 h with h | h
      · cases h
      · simpa [subChans] using ih h

theorem subChans_append (a b : List Op) : subChans (a ++ b) = subChans a ++ subChans b := by
  induction a with
  | nil => rfl
  | cons op r ih => cases op <;> simp [subChans, ih]

theorem fresh_prefix {pre suf : List Op} (h : Fresh (pre ++ suf)) : Fresh pre := by
  unfold Fresh at *
  rw [subChans_append, List.nodup_append] at h
  exact h.1

theorem subChans_filter_sublist (q : Op → Bool) (ops : List Op) :
    (subChans (ops.filter q)).Sublist (subChans ops) := by
  induction ops with
  | nil => simp [subChans]
  | cons op r ih =>
    by_cases hq : q op = true
    · rw [List.filter_cons_of_pos hq]
      cases op with
      | sub i d => simpa [subChans] using ih
      | unsub i => simpa [subChans] using ih
      | pub e => simpa [subChans] using ih
      | brk d => simpa [subChans] using ih
    · rw [List.filter_cons_of_neg hq]
      cases op with
      | sub i d => exact List.Sublist.cons _ ih
      | unsub i => simpa [subChans] using ih
      | pub e => simpa [subChans] using ih
      | brk d => simpa [subChans] using ih

theorem fresh_erase (i : SubId) (c : ChanId) {ops : List Op} (h : Fresh ops) : Fresh (erase i c ops) :=
  List.Nodup.sublist (subChans_filter_sublist _ _) h

/-- once the window of `c` is over and `c` is never subscribed again, nothing more is delivered -/
theorem scan_none_nil (c : ChanId) : ∀ (r : List Op) (b : Bool), c ∉ subChans r → scan c (b, none) r = [] := by
  intro r
  induction r with
  | nil => intro b _; rfl
  | cons op r ih =>
    intro b h
    cases op with
    | sub i d =>
      simp only [subChans, List.mem_cons, not_or] at h
      have : ¬ d = c := fun e => h.1 e.symm
      simp [scan, scanStep, this, ih b h.2]
    | unsub i => simp [scan, scanStep, ih b (by simpa [subChans] using h)]
    | pub e => simp [scan, scanStep, ih b (by simpa [subChans] using h)]
    | brk d => simp [scan, scanStep, ih _ (by simpa [subChans] using h)]

theorem scan_some_spec (c : ChanId) (j : SubId) : ∀ (r : List Op), Op.brk c ∉ r → c ∉ subChans r →
    scan c (false, some j) r = spec c (some j) r := by
  intro r
  induction r with
  | nil => intro _ _; simp [scan, spec]
  | cons op r ih =>
    intro hb hs
    have hb' : Op.brk c ∉ r := fun h => hb (List.mem_cons_of_mem _ h)
    cases op with
    | sub i d =>
      simp only [subChans, List.mem_cons, not_or] at hs
      have hdc : ¬ d = c := fun e => hs.1 e.symm
      by_cases hij : i = j
      · simp [scan, scanStep, spec, hdc, hij, scan_none_nil c r false hs.2]
      · simp [scan, scanStep, spec, hdc, hij, ih hb' hs.2]
    | unsub i =>
      have hs' : c ∉ subChans r := by simpa [subChans] using hs
      by_cases hij : i = j
      · simp [scan, scanStep, spec, hij, scan_none_nil c r false hs']
      · simp [scan, scanStep, spec, hij, ih hb' hs']
    | pub e =>
      have hs' : c ∉ subChans r := by simpa [subChans] using hs
      simp [scan, scanStep, spec, ih hb' hs']
    | brk d =>
      have hs' : c ∉ subChans r := by simpa [subChans] using hs
      have hdc : (d == c) = false := by
        simp only [beq_eq_false_iff_ne, ne_eq]; exact fun e => hb (e ▸ List.mem_cons_self ..)
      simp [scan, scanStep, spec, hdc, ih hb' hs']

theorem scan_none_spec (c : ChanId) : ∀ (ops : List Op), Op.brk c ∉ ops → (subChans ops).Nodup →
    scan c (false, none) ops = spec c none ops := by
  intro ops
  induction ops with
  | nil => intro _ _; simp [scan, spec]
  | cons op r ih =>
    intro hb hs
    have hb' : Op.brk c ∉ r := fun h => hb (List.mem_cons_of_mem _ h)
    cases op with
    | sub i d =>
      simp only [subChans, List.nodup_cons] at hs
      by_cases hdc : d = c
      · subst hdc
        simp [scan, scanStep, spec, scan_some_spec d i r hb' hs.1]
      · simp [scan, scanStep, spec, hdc, ih hb' hs.2]
    | unsub i => simp [scan, scanStep, spec, ih hb' (by simpa [subChans] using hs)]
    | pub e => simp [scan, scanStep, spec, ih hb' (by simpa [subChans] using hs)]
    | brk d =>
      have hdc : (d == c) = false := by
        simp only [beq_eq_false_iff_ne, ne_eq]; exact fun e => hb (e ▸ List.mem_cons_self ..)
      simp [scan, scanStep, spec, hdc, ih hb' (by simpa [subChans] using hs)]

/-- an erased operation does not move the scan of `c` -/
theorem scanStep_erased (i : SubId) (c : ChanId) (b : Bool) (w : Option SubId) (op : Op)
    (hk : keep i c op = false) (ho : ∀ j, op = .sub j c → j = i) (hw : w = none ∨ w = some i) :
    scanStep c (b, w) op = ((b, w), []) := by
  cases op with
  | sub j d =>
    have hji : ¬ j = i := by simpa [keep] using hk
    have hdc : ¬ d = c := fun e => hji (ho j (by rw [e]))
    rw [scanStep_sub, if_neg hdc]
    rcases hw with h | h
    · subst h; simp
    · subst h
      have : ¬ i = j := fun e => hji e.symm
      simp [this]
  | unsub j =>
    have hji : ¬ j = i := by simpa [keep] using hk
    rcases hw with h | h
    · subst h; simp [scanStep]
    · subst h; simp [scanStep, hji]
  | pub e => simp [keep] at hk
  | brk d =>
    have : ¬ d = c := by simpa [keep] using hk
    simp [scanStep, this]

/-- the scan of `c` only ever is unregistered or registered under its one owner -/
theorem scanStep_owner (i : SubId) (c : ChanId) (b : Bool) (w : Option SubId) (op : Op)
    (hk : keep i c op = true) (hw : w = none ∨ w = some i) :
    (scanStep c (b, w) op).1.2 = none ∨ (scanStep c (b, w) op).1.2 = some i := by
  cases op with
  | sub j d =>
    have hji : j = i := by simpa [keep] using hk
    subst hji
    rw [scanStep_sub]
    by_cases hdc : d = c
    · cases b <;> simp [hdc]
    · rcases hw with h | h <;> subst h <;> simp [hdc]
  | unsub j =>
    have hji : j = i := by simpa [keep] using hk
    subst hji
    rcases hw with h | h <;> subst h <;> simp [scanStep]
  | pub e =>
    rcases hw with h | h
    · subst h; simp [scanStep]
    · subst h; cases b <;> simp [scanStep]
  | brk d => simpa [scanStep] using hw

theorem scan_erase (i : SubId) (c : ChanId) : ∀ (ops : List Op) (b : Bool) (w : Option SubId),
    (∀ j, Op.sub j c ∈ ops → j = i) → (w = none ∨ w = some i) →
    scan c (b, w) (erase i c ops) = scan c (b, w) ops := by
  intro ops
  induction ops with
  | nil => intro b w _ _; rfl
  | cons op r ih =>
    intro b w ho hw
    have ho' : ∀ j, Op.sub j c ∈ r → j = i := fun j h => ho j (List.mem_cons_of_mem _ h)
    by_cases hk : keep i c op = true
    · have e : erase i c (op :: r) = op :: erase i c r := by simp [erase, hk]
      rw [e, scan, scan]
      have := scanStep_owner i c b w op hk hw
      generalize scanStep c (b, w) op = st at this ⊢
      obtain ⟨⟨b', w'⟩, out⟩ := st
      simp only at this ⊢
      rw [ih b' w' ho' this]
    · have hk : keep i c op = false := by simpa using hk
      have e : erase i c (op :: r) = erase i c r := by simp [erase, hk]
      have hs := scanStep_erased i c b w op hk (fun j h => ho j (h ▸ List.mem_cons_self ..)) hw
      rw [e, scan, hs]
      simp [ih b w ho' hw]

/-- under freshness the owner of `c` is the id of its one `sub` operation -/
theorem ownerOf_eq {c : ChanId} {j : SubId} : ∀ {ops : List Op}, Fresh ops → Op.sub j c ∈ ops → j = ownerOf c ops := by
  intro ops
  induction ops with
  | nil => intro _ h; cases h
  | cons op r ih =>
    intro hf h
    cases op with
    | sub i d =>
      have hn : (d :: subChans r).Nodup := hf
      rw [List.nodup_cons] at hn
      by_cases hdc : d = c
      · subst hdc
        rcases List.mem_cons.1 h with h | h
        · cases h; simp [ownerOf]
        · exact absurd (mem_subChans h) hn.1
      · rcases List.mem_cons.1 h with h | h
        · cases h; exact absurd rfl hdc
        · simp only [ownerOf, if_neg hdc]; exact ih hn.2 h
    | unsub i =>
      rcases List.mem_cons.1 h with h | h
      · cases h
      · simp only [ownerOf]; exact ih (by simpa [Fresh, subChans] using hf) h
    | pub e =>
      rcases List.mem_cons.1 h with h | h
      · cases h
      · simp only [ownerOf]; exact ih (by simpa [Fresh, subChans] using hf) h
    | brk d =>
      rcases List.mem_cons.1 h with h | h
      · cases h
      · simp only [ownerOf]; exact ih (by simpa [Fresh, subChans] using hf) h

/-- shape of the specification: acknowledgement, then a subsequence of the published
    events in publication order, then at most the unsubscription acknowledgement -/
theorem spec_some_shape (c : ChanId) : ∀ (r : List Op) (j : SubId),
    ∃ (es : List Nat) (tl : List Msg), spec c (some j) r = es.map Msg.ev ++ tl ∧ (tl = [] ∨ tl = [.unsubscribed]) ∧
      es.Sublist (pubs r) := by
  intro r
  induction r with
  | nil => intro j; exact ⟨[], [], by simp [spec], Or.inl rfl, by simp [pubs]⟩
  | cons op r ih =>
    intro j
    obtain ⟨es, tl, h1, h2, h3⟩ := ih j
    cases op with
    | sub i d =>
      by_cases hij : i = j
      · exact ⟨[], [], by simp [spec, hij], Or.inl rfl, by simp⟩
      · exact ⟨es, tl, by simp [spec, hij, h1], h2, by simpa [pubs] using h3⟩
    | unsub i =>
      by_cases hij : i = j
      · exact ⟨[], [.unsubscribed], by simp [spec, hij], Or.inr rfl, by simp⟩
      · exact ⟨es, tl, by simp [spec, hij, h1], h2, by simpa [pubs] using h3⟩
    | pub e => exact ⟨e :: es, tl, by simp [spec, h1], h2, by simpa [pubs] using h3⟩
    | brk d => exact ⟨es, tl, by simp [spec, h1], h2, by simpa [pubs] using h3⟩

theorem spec_none_shape (c : ChanId) : ∀ (ops : List Op),
    spec c none ops = [] ∨
    ∃ (es : List Nat) (tl : List Msg), spec c none ops = .subscribed :: es.map Msg.ev ++ tl ∧ (tl = [] ∨ tl = [.unsubscribed]) ∧
      es.Sublist (pubs ops) := by
  intro ops
  induction ops with
  | nil => left; simp [spec]
  | cons op r ih =>
    cases op with
    | sub i d =>
      by_cases hdc : d = c
      · right
        obtain ⟨es, tl, h1, h2, h3⟩ := spec_some_shape c r i
        exact ⟨es, tl, by simp [spec, hdc, h1], h2, by simpa [pubs] using h3⟩
      · rcases ih with h | ⟨es, tl, h1, h2, h3⟩
        · left; simp [spec, hdc, h]
        · right; exact ⟨es, tl, by simp [spec, hdc, h1], h2, by simpa [pubs] using h3⟩
    | unsub i =>
      rcases ih with h | ⟨es, tl, h1, h2, h3⟩
      · left; simp [spec, h]
      · right; exact ⟨es, tl, by simp [spec, h1], h2, by simpa [pubs] using h3⟩
    | pub e =>
      rcases ih with h | ⟨es, tl, h1, h2, h3⟩
      · left; simp [spec, h]
      · right; exact ⟨es, tl, by simp [spec, h1], h2, List.Sublist.cons _ (by simpa [pubs] using h3)⟩
    | brk d =>
      rcases ih with h | ⟨es, tl, h1, h2, h3⟩
      · left; simp [spec, h]
      · right; exact ⟨es, tl, by simp [spec, h1], h2, by simpa [pubs] using h3⟩

end Px.Disp
