import PxModel.Url
import PxModel.Connect
import PxProofs.BytesLemmas
/-!
# Lemmas for C14 (request-target → connect address)

`splitN1` / `splitAll1` / `join` (Python `split(sep[, n])`, `sep.join`),
`splitOnceSeq` (`split(b'://', 1)`), `pyInt` on digit strings and on strings
with a foreign byte, `utf8Valid` on ASCII, the decimal renderer of the
specification, and `Url.parseAuthority` (= `Url._parse`) case by case
(continued in `UrlIntLemmas`, `UrlAuthLemmas`, `UrlParseLemmas`).
Own namespace so that nothing clashes with `PxProofs/BytesLemmas.lean`.
-/
namespace Px.UrlL

open Px Px.Url

/-! ### `splitN1`, `splitAll1`, `join` -/

theorem splitN1_of_not_mem (sep : UInt8) (n : Nat) (x : Bytes) (h : sep ∉ x) : splitN1 sep n x = [x] := by
  cases n with
  | zero => rfl
  | succ n => simp [splitN1, splitOnce1_of_not_mem sep x h]

theorem splitN1_ne_nil (sep : UInt8) (n : Nat) (x : Bytes) : splitN1 sep n x ≠ [] := by
  cases n with
  | zero => simp [splitN1]
  | succ n =>
    unfold splitN1
    cases splitOnce1 sep x with
    | none => simp
    | some p => simp

theorem join_cons_of_ne_nil (sep x : Bytes) (xs : List Bytes) (h : xs ≠ []) :
    join sep (x :: xs) = x ++ sep ++ join sep xs := by
  cases xs with
  | nil => exact absurd rfl h
  | cons y ys => rfl

/-- `sep.join(x.split(sep, n)) == x` -/
theorem join_splitN1 (sep : UInt8) (n : Nat) (x : Bytes) : join [sep] (splitN1 sep n x) = x := by
  induction n generalizing x with
  | zero => rfl
  | succ n ih =>
    unfold splitN1
    cases h : splitOnce1 sep x with
    | none => rfl
    | some p =>
      obtain ⟨l, r⟩ := p
      have := ((splitOnce1_some_iff sep x l r).1 h).1
      simp only
      rw [join_cons_of_ne_nil _ _ _ (splitN1_ne_nil sep n r), ih r, this]
      simp

/-- with enough fuel no part contains the separator -/
theorem splitN1_no_sep (sep : UInt8) (n : Nat) (x : Bytes) (hn : x.count sep ≤ n) :
    ∀ l ∈ splitN1 sep n x, sep ∉ l := by
  induction n generalizing x with
  | zero =>
    intro l hl
    simp [splitN1] at hl; subst hl
    intro hm
    have := List.count_pos_iff.2 hm
    omega
  | succ n ih =>
    unfold splitN1
    cases h : splitOnce1 sep x with
    | none =>
      intro l hl; simp at hl; subst hl
      exact (splitOnce1_none_iff sep l).1 h
    | some p =>
      obtain ⟨a, r⟩ := p
      obtain ⟨hx, ha⟩ := (splitOnce1_some_iff sep x a r).1 h
      intro l hl
      simp only [List.mem_cons] at hl
      rcases hl with rfl | hl
      · exact ha
      · refine ih r ?_ l hl
        subst hx
        simp [List.count_append] at hn
        omega

/-- splitting `x ++ sep ++ y` when `y` has no separator: the parts of `x`, then `y` -/
theorem splitN1_append_last (sep : UInt8) (n : Nat) (x y : Bytes) (hy : sep ∉ y) (hn : x.count sep < n) :
    splitN1 sep n (x ++ sep :: y) = splitN1 sep n x ++ [y] := by
  induction n generalizing x with
  | zero => omega
  | succ n ih =>
    unfold splitN1
    cases h : splitOnce1 sep x with
    | none =>
      have hx := (splitOnce1_none_iff sep x).1 h
      rw [splitOnce1_render sep x y hx]
      simp [splitN1_of_not_mem sep n y hy]
    | some p =>
      obtain ⟨a, r⟩ := p
      obtain ⟨hx, ha⟩ := (splitOnce1_some_iff sep x a r).1 h
      have e : x ++ sep :: y = a ++ sep :: (r ++ sep :: y) := by subst hx; simp
      rw [e, splitOnce1_render sep a _ ha]
      simp only [List.cons_append]
      congr 1
      apply ih
      subst hx
      simp [List.count_append] at hn
      omega

theorem count_le_length' (sep : UInt8) (x : Bytes) : x.count sep ≤ x.length := List.count_le_length

theorem splitAll1_of_not_mem (sep : UInt8) (x : Bytes) (h : sep ∉ x) : splitAll1 sep x = [x] :=
  splitN1_of_not_mem sep _ x h

/-- fuel beyond the number of separators does not matter -/
theorem splitN1_fuel (sep : UInt8) (n m : Nat) (x : Bytes) (hn : x.count sep ≤ n) (hm : x.count sep ≤ m) :
    splitN1 sep n x = splitN1 sep m x := by
  induction n generalizing x m with
  | zero =>
    have : sep ∉ x := fun hmem => by have := List.count_pos_iff.2 hmem; omega
    rw [splitN1_of_not_mem sep 0 x this, splitN1_of_not_mem sep m x this]
  | succ n ih =>
    cases h : splitOnce1 sep x with
    | none =>
      have := (splitOnce1_none_iff sep x).1 h
      rw [splitN1_of_not_mem sep _ x this, splitN1_of_not_mem sep m x this]
    | some p =>
      obtain ⟨a, r⟩ := p
      obtain ⟨hx, ha⟩ := (splitOnce1_some_iff sep x a r).1 h
      have hc : x.count sep = r.count sep + 1 := by
        subst hx; simp [List.count_append, List.count_eq_zero_of_not_mem ha]
      cases m with
      | zero => omega
      | succ m =>
        unfold splitN1
        rw [h]
        simp only
        congr 1
        apply ih <;> omega

theorem splitAll1_append_last (sep : UInt8) (x y : Bytes) (hy : sep ∉ y) :
    splitAll1 sep (x ++ sep :: y) = splitAll1 sep x ++ [y] := by
  unfold splitAll1
  have hc : (x ++ sep :: y).count sep = x.count sep + 1 := by
    simp [List.count_append, List.count_eq_zero_of_not_mem hy]
  have hl : (x ++ sep :: y).length = x.length + y.length + 1 := by simp; omega
  have hx := count_le_length' sep x
  rw [splitN1_append_last sep _ x y hy (by rw [hl]; omega)]
  congr 1
  apply splitN1_fuel <;> omega

theorem join_splitAll1 (sep : UInt8) (x : Bytes) : join [sep] (splitAll1 sep x) = x :=
  join_splitN1 sep _ x

theorem splitAll1_no_sep (sep : UInt8) (x : Bytes) : ∀ l ∈ splitAll1 sep x, sep ∉ l :=
  splitN1_no_sep sep _ x (count_le_length' sep x)

theorem join_append_singleton (sep : Bytes) (xs : List Bytes) (y : Bytes) (h : xs ≠ []) :
    join sep (xs ++ [y]) = join sep xs ++ sep ++ y := by
  induction xs with
  | nil => exact absurd rfl h
  | cons a as ih =>
    cases as with
    | nil => simp [join]
    | cons c cs =>
      have := ih (by simp)
      simp only [List.cons_append] at this ⊢
      simp [join, this]

/-- a non-empty list of parts: everything but the last part, joined, is a prefix
    of the whole, and the last part is a suffix -/
theorem join_dropLast_getLast (sep : Bytes) (xs : List Bytes) (h : xs ≠ []) :
    join sep xs = join sep xs.dropLast ++ (if xs.dropLast = [] then [] else sep) ++ xs.getLast?.getD [] := by
  rcases List.eq_nil_or_concat xs with rfl | ⟨ys, y, rfl⟩
  · exact absurd rfl h
  · rw [List.concat_eq_append] at h ⊢
    have hd1 : (ys ++ [y]).dropLast = ys := by simp
    have hg : (ys ++ [y]).getLast? = some y := by simp
    rw [hd1, hg]
    by_cases hd : ys = []
    · subst hd; simp [join]
    · rw [join_append_singleton sep _ _ hd, if_neg hd]; rfl

/-! ### `splitOnceSeq` (`split(b'://', 1)`) -/

theorem splitOnceSeq_some_eq (sep : Bytes) {x l r : Bytes} (h : splitOnceSeq sep x = some (l, r)) :
    x = l ++ sep ++ r := by
  fun_induction splitOnceSeq sep x generalizing l r with
  | case1 => simp at h
  | case2 c cs hs =>
    simp at h; obtain ⟨rfl, rfl⟩ := h
    obtain ⟨t, ht⟩ := (startsWith_iff _ _).1 hs
    rw [ht]; simp
  | case3 c cs hs hn ih => simp at h
  | case4 c cs hs l' r' hr ih =>
    simp at h; obtain ⟨rfl, rfl⟩ := h
    have := ih hr
    simp [this]

theorem splitOnceSeq_none_of_not_mem (c0 : UInt8) (rest x : Bytes) (h : c0 ∉ x) :
    splitOnceSeq (c0 :: rest) x = none := by
  induction x with
  | nil => rfl
  | cons c cs ih =>
    simp only [List.mem_cons, not_or] at h
    have hs : startsWith (c :: cs) (c0 :: rest) = false := by
      simp [startsWith]; intro e; exact absurd e.symm h.1
    unfold splitOnceSeq
    simp [hs, ih h.2]

/-- no `://` when some byte of the separator does not occur at all -/
theorem splitOnceSeq_none_of_not_mem' (sep x : Bytes) (c : UInt8) (hc : c ∈ sep) (h : c ∉ x) :
    splitOnceSeq sep x = none := by
  induction x with
  | nil => rfl
  | cons d ds ih =>
    have hs : startsWith (d :: ds) sep = false := by
      cases hb : startsWith (d :: ds) sep with
      | false => rfl
      | true =>
        obtain ⟨t, ht⟩ := (startsWith_iff _ _).1 hb
        exact absurd (by rw [ht]; simp [hc]) h
    simp only [List.mem_cons, not_or] at h
    unfold splitOnceSeq
    simp [hs, ih h.2]

theorem splitOnceSeq_render (c0 : UInt8) (rest s r : Bytes) (h : c0 ∉ s) :
    splitOnceSeq (c0 :: rest) (s ++ (c0 :: rest) ++ r) = some (s, r) := by
  induction s with
  | nil =>
    simp only [List.nil_append, List.cons_append]
    unfold splitOnceSeq
    have : startsWith (c0 :: (rest ++ r)) (c0 :: rest) = true := by
      have := startsWith_append_self (c0 :: rest) r
      simpa using this
    simp [this]
  | cons c cs ih =>
    simp only [List.mem_cons, not_or] at h
    have hs : startsWith (c :: (cs ++ (c0 :: rest) ++ r)) (c0 :: rest) = false := by
      simp [startsWith]; intro e; exact absurd e.symm h.1
    have ih' := ih h.2
    simp only [List.cons_append, List.append_assoc] at hs ih' ⊢
    unfold splitOnceSeq
    simp [hs, ih']

end Px.UrlL
