#!/usr/bin/env python3
"""tools/claim.py CXX <json-file with {text, note, technique?}>: move a property from not_applicable to checks."""
import sys, json, os
V = os.path.dirname(os.path.dirname(os.path.abspath(__file__)))
pid = sys.argv[1]; c = json.load(open(sys.argv[2]))
m = json.load(open(os.path.join(V, 'MANIFEST.json')))
m['not_applicable'] = [n for n in m['not_applicable'] if n['property_id'] != pid]
m['checks'] = [k for k in m['checks'] if k['property_id'] != pid]
m['checks'].append({
    "property_id": pid, "quick_cmd": f"./check {pid} --tier quick", "thorough_cmd": f"./check {pid} --tier thorough",
    "evidence_file": f"evidence/{pid}.json", "replay_cmd_template": f"./check {pid} --replay {{path}}",
    "engine": "lean4+corr",
    "level_claimed": {"category": "proof", "text": c['text'], "design_ref": f"DESIGN.md §6 {pid}"},
    "level_note": c['note'],
    "technique": c.get('technique', "Lean 4 theorem over executable model + model/implementation differential correspondence"),
})
m['checks'].sort(key=lambda k: k['property_id'])
for e in m['engines']:
    e['serves_properties'] = [k['property_id'] for k in m['checks']]
json.dump(m, open(os.path.join(V, 'MANIFEST.json'), 'w'), indent=1)
print('claimed', pid)
