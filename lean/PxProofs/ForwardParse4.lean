import PxProofs.ForwardParse3
/-!
# C02 helper lemmas, part 7: `parse (render r)` assembled
-/
namespace Px.Forward

open Px.Parser Px.Build
open Px.Codec (hdrApply foldHdrs bodyPhase afterHeaders reqLineParser)

/-- the body field the parser ends up with -/
def parsedBody (r : Req) : Option Bytes :=
  match r.framing with
  | .none => none
  | .contentLength => if r.body.isEmpty then none else some r.body
  | .chunked .. => some r.body

/-- what the parser holds once `render r` has been fed (in one piece) -/
structure Parsed (r : Req) (host pq : Bytes) (P : Parser) : Prop where
  state : P.state = .complete
  ty : P.ty = .request
  method : P.method = some r.method
  version : P.version = some r.version
  path : P.path = (if pq.isEmpty then none else some pq)
  host : P.host = some host
  url : P.url.isSome = true
  tunnel : P.isTunnel = false
  buffer : P.buffer = none
  headers : P.headers = (if r.fields = [] then none else some (entries r.fields))
  body : P.body = parsedBody r
  chunked : P.isChunked = r.framing.isChunked

/-- facts about the parser right after the request line -/
theorem reqLine_facts (total : Nat) (m v : Bytes) (url : Px.Url.Url) (hm : m ≠ pcfg.connectMethod) :
    let p1 := reqLineParser pcfg total m v url
    p1.ty = .request ∧ p1.method = some m ∧ p1.version = some v ∧ p1.headers = none ∧ p1.body = none ∧
    p1.chunk = none ∧ p1.isChunked = false ∧ p1.contentExpected = false ∧ p1.url = some url ∧
    p1.path = url.remainder ∧ p1.host = url.hostname ∧ p1.buffer = none ∧ p1.isTunnel = false := by
  have h := Px.Codec.setLineAttributes_same pcfg
    { (init .request) with totalSize := total, method := some m, isTunnel := m == pcfg.connectMethod } url
  obtain ⟨h1, _, h3, h4, h5, h6, h7, h8, h9, h10, h11, _, _, _, h15, h16⟩ := h
  have hmm : (m == pcfg.connectMethod) = false := by simpa using hm
  refine ⟨h1, h3, rfl, h4, h5, h6, h7, h8, h9, h10, h11, h15, ?_⟩
  show (setLineAttributes pcfg _ url).isTunnel = false
  rw [h16]; exact hmm

theorem header_of_entries {q : Parser} {fs : List Field} (hq : q.headers = some (entries fs))
    (hn : (fs.map (fun f => lower f.name)).Nodup) {f : Field} (hf : f ∈ fs) (hcl : nameIs clName f = true) :
    header q (b "content-length") = .ok f.value := by
  unfold header
  rw [hq, b_content_length', lower_clName]
  have hmem : (lower f.name, (f.name, f.value)) ∈ entries fs := by
    simp only [entries, List.mem_map]; exact ⟨f, hf, rfl⟩
  have hkeys : ((entries fs).map (·.1)).Nodup := by rw [entries_keys]; exact hn
  have := hdrGet_of_mem hkeys hmem
  simp only [nameIs, beq_iff_eq] at hcl
  simp only [hcl] at this
  simp only [this]

/-- **the parser on a rendered well-formed request** -/
theorem parse_render (r : Req) (hwf : r.WF) {host : Bytes} {port : Option Bytes} {pq : Bytes}
    (ht : r.target = .absolute host port pq) :
    ∃ P, parse pcfg (init .request) (render r) = .ok P ∧ Parsed r host pq P := by
  obtain ⟨hmtok, hmc, htgt, hver, hfs, hnodup, hfr⟩ := hwf
  rw [ht] at htgt
  have tf := targetFacts htgt
  obtain ⟨url, hurl, huh, hur⟩ := tf.url
  obtain ⟨hmne, _, hmsp, _, hmlf⟩ := token_facts hmtok
  obtain ⟨_, hvlf⟩ := version_facts hver
  have ff := framingFacts r hnodup hfr
  -- the request line
  have hl : splitCRLF (r.method ++ SP :: (renderTarget (.absolute host port pq) ++ SP :: r.version)) = none := by
    apply splitCRLF_none_of_noLF
    intro c hc
    simp only [List.mem_append, List.mem_cons] at hc
    rcases hc with hc | rfl | hc | rfl | hc
    · exact hmlf c hc
    · decide
    · exact tf.noLF c hc
    · decide
    · exact hvlf c hc
  have hpkt : render r = r.method ++ SP :: (renderTarget (.absolute host port pq) ++ SP :: r.version) ++ CRLF ++
      (renderFields r.fields ++ CRLF ++ renderBody r) := by
    simp only [render, requestLine, ht]
  obtain ⟨q, hq⟩ := Px.Codec.foldHdrs_ok (dictOf r.fields) ff.clOK
    (reqLineParser pcfg (render r).length r.method r.version url)
  have hparse := parse_request_fields pcfg r.fields (renderBody r) hmne hmsp tf.noSP hl hurl hfs (render r) hpkt hq
  obtain ⟨p1ty, p1m, p1v, p1h, p1b, p1c, p1ch, p1ce, p1u, p1p, p1host, p1buf, p1t⟩ :=
    reqLine_facts (render r).length r.method r.version url hmc
  obtain ⟨hsame, hhdrs, hchk⟩ := Px.Codec.foldHdrs_spec _ hq
  obtain ⟨s1, s2, s3, _, _, s6, s7, _, s9, s10, s11, s12, _, s14⟩ := hsame
  have hce := ff.ce hq p1ce
  rw [p1ch, Bool.false_or, ff.chunked] at hchk
  have hqh : q.headers = (if r.fields = [] then none else some (entries r.fields)) := by
    rw [hhdrs, p1h]
    by_cases he : r.fields = []
    · simp [he, dictOf]
    · have hd : dictOf r.fields ≠ [] := by simpa [dictOf] using he
      simp only [hd, he, if_false, Option.getD_none]
      rw [hdrFold_entries r.fields hnodup [] (by simp)]; rfl
  -- common projections of any `{ q with state, body, chunk, buffer }`
  have base : ∀ P : Parser, P.state = .complete → P.ty = q.ty → P.method = q.method → P.version = q.version →
      P.path = q.path → P.host = q.host → P.url = q.url → P.isTunnel = q.isTunnel → P.buffer = none →
      P.headers = q.headers → P.body = parsedBody r → P.isChunked = q.isChunked → Parsed r host pq P := by
    intro P a1 a2 a3 a4 a5 a6 a7 a8 a9 a10 a11 a12
    exact ⟨a1, by rw [a2, s1, p1ty], by rw [a3, s2, p1m], by rw [a4, s3, p1v], by rw [a5, s9, p1p, hur],
      by rw [a6, s7, p1host, huh], by rw [a7, s6, p1u]; rfl, by rw [a8, s10, p1t], a9, by rw [a10, hqh], a11,
      by rw [a12, hchk]⟩
  rw [hparse]
  rcases hfrm : r.framing with _ | _ | ⟨cs, lsz, lext⟩
  · -- no body
    have hB : renderBody r = [] := by simp [renderBody, hfrm]
    rw [hfrm] at hce hchk
    rw [hB, Px.Codec.bodyPhase_nobody pcfg _ q [] hce hchk (.inl rfl)]
    refine ⟨_, rfl, base _ rfl rfl rfl rfl rfl rfl rfl rfl rfl rfl ?_ rfl⟩
    show q.body = parsedBody r
    rw [s11, p1b]; simp [parsedBody, hfrm]
  · -- Content-Length
    have hB : renderBody r = r.body := by simp [renderBody, hfrm]
    rw [hfrm] at hce hchk
    rw [hB]
    by_cases hbe : r.body = []
    · have hce' : q.contentExpected = false := by rw [hce, hbe]; rfl
      rw [hbe, Px.Codec.bodyPhase_nobody pcfg _ q [] hce' hchk (.inl rfl)]
      refine ⟨_, rfl, base _ rfl rfl rfl rfl rfl rfl rfl rfl rfl rfl ?_ rfl⟩
      show q.body = parsedBody r
      rw [s11, p1b]; simp [parsedBody, hfrm, hbe]
    · have hce' : q.contentExpected = true := by
        rw [hce]; simpa [Framing.isCL] using hbe
      -- the Content-Length field
      unfold framingOk at hfr
      simp only [hfrm, Bool.and_eq_true, Bool.not_eq_true', List.any_eq_true, beq_iff_eq] at hfr
      obtain ⟨_, f, hfm, ⟨⟨hfn, _⟩, _⟩, hval⟩ := hfr
      have hne : r.fields ≠ [] := by intro he; rw [he] at hfm; simp at hfm
      have hqh' : q.headers = some (entries r.fields) := by rw [hqh]; simp [hne]
      have hcl := header_of_entries hqh' hnodup hfm hfn
      have e6 : (render r).length + 6 = ((render r).length + 4) + 2 := rfl
      have hb2 : r.body = r.body ++ [] := by simp
      rw [e6, hb2, Px.Codec.bodyPhase_cl pcfg _ q r.body [] f.value hchk hce' (by rw [s11, p1b]) hcl hval hbe]
      refine ⟨_, rfl, base _ rfl rfl rfl rfl rfl rfl rfl rfl rfl rfl ?_ rfl⟩
      show some r.body = parsedBody r
      have : r.body.isEmpty = false := by simpa using hbe
      simp [parsedBody, hfrm, this]
  · -- chunked
    unfold framingOk at hfr
    simp only [hfrm, Bool.and_eq_true, beq_iff_eq] at hfr
    obtain ⟨⟨⟨_, hbody⟩, hcs⟩, hlast⟩ := hfr
    have hB : renderBody r = (toStream cs lsz lext).render ++ [] := by
      simp [renderBody, hfrm, toStream_render]
    rw [hfrm] at hchk
    have e6 : (render r).length + 6 = ((render r).length + 4) + 2 := rfl
    rw [hB, e6, Px.Codec.bodyPhase_chunked pcfg _ q _ [] hchk (by rw [s12, p1c]) (toStream_valid cs lsz lext hcs hlast)]
    refine ⟨_, rfl, base _ rfl rfl rfl rfl rfl rfl rfl rfl rfl rfl ?_ rfl⟩
    show some (toStream cs lsz lext).decoded = parsedBody r
    rw [toStream_decoded, ← hbody]; simp [parsedBody, hfrm]

end Px.Forward
