import PxModel.Ws
import PxModel.Sha1
namespace Px.Ws

def errStr : Err → String
  | .structError => "structError" | .indexError => "indexError"
  | .assertion => "assertion" | .valueError => "valueError"

def boolStr (b : Bool) : String := if b then "1" else "0"

def frameStr (f : Frame) : String :=
  s!"fin={boolStr f.fin} rsv={boolStr f.rsv1}{boolStr f.rsv2}{boolStr f.rsv3} op={f.opcode} masked={boolStr f.masked} mask={hexOpt f.mask} data={hex f.data}"

def parseBool (s : String) : Bool := s == "1"

/-- `ws build <fin> <r1> <r2> <r3> <opcode> <masked> <mask|None> <rnd> <data>`
    `ws parse <raw>`  `ws rt <fin> … <data> <tail>` (build, append tail, parse) -/
def drv (args : List String) : String :=
  let mkFrame (fin r1 r2 r3 op m mask data : String) : Option Frame := do
    let op ← op.toNat?
    let mask ← if mask == "None" then some none else (unhex mask).map some
    let data ← unhex data
    some { fin := parseBool fin, rsv1 := parseBool r1, rsv2 := parseBool r2, rsv3 := parseBool r3,
           opcode := op, masked := parseBool m, mask := mask, data := data }
  match args with
  | ["build", fin, r1, r2, r3, op, m, mask, rnd, data] =>
    match mkFrame fin r1 r2 r3 op m mask data, unhex rnd with
    | some f, some rnd =>
      match build rnd f with
      | .ok x => s!"ok {hex x}"
      | .error e => s!"exc {errStr e}"
    | _, _ => "bad-op"
  | ["parse", raw] =>
    match unhex raw with
    | some raw =>
      match parse raw with
      | .ok (f, t) => s!"ok {frameStr f} tail={hex t}"
      | .error e => s!"exc {errStr e}"
    | none => "bad-op"
  | ["rt", fin, r1, r2, r3, op, m, mask, rnd, data, tail] =>
    match mkFrame fin r1 r2 r3 op m mask data, unhex rnd, unhex tail with
    | some f, some rnd, some tail =>
      match build rnd f with
      | .error e => s!"exc build {errStr e}"
      | .ok x =>
        match parse (x ++ tail) with
        | .ok (g, t) => s!"ok {frameStr g} tail={hex t}"
        | .error e => s!"exc parse {errStr e}"
    | _, _, _ => "bad-op"
  | ["accept", guid, key] =>
    match unhex guid, unhex key with
    | some g, some k => s!"ok {hex (Px.Sha1.keyToAccept g k)}"
    | _, _ => "bad-op"
  | ["mask", data, mask] =>
    match unhex data, unhex mask with
    | some d, some m =>
      match applyMask d m with
      | .ok x => s!"ok {hex x}"
      | .error e => s!"exc {errStr e}"
    | _, _ => "bad-op"
  | _ => "bad-op"

end Px.Ws
