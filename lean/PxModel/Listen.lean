import PxModel.Generated
/-
  Model of start-up / shutdown of the embedding API `proxy.Proxy`:

  * `proxy/core/listener/pool.py`  `ListenerPool.setup` (creation order of the
    listeners: unix socket first when configured, then
    `itertools.product({hostname, *hostnames}, ports)` with the primary port
    first — the `fix:` commit 2721edd),
  * `proxy/core/listener/tcp.py`   `bind((host, port))`, `_port = getsockname()[1]`,
  * `proxy/proxy.py`               `Proxy.setup` (pid file, write-back of
    `flags.port` / `flags.ports`, port file) and `Proxy.shutdown`
    (listeners closed, unix path removed, port file and pid file deleted).

  Environment (everything the code does not decide itself) is a parameter:
  the iteration order of the Python `set` of addresses, the port the kernel
  hands out for a `bind(host, 0)` (indexed by the position of the listener in
  `ListenerPool.pool`), the iteration order of the `set` of additional ports
  and the process id.  Core Lean only.
-/
namespace Px.Listen

/-- A listening address.  Distinct numbers are distinct, non-wildcard
    addresses (`ipaddress.ip_address` objects compare by value). -/
abbrev Host := Nat

inductive Err | addrInUse | indexError | attributeError
  deriving DecidableEq, Repr

/-- the listening options of `flags` after `FlagParser.initialize` -/
structure Config where
  /-- `--unix-socket-path` given -/
  unix : Bool
  /-- `--hostname` -/
  hostname : Host
  /-- `--hostnames` (flattened) -/
  hostnames : List Host
  /-- `--port` (0 = OS-assigned) -/
  port : Nat
  /-- `--ports` (flattened; 0 = OS-assigned) -/
  ports : List Nat
  /-- `--port-file` given -/
  portFile : Bool
  /-- `--pid-file` given -/
  pidFile : Bool
  deriving DecidableEq, Repr

structure Env where
  /-- iteration order of the set `{hostname, *hostnames}` -/
  hs : List Host
  /-- port chosen by the kernel for `bind(host, 0)` of the listener at this pool index -/
  assign : Nat → Nat
  /-- `list(s)` for the set `s` built from the given elements -/
  setOrder : List Nat → List Nat
  /-- `os.getpid()` -/
  pid : Nat

inductive Listener
  | unix
  | tcp (host : Host) (port : Nat)
  deriving DecidableEq, Repr

/-- the three paths the proxy creates: content of the port file (lines), of the
    pid file, existence of the unix socket path -/
structure Fs where
  portFile : Option (List Nat)
  pidFile : Option Nat
  unixPath : Bool
  deriving DecidableEq, Repr

/-- `ports = list(flags.ports); if not unix: ports.insert(0, flags.port)` -/
def tcpPorts (c : Config) : List Nat := if c.unix then c.ports else c.port :: c.ports

/-- pool index of the first TCP listener -/
def off (c : Config) : Nat := if c.unix then 1 else 0

/-- `itertools.product(hostnames, ports)` -/
def plan (c : Config) (hs : List Host) : List (Host × Nat) :=
  hs.flatMap (fun h => (tcpPorts c).map (fun p => (h, p)))

/-- The `bind` calls in creation order.  `bound` = addresses already bound by
    this process (most recent first).  A fixed port already bound on the same
    address raises `OSError(EADDRINUSE)` (`SO_REUSEADDR` does not allow two
    listening sockets); a request for port 0 always succeeds with the port the
    kernel picks. -/
def bindAll (assign : Nat → Nat) : Nat → List (Host × Nat) → List (Host × Nat) → Except Err (List (Host × Nat))
  | _, _, [] => .ok []
  | i, bound, (h, p) :: rest =>
    if p = 0 then
      match bindAll assign (i + 1) ((h, assign i) :: bound) rest with
      | .error e => .error e
      | .ok r => .ok ((h, assign i) :: r)
    else if (h, p) ∈ bound then .error .addrInUse
    else
      match bindAll assign (i + 1) ((h, p) :: bound) rest with
      | .error e => .error e
      | .ok r => .ok ((h, p) :: r)

/-- `ListenerPool.setup`: the pool in creation order -/
def listen (c : Config) (e : Env) : Except Err (List Listener) :=
  match bindAll e.assign (off c) [] (plan c e.hs) with
  | .error err => .error err
  | .ok r => .ok ((if c.unix then [Listener.unix] else []) ++ r.map (fun x => Listener.tcp x.1 x.2))

/-- `cast(TcpSocketListener, l)._port` for each listener of a slice of the pool
    (a `UnixSocketListener` has no `_port`) -/
def portsOf : List Listener → Except Err (List Nat)
  | [] => .ok []
  | .unix :: _ => .error .attributeError
  | .tcp _ p :: r =>
    match portsOf r with
    | .error e => .error e
    | .ok ps => .ok (p :: ps)

/-- `Proxy.setup` lines 238-257: the new `(flags.port, flags.ports)` -/
def writeBack (c : Config) (setOrder : List Nat → List Nat) (pool : List Listener) :
    Except Err (Nat × List Nat) :=
  let primary : Except Err Nat :=
    if c.unix then .ok c.port            -- flags.port is left as it was
    else match pool with                 -- pool[0]._port
      | [] => .error .indexError
      | .unix :: _ => .error .attributeError
      | .tcp _ p :: _ => .ok p
  match primary with
  | .error e => .error e
  | .ok fp =>
    -- for index in range(1, 1 + len(flags.ports)): ports.add(pool[index]._port)
    let sl := (pool.drop 1).take c.ports.length
    if sl.length < c.ports.length then .error .indexError
    else match portsOf sl with
      | .error e => .error e
      | .ok ps =>
        -- if not unix and flags.port in ports: ports.remove(flags.port)
        let s := if !c.unix && ps.contains fp then ps.filter (· ≠ fp) else ps
        .ok (fp, setOrder s)

/-- `_write_pid_file` -/
def writePid (c : Config) (pid : Nat) (fs : Fs) : Fs :=
  if c.pidFile then { fs with pidFile := some pid } else fs

/-- `_write_port_file`: primary port (unless unix) then the additional ones, one per line -/
def writePortFile (c : Config) (fp : Nat) (fps : List Nat) (fs : Fs) : Fs :=
  if c.portFile then { fs with portFile := some (if c.unix then fps else fp :: fps) } else fs

structure Started where
  pool : List Listener
  flagsPort : Nat
  flagsPorts : List Nat
  fs : Fs
  deriving DecidableEq, Repr

/-- `Proxy.setup()` either returns (`started`) or raises (`failed`, with the
    file system as it is left behind: `__exit__` does not run then). -/
inductive Outcome
  | started (st : Started)
  | failed (e : Err) (fs : Fs)
  deriving DecidableEq, Repr

/-- the file system while the TCP listeners are being created: the pid file is
    written first, the unix listener (and its path) comes before any TCP listener -/
def fsListening (c : Config) (e : Env) (fs0 : Fs) : Fs :=
  if c.unix then { writePid c e.pid fs0 with unixPath := true } else writePid c e.pid fs0

def setup (c : Config) (e : Env) (fs0 : Fs) : Outcome :=
  match listen c e with
  | .error err => .failed err (fsListening c e fs0)
  | .ok pool =>
    match writeBack c e.setOrder pool with
    | .error err => .failed err (fsListening c e fs0)
    | .ok (fp, fps) =>
      .started { pool := pool, flagsPort := fp, flagsPorts := fps,
                 fs := writePortFile c fp fps (fsListening c e fs0) }

/-- `Proxy.shutdown()`: every listener closed and the pool cleared, the unix
    path removed by `UnixSocketListener.shutdown`, `_delete_port_file`,
    `_delete_pid_file` (each: `if configured and os.path.exists: os.remove`). -/
def shutdown (c : Config) (st : Started) : Started :=
  { st with
    pool := []
    fs := { portFile := if c.portFile && st.fs.portFile.isSome then none else st.fs.portFile
            pidFile := if c.pidFile && st.fs.pidFile.isSome then none else st.fs.pidFile
            unixPath := if c.unix then false else st.fs.unixPath } }

/-! ### vocabulary of the property -/

/-- all TCP ports some listener of the pool is bound to -/
def boundPorts : List Listener → List Nat
  | [] => []
  | .unix :: r => boundPorts r
  | .tcp _ p :: r => p :: boundPorts r

/-- requested ports with every 0 replaced by what the kernel assigned to the
    listener at that pool index -/
def resolvePorts (assign : Nat → Nat) : Nat → List Nat → List Nat
  | _, [] => []
  | i, p :: r => (if p = 0 then assign i else p) :: resolvePorts assign (i + 1) r

/-- the port the primary listener (pool index 0) is bound to -/
def boundPrimary (c : Config) (e : Env) : Nat := if c.port = 0 then e.assign 0 else c.port

/-- the ports the additional listeners on the first address (pool indices 1 …) are bound to -/
def boundAdditional (c : Config) (e : Env) : List Nat := resolvePorts e.assign 1 c.ports

/-- **The property's quantifier**: OS-assigned ports only together with a
    single listening address. -/
def InQuantifier (c : Config) : Prop := 0 ∈ tcpPorts c → ∀ h ∈ c.hostnames, h = c.hostname

instance (c : Config) : Decidable (InQuantifier c) := by unfold InQuantifier; infer_instance

/-- `hs` is an iteration order of the set `{hostname, *hostnames}` -/
def SetOrder (c : Config) (hs : List Host) : Prop :=
  hs.Nodup ∧ (∀ h ∈ hs, h ∈ c.hostname :: c.hostnames) ∧ (∀ h ∈ c.hostname :: c.hostnames, h ∈ hs)

instance (c : Config) (hs : List Host) : Decidable (SetOrder c hs) := by unfold SetOrder; infer_instance

/-- `f l` lists the set of the elements of `l` in some order -/
def IsSetList (f : List Nat → List Nat) : Prop := ∀ l, (f l).Nodup ∧ ∀ x, x ∈ f l ↔ x ∈ l

/-- Kernel contract for `bind(host, 0)`: the port handed out is non-zero and
    not bound on that address at that moment (same traversal as `bindAll`). -/
def kernelFresh (assign : Nat → Nat) : Nat → List (Host × Nat) → List (Host × Nat) → Bool
  | _, _, [] => true
  | i, bound, (h, p) :: rest =>
    if p = 0 then
      assign i != 0 && !bound.contains (h, assign i) && kernelFresh assign (i + 1) ((h, assign i) :: bound) rest
    else kernelFresh assign (i + 1) ((h, p) :: bound) rest

def KernelFresh (c : Config) (e : Env) : Prop := kernelFresh e.assign (off c) [] (plan c e.hs) = true

instance (c : Config) (e : Env) : Decidable (KernelFresh c e) := by unfold KernelFresh; infer_instance

/-- the kernel never hands out one of the fixed ports this configuration asks for -/
def AssignAvoidsFixed (c : Config) (e : Env) : Prop := ∀ i, ∀ p ∈ tcpPorts c, p ≠ 0 → e.assign i ≠ p

/-- sorted, duplicate-free list: the `setOrder` the driver uses -/
def insertSorted (x : Nat) : List Nat → List Nat
  | [] => [x]
  | y :: r => if x < y then x :: y :: r else if x = y then y :: r else y :: insertSorted x r

def sortDedup (l : List Nat) : List Nat := l.foldr insertSorted []

/-! ### the socket calls of one listener (`TcpSocketListener.listen`, `UnixSocketListener.listen`)

`bindAll` above lets a fixed-port `bind` fail only against an address that is
bound *now* by this process.  That is what the kernel does only for a socket
with `SO_REUSEADDR` set **before** `bind`: otherwise connections of an earlier
instance that linger in FIN_WAIT / TIME_WAIT on the listening address (the
proxy closed them itself) make `bind` fail with EADDRINUSE, i.e. a restart on
the same fixed port does not come up.  The order of the calls is therefore
part of the model. -/

inductive Fam | inet | inet6 | unix
  deriving DecidableEq, Repr

inductive SockOp
  | socket (fam : Fam)
  | setReuseAddr          -- setsockopt(SOL_SOCKET, SO_REUSEADDR, 1)
  | setNoDelay            -- setsockopt(IPPROTO_TCP, TCP_NODELAY, 1)
  | bind (port : Nat)     -- bind((host, port))
  | bindPath              -- bind(unix_socket_path)
  | listen (backlog : Nat)
  | setNonBlocking        -- setblocking(False)
  | getsockname
  deriving DecidableEq, Repr

/-- `TcpSocketListener.listen` -/
def tcpListenOps (v6 : Bool) (port backlog : Nat) : List SockOp :=
  [.socket (if v6 then .inet6 else .inet), .setReuseAddr, .setNoDelay, .bind port, .listen backlog,
   .setNonBlocking, .getsockname]

/-- `UnixSocketListener.listen` -/
def unixListenOps (backlog : Nat) : List SockOp :=
  [.socket .unix, .setReuseAddr, .bindPath, .listen backlog, .setNonBlocking]

/-- what matters of one socket for `bind`: was `SO_REUSEADDR` set, is it bound, is it listening -/
structure SockSt where
  reuse : Bool
  bound : Bool
  listening : Bool
  deriving DecidableEq, Repr

/-- Kernel rule for the calls of one listener.  `lingering`: connections of an
    earlier instance are still in FIN_WAIT / TIME_WAIT on the requested
    address (no live listener is: that case is `bindAll`'s).  A fixed-port
    `bind` then succeeds iff `SO_REUSEADDR` is already set; port 0 always gets
    a free port; `listen` needs a bound socket. -/
def runOps (lingering : Bool) : SockSt → List SockOp → Except Err SockSt
  | st, [] => .ok st
  | st, .setReuseAddr :: r => runOps lingering { st with reuse := true } r
  | st, .bind port :: r =>
    if lingering && port != 0 && !st.reuse then .error .addrInUse
    else runOps lingering { st with bound := true } r
  | st, .bindPath :: r => runOps lingering { st with bound := true } r
  | st, .listen _ :: r =>
    if st.bound then runOps lingering { st with listening := true } r else .error .addrInUse
  | st, _ :: r => runOps lingering st r

end Px.Listen
