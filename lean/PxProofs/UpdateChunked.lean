import PxProofs.UpdateThms
/-!
# `update_body` on a chunked message (C15, finding D23)

`update_body` stores the chunk-encoded stream in `self.body` and leaves `_is_chunked_encoded` set,
so `build()` encodes it a second time.  `update_body_req_chunked_partial` proves what the code
does: the rebuilt message is well-formed and complete, but its decoded body is the *chunk
encoding* of the new body.
-/
namespace Px.Codec

open Px.Parser Px.Build Px.UpdateBody
open Px.Url (Url)

/-- the header map after `update_body` on a chunked message -/
def updHeadersCh (h : Headers) (ct : Bytes) : Headers :=
  hdrSet (hdrDel (if isGzip h then h else hdrDel h kCE) kCL) kCT (nCT, ct)

theorem delHeader_getD (p : Parser) (k : Bytes) :
    (delHeader p k).headers.getD [] = hdrDel (p.headers.getD []) (lower k) := by
  unfold delHeader
  rcases hh : p.headers with _ | h
  · simp [hh, hdrDel]
  · by_cases he : h.isEmpty = true
    · have : h = [] := by simpa using he
      subst this; simp [hh, hdrDel]
    · simp [he]

theorem delHeader_same (p : Parser) (k : Bytes) :
    (delHeader p k).isChunked = p.isChunked ∧ (delHeader p k).ty = p.ty ∧ (delHeader p k).method = p.method ∧
    (delHeader p k).version = p.version ∧ (delHeader p k).path = p.path ∧ (delHeader p k).body = p.body := by
  unfold delHeader
  split
  · simp
  · split <;> simp

/-- the parser after `update_body` on a chunked message: same start line, new map, body := the stream -/
def UpdChunked (p p' : Parser) (h' : Headers) (enc : Bytes) : Prop :=
  p'.ty = p.ty ∧ p'.method = p.method ∧ p'.version = p.version ∧ p'.path = p.path ∧
  p'.isChunked = true ∧ p'.headers = some h' ∧ p'.body = some enc

/-- first half of `update_body`: content-encoding -/
def stage1 (gz : Bytes → Bytes) (p : Parser) (body : Bytes) : Parser × Bytes :=
  if hasHeader p (b "content-encoding") then
    match header p (b "content-encoding") with
    | .ok v => if v == b "gzip" then (p, gz body) else (delHeader p (b "content-encoding"), body)
    | .error _ => (p, body)
  else (p, body)

/-- second half: transfer-encoding / content-length, body, content-type -/
def stage2 (bufSize : Nat) (pb : Parser × Bytes) (ct : Bytes) : Except Px.UpdateBody.Err Parser :=
  let r : Except Px.UpdateBody.Err (Parser × Bytes) :=
    if pb.1.isChunked then
      match Px.Chunk.toChunks pb.2 bufSize with
      | .ok x => .ok (delHeader pb.1 (b "content-length"), x)
      | .error _ => .error .valueError
    else .ok (addHeader pb.1 (b "Content-Length") (natToDec pb.2.length), pb.2)
  match r with
  | .error e => .error e
  | .ok (p, body) => .ok (addHeader { p with body := some body } (b "Content-Type") ct)

theorem updateBody_stages (gz : Bytes → Bytes) (bufSize : Nat) (p : Parser) (body ct : Bytes) :
    updateBody gz bufSize p body ct = stage2 bufSize (stage1 gz p body) ct := rfl

theorem stage1_spec (gz : Bytes → Bytes) (p : Parser) (body : Bytes) :
    (stage1 gz p body).2 = updBody gz (p.headers.getD []) body ∧
    (stage1 gz p body).1.headers.getD [] =
      (if isGzip (p.headers.getD []) then p.headers.getD [] else hdrDel (p.headers.getD []) kCE) ∧
    (stage1 gz p body).1.isChunked = p.isChunked ∧ (stage1 gz p body).1.ty = p.ty ∧
    (stage1 gz p body).1.method = p.method ∧ (stage1 gz p body).1.version = p.version ∧
    (stage1 gz p body).1.path = p.path := by
  unfold stage1
  rw [bn_content_encoding, bn_gzip]
  rcases hh : p.headers with _ | h
  · simp [hasHeader, hh, updBody, isGzip, hdrGet_nil, hdrDel]
  · simp only [hasHeader, hh, header, lower_kCE, Option.getD_some]
    by_cases hany : h.any (·.1 == kCE) = true
    · have hsome : (hdrGet h kCE).isSome = true := by rw [← any_key_iff_hdrGet]; exact hany
      obtain ⟨nv, hnv⟩ := Option.isSome_iff_exists.1 hsome
      simp only [hany, if_true, hnv]
      by_cases hg : (nv.2 == vGzip) = true
      · have hz : isGzip h = true := by simp [isGzip, hnv, hg]
        simp [hg, updBody, hz, hh]
      · have hz : isGzip h = false := by simp [isGzip, hnv, hg]
        have hd := delHeader_same p kCE
        have hg' := delHeader_getD p kCE
        rw [hh, lower_kCE] at hg'
        simp only [hg, Bool.false_eq_true, if_false, updBody, hz]
        exact ⟨trivial, by simpa using hg', hd.1, hd.2.1, hd.2.2.1, hd.2.2.2.1, hd.2.2.2.2.1⟩
    · have hany' : h.any (·.1 == kCE) = false := by
        cases hb : h.any (·.1 == kCE) with
        | false => rfl
        | true => exact absurd hb hany
      have hz : isGzip h = false := by simp [isGzip, hdrGet_none_of_no_key h kCE hany']
      simp [hany', updBody, hz, hh, hdrDel_of_no_key h kCE hany']

theorem updateBody_chunked (gz : Bytes → Bytes) (bufSize : Nat) (hbs : bufSize ≠ 0) (p : Parser) (body ct : Bytes)
    (hch : p.isChunked = true) :
    ∃ (p' : Parser) (s : Px.Chunk.ChunkedStream), s.Valid ∧ s.decoded = updBody gz (p.headers.getD []) body ∧
      Px.Chunk.toChunks (updBody gz (p.headers.getD []) body) bufSize = .ok s.render ∧
      updateBody gz bufSize p body ct = .ok p' ∧
      UpdChunked p p' (updHeadersCh (p.headers.getD []) ct) s.render := by
  obtain ⟨s, hsv, hsd, hsr⟩ := toChunks_in_grammar (updBody gz (p.headers.getD []) body) bufSize hbs
  obtain ⟨e1, hh1, hc1, ht1, hm1, hv1, hp1⟩ := stage1_spec gz p body
  rw [updateBody_stages]
  unfold stage2
  rw [bn_Content_Type, bn_content_length, e1, hc1, hch]
  simp only [if_true, hsr]
  have hd := delHeader_same (stage1 gz p body).1 kCL
  refine ⟨_, s, hsv, hsd, rfl, rfl, ?_⟩
  refine ⟨hd.2.1.trans ht1, hd.2.2.1.trans hm1, hd.2.2.2.1.trans hv1, hd.2.2.2.2.1.trans hp1, ?_, ?_, rfl⟩
  · show (delHeader (stage1 gz p body).1 kCL).isChunked = true
    exact hd.1.trans (hc1.trans hch)
  · show (addHeader _ nCT ct).headers = _
    simp only [addHeader, lower_nCT]
    show some (hdrSet ((delHeader (stage1 gz p body).1 kCL).headers.getD []) kCT (nCT, ct)) = _
    rw [delHeader_getD, hh1, lower_kCL]
    rfl

theorem mem_hdrSet_of_mem {h : Headers} {k : Bytes} {x : Bytes × Bytes} {a : Bytes × (Bytes × Bytes)}
    (ha : a ∈ h) (hne : a.1 ≠ k) : a ∈ hdrSet h k x := by
  unfold hdrSet
  split
  · simp only [List.mem_map]
    exact ⟨a, ha, by simp [hne]⟩
  · simp [ha]

theorem hdrInvB_updCh (h : Headers) (ct : Bytes) (hi : hdrInvB h = true) (hct : wfValue ct = true) :
    hdrInvB (updHeadersCh h ct) = true := by
  unfold updHeadersCh
  have h1 : hdrInvB (if isGzip h then h else hdrDel h kCE) = true := by
    split
    · exact hi
    · exact hdrInvB_hdrDel hi _
  have h3 := hdrInvB_hdrSet (hdrInvB_hdrDel h1 kCL) (name := nCT) (value := ct) wfName_nCT hct
  rw [lower_nCT] at h3
  exact h3

/-- **update_body, chunked request — what the code does (finding D23).**
    FULL statement wanted by the property (false for the code as it is, see `C15_witness_D23`):
    the rebuilt message decodes to the new body, `r.body = some (updBody gz h body)`.
    What holds: the rebuilt message is complete and well-framed, but decodes to `enc`, the
    *chunk encoding* of the new body (the stream is encoded twice on the wire). -/
theorem update_body_req_chunked_partial (cfg : Cfg) (gz : Bytes → Bytes) (bufSize : Nat) (hbs : bufSize ≠ 0)
    (p : Parser) (meth ver body ct : Bytes) (g : ReqGuard p meth ver) (hch : p.isChunked = true)
    (hte : ∃ a ∈ p.headers.getD [], isTEChunked a.2 = true) (hct : wfValue ct = true) :
    ∃ p' enc raw r, updateBody gz bufSize p body ct = .ok p' ∧
      Px.Chunk.toChunks (updBody gz (p.headers.getD []) body) bufSize = .ok enc ∧
      p'.body = some enc ∧
      Px.Build.build bufSize Px.Gen.defaultDisableHeaders p' none none = .ok raw ∧
      parse cfg (init .request) raw = .ok r ∧ r.state = .complete ∧ r.isChunked = true ∧
      r.headers = some (updHeadersCh (p.headers.getD []) ct) ∧ r.body = some enc ∧ r.buffer = none := by
  obtain ⟨hty, hm, hv, hmt, hvt, hpt, hpo, hi⟩ := g
  obtain ⟨p', s, hsv, hsd, hsr, hupd, hp'⟩ := updateBody_chunked gz bufSize hbs p body ct hch
  obtain ⟨q1, q2, q3, q4, q5, q6, q7⟩ := hp'
  have hinv := hdrInvB_updCh (p.headers.getD []) ct hi hct
  have hpath : pathOf p' = pathOf p := by unfold pathOf; rw [q4]
  have g' : ReqGuard p' meth ver :=
    ⟨q1.trans hty, q2.trans hm, q3.trans hv, hmt, hvt, hpath ▸ hpt, hpath ▸ hpo, by rw [q6]; exact hinv⟩
  have hpairs : hdrPairs p' = namesOf (updHeadersCh (p.headers.getD []) ct) := by
    unfold hdrPairs; rw [q6]; rfl
  -- the Transfer-Encoding: chunked entry survives
  obtain ⟨a, ha, hac⟩ := hte
  have hak : a.1 = kTE := by
    rw [((hdrInvB_spec hi).2 a ha).1]; exact isTEChunked_key hac
  have hmemTE : a ∈ updHeadersCh (p.headers.getD []) ct := by
    unfold updHeadersCh
    apply mem_hdrSet_of_mem _ (by rw [hak]; decide)
    unfold hdrDel
    rw [List.mem_filter]
    refine ⟨?_, by rw [hak]; decide⟩
    split
    · exact ha
    · show a ∈ List.filter _ _
      rw [List.mem_filter]; exact ⟨ha, by rw [hak]; decide⟩
  -- no content-length entry is left
  have hnoCL : ∀ e ∈ namesOf (updHeadersCh (p.headers.getD []) ct), isCL e = false := by
    intro e he
    simp only [namesOf, List.mem_map] at he
    obtain ⟨c, hc, rfl⟩ := he
    have hk := ((hdrInvB_spec hinv).2 c hc).1
    apply isCL_false_of
    rw [← hk]
    unfold updHeadersCh at hc
    rcases mem_hdrSet hc with rfl | ⟨hc, -⟩
    · show kCT ≠ kCL; decide
    · have := (List.mem_filter.1 hc).2
      simpa using this
  obtain ⟨raw, r, h1, h2, h3⟩ := build_parse_req_chunked cfg bufSize hbs p' meth ver s.render g' q5 q7
    ⟨a.2, by rw [hpairs]; simp only [namesOf, List.mem_map]; exact ⟨a, hmemTE, rfl⟩, hac⟩
    (fun e he hc => absurd hc (by rw [hnoCL e (hpairs ▸ he)]; simp))
  refine ⟨p', s.render, raw, r, hupd, hsr, q7, h1, h2, h3.state_eq, h3.chunked_eq, ?_, h3.body_eq, h3.buffer_eq⟩
  rw [h3.headers_eq, hpairs]
  exact hdrsOf_namesOf _ hinv (by
    intro e; rw [e] at hmemTE; simp at hmemTE)

end Px.Codec
