import PxModel.Generated
/-
  Model of the idle-connection reaper (property C20):

  * `proxy/http/handler.py`
      - `__init__`            : `last_activity = start_time = time.time()`
      - `handle_readables`    : client fd in readables  ⇒ `last_activity = time.time()`
                                 (before the `recv`, whatever it returns or raises);
                                 `ssl.SSLWantReadError` ⇒ keep going; EOF / reset / timeout / other
                                 `OSError` ⇒ `reads_teared`, and `handle_events` returns `True`
                                 (connection torn down) as soon as nothing is left to flush
      - `handle_writables`    : client fd in writables **and** `work.has_buffer()`
                                 ⇒ `last_activity = time.time()` (before the flush, whatever it sends)
      - `is_inactive`         : `not work.has_buffer() and time.time() - last_activity > flags.timeout`
      - `run()` (threaded)    : `is_inactive()` is evaluated at the top of every loop iteration
      - upstream activity never touches `last_activity`; it only queues output for the client
  * `proxy/core/connection/connection.py`
      - `queue` : `_num_buffer += 1`;  `flush` : sends (a prefix of) the first chunk and does
        `_num_buffer -= 1` only when the chunk went out entirely;  `has_buffer` : `_num_buffer != 0`
  * `proxy/core/work/threadless.py`
      - `_run_forever` : `elapsed = tick * (SELECT_TIMEOUT + wait_timeout);
                          if elapsed >= cleanup_inactive_timeout: _cleanup_inactive(); tick = 0
                          tick += 1`      (after every `_run_once`)
      - `_cleanup_inactive` : closes every work whose `is_inactive()` is true.

  Time is an integer number of clock units (the harness uses 1/1024 s so that the
  float arithmetic of the implementation is exact); the cadence constants are in
  milliseconds and only decide *which* iterations run the reaper.
-/
namespace Px.Idle

structure Cfg where
  /-- `flags.timeout` in clock units (the flag is an `int`, negative values are accepted) -/
  timeout : Int
  /-- threaded mode: `HttpProtocolHandler.run()` checks on every iteration -/
  threaded : Bool
  /-- `DEFAULT_SELECTOR_SELECT_TIMEOUT` (ms) -/
  sel : Nat
  /-- `Threadless.wait_timeout` (ms) -/
  wait : Nat
  /-- `Threadless.cleanup_inactive_timeout` (ms) -/
  cleanup : Nat
  deriving Repr, DecidableEq

/-- the cadence constants of the implementation as generated from /repo -/
def implCfg (timeout : Int) (threaded : Bool) : Cfg :=
  { timeout := timeout, threaded := threaded,
    sel := Px.Gen.selectTimeoutMs, wait := Px.Gen.waitTimeoutMs, cleanup := Px.Gen.cleanupTimeoutMs }

/-- Timed events concerning one client connection. -/
inductive Ev where
  /-- the client descriptor was reported readable and handled at `t`;
      handling the data queued `k` chunks of output for the client -/
  | clientRead (t : Int) (k : Nat)
  /-- the client descriptor was reported readable at `t` and the read ended reading for good:
      `recv` returned EOF or raised `ConnectionResetError` / `TimeoutError` / any other `OSError`
      (`BlockingIOError` included) — every outcome of `handle_readables` that returns `True`.
      (`ssl.SSLWantReadError` keeps the connection and is `clientRead t 0`.) -/
  | clientReadEnd (t : Int)
  /-- the client descriptor was reported writable and handled at `t`;
      `full` = the first queued chunk went out entirely (only meaningful with pending output) -/
  | clientWrite (t : Int) (full : Bool)
  /-- upstream / plugin activity at `t` that queued `k` chunks for the client -/
  | upstream (t : Int) (k : Nat)
  /-- one iteration boundary of the loop that owns the connection at `t`:
      threadless = the bookkeeping after `_run_once` in `_run_forever`;
      threaded   = the top of the `while True` in `run()` -/
  | loopIter (t : Int)
  deriving Repr, DecidableEq

def Ev.time : Ev → Int
  | .clientRead t _ => t
  | .clientReadEnd t => t
  | .clientWrite t _ => t
  | .upstream t _ => t
  | .loopIter t => t

inductive Status where
  | open
  /-- closed by the idle reaper at `t` -/
  | reaped (t : Int)
  /-- torn down at `t` because `handle_events` returned `True` (reads ended and nothing left to flush) -/
  | torn (t : Int)
  deriving Repr, DecidableEq

structure St where
  /-- `HttpProtocolHandler.last_activity` -/
  lastActivity : Int
  /-- `TcpConnection._num_buffer` of the client connection -/
  numBuffer : Nat
  /-- the local `tick` of `_run_forever` -/
  tick : Nat
  /-- number of `_cleanup_inactive()` calls (threaded: `is_inactive()` checks) so far -/
  reaperRuns : Nat
  /-- `HttpProtocolHandler.reads_teared` -/
  readsTorn : Bool
  status : Status
  deriving Repr, DecidableEq

/-- state right after the handler object is constructed at time `t0` -/
def init (t0 : Int) : St :=
  { lastActivity := t0, numBuffer := 0, tick := 0, reaperRuns := 0, readsTorn := false, status := .open }

/-- `work.has_buffer()` -/
def St.hasBuffer (s : St) : Bool := s.numBuffer != 0

/-- `HttpProtocolHandler.is_inactive()` evaluated when the clock shows `now` -/
def isInactive (cfg : Cfg) (s : St) (now : Int) : Bool :=
  !s.hasBuffer && decide (now - s.lastActivity > cfg.timeout)

/-- does the loop look for inactive work in the iteration that finds `tick = k`?
    (`tick * (select + wait) >= cleanup`; the threaded loop always looks) -/
def due (cfg : Cfg) (k : Nat) : Bool :=
  cfg.threaded || decide (k * (cfg.sel + cfg.wait) ≥ cfg.cleanup)

/-- connection-level effect of an event on an open connection -/
def connStep (s : St) : Ev → St
  | .clientRead t k =>
    if s.readsTorn then s          -- `if not self.reads_teared:` — the descriptor is not read any more
    else { s with lastActivity := t, numBuffer := s.numBuffer + k }
  | .clientReadEnd t =>
    if s.readsTorn then s
    else { s with lastActivity := t, readsTorn := true,
                  status := if s.numBuffer = 0 then .torn t else s.status }
  | .clientWrite t full =>
    if s.numBuffer = 0 then s
    else
      let nb := if full then s.numBuffer - 1 else s.numBuffer
      { s with lastActivity := t, numBuffer := nb,
               status := if s.readsTorn && nb == 0 then .torn t else s.status }
  | .upstream _ k => { s with numBuffer := s.numBuffer + k }
  | .loopIter _ => s

/-- One event.  Loop bookkeeping (`tick`, reaper runs) goes on whether or not
    this connection is still there; everything else only touches a live connection. -/
def step (cfg : Cfg) (s : St) (e : Ev) : St :=
  match e with
  | .loopIter t =>
    if due cfg s.tick then
      { s with
        status := (match s.status with
          | .open => if isInactive cfg s t then .reaped t else .open
          | st => st),
        reaperRuns := s.reaperRuns + 1,
        tick := 1 }                       -- `tick = 0` then `tick += 1`
    else { s with tick := s.tick + 1 }
  | e =>
    match s.status with
    | .open => connStep s e
    | _ => s

def run (cfg : Cfg) (s : St) (tr : List Ev) : St := tr.foldl (step cfg) s

/-- number of loop iterations from one reaper run to the next:
    the least `k` with `k * (select + wait) ≥ cleanup` (`0` in threaded mode) -/
def period (cfg : Cfg) : Nat :=
  if cfg.threaded then 0 else (cfg.cleanup + (cfg.sel + cfg.wait) - 1) / (cfg.sel + cfg.wait)

/-- 1-based indices, among `n` consecutive iterations starting with `tick = k`,
    of the iterations that run the reaper -/
def reaperIters (cfg : Cfg) : Nat → Nat → Nat → List Nat
  | 0, _, _ => []
  | n + 1, k, i =>
    if due cfg k then (i + 1) :: reaperIters cfg n 1 (i + 1)
    else reaperIters cfg n (k + 1) (i + 1)

/-! ## Piece level: `TcpConnection.queue` / `flush` on the list of queued piece lengths

The trace model above takes "how many pieces were queued" and "did the flush finish
the head piece" as inputs.  This layer computes both from the lengths of the queued
pieces (a piece may be **empty**) and from what the socket's `send()` did. -/

/-- `max_send_size or DEFAULT_MAX_SEND_SIZE` -/
def effMax (maxSend : Nat) : Nat := if maxSend = 0 then Px.Gen.defaultMaxSendSize else maxSend

/-- `TcpConnection.flush(max_send_size)` on the queued piece lengths.
    `acc = none`   : `send()` raised `BlockingIOError` (nothing changes);
    `acc = some a` : `send(mv[:max])` took `min a (len of the slice)` bytes.
    The head piece is popped iff `sent == len(mv)` — for an empty piece that is `0 == 0`. -/
def flushPieces (maxSend : Nat) (acc : Option Nat) : List Nat → List Nat
  | [] => []
  | p :: r =>
    match acc with
    | none => p :: r
    | some a =>
      let sent := min a (min p (effMax maxSend))
      if sent = p then r else (p - sent) :: r

/-- events with piece lengths instead of counts / flags -/
inductive PEv where
  | clientRead (t : Int) (lens : List Nat)     -- handling the data queued pieces of these lengths
  | clientReadEnd (t : Int)
  | clientWrite (t : Int) (acc : Option Nat)   -- writable report; what `send()` would accept
  | upstream (t : Int) (lens : List Nat)
  | loopIter (t : Int)
  deriving Repr, DecidableEq

structure PSt where
  st : St
  /-- lengths of the memoryviews in `TcpConnection.buffer` of the client connection -/
  pieces : List Nat
  deriving Repr, DecidableEq

def pinit (t0 : Int) : PSt := { st := init t0, pieces := [] }

/-- the trace-model event a piece-level event amounts to in state `ps` -/
def PEv.toEv (maxSend : Nat) (ps : PSt) : PEv → Ev
  | .clientRead t lens => .clientRead t lens.length
  | .clientReadEnd t => .clientReadEnd t
  | .clientWrite t acc =>
    .clientWrite t (decide ((flushPieces maxSend acc ps.pieces).length < ps.pieces.length))
  | .upstream t lens => .upstream t lens.length
  | .loopIter t => .loopIter t

def pstep (cfg : Cfg) (maxSend : Nat) (ps : PSt) (e : PEv) : PSt :=
  { st := step cfg ps.st (e.toEv maxSend ps),
    pieces :=
      match ps.st.status with
      | .open =>
        match e with
        | .clientRead _ lens => if ps.st.readsTorn then ps.pieces else ps.pieces ++ lens
        | .upstream _ lens => ps.pieces ++ lens
        | .clientWrite _ acc => flushPieces maxSend acc ps.pieces
        | _ => ps.pieces
      | _ => ps.pieces }

def prun (cfg : Cfg) (maxSend : Nat) (ps : PSt) (tr : List PEv) : PSt := tr.foldl (pstep cfg maxSend) ps

end Px.Idle
