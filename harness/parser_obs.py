"""Canonical observable projections of the real HttpParser / ChunkParser / Url
(the same text the Lean driver prints: lean/PxModel/DrvParser.lean)."""
from harness.common import hx, exc_name


def chunk_str(c):
    if c is None:
        return 'None'
    return '(%d,%s,%s,%s)' % (c.state, hx(c.body), hx(c.chunk), 'None' if c.size is None else c.size)


def url_str(u):
    if u is None:
        return 'None'
    return '(%s,%s,%s,%s,%s,%s)' % (
        hx(u.scheme), hx(u.username), hx(u.password), hx(u.hostname),
        'None' if u.port is None else u.port, hx(u.remainder))


def hdrs_str(h):
    if h is None:
        return 'None'
    return '[' + ','.join('%s=%s:%s' % (hx(k), hx(v[0]), hx(v[1])) for k, v in h.items()) + ']'


def obs(p):
    return ('st=%d m=%s host=%s port=%s path=%s ver=%s code=%s reason=%s hdrs=%s body=%s buf=%s '
            'chunked=%d ce=%d tunnel=%d total=%d chunk=%s url=%s') % (
        p.state, hx(p.method), hx(p.host), 'None' if p.port is None else p.port, hx(p.path),
        hx(p.version), hx(p.code), hx(p.reason), hdrs_str(p.headers), hx(p.body),
        hx(None if p.buffer is None else bytes(p.buffer)),
        p._is_chunked_encoded, p._content_expected, p._is_https_tunnel, p.total_size,
        chunk_str(p.chunk), url_str(p._url))


def new_parser(ty):
    from proxy.http.parser import HttpParser, httpParserTypes
    return HttpParser(httpParserTypes.REQUEST_PARSER if ty == 'REQ' else httpParserTypes.RESPONSE_PARSER)


def feed(ty, segs):
    """Feed the pieces to a fresh real parser; returns ('ok', parser) or ('exc', name)."""
    p = new_parser(ty)
    try:
        for s in segs:
            p.parse(memoryview(s))
    except Exception as e:
        return 'exc', exc_name(e)
    return 'ok', p


def feed_line(ty, segs):
    k, v = feed(ty, segs)
    return 'ok ' + obs(v) if k == 'ok' else 'exc ' + v


def chunk_feed(segs):
    from proxy.http.parser.chunk import ChunkParser
    c = ChunkParser()
    rem = b''
    try:
        for s in segs:
            rem += bytes(c.parse(memoryview(s)))
    except Exception as e:
        return 'exc', exc_name(e)
    return 'ok', (c, rem)


def chunk_feed_line(segs):
    k, v = chunk_feed(segs)
    if k != 'ok':
        return 'exc ' + v
    return 'ok %s rem=%s' % (chunk_str(v[0]), hx(v[1]))
