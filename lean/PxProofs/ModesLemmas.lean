import PxModel.Modes
import PxProofs.ConnLemmas
import PxProofs.RelayLemmas
/-!
Helper lemmas for C17 (`PxProofs/C17.lean`).
-/
namespace Px.Modes
open Px Px.Relay Px.Conn

@[simp] theorem threaded_beq : (Mode.threaded == Mode.threaded) = true := by decide
@[simp] theorem local_beq : (Mode.local == Mode.threaded) = false := by decide
@[simp] theorem remote_beq : (Mode.remote == Mode.threaded) = false := by decide

/-! ### fields nobody reads: `norm` -/

theorem norm_idem (s : St) : norm (norm s) = norm s := rfl

theorem events_norm (s : St) : events (norm s) = events s := rfl

theorem isInactive_norm (s : St) (e : Bool) : isInactive (norm s) e = isInactive s e := rfl

theorem norm_client (s : St) : (norm s).client = s.client := rfl

/-- `handle_events` starts by overwriting the trace fields and `writes_teared` -/
theorem tick_norm (s : St) (t : Tick) : tick (norm s) t = tick s t := by
  unfold tick norm phaseCW
  simp only
  by_cases hc : (t.cW && s.client.hasBuffer) = true
  · simp only [hc, if_true]
    unfold afterCW
    rcases flush s.maxSend s.client t.cSend with ⟨conn, off, acc, exc⟩
    cases exc with
    | some e => rfl
    | none =>
      simp only
      by_cases hm : (s.mustFlush && !conn.hasBuffer) = true
      · simp only [hm, if_true]
      · simp only [hm]; rfl
  · simp only [hc]; rfl

theorem step_norm (s : St) (t : Tick) : step (norm s) t = step s t := by
  unfold step
  rw [events_norm, tick_norm]

theorem tick_of_norm_eq {s s' : St} (h : norm s = norm s') (t : Tick) : tick s t = tick s' t := by
  rw [← tick_norm s, ← tick_norm s', h]

theorem step_of_norm_eq {s s' : St} (h : norm s = norm s') (t : Tick) : step s t = step s' t := by
  rw [← step_norm s, ← step_norm s', h]

theorem events_of_norm_eq {s s' : St} (h : norm s = norm s') : events s = events s' := by
  rw [← events_norm s, ← events_norm s', h]

theorem isInactive_of_norm_eq {s s' : St} (h : norm s = norm s') (e : Bool) :
    isInactive s e = isInactive s' e := by
  rw [← isInactive_norm s, ← isInactive_norm s', h]

/-! ### states between rounds: `Alive` -/

/-- a state in which the previous `handle_events` (if any) returned `False`:
    not "reads torn down and nothing pending" -/
def Alive (s : St) : Prop := s.readsTeared = true → s.client.hasBuffer = true

instance (s : St) : Decidable (Alive s) := by unfold Alive; infer_instance

theorem alive_of_norm_eq {s s' : St} (h : norm s = norm s') (ha : Alive s) : Alive s' := by
  have h1 : (norm s).readsTeared = (norm s').readsTeared := congrArg St.readsTeared h
  have h2 : (norm s).client = (norm s').client := congrArg St.client h
  simp only [norm] at h1 h2
  unfold Alive at ha ⊢
  rw [← h1, ← h2]; exact ha

theorem readHalf_cont_alive (s : St) (t : Tick) (h : (readHalf s t).2 = .cont) :
    Alive (readHalf s t).1 := by
  unfold readHalf at h ⊢
  split
  · rename_i hr
    rw [if_pos hr] at h
    have := finish_cont _ h
    intro h1; rw [finish_fst] at h1 ⊢
    cases hb : s.client.hasBuffer with
    | true => rfl
    | false => exact absurd ⟨h1, hb⟩ this
  · rename_i hr
    rw [if_neg hr] at h
    rcases hcr : phaseCR s t with ⟨s1, r⟩
    rw [hcr] at h
    cases r with
    | raised => simp at h
    | yes =>
      simp only at h ⊢
      have := finish_cont _ h
      intro h1; rw [finish_fst] at h1 ⊢
      cases hb : s1.client.hasBuffer with
      | true => simp
      | false => exact absurd ⟨h1, by simpa using hb⟩ this
    | no =>
      simp only at h ⊢
      have := finish_cont _ h
      intro h1; rw [finish_fst] at h1 ⊢
      cases hb : (phaseUR s1 t).1.client.hasBuffer with
      | true => simp
      | false => exact absurd ⟨h1, by simpa using hb⟩ this

theorem tick_cont_alive (s : St) (t : Tick) (h : (tick s t).2 = .cont) : Alive (tick s t).1 := by
  unfold tick at h ⊢
  simp only at h ⊢
  rcases hcw : phaseCW { s with trC := none, trU := none } t with ⟨s1, w⟩
  rw [hcw] at h
  cases w with
  | true => simp at h
  | false =>
    simp only at h ⊢
    rcases huw : phaseUW { s1 with writesTeared := false } t with ⟨s2, w2⟩
    rw [huw] at h
    simp only at h ⊢
    exact readHalf_cont_alive _ _ h

theorem step_cont_alive (s : St) (t : Tick) (h : (step s t).2 = .cont) : Alive (step s t).1 :=
  tick_cont_alive s _ h

/-- a `handle_events([], [])` call (threaded select timeout) in a state between
    rounds changes nothing any code reads and returns `False` -/
theorem tick_idle (s : St) (t : Tick) (hi : anyReady t = false) (ha : Alive s) :
    tick s t = (norm s, .cont) := by
  unfold anyReady at hi
  simp only [Bool.or_eq_false_iff] at hi
  obtain ⟨⟨⟨h1, h2⟩, h3⟩, h4⟩ := hi
  unfold Alive at ha
  unfold tick phaseCW phaseUW readHalf phaseCR phaseUR finish norm
  cases hr : s.readsTeared with
  | true =>
    have hb := ha hr
    simp [h2, h4, hb]
  | false =>
    simp [h1, h2, h3, h4]

theorem step_idle (s : St) (t : Tick) (hi : anyReady (mask (events s) t) = false) (ha : Alive s) :
    step s t = (norm s, .cont) := tick_idle s _ hi ha

/-! ### each driver's handler calls are a `Relay.run` -/

theorem run_nil (s : St) : run s [] = (s, .cont) := rfl

theorem threadedLoop_run (rounds : List TRound) (s : St) :
    run s (threadedLoop s rounds).calls =
      ((threadedLoop s rounds).st, (threadedLoop s rounds).stop.toRet) := by
  induction rounds generalizing s with
  | nil => rfl
  | cons r rs ih =>
    unfold threadedLoop
    split
    · rfl
    · rcases hs : step s r.tick with ⟨s1, ret⟩
      cases ret with
      | cont =>
        simp only
        rw [run_cons, hs]
        simp only [if_true]
        exact ih s1
      | teardown => simp only; rw [run_cons, hs]; simp [LoopEnd.toRet]
      | raised => simp only; rw [run_cons, hs]; simp [LoopEnd.toRet]

theorem execLoop_run (rounds : List ERound) (s : St) :
    run s (execLoop s rounds).calls =
      ((execLoop s rounds).st, (execLoop s rounds).stop.toRet) := by
  induction rounds generalizing s with
  | nil => rfl
  | cons r rs ih =>
    unfold execLoop
    split
    · rcases hs : step s r.tick with ⟨s1, ret⟩
      cases ret with
      | cont =>
        simp only
        split
        · rw [run_cons, hs]; simp [run_nil, LoopEnd.toRet]
        · simp only
          rw [run_cons, hs]
          simp only [if_true]
          exact ih s1
      | teardown => simp only; rw [run_cons, hs]; simp [LoopEnd.toRet]
      | raised => simp only; rw [run_cons, hs]; simp [LoopEnd.toRet]
    · split
      · rfl
      · exact ih s

theorem threadedLoop_calls_prefix (rounds : List TRound) (s : St) :
    (threadedLoop s rounds).calls <+: rounds.map (·.tick) := by
  induction rounds generalizing s with
  | nil => simp [threadedLoop]
  | cons r rs ih =>
    unfold threadedLoop
    split
    · simp
    · rcases hs : step s r.tick with ⟨s1, ret⟩
      cases ret with
      | cont => simp only [List.map_cons]; exact (List.prefix_cons_inj _).mpr (ih s1)
      | teardown => simp only [List.map_cons]; exact (List.prefix_cons_inj _).mpr (List.nil_prefix)
      | raised => simp only [List.map_cons]; exact (List.prefix_cons_inj _).mpr (List.nil_prefix)

theorem execLoop_calls_sublist (rounds : List ERound) (s : St) :
    (execLoop s rounds).calls.Sublist (rounds.map (·.tick)) := by
  induction rounds generalizing s with
  | nil => simp [execLoop]
  | cons r rs ih =>
    unfold execLoop
    split
    · rcases hs : step s r.tick with ⟨s1, ret⟩
      cases ret with
      | cont =>
        simp only [List.map_cons]
        split
        · exact List.Sublist.cons_cons _ (List.nil_sublist _)
        · exact List.Sublist.cons_cons _ (ih s1)
      | teardown => simp only [List.map_cons]; exact List.Sublist.cons_cons _ (List.nil_sublist _)
      | raised => simp only [List.map_cons]; exact List.Sublist.cons_cons _ (List.nil_sublist _)
    · simp only [List.map_cons]
      split
      · exact List.nil_sublist _
      · exact List.Sublist.cons _ (ih s)

/-! ### how a loop can end -/

theorem threadedLoop_inactive (rounds : List TRound) (s : St)
    (h : (threadedLoop s rounds).stop = .inactive) :
    (threadedLoop s rounds).st.client.hasBuffer = false := by
  induction rounds generalizing s with
  | nil => simp [threadedLoop] at h
  | cons r rs ih =>
    unfold threadedLoop at h ⊢
    split
    · rename_i hi
      simp only [isInactive, Bool.and_eq_true, Bool.not_eq_true'] at hi
      exact hi.1
    · rename_i hi
      rw [if_neg hi] at h
      rcases hs : step s r.tick with ⟨s1, ret⟩
      rw [hs] at h
      cases ret with
      | cont => simp only at h ⊢; exact ih s1 h
      | teardown => simp at h
      | raised => simp at h

theorem reaped_hasBuffer (s : St) (o : Option Bool) (h : reaped s o = true) :
    s.client.hasBuffer = false := by
  cases o with
  | none => simp [reaped] at h
  | some e =>
    simp only [reaped, isInactive, Bool.and_eq_true, Bool.not_eq_true'] at h
    exact h.1

theorem execLoop_inactive (rounds : List ERound) (s : St)
    (h : (execLoop s rounds).stop = .inactive) :
    (execLoop s rounds).st.client.hasBuffer = false := by
  induction rounds generalizing s with
  | nil => simp [execLoop] at h
  | cons r rs ih =>
    unfold execLoop at h ⊢
    split
    · rename_i hr
      rw [if_pos hr] at h
      rcases hs : step s r.tick with ⟨s1, ret⟩
      rw [hs] at h
      cases ret with
      | cont =>
        simp only at h ⊢
        split
        · rename_i hp; exact reaped_hasBuffer _ _ hp
        · rename_i hp; rw [if_neg hp] at h; exact ih s1 h
      | teardown => simp at h
      | raised => simp at h
    · rename_i hr
      rw [if_neg hr] at h
      split
      · rename_i hp; exact reaped_hasBuffer _ _ hp
      · rename_i hp; rw [if_neg hp] at h; exact ih s h

/-- the client's `send` never fails in the script (it may accept any number of
    bytes, or would-block): "the client keeps accepting" -/
def SendOk (t : Tick) : Prop := t.cSend ≠ .brokenPipe ∧ t.cSend ≠ .osError ∧ t.cSend ≠ .sslWantWrite

instance (t : Tick) : Decidable (SendOk t) := by unfold SendOk; infer_instance

theorem run_teardown_drained (ticks : List Tick) (s : St) (hok : ∀ t ∈ ticks, SendOk t)
    (h : (run s ticks).2 = .teardown) : (run s ticks).1.client.hasBuffer = false := by
  cases hb : (run s ticks).1.client.hasBuffer with
  | false => rfl
  | true =>
    obtain ⟨s0, t, hm, ⟨_, _, hf⟩, _⟩ := run_no_early_close ticks s h hb
    obtain ⟨h1, h2, h3⟩ := hok t hm
    rcases hf with hf | hf | hf
    · exact absurd hf h1
    · exact absurd hf h2
    · exact absurd hf h3

theorem threadedLoop_teardown_drained (rounds : List TRound) (s : St)
    (hok : ∀ r ∈ rounds, SendOk r.tick) (h : (threadedLoop s rounds).stop = .teardown) :
    (threadedLoop s rounds).st.client.hasBuffer = false := by
  have hr := threadedLoop_run rounds s
  have hp := threadedLoop_calls_prefix rounds s
  have := run_teardown_drained (threadedLoop s rounds).calls s
    (fun t ht => by
      have : t ∈ rounds.map (·.tick) := hp.subset ht
      obtain ⟨r, hr1, hr2⟩ := List.mem_map.mp this
      rw [← hr2]; exact hok r hr1)
    (by rw [hr, h]; rfl)
  rw [hr] at this; exact this

theorem execLoop_teardown_drained (rounds : List ERound) (s : St)
    (hok : ∀ r ∈ rounds, SendOk r.tick) (h : (execLoop s rounds).stop = .teardown) :
    (execLoop s rounds).st.client.hasBuffer = false := by
  have hr := execLoop_run rounds s
  have hp := execLoop_calls_sublist rounds s
  have := run_teardown_drained (execLoop s rounds).calls s
    (fun t ht => by
      have : t ∈ rounds.map (·.tick) := hp.subset ht
      obtain ⟨r, hr1, hr2⟩ := List.mem_map.mp this
      rw [← hr2]; exact hok r hr1)
    (by rw [hr, h]; rfl)
  rw [hr] at this; exact this

/-! ### threaded loop vs executor loop on corresponding scripts -/

/-- what the rest of a run depends on: the state up to the unread fields, and how the loop ended -/
def key (l : LoopRes) : St × LoopEnd := (norm l.st, l.stop)

theorem threaded_key_cons (s : St) (r : TRound) (rs : List TRound)
    (hi : isInactive s r.expired = false) :
    key (threadedLoop s (r :: rs)) =
      (match step s r.tick with
       | (s1, .cont) => key (threadedLoop s1 rs)
       | (s1, .teardown) => (norm s1, .teardown)
       | (s1, .raised) => (norm s1, .raised)) := by
  rw [threadedLoop, if_neg (by simp [hi])]
  rcases step s r.tick with ⟨s1, ret⟩
  cases ret <;> rfl

theorem exec_key_cons_ready (s : St) (r : ERound) (rs : List ERound)
    (h : anyReady (mask (events s) r.tick) = true) :
    key (execLoop s (r :: rs)) =
      (match step s r.tick with
       | (s1, .cont) => if reaped s1 r.reap then (norm s1, .inactive) else key (execLoop s1 rs)
       | (s1, .teardown) => (norm s1, .teardown)
       | (s1, .raised) => (norm s1, .raised)) := by
  rw [execLoop, if_pos h]
  rcases step s r.tick with ⟨s1, ret⟩
  cases ret with
  | cont => simp only; split <;> rfl
  | teardown => rfl
  | raised => rfl

theorem exec_key_cons_idle (s : St) (r : ERound) (rs : List ERound)
    (h : anyReady (mask (events s) r.tick) = false) :
    key (execLoop s (r :: rs)) =
      (if reaped s r.reap then (norm s, .inactive) else key (execLoop s rs)) := by
  rw [execLoop, if_neg (by simp [h])]
  split <;> rfl

theorem alive_norm (s : St) (h : Alive s) : Alive (norm s) := h

theorem threaded_key_inactive (s : St) (r : TRound) (rs : List TRound)
    (hi : isInactive s r.expired = true) :
    key (threadedLoop s (r :: rs)) = (norm s, .inactive) := by
  rw [threadedLoop, if_pos hi]; rfl

/-- **the loops agree.**  On corresponding scripts (`shiftRounds`) the executor
    loop and the threaded loop end the same way in states that differ at most in
    the fields no code reads. -/
theorem loops_key (rs : List TRound) : ∀ (r : TRound) (s s' : St), norm s' = norm s → Alive s →
    isInactive s r.expired = false →
    key (execLoop s' (shiftRounds (r :: rs))) = key (threadedLoop s (r :: rs)) := by
  induction rs with
  | nil =>
    intro r s s' hn ha hi
    rw [threaded_key_cons s r [] hi]
    have hev : events s' = events s := events_of_norm_eq hn
    have hst : step s' r.tick = step s r.tick := step_of_norm_eq hn _
    show key (execLoop s' [⟨r.tick, none⟩]) = _
    cases hr : anyReady (mask (events s') r.tick) with
    | true =>
      rw [exec_key_cons_ready s' ⟨r.tick, none⟩ [] hr]
      simp only [hst]
      rcases step s r.tick with ⟨s1, ret⟩
      cases ret <;> simp [reaped, execLoop, threadedLoop, key]
    | false =>
      rw [exec_key_cons_idle s' ⟨r.tick, none⟩ [] hr]
      rw [hev] at hr
      rw [step_idle s r.tick hr ha]
      simp [reaped, execLoop, threadedLoop, key, hn, norm_idem]
  | cons r' rs' ih =>
    intro r s s' hn ha hi
    rw [threaded_key_cons s r (r' :: rs') hi]
    have hev : events s' = events s := events_of_norm_eq hn
    have hst : step s' r.tick = step s r.tick := step_of_norm_eq hn _
    show key (execLoop s' (⟨r.tick, some r'.expired⟩ :: shiftRounds (r' :: rs'))) = _
    cases hr : anyReady (mask (events s') r.tick) with
    | true =>
      rw [exec_key_cons_ready s' ⟨r.tick, some r'.expired⟩ _ hr]
      simp only [hst]
      rcases hs : step s r.tick with ⟨s1, ret⟩
      cases ret with
      | teardown => rfl
      | raised => rfl
      | cont =>
        have ha1 : Alive s1 := by
          have := step_cont_alive s r.tick (by rw [hs])
          rw [hs] at this; exact this
        simp only
        by_cases hp : reaped s1 (ERound.mk r.tick (some r'.expired)).reap = true
        · have hi1 : isInactive s1 r'.expired = true := hp
          rw [if_pos hp, threaded_key_inactive s1 r' rs' hi1]
        · have hi1 : ¬ isInactive s1 r'.expired = true := hp
          rw [if_neg hp]
          exact ih r' s1 s1 rfl ha1 (by simpa using hi1)
    | false =>
      rw [exec_key_cons_idle s' ⟨r.tick, some r'.expired⟩ _ hr]
      rw [hev] at hr
      rw [step_idle s r.tick hr ha]
      have e1 : isInactive s' r'.expired = isInactive (norm s) r'.expired := by
        rw [isInactive_norm]; exact isInactive_of_norm_eq hn _
      simp only
      by_cases hp : reaped s' (ERound.mk r.tick (some r'.expired)).reap = true
      · have hi1 : isInactive (norm s) r'.expired = true := by rw [← e1]; exact hp
        rw [if_pos hp, threaded_key_inactive (norm s) r' rs' hi1, norm_idem, hn]
      · have hi1 : ¬ isInactive (norm s) r'.expired = true := by rw [← e1]; exact hp
        rw [if_neg hp]
        exact ih r' (norm s) s' (by rw [norm_idem]; exact hn) (alive_norm s ha) (by simpa using hi1)

/-! ### shutdown when nothing is pending -/

theorem shutdown_threadless (m : Nat) (c : Conn) (script : List SelEv) :
    shutdown false m c script = ⟨{ c with closed := true }, [], none, true⟩ := by
  simp [shutdown]

theorem shutdown_drained (threaded : Bool) (m : Nat) (c : Conn) (script : List SelEv)
    (h : c.hasBuffer = false) :
    shutdown threaded m c script = ⟨{ c with closed := true }, [], none, true⟩ := by
  unfold shutdown
  simp [h]

/-! ### the executor loop during a final flush -/

theorem goodTick_ready (s : St) (t : Tick) (hb : s.client.hasBuffer = true) (hg : GoodTick t) :
    anyReady (mask (events s) t) = true := by
  obtain ⟨hw, _⟩ := hg
  simp [anyReady, mask, events, hw, hb]

/-- while a final flush is in progress (close requested or reads torn down,
    output pending, client taking bytes) the executor loop is exactly `Relay.run`:
    the work is ready in every round and the reaper cannot take it. -/
theorem execLoop_final_flush (rounds : List ERound) (s : St) (hf : FinalFlush s) (hi : FlushInv s)
    (hb : s.client.hasBuffer = true) (hg : ∀ r ∈ rounds, GoodTick r.tick) :
    ((execLoop s rounds).st, (execLoop s rounds).stop.toRet) = run s (rounds.map (·.tick)) ∧
    (execLoop s rounds).stop ≠ .inactive := by
  induction rounds generalizing s with
  | nil => exact ⟨rfl, by simp [execLoop]⟩
  | cons r rs ih =>
    have hr := goodTick_ready s r.tick hb (hg r (by simp))
    rw [execLoop, if_pos hr, List.map_cons, run_cons]
    have hfin := step_final s r.tick hf
    have hinv : FlushInv (step s r.tick).1 := tick_flushInv s _ hi
    have hpr := tick_prompt s (mask (events s) r.tick)
      (by rcases hf with h | h
          · exact Or.inr h
          · exact Or.inl h.1) hi
    rcases hs : step s r.tick with ⟨s1, ret⟩
    rw [hs] at hfin hinv
    have hpr' : s1.client.hasBuffer = false → ret = .teardown := by
      intro he
      have : (tick s (mask (events s) r.tick)) = (s1, ret) := hs
      rw [this] at hpr
      exact hpr he
    cases ret with
    | cont =>
      have hb1 : s1.client.hasBuffer = true := by
        cases h : s1.client.hasBuffer with
        | true => rfl
        | false => exact absurd (hpr' h) (by simp)
      have hnr : reaped s1 r.reap = false := by
        cases h : reaped s1 r.reap with
        | false => rfl
        | true => rw [reaped_hasBuffer _ _ h] at hb1; simp at hb1
      simp only [hnr, if_true]
      have := ih s1 (hfin.2.2.2.2.2.2 rfl) hinv hb1 (fun r' hr' => hg r' (by simp [hr']))
      exact ⟨by simpa using this.1, this.2⟩
    | teardown => simp [LoopEnd.toRet]
    | raised => simp [LoopEnd.toRet]

/-! ### hand-off protocol -/

theorem recvAll_pairs (l : List Nat) : recvAll (l.flatMap pairOf) = some (l.map (fun j => (j, j))) := by
  induction l with
  | nil => rfl
  | cons a l ih => simp [pairOf, recvAll] at ih ⊢; simp [ih]

/-- invariant of the locked protocol: threads that do not hold the lock have not
    started or are finished; the pipe holds the intact pairs of the earlier
    acquisitions and a prefix of the current holder's pair -/
def HInv (s : HS) : Prop :=
  (∀ j, s.lock ≠ some j → s.pc j = 0 ∨ 4 ≤ s.pc j) ∧
  (match s.lock with
   | none => s.pipe = s.acq.flatMap pairOf
   | some i => ∃ acq', s.acq = acq' ++ [i] ∧
      ((s.pc i = 1 ∧ s.pipe = acq'.flatMap pairOf) ∨
       (s.pc i = 2 ∧ s.pipe = acq'.flatMap pairOf ++ [.addr i]) ∨
       (s.pc i = 3 ∧ s.pipe = acq'.flatMap pairOf ++ pairOf i)))

theorem lockedProg_none (n : Nat) (h : 4 ≤ n) : lockedProg[n]? = none := by
  simp [lockedProg]; omega

theorem upd_same (f : Nat → Nat) (i v : Nat) : upd f i v i = v := by simp [upd]

theorem upd_other (f : Nat → Nat) (i v j : Nat) (h : j ≠ i) : upd f i v j = f j := by simp [upd, h]

theorem hstep_inv (s : HS) (i : Nat) (h : HInv s) : HInv (hstep lockedProg s i) := by
  obtain ⟨h1, h2⟩ := h
  cases hl : s.lock with
  | none =>
    rw [hl] at h2; simp only at h2
    rcases h1 i (by rw [hl]; simp) with hp | hp
    · have e : hstep lockedProg s i =
          { s with lock := some i, pc := upd s.pc i (s.pc i + 1), acq := s.acq ++ [i] } := by
        simp [hstep, lockedProg, hp, hl]
      rw [e]
      refine ⟨?_, ?_⟩
      · intro j hj
        have hji : j ≠ i := fun c => hj (by simp [c])
        simp only [upd_other _ _ _ _ hji]
        exact h1 j (by rw [hl]; simp)
      · exact ⟨s.acq, rfl, Or.inl ⟨by simp [upd_same, hp], h2⟩⟩
    · have e : hstep lockedProg s i = s := by simp [hstep, lockedProg_none _ hp]
      rw [e]; exact ⟨h1, by rw [hl]; exact h2⟩
  | some k =>
    rw [hl] at h2; simp only at h2
    obtain ⟨acq', ha, hc⟩ := h2
    by_cases hik : i = k
    · subst hik
      rcases hc with ⟨hp, hq⟩ | ⟨hp, hq⟩ | ⟨hp, hq⟩
      · have e : hstep lockedProg s i =
            { s with pipe := s.pipe ++ [.addr i], pc := upd s.pc i (s.pc i + 1) } := by
          simp [hstep, lockedProg, hp]
        rw [e]
        refine ⟨?_, ?_⟩
        · intro j hj
          have hji : j ≠ i := fun c => hj (by simp [hl, c])
          simp only [upd_other _ _ _ _ hji]
          exact h1 j (by rw [hl]; simpa using hji.symm)
        · simp only [hl]
          exact ⟨acq', ha, Or.inr (Or.inl ⟨by simp [upd_same, hp], by rw [hq]⟩)⟩
      · have e : hstep lockedProg s i =
            { s with pipe := s.pipe ++ [.fd i], pc := upd s.pc i (s.pc i + 1) } := by
          simp [hstep, lockedProg, hp]
        rw [e]
        refine ⟨?_, ?_⟩
        · intro j hj
          have hji : j ≠ i := fun c => hj (by simp [hl, c])
          simp only [upd_other _ _ _ _ hji]
          exact h1 j (by rw [hl]; simpa using hji.symm)
        · simp only [hl]
          exact ⟨acq', ha, Or.inr (Or.inr ⟨by simp [upd_same, hp], by rw [hq]; simp [pairOf]⟩)⟩
      · have e : hstep lockedProg s i =
            { s with lock := none, pc := upd s.pc i (s.pc i + 1) } := by
          simp [hstep, lockedProg, hp]
        rw [e]
        refine ⟨?_, ?_⟩
        · intro j _
          by_cases hji : j = i
          · subst hji; right; simp [upd_same, hp]
          · simp only [upd_other _ _ _ _ hji]
            exact h1 j (by rw [hl]; simpa using fun c => hji c.symm)
        · simp only
          rw [hq, ha]; simp
    · -- a thread that does not hold the lock: not started (blocked on acquire) or finished
      rcases h1 i (by rw [hl]; simpa using fun c => hik c.symm) with hp | hp
      · have e : hstep lockedProg s i = s := by simp [hstep, lockedProg, hp, hl]
        rw [e]; exact ⟨h1, by rw [hl]; exact ⟨acq', ha, hc⟩⟩
      · have e : hstep lockedProg s i = s := by simp [hstep, lockedProg_none _ hp]
        rw [e]; exact ⟨h1, by rw [hl]; exact ⟨acq', ha, hc⟩⟩

theorem hrun_inv_from (sched : List Nat) (s : HS) (h : HInv s) :
    HInv (sched.foldl (hstep lockedProg) s) := by
  induction sched generalizing s with
  | nil => exact h
  | cons i is ih => exact ih _ (hstep_inv s i h)

theorem hinv_init : HInv {} := ⟨fun _ _ => Or.inl rfl, rfl⟩

/-! ### hand-off queue -/

theorem qrun_account (ops : List QOp) (s : QS) :
    (ops.foldl qstep s).got.filterMap id ++ (ops.foldl qstep s).q =
      s.got.filterMap id ++ s.q ++ putsOf ops := by
  induction ops generalizing s with
  | nil => simp [putsOf]
  | cons o os ih =>
    rw [List.foldl_cons, ih]
    cases o with
    | put x => simp [qstep, putsOf]
    | get =>
      cases hq : s.q with
      | nil => simp [qstep, hq, putsOf]
      | cons y r => simp [qstep, hq, putsOf]

end Px.Modes
