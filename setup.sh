#!/bin/sh
# MANIFEST.setup_cmd: offline build of the Lean models, proofs and the model driver.
set -e
cd "$(dirname "$0")"
/venv/bin/python harness/gen_constants.py
cd lean
lake build PxModel PxProofs pxdriver
