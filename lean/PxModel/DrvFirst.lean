import PxModel.FirstRequest
import PxModel.WfResponse
import PxModel.Responses
import PxModel.DrvParser
namespace Px.First

def b01 (x : Bool) : String := if x then "1" else "0"

/-- list of byte strings: `.` = empty list, else hex items separated by `;` -/
def parseBL (s : String) : Option (List Bytes) :=
  if s == "." then some [] else (s.splitOn ";").mapM unhex

def blStr (l : List Bytes) : String :=
  if l.isEmpty then "." else ";".intercalate (l.map hex)

/-- `ret:<0|1>:<q>` | `raise:<resp|None>:<q>` | `crash:<q>` -/
def parseRes (s : String) : Option PluginRes :=
  match s.splitOn ":" with
  | ["ret", td, q] => (parseBL q).map (fun q => .ret q (td == "1"))
  | ["raise", r, q] => do
    let r ← Px.Parser.optBytes r
    let q ← parseBL q
    some (.raise q r)
  | ["crash", q] => (parseBL q).map .crash
  | _ => none

/-- `-` = no plugin class; else classes separated by `,`, each the `.`-separated protocol numbers (`e` = none) -/
def parsePlugins (s : String) : Option (List (List Nat)) :=
  if s == "-" then some []
  else (s.splitOn ",").mapM (fun k => if k == "e" then some [] else (k.splitOn ".").mapM String.toNat?)

def whyStr : Why → String
  | .parse (.parser e) => "parse:" ++ Px.Parser.errStr e
  | .parse .assertion => "parse:assertion"
  | .parse .notImplemented => "parse:notImplemented"
  | .unknownProtocol => "unknown"
  | .noPlugin p => s!"noplugin:{p.num}"
  | .pluginRaised pid => s!"plugin:{pid}"

def outcomeStr : Outcome → String
  | .wait => "wait"
  | .served pid td => s!"served:{pid}:{b01 td}"
  | .reject why _ => s!"reject:{whyStr why}"
  | .data pid => s!"data:{pid}"
  | .ignored => "ignored"
  | .escaped pid => s!"escaped:{pid}"

/-- what the handler itself queued -/
def handlerQueued : Outcome → List Bytes
  | .reject _ q => q
  | _ => []

def addrStr : Option (Bytes × Int) → String
  | none => "None"
  | some (h, p) => s!"{hex h}:{p}"

/-- `request.protocol` attributes -/
def ppStr : Option Px.PP.PP → String
  | none => "None"
  | some v => s!"({v.version},{hexOpt v.family},{addrStr v.source},{addrStr v.destination})"

def isParseReject : Outcome → Bool
  | .reject (.parse _) _ => true
  | _ => false

/-- observation after one segment -/
def obsSeg (cfg : Cfg) (st : St) (data : Bytes) : St × String :=
  if reading st then
    match handleData cfg st data with
    | (_, o, r) =>
      let st' := (tick cfg st data).1
      -- after a parse exception the Python object is left half-updated: not compared
      let ps := if isParseReject o then "st=? tot=?"
        else s!"st={st'.request.state.num} tot={st'.request.totalSize} pp={ppStr st'.pp}"
      (st', s!"o={outcomeStr o} hq={blStr (handlerQueued o)} q={blStr st'.buffer} ret={b01 r} mf={b01 st'.mustFlush} td={b01 st'.teardown} " ++
            s!"esc={b01 st'.escaped} ri={b01 (reading st')} {ps}")
  else (st, "o=unread")

def obsRun (cfg : Cfg) : St → List Bytes → List String
  | _, [] => []
  | st, x :: xs => match obsSeg cfg st x with
    | (st, s) => s :: obsRun cfg st xs

def ctxOf (s : String) : Wf.Ctx := if s == "connect" then .connect else .other

def drv (args : List String) : String :=
  match args with
  | "run" :: flag :: plugins :: oc :: cds :: segs =>
    let ocR : Option (Option PluginRes) := if oc == "none" then some none else (parseRes oc).map some
    let cdsR : Option (List PluginRes) := if cds == "." then some [] else (cds.splitOn ",").mapM parseRes
    match parsePlugins plugins, ocR, cdsR, Px.Parser.unhexAll segs with
    | some plugins, some oc, some cds, some segs =>
      -- a hook the implementation never ran must not be needed by the model either
      let missing : PluginRes := .crash [[0x6d, 0x69, 0x73, 0x73]]
      -- the real HttpWebServerPlugin is the class that handles WEB_SERVER: its UTF-8 path check is
      -- predicted by the model (`webGuard`), the rest of its behaviour is the recorded one
      let webPid := (plugins.findIdx? (fun ps => ps.contains Px.Gen.proto_WEB_SERVER)).getD plugins.length
      let cfg : Cfg := {
        proxyProtocol := flag == "pp"
        plugins := plugins
        onComplete := webGuard Px.Gen.pkt_BAD_REQUEST_RESPONSE_PKT webPid (fun _ _ => oc.getD missing)
        onClientData := fun _ k _ => cds.getD k missing }
      " | ".intercalate (obsRun cfg {} segs)
    | _, _, _, _ => "bad-op"
  | ["ok", gz, content, hdrs, compress, minLen, version, cc, noCl] =>
    match unhex gz, Px.Parser.optBytes content, Px.Parser.parseHdrList hdrs, minLen.toInt?, unhex version with
    | some gz, some content, some hdrs, some minLen, some version =>
      "ok " ++ hex (Px.Resp.okResponse (fun _ => gz) content hdrs (compress == "1") minLen version (cc == "1") (noCl == "1"))
    | _, _, _, _, _ => "bad-op"
  | ["redirect308", loc] =>
    match unhex loc with
    | some loc => "ok " ++ hex (Px.Resp.permanentRedirectResponse loc)
    | none => "bad-op"
  | ["redirect303", loc] =>
    match unhex loc with
    | some loc => "ok " ++ hex (Px.Resp.seeOthersResponse loc)
    | none => "bad-op"
  | ["rejected", status, reason, hdrs, body] =>
    let st : Option (Option Int) := if status == "None" then some none else status.toInt?.map some
    match st, Px.Parser.optBytes reason, Px.Parser.parseHdrList hdrs, Px.Parser.optBytes body with
    | some st, some reason, some hdrs, some body =>
      "ok " ++ hexOpt (Px.Resp.rejectedResponse st reason hdrs body)
    | _, _, _, _ => "bad-op"
  | ["wshs", accept] =>
    match unhex accept with
    | some a => "ok " ++ hex (Px.Resp.wsHandshakeResponse a)
    | none => "bad-op"
  | ["cat", pkts] =>
    -- what a client must receive when the packets queued for it are flushed, in whatever pieces
    -- `send` accepts them: their concatenation, each byte once and in order
    match parseBL pkts with
    | some l => "ok " ++ hex l.flatten
    | none => "bad-op"
  | ["wf", ctx, raw] =>
    match unhex raw with
    | some raw => s!"wf={b01 (Wf.WF_response (ctxOf ctx) raw)}"
    | none => "bad-op"
  | _ => "bad-op"

end Px.First
