"""C16 — WebSocket frame codec: correspondence of PxModel/Ws.lean + Sha1.lean with
proxy/http/websocket/frame.py, and the property oracle."""
import base64
import hashlib
import struct

from harness.common import hx, exc_name

PROPERTY = 'C16'
LEAN_TARGETS = ['PxProofs.C16']
THEOREMS = [
    'Px.Ws.C16_roundtrip', 'Px.Ws.C16_mask_involutive', 'Px.Ws.C16_rfc',
    'Px.Ws.C16_reject_wide_opcode', 'Px.Sha1.C16_accept', 'Px.Sha1.C16_accept_rfc_example',
    'Px.Ws.C16_reset_forgets', 'Px.Ws.C16_loop', 'Px.Ws.C16_loop_close', 'Px.Ws.C16_loop_total',
    'Px.Ws.C16_echo', 'Px.Ws.C16_text', 'Px.Ws.C16_build_idempotent', 'Px.Ws.C16_stale_length_witness', 'Px.Ws.C16_no_reset_stale_mask_witness',
]
RULE = ('rt: frame (flags, opcode, masked, key, payload spec, tail) built and parsed back by the real '
        'WebsocketFrame and by the model; parse: arbitrary byte strings; accept: keys; distinct by canonical '
        'JSON; non-trivial = round-trip case inside the property quantifier (opcode<16, 4-byte key)')
ASSUMPTIONS = [
    'rt cases use freshly populated objects; inst/loop cases drive ONE reused WebsocketFrame through '
    'reset/parse/build/attribute-assignment histories (a history ends at the first exception, as the web loop does)',
    'hashlib.sha1/base64 are tied to the Lean SHA-1/base64 model only on the keys run',
    'handshake cases drive HttpWebServerPlugin.on_request_complete directly (flags with and without key/cert files); no TLS handshake is run',
]
EXHAUSTIVE = {}


def payload(spec):
    if 'hex' in spec:
        return bytes.fromhex(spec['hex'])
    n, a, b = spec['n'], spec['a'], spec['b']
    return bytes((a * i + b) & 0xff for i in range(n))


def _frame(case):
    from proxy.http.websocket.frame import WebsocketFrame
    f = WebsocketFrame()
    f.fin, f.rsv1, f.rsv2, f.rsv3 = [bool(x) for x in case['flags']]
    f.opcode = case['op']
    f.masked = bool(case['masked'])
    f.mask = None if case['mask'] is None else bytes.fromhex(case['mask'])
    f.data = payload(case['data'])
    return f


def _fields(g, tail):
    return 'fin=%d rsv=%d%d%d op=%d masked=%d mask=%s data=%s tail=%s' % (
        g.fin, g.rsv1, g.rsv2, g.rsv3, g.opcode, g.masked, hx(g.mask), hx(g.data or b''), hx(tail))


def impl(case):
    from proxy.http.websocket import frame as F
    k = case['kind']
    if k == 'rt':
        f = _frame(case)
        rnd = bytes.fromhex(case['rnd'])
        orig = F.secrets.token_bytes
        F.secrets.token_bytes = lambda n: rnd
        try:
            try:
                raw = f.build()
            except Exception as e:
                return ['exc build ' + exc_name(e)]
        finally:
            F.secrets.token_bytes = orig
        g = F.WebsocketFrame()
        try:
            tail = g.parse(raw + bytes.fromhex(case['tail']))
        except Exception as e:
            return ['exc parse ' + exc_name(e)]
        return ['ok ' + _fields(g, tail)]
    if k == 'parse':
        g = F.WebsocketFrame()
        try:
            tail = g.parse(bytes.fromhex(case['raw']))
        except Exception as e:
            return ['exc ' + exc_name(e)]
        return ['ok ' + _fields(g, tail)]
    if k == 'accept':
        return ['ok ' + hx(F.WebsocketFrame.key_to_accept(bytes.fromhex(case['key'])))]
    if k == 'wsloop':
        return _wsloop_impl(case)
    if k == 'inst':
        return [_inst_impl(case)]
    if k == 'text':
        try:
            return ['ok ' + hx(F.WebsocketFrame.text(payload(case['data'])))]
        except Exception as e:
            return ['exc ' + exc_name(e)]
    if k == 'loop':
        return [_loop_impl(case)]
    if k == 'hs':
        return [_handshake_impl(case)]
    if k == 'upfr':
        return _upfr_impl(case)
    if k == 'mask':
        try:
            return ['ok ' + hx(F.WebsocketFrame.apply_mask(bytes.fromhex(case['data']), bytes.fromhex(case['mask'])))]
        except Exception as e:
            return ['exc ' + exc_name(e)]
    raise ValueError(k)


def _wsloop_frames(case):
    out = []
    for fr in case['frames']:
        out.append(rfc_encode(fr['flags'], fr['op'], fr['masked'], bytes.fromhex(fr['mask'] or ''), payload(fr['data'])))
    return out


class _Route:
    def __init__(self):
        self.log = []

    def on_client_data(self, request, raw):
        return raw

    def on_websocket_message(self, g):
        self.log.append('ok ' + _fields(g, b''))


def _wsloop_impl(case):
    """Several frames in ONE segment through the real HttpWebServerPlugin.on_client_data websocket loop
    (one WebsocketFrame instance reused, reset() between frames): what the route plugin is handed per frame."""
    from proxy.http.server.web import HttpWebServerPlugin
    from proxy.http.server.protocols import httpProtocolTypes
    p = object.__new__(HttpWebServerPlugin)
    p._post_request_data_size = 0
    p.request = None
    p.route = _Route()
    p.switched_protocol = httpProtocolTypes.WEBSOCKET
    raw = b''.join(_wsloop_frames(case))
    try:
        p.on_client_data(memoryview(raw))
    except Exception as e:
        p.route.log.append('exc ' + exc_name(e))
    log = p.route.log[:len(case['frames'])]
    return log + ['missing'] * (len(case['frames']) - len(log))


def _inst_str(g):
    return 'fin=%d rsv=%d%d%d op=%d masked=%d plen=%s mask=%s data=%s' % (
        g.fin, g.rsv1, g.rsv2, g.rsv3, g.opcode, g.masked, g.payload_length, hx(g.mask), hx(g.data))


def _inst_impl(case):
    """An operation history on ONE real WebsocketFrame object: R reset(), B build(), P=<hex> parse(),
    S=<flags>,<op>,<masked>,<mask>,<data> attribute assignment (payload_length left alone, as user code does)."""
    from proxy.http.websocket import frame as F
    rnd = bytes.fromhex(case['rnd'])
    orig = F.secrets.token_bytes
    F.secrets.token_bytes = lambda n: rnd
    g = F.WebsocketFrame()
    out = []
    try:
        for tok in case['ops']:
            if tok == 'R':
                g.reset()
                out.append('reset')
            elif tok == 'B':
                try:
                    raw = g.build()
                except Exception as e:
                    out.append('exc build ' + exc_name(e))
                    break
                out.append('built %s %s' % (hx(raw), _inst_str(g)))
            elif tok.startswith('P='):
                try:
                    tail = g.parse(unhx_(tok[2:]))
                except Exception as e:
                    out.append('exc parse ' + exc_name(e))
                    break
                out.append('parsed %s tail=%s' % (_inst_str(g), hx(tail)))
            elif tok.startswith('S='):
                fl, op, m, mask, data = tok[2:].split(',')
                g.fin, g.rsv1, g.rsv2, g.rsv3 = [c == '1' for c in fl]
                g.opcode = int(op)
                g.masked = m == '1'
                g.mask = None if mask == 'None' else unhx_(mask)
                g.data = None if data == 'None' else unhx_(data)
                out.append('set')
            else:
                raise ValueError(tok)
    finally:
        F.secrets.token_bytes = orig
    return ' | '.join(out)


def unhx_(s):
    return b'' if s == '-' else bytes.fromhex(s)


class _InstRoute:
    def __init__(self):
        self.log = []

    def on_client_data(self, request, raw):
        return raw

    def on_websocket_message(self, g):
        self.log.append(_inst_str(g))


def _loop_impl(case):
    """Arbitrary bytes as ONE segment through the real HttpWebServerPlugin.on_client_data websocket loop: the
    full state of the (reused) frame object at every hand-over to the route plugin, and how the loop ended."""
    from proxy.http.server.web import HttpWebServerPlugin
    from proxy.http.server.protocols import httpProtocolTypes
    from proxy.http.exception import HttpProtocolException
    p = object.__new__(HttpWebServerPlugin)
    p._post_request_data_size = 0
    p.request = None
    p.route = _InstRoute()
    p.switched_protocol = httpProtocolTypes.WEBSOCKET
    try:
        p.on_client_data(memoryview(unhx_(case['raw'])))
        end = 'drained'
    except HttpProtocolException:
        end = 'closed'
    except Exception as e:
        end = 'exc ' + exc_name(e)
    return ' | '.join(p.route.log + [end])


_HS_WORLD = {}


def _hs_flags(tls):
    """flags with the web server and one websocket route plugin; `tls` = --key-file/--cert-file set
    (encryption_enabled() is true; no TLS handshake is run here, the plugin is driven directly)."""
    if tls in _HS_WORLD:
        return _HS_WORLD[tls]
    import logging
    logging.disable(logging.CRITICAL)
    from proxy.common.flag import FlagParser
    from proxy.http.server import HttpWebServerBasePlugin, httpProtocolTypes

    class WsRoute(HttpWebServerBasePlugin):
        def routes(self):
            return [(httpProtocolTypes.WEBSOCKET, r'/ws$'), (httpProtocolTypes.HTTP, r'/ws-http$'),
                    (httpProtocolTypes.HTTPS, r'/ws-https$')]

        def handle_request(self, request):
            pass
    flags = FlagParser.initialize(['--enable-web-server', '--hostname', '127.0.0.1'], threadless=True, plugins=[WsRoute])
    if tls:
        flags.keyfile, flags.certfile = '/nonexistent/key.pem', '/nonexistent/cert.pem'
    _HS_WORLD[tls] = flags
    return flags


def _handshake_impl(case):
    """Websocket upgrade request through the real HttpWebServerPlugin.on_request_complete: the accept token
    of the 101 reply (or what else was queued)."""
    import socket
    from proxy.http.server.web import HttpWebServerPlugin
    from proxy.http.parser import HttpParser, httpParserTypes
    from proxy.http.connection import HttpClientConnection
    key = bytes.fromhex(case['key'])
    req = HttpParser(httpParserTypes.REQUEST_PARSER)
    req.parse(memoryview(b'GET /ws HTTP/1.1\r\nHost: x\r\nUpgrade: ' + case['upg'].encode() + b'\r\nConnection: Upgrade\r\n'
                         b'Sec-WebSocket-Key: ' + key + b'\r\nSec-WebSocket-Version: 13\r\n\r\n'))
    a, b_ = socket.socketpair()
    try:
        client = HttpClientConnection(a, ('127.0.0.1', 1))
        p = HttpWebServerPlugin('uid', _hs_flags(case['tls']), client, req, None, None)
        try:
            p.on_request_complete()
        except Exception as e:
            return 'exc ' + exc_name(e)
        out = b''.join(bytes(x) for x in client.buffer)
    finally:
        a.close()
        b_.close()
    if not out.startswith(b'HTTP/1.1 101'):
        return 'noupgrade ' + out.split(b'\r\n', 1)[0].decode('latin1').replace(' ', '_')
    for line in out.split(b'\r\n'):
        if line.lower().startswith(b'sec-websocket-accept:'):
            return 'ok ' + hx(line.split(b':', 1)[1].strip())
    return 'noaccept'


_UPFR = {}


def _upfr_world():
    if _UPFR:
        return _UPFR
    import logging
    logging.disable(logging.CRITICAL)
    from proxy.common.flag import FlagParser
    from proxy.http.server import HttpWebServerBasePlugin, httpProtocolTypes
    log = []

    class RecRoute(HttpWebServerBasePlugin):
        def routes(self):
            return [(httpProtocolTypes.WEBSOCKET, r'/ws$')]

        def handle_request(self, request):
            pass

        def on_websocket_message(self, frame):
            log.append('ok ' + _fields(frame, b''))
    _UPFR['flags'] = FlagParser.initialize(['--enable-web-server', '--hostname', '127.0.0.1'], threadless=True,
                                           plugins=[RecRoute])
    _UPFR['log'] = log
    return _UPFR


def _upfr_segments(case):
    key = bytes.fromhex(case['key'])
    req = (b'GET /ws HTTP/1.1\r\nHost: x\r\nUpgrade: websocket\r\nConnection: Upgrade\r\n'
           b'Sec-WebSocket-Key: ' + key + b'\r\nSec-WebSocket-Version: 13\r\n\r\n')
    frames = _wsloop_frames(case)
    k = case['with_req']            # how many frames share the segment of the upgrade request
    return [req + b''.join(frames[:k])] + ([b''.join(frames[k:])] if frames[k:] else [])


def _upfr_impl(case):
    """Websocket upgrade request and the first frames in ONE segment (the rest in a second one) through the
    real HttpProtocolHandler.handle_data -> HttpWebServerPlugin: the accept token, then what the route plugin is
    handed per frame."""
    import socket
    from proxy.http.handler import HttpProtocolHandler
    from proxy.http.connection import HttpClientConnection
    w = _upfr_world()
    del w['log'][:]
    a, b_ = socket.socketpair()
    out = []
    try:
        h = HttpProtocolHandler(HttpClientConnection(a, ('127.0.0.1', 1)), flags=w['flags'])
        try:
            for seg in _upfr_segments(case):
                if h.handle_data(memoryview(seg)):
                    w['log'].append('teardown')
                    break
        except Exception as e:
            w['log'].append('exc ' + exc_name(e))
        sent = b''.join(bytes(x) for x in h.work.buffer)
    finally:
        a.close()
        b_.close()
    acc = 'noaccept'
    if not sent.startswith(b'HTTP/1.1 101'):
        acc = 'noupgrade ' + sent.split(b'\r\n', 1)[0].decode('latin1').replace(' ', '_')
    for line in sent.split(b'\r\n'):
        if line.lower().startswith(b'sec-websocket-accept:'):
            acc = 'ok ' + hx(line.split(b':', 1)[1].strip())
    n = len(case['frames'])
    log = list(w['log'])[:n]
    return [acc] + log + ['missing'] * (n - len(log))


def model_lines(case):
    k = case['kind']
    if k == 'upfr':
        from proxy.http.websocket.frame import WebsocketFrame
        return ['ws accept %s %s' % (hx(WebsocketFrame.GUID), case['key'] or '-')] + \
            ['ws parse ' + hx(x) for x in _wsloop_frames(case)]
    if k == 'hs':
        from proxy.http.websocket.frame import WebsocketFrame
        return ['ws accept %s %s' % (hx(WebsocketFrame.GUID), case['key'] or '-')]
    if k == 'text':
        return ['ws text ' + hx(payload(case['data']))]
    if k == 'inst':
        return ['ws inst %s %s' % (case['rnd'] or '-', ' '.join(case['ops']))]
    if k == 'loop':
        return ['ws loop ' + (case['raw'] or '-')]
    if k == 'wsloop':
        # each frame is parsed from the start of what the previous one left: model = fresh parse per frame
        return ['ws parse ' + hx(x) for x in _wsloop_frames(case)]
    if k == 'rt':
        fl = case['flags']
        return ['ws rt %d %d %d %d %d %d %s %s %s %s' % (
            fl[0], fl[1], fl[2], fl[3], case['op'], case['masked'],
            'None' if case['mask'] is None else (case['mask'] or '-'), case['rnd'] or '-',
            hx(payload(case['data'])), case['tail'] or '-')]
    if k == 'parse':
        return ['ws parse ' + (case['raw'] or '-')]
    if k == 'accept':
        from proxy.http.websocket.frame import WebsocketFrame
        return ['ws accept %s %s' % (hx(WebsocketFrame.GUID), case['key'] or '-')]
    if k == 'mask':
        return ['ws mask %s %s' % (case['data'] or '-', case['mask'] or '-')]
    raise ValueError(k)


def in_quantifier(case):
    if case['kind'] != 'rt':
        return False
    key = case['mask'] if case['mask'] is not None else case['rnd']
    return 0 <= case['op'] < 16 and (not case['masked'] or len(key) == 8)


def rfc_encode(flags, op, masked, key, data):
    """Independent RFC 6455 §5.2 encoder (specification side of the oracle)."""
    out = bytearray()
    out.append((flags[0] << 7) | (flags[1] << 6) | (flags[2] << 5) | (flags[3] << 4) | op)
    n = len(data)
    m = 0x80 if masked else 0
    if n <= 125:
        out.append(m | n)
    elif n <= 0xffff:
        out.append(m | 126)
        out += n.to_bytes(2, 'big')
    else:
        out.append(m | 127)
        out += n.to_bytes(8, 'big')
    if masked:
        out += key
        out += bytes(c ^ key[i & 3] for i, c in enumerate(data))
    else:
        out += data
    return bytes(out)


def oracle(case):
    """The property itself, evaluated on the implementation only."""
    from proxy.http.websocket import frame as F
    k = case['kind']
    if k == 'accept':
        key = bytes.fromhex(case['key'])
        want = base64.b64encode(hashlib.sha1(key + b'258EAFA5-E914-47DA-95CA-C5AB0DC85B11').digest())
        got = F.WebsocketFrame.key_to_accept(key)
        return None if got == want else 'accept-token-differs-from-rfc-formula'
    if k == 'hs':
        key = bytes.fromhex(case['key'])
        want = base64.b64encode(hashlib.sha1(key + b'258EAFA5-E914-47DA-95CA-C5AB0DC85B11').digest())
        got = _handshake_impl(case)
        return None if got == 'ok ' + hx(want) else 'handshake-accept-token-not-the-rfc-formula'
    if k == 'upfr':
        key = bytes.fromhex(case['key'])
        want = base64.b64encode(hashlib.sha1(key + b'258EAFA5-E914-47DA-95CA-C5AB0DC85B11').digest())
        got = _upfr_impl(case)
        if got[0] != 'ok ' + hx(want):
            return 'handshake-accept-token-not-the-rfc-formula'
        for fr, line in zip(case['frames'], got[1:]):
            want = 'ok fin=%d rsv=%d%d%d op=%d masked=%d mask=%s data=%s tail=-' % (
                fr['flags'][0], fr['flags'][1], fr['flags'][2], fr['flags'][3], fr['op'], fr['masked'],
                (fr['mask'] if fr['masked'] else 'None'), hx(payload(fr['data'])))
            if line != want:
                return 'frames-sharing-the-upgrade-segment-not-delivered-frame-by-frame'
        return None
    if k == 'wsloop':
        got = _wsloop_impl(case)
        for fr, line in zip(case['frames'], got):
            want = 'ok fin=%d rsv=%d%d%d op=%d masked=%d mask=%s data=%s tail=-' % (
                fr['flags'][0], fr['flags'][1], fr['flags'][2], fr['flags'][3], fr['op'], fr['masked'],
                (fr['mask'] if fr['masked'] else 'None'), hx(payload(fr['data'])))
            if line != want:
                return 'frame-sequence-in-one-segment-not-delivered-frame-by-frame'
        return None
    if k == 'text':
        d = payload(case['data'])
        raw = F.WebsocketFrame.text(d)
        g = F.WebsocketFrame()
        rest = g.parse(raw + b'\x81\x00')
        ok = raw == rfc_encode([1, 0, 0, 0], 1, 0, b'', d) and rest == b'\x81\x00' and (g.data or b'') == d \
            and g.fin and g.opcode == 1 and not g.masked and not (g.rsv1 or g.rsv2 or g.rsv3)
        return None if ok else 'text()-frame-does-not-round-trip'
    if k == 'loop':
        if 'frames' not in case:
            return None
        got = _loop_impl(case).split(' | ')
        want = []
        end = 'drained'
        for fr in case['frames']:
            if fr['op'] == 8:
                end = 'closed'
                break
            d = payload(fr['data'])
            want.append('fin=%d rsv=%d%d%d op=%d masked=%d plen=%d mask=%s data=%s' % (
                fr['flags'][0], fr['flags'][1], fr['flags'][2], fr['flags'][3], fr['op'], fr['masked'], len(d),
                (fr['mask'] if fr['masked'] else 'None'), hx(d)))
        return None if got == want + [end] else 'frames-of-one-segment-not-delivered-as-sent(full-instance-state)'
    if k == 'inst':
        if 'echo' not in case:
            return None
        # echo: parse(frame ++ tail) then build() on the same object must give the frame's bytes back
        got = _inst_impl(case).split(' | ')
        if len(got) < len(case['ops']) - 1:
            return None            # an EARLIER operation of the history raised: the echo pair never ran
        return None if got[-1].startswith('built ' + case['echo'] + ' ') else 'parse-then-build-does-not-reproduce-the-frame'
    if k == 'mask':
        d, m = bytes.fromhex(case['data']), bytes.fromhex(case['mask'])
        if len(m) != 4:
            return None
        a = F.WebsocketFrame.apply_mask
        return None if a(a(d, m), m) == d else 'mask-not-involutive'
    if not in_quantifier(case):
        return None
    f = _frame(case)
    rnd = bytes.fromhex(case['rnd'])
    data = payload(case['data'])
    tail = bytes.fromhex(case['tail'])
    orig = F.secrets.token_bytes
    F.secrets.token_bytes = lambda n: rnd
    try:
        try:
            raw = f.build()
        except Exception as e:
            return 'build-raises-' + exc_name(e)
    finally:
        F.secrets.token_bytes = orig
    key = f.mask if f.mask is not None else rnd
    if raw != rfc_encode(case['flags'], case['op'], case['masked'], key, data):
        return 'encoding-differs-from-rfc6455'
    g = F.WebsocketFrame()
    try:
        rest = g.parse(raw + tail)
    except Exception as e:
        return 'parse-raises-' + exc_name(e)
    if rest != tail:
        return 'remainder-not-preserved'
    if [int(g.fin), int(g.rsv1), int(g.rsv2), int(g.rsv3)] != case['flags'] or g.opcode != case['op'] \
            or bool(g.masked) != bool(case['masked']):
        return 'header-fields-differ'
    if (g.data or b'') != data:
        return 'payload-differs'
    if case['masked'] and g.mask != key:
        return 'mask-differs'
    return None


def _rt(flags, op, masked, mask, rnd, data, tail):
    return {'kind': 'rt', 'flags': flags, 'op': op, 'masked': masked, 'mask': mask, 'rnd': rnd,
            'data': data, 'tail': tail}


def corpus():
    cs = []
    for n in (0, 1, 125, 126, 127, 65535, 65536, 65537):
        for masked in (0, 1):
            cs.append(_rt([1, 0, 0, 0], 1, masked, 'a1b2c3d4' if masked else None, '00000000',
                          {'n': n, 'a': 7, 'b': 3}, 'ffee'))
    cs.append(_rt([1, 1, 1, 1], 15, 1, None, '01020304', {'hex': '68656c6c6f'}, ''))
    cs.append(_rt([0, 0, 0, 0], 16, 0, None, '01020304', {'hex': '00'}, ''))       # opcode too wide
    cs.append(_rt([1, 0, 0, 0], 300, 0, None, '01020304', {'hex': '00'}, ''))
    cs.append(_rt([1, 0, 0, 0], 2, 1, '0102', '01020304', {'hex': '0001'}, ''))    # short key
    cs.append({'kind': 'accept', 'key': b'dGhlIHNhbXBsZSBub25jZQ=='.hex()})
    for raw in ('', '81', '817e', '817e00', '817f0000', '8180', '818001', '8105', '810568656c6c6f77',
                'ff7e000568656c6c6f', '01fe0002aabbccdd1122'):
        cs.append({'kind': 'parse', 'raw': raw})
    def fr(op, masked, mask, hexdata, flags=(1, 0, 0, 0)):
        return {'flags': list(flags), 'op': op, 'masked': masked, 'mask': mask, 'data': {'hex': hexdata}}
    cs.append({'kind': 'wsloop', 'frames': [fr(1, 1, 'a1b2c3d4', '68656c6c6f'), fr(1, 0, None, '776f726c64')]})
    cs.append({'kind': 'wsloop', 'frames': [fr(2, 0, None, '00ff'), fr(2, 1, '01020304', ''), fr(9, 0, None, '70')]})
    cs.append({'kind': 'wsloop', 'frames': [fr(1, 1, '00000000', '61'), fr(1, 1, 'ffffffff', '62'), fr(1, 0, None, '63')]})
    for tls in (0, 1):
        for upg in ('websocket', 'WebSocket'):
            cs.append({'kind': 'hs', 'key': b'dGhlIHNhbXBsZSBub25jZQ=='.hex(), 'tls': tls, 'upg': upg})
    K = b'dGhlIHNhbXBsZSBub25jZQ=='.hex()
    # frames sharing the segment of the upgrade request; first header bytes 0d 0a / 0a 0d / 0d 0d (CR, LF look-alikes)
    cs.append({'kind': 'upfr', 'key': K, 'with_req': 1, 'frames': [fr(1, 1, 'a1b2c3d4', '68656c6c6f'), fr(1, 0, None, '776f726c64')]})
    cs.append({'kind': 'upfr', 'key': K, 'with_req': 2, 'frames': [fr(0xd, 0, None, '30313233343536373839', (0, 0, 0, 0)), fr(1, 0, None, '61')]})
    cs.append({'kind': 'upfr', 'key': K, 'with_req': 1, 'frames': [fr(0xa, 0, None, '00' * 13, (0, 0, 0, 0)), fr(2, 1, '0d0a0d0a', '0d0a')]})
    cs.append({'kind': 'upfr', 'key': K, 'with_req': 2, 'frames': [fr(0xd, 0, None, '0d0a' * 5, (0, 0, 0, 0)), fr(0xd, 0, None, '0d' * 13, (0, 0, 0, 0))]})
    cs.append({'kind': 'upfr', 'key': K, 'with_req': 0, 'frames': [fr(0xd, 0, None, '30313233343536373839', (0, 0, 0, 0))]})
    cs.append({'kind': 'inst', 'rnd': '09090909', 'ops': ['P=818101020304600d', 'S=1010,9,1,None,6162', 'B', 'R', 'P=810161', 'B']})
    cs.append({'kind': 'inst', 'rnd': '', 'ops': ['P=81810102030460', 'P=810161', 'B']})          # stale mask without reset
    cs.append({'kind': 'inst', 'rnd': '', 'ops': ['S=0000,1,0,None,None', 'B', 'S=0000,1,0,None,6162', 'B']})
    cs.append({'kind': 'inst', 'rnd': '01', 'ops': ['S=1000,2,1,None,616263', 'B']})
    cs.append({'kind': 'inst', 'rnd': '', 'ops': ['P=8103616263ff', 'B'], 'echo': '8103616263'})
    cs.append({'kind': 'inst', 'rnd': '', 'ops': ['P=817e0003616263ff', 'B']})                     # non-canonical length form
    cs.append({'kind': 'inst', 'rnd': '', 'ops': ['P=8105616263', 'B']})                            # truncated, then build
    cs.append({'kind': 'loop', 'raw': '81810102030460810161880000'})
    cs.append({'kind': 'loop', 'raw': '8101'})
    cs.append({'kind': 'loop', 'raw': '81'})
    cs.append({'kind': 'loop', 'raw': ''})
    cs.append({'kind': 'mask', 'data': '0102030405', 'mask': 'ffeeddcc'})
    cs.append({'kind': 'mask', 'data': '01', 'mask': 'ff'})
    cs.append({'kind': 'mask', 'data': '', 'mask': ''})
    return cs


def generate(rng, tier):
    big = tier == 'thorough'
    # the whole header space x threshold lengths
    lens = list(range(0, 131)) + list(range(65530, 65541))
    if big:
        lens += [rng.randrange(65541, 2 * 1024 * 1024) for _ in range(6)] + [1 << 20, (1 << 21) - 1]
    else:
        lens += [rng.randrange(65541, 300000) for _ in range(2)]
    for fl in range(16):
        flags = [(fl >> 3) & 1, (fl >> 2) & 1, (fl >> 1) & 1, fl & 1]
        for op in range(16):
            for masked in (0, 1):
                picks = lens if (big and op in (0, 1, 2, 8, 9, 10) and fl in (0, 8, 15)) else rng.sample(lens, 3)
                for n in picks:
                    if n > 70000 and not (fl == 8 and op == 2):
                        continue
                    mask = None
                    if masked and rng.random() < 0.8:
                        mask = bytes(rng.randrange(256) for _ in range(4)).hex()
                    rnd = bytes(rng.randrange(256) for _ in range(4)).hex()
                    tail = bytes(rng.randrange(256) for _ in range(rng.choice([0, 0, 1, 2, 9]))).hex()
                    if n <= 40 and rng.random() < 0.5:
                        data = {'hex': bytes(rng.randrange(256) for _ in range(n)).hex()}
                    else:
                        data = {'n': n, 'a': rng.randrange(256), 'b': rng.randrange(256)}
                    yield _rt(flags, op, masked, mask, rnd, data, tail)
    # frames outside the guard (build must reject / behave as the model says)
    for _ in range(60 if not big else 600):
        yield _rt([rng.randrange(2) for _ in range(4)], rng.choice([16, 17, 255, 256, 1000, rng.randrange(16)]),
                  rng.randrange(2), rng.choice([None, '', '01', '010203', '0102030405']),
                  rng.choice(['', '0102', '01020304']),
                  {'hex': bytes(rng.randrange(256) for _ in range(rng.randrange(4))).hex()}, '')
    # arbitrary byte strings into parse()
    for _ in range(400 if not big else 6000):
        n = rng.choice([0, 1, 2, 3, 4, 6, 10, 12, 20, 140])
        raw = bytearray(rng.randrange(256) for _ in range(n))
        if n >= 2 and rng.random() < 0.6:
            raw[1] = (raw[1] & 0x80) | rng.choice([0, 1, 5, 125, 126, 127])
        if n >= 4 and rng.random() < 0.5:
            raw[2] = 0
            raw[3] = rng.randrange(8)
        yield {'kind': 'parse', 'raw': bytes(raw).hex()}
    for _ in range(100 if not big else 2000):
        n = rng.choice([0, 1, 16, 20, 24, 55, 56, 57, 63, 64, 65, 100, 119, 120, 200])
        yield {'kind': 'accept', 'key': bytes(rng.randrange(256) for _ in range(n)).hex()}
    for _ in range(120 if not big else 1500):
        frames = []
        for _k in range(rng.choice([2, 2, 3, 4])):
            masked = rng.randrange(2)
            n = rng.choice([0, 1, 2, 5, 125, 126, 127, 200])
            frames.append({'flags': [rng.randrange(2) for _ in range(4)],
                           'op': rng.choice([0, 1, 2, 9, 10, 3, 15]), 'masked': masked,
                           'mask': bytes(rng.randrange(256) for _ in range(4)).hex() if masked else None,
                           'data': {'n': n, 'a': rng.randrange(256), 'b': rng.randrange(256)}})
        yield {'kind': 'wsloop', 'frames': frames}
    for n in [0, 1, 125, 126, 127, 65535, 65536] + [rng.randrange(70000) for _ in range(10 if not big else 100)]:
        yield {'kind': 'text', 'data': {'n': n, 'a': rng.randrange(256), 'b': rng.randrange(256)}}
    # reused-instance histories and the web loop on whole segments
    def rframe(ops=(0, 1, 2, 9, 10, 3, 15, 8)):
        masked = rng.randrange(2)
        n = rng.choice([0, 1, 2, 5, 125, 126, 127, 200])
        return {'flags': [rng.randrange(2) for _ in range(4)], 'op': rng.choice(ops), 'masked': masked,
                'mask': bytes(rng.randrange(256) for _ in range(4)).hex() if masked else None,
                'data': {'n': n, 'a': rng.randrange(256), 'b': rng.randrange(256)}}

    def enc(fr):
        return rfc_encode(fr['flags'], fr['op'], fr['masked'], bytes.fromhex(fr['mask'] or ''), payload(fr['data']))
    for _ in range(150 if not big else 2500):
        frames = [rframe() for _k in range(rng.choice([1, 2, 3, 4, 6]))]
        raw = b''.join(enc(fr) for fr in frames)
        r = rng.random()
        if r < 0.6:
            yield {'kind': 'loop', 'raw': raw.hex(), 'frames': frames}
        elif r < 0.8:                      # truncated / garbage tail: no oracle, correspondence only
            yield {'kind': 'loop', 'raw': raw[:rng.randrange(len(raw) + 1)].hex()}
        else:
            yield {'kind': 'loop', 'raw': (raw + bytes(rng.randrange(256) for _ in range(rng.randrange(1, 6)))).hex()}
    for _ in range(200 if not big else 3000):
        ops = []
        echo = None
        for _k in range(rng.choice([2, 3, 4, 6])):
            r = rng.random()
            if r < 0.4:
                fr = rframe()
                w = enc(fr)
                cut = rng.random() < 0.15
                tail = bytes(rng.randrange(256) for _ in range(rng.choice([0, 0, 1, 3])))
                ops.append('P=' + hx((w[:rng.randrange(len(w) + 1)] if cut else w + tail)))
                if not cut and rng.random() < 0.7:
                    ops.append('B')
                    echo = w.hex()
                else:
                    echo = None
            elif r < 0.55:
                ops.append('R')
                echo = None
            elif r < 0.75:
                ops.append('B')
                echo = None
            else:
                ops.append('S=%s,%d,%d,%s,%s' % (
                    ''.join(str(rng.randrange(2)) for _ in range(4)), rng.choice([0, 1, 2, 8, 9, 15, 16, 300]),
                    rng.randrange(2), rng.choice(['None', 'None', '01020304', '0102', '-']),
                    rng.choice(['None', '-', '61', hx(bytes(rng.randrange(256) for _ in range(rng.choice([3, 126, 130]))))])))
                echo = None
        c = {'kind': 'inst', 'rnd': rng.choice(['', '0a0b0c0d', '0a0b']), 'ops': ops}
        if echo is not None and ops[-1] == 'B':
            c['echo'] = echo
        yield c
    for _ in range(40 if not big else 400):
        key = base64.b64encode(bytes(rng.randrange(256) for _ in range(rng.choice([16, 16, 8, 20])))).hex()
        yield {'kind': 'hs', 'key': key, 'tls': rng.randrange(2), 'upg': rng.choice(['websocket', 'WEBSOCKET', 'Websocket'])}
    for _ in range(150 if not big else 2000):
        frames = []
        for _k in range(rng.choice([1, 2, 3])):
            masked = rng.randrange(2)
            crlfish = rng.randrange(3) == 0
            n = rng.choice([10, 13]) if crlfish else rng.choice([0, 1, 2, 5, 10, 13, 125, 126, 200])
            if crlfish:
                masked = 0
            frames.append({'flags': [0, 0, 0, 0] if crlfish else [rng.randrange(2) for _ in range(4)],
                           'op': rng.choice([0xd, 0xa]) if crlfish else rng.choice([0, 1, 2, 9, 10, 3, 13, 15]),
                           'masked': masked,
                           'mask': bytes(rng.randrange(256) for _ in range(4)).hex() if masked else None,
                           'data': {'n': n, 'a': rng.choice([13, 10, rng.randrange(256)]), 'b': rng.choice([0, 0, 253, 3])}})
        key = base64.b64encode(bytes(rng.randrange(256) for _ in range(16))).hex()
        yield {'kind': 'upfr', 'key': key, 'with_req': rng.randrange(len(frames) + 1), 'frames': frames}
    for _ in range(60 if not big else 600):
        yield {'kind': 'mask', 'data': bytes(rng.randrange(256) for _ in range(rng.randrange(12))).hex(),
               'mask': bytes(rng.randrange(256) for _ in range(rng.choice([0, 1, 3, 4, 4, 4, 5]))).hex()}


def neighbours(case):
    if case['kind'] != 'rt':
        return
    for n in (0, 1, 125, 126, 65535, 65536):
        c = dict(case)
        c['data'] = {'n': n, 'a': 1, 'b': 0}
        yield c
    for masked in (0, 1):
        c = dict(case, masked=masked, mask='01020304' if masked else None)
        yield c


def search(rng):
    return list(generate(rng, 'quick'))


def describe(case):
    if case['kind'] == 'wsloop':
        return ['wsloop frames=%d' % len(case['frames'])]
    if case['kind'] == 'hs':
        return ['handshake tls=%d' % case['tls']]
    if case['kind'] == 'inst':
        return ['inst ops=%d' % len(case['ops']), 'inst echo=%d' % ('echo' in case)]
    if case['kind'] == 'loop':
        return ['loop valid-frames=%d' % ('frames' in case)]
    if case['kind'] == 'upfr':
        return ['upgrade+frames frames-with-request=%d' % case['with_req']]
    if case['kind'] == 'rt':
        n = len(payload(case['data'])) if 'hex' in case['data'] else case['data']['n']
        b = '0' if n == 0 else '<126' if n < 126 else '<64K' if n < 65536 else '>=64K'
        return ['rt len' + b, 'rt masked=%d' % case['masked'], 'rt in-quantifier=%d' % in_quantifier(case)]
    return [case['kind']]


def nontrivial(case):
    return in_quantifier(case) or case['kind'] in ('wsloop', 'hs', 'upfr', 'inst', 'loop', 'text')
