import PxProofs.C16
