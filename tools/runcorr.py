import sys, random, importlib, json
sys.path.insert(0,__import__('os').path.dirname(__import__('os').path.dirname(__import__('os').path.abspath(__file__)))); sys.path.insert(0,'/repo')
from harness import common
mod=importlib.import_module('harness.'+sys.argv[1])
tier=sys.argv[2] if len(sys.argv)>2 else 'quick'
rng=random.Random(int(sys.argv[3]) if len(sys.argv)>3 else 0)
cases=list(mod.corpus())+list(mod.generate(rng,tier))
print('cases',len(cases))
impl=[mod.impl(c) for c in cases]
lines=[];spans=[]
for c in cases:
    ls=mod.model_lines(c); spans.append((len(lines),len(ls))); lines+=ls
mo=common.model_eval(lines)
bad=0
for c,i,(a,n) in zip(cases,impl,spans):
    if i!=mo[a:a+n]:
        bad+=1
        if bad<=int(sys.argv[4] if len(sys.argv)>4 else 3):
            print('CASE',json.dumps(c)[:600]); 
            for x,y in zip(i,mo[a:a+n]):
                if x!=y: print(' impl ',x[:700]); print(' model',y[:700])
print('mismatches',bad)
of=0
for c in cases:
    s=mod.oracle(c)
    if s:
        of+=1
        if of<=3: print('ORACLE',s,json.dumps(c)[:500])
print('oracle failures',of)
