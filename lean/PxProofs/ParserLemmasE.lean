import PxProofs.ParserLemmasD
/-!
# Lemmas about the HTTP parser model for C03, part E

From the loop to `parse`: well-formed resting states `WF`, `parse_append`
(feeding `a ++ b` = feeding `a`, then `b`), `parseAll_flatten`, and
preservation of the parser type.
-/
namespace Px.Parser

/-- resting states: invariant + a present buffer is non-empty (as `parse` leaves it) -/
def WF (p : Parser) : Prop := Inv p ∧ ∀ bf, p.buffer = some bf → bf ≠ []

theorem wf_init (ty : PType) : WF (init ty) := ⟨inv_init ty, fun bf h => by simp [init] at h⟩

theorem inv_setTB {p : Parser} (t : Nat) (bf : Option Bytes) (h : Inv p) : Inv (setTB t bf p) :=
  ⟨⟨h.1.chunkWF, h.1.clOk, h.1.bodyLt, h.1.early, h.1.line⟩, h.2⟩

theorem inv_of_setTB {p : Parser} {t : Nat} {bf : Option Bytes} (h : Inv (setTB t bf p)) : Inv p :=
  ⟨⟨h.1.chunkWF, h.1.clOk, h.1.bodyLt, h.1.early, h.1.line⟩, h.2⟩

theorem loop_inv (cfg : Cfg) (f : Nat) {p q : Parser} {more : Bool} {u r : Bytes} (hi : Inv p)
    (h : loop cfg f p more u = .ok (q, r)) : Inv q := by
  induction f generalizing p more u with
  | zero => simp only [loop, Except.ok.injEq, Prod.mk.injEq] at h; exact h.1 ▸ hi
  | succ f ih =>
    by_cases hd : more = false ∨ p.state = .complete
    · rw [loop_done cfg u hd] at h
      simp only [Except.ok.injEq, Prod.mk.injEq] at h; exact h.1 ▸ hi
    · have hm : more = true := by cases more <;> simp_all
      have hc : p.state ≠ .complete := fun h => hd (.inr h)
      subst hm
      rw [loop_succ cfg u hc] at h
      cases hs : stepOnce cfg p u with
      | error e => simp [hs] at h
      | ok t =>
        obtain ⟨q1, m1, r1⟩ := t
        simp only [hs] at h
        exact ih (stepOnce_inv cfg hi hc hs).1 h

/-- the loop never touches the byte counter and the buffer -/
theorem loop_keeps (cfg : Cfg) (f : Nat) {p q : Parser} {more : Bool} {u r : Bytes}
    (h : loop cfg f p more u = .ok (q, r)) : q = setTB p.totalSize p.buffer q := by
  have h1 := loop_setTB cfg p.totalSize p.buffer f p more u
  have h2 : setTB p.totalSize p.buffer p = p := rfl
  rw [h2, h] at h1
  simp only [Except.map, liftL, Except.ok.injEq, Prod.mk.injEq, and_true] at h1
  exact h1

theorem bufBytes_finish (q : Parser) (r : Bytes) : bufBytes (finish (q, r)) = r := by
  unfold bufBytes finish
  cases r <;> rfl

theorem finish_buffer_ne (q : Parser) (r : Bytes) : ∀ bf, (finish (q, r)).buffer = some bf → bf ≠ [] := by
  intro bf h
  unfold finish at h
  cases r with
  | nil => simp at h
  | cons c cs => simp at h; rw [← h]; simp

/-- `parse` on a non-empty piece, over the counter-free base state -/
theorem parse_nonempty (cfg : Cfg) (p : Parser) {x : Bytes} (hx : x ≠ []) :
    parse cfg p x = (go cfg (setTB 0 none p) (bufBytes p ++ x)).map
      (fun R => finish (setTB (p.totalSize + x.length) none R.1, R.2)) := by
  rw [parse_eq]
  have hx1 : decide (x.length > 0) = true := by simpa using List.length_pos_iff.2 hx
  rw [hx1]
  have : ({ p with totalSize := p.totalSize + x.length, buffer := none } : Parser) =
      setTB (p.totalSize + x.length) none (setTB 0 none p) := rfl
  rw [this, loop_setTB]
  unfold go
  cases loop cfg ((bufBytes p ++ x).length + 8) (setTB 0 none p) true (bufBytes p ++ x) with
  | error e => rfl
  | ok R => rfl

theorem parse_nil (cfg : Cfg) {p : Parser} (hb : ∀ bf, p.buffer = some bf → bf ≠ []) :
    parse cfg p [] = .ok p := by
  rw [parse_eq]
  have : decide (([] : Bytes).length > 0) = false := by simp
  rw [this, loop_done cfg _ (.inl rfl)]
  simp only [Except.map, finish, List.append_nil, List.length_nil, Nat.add_zero, bufBytes]
  congr 1
  cases hbuf : p.buffer with
  | none => cases p; simp_all
  | some bf =>
    have := hb bf hbuf
    cases p; cases bf <;> simp_all

theorem parse_wf (cfg : Cfg) {p p' : Parser} {x : Bytes} (hw : WF p) (h : parse cfg p x = .ok p') : WF p' := by
  rw [parse_eq] at h
  cases hl : loop cfg ((bufBytes p ++ x).length + 8)
      { p with totalSize := p.totalSize + x.length, buffer := none } (decide (x.length > 0))
      (bufBytes p ++ x) with
  | error e => rw [hl] at h; simp [Except.map] at h
  | ok R =>
    rw [hl] at h
    simp only [Except.map, Except.ok.injEq] at h
    subst h
    have hi : Inv R.1 := loop_inv cfg _ (inv_setTB (p.totalSize + x.length) none hw.1) hl
    exact ⟨inv_setTB R.1.totalSize _ hi, finish_buffer_ne R.1 R.2⟩

theorem closeDelimited_finish (t : Nat) (q : Parser) (r : Bytes) :
    closeDelimited (finish (setTB t none q, r)) = closeDelimited q := rfl

/-- **feeding `a ++ b` = feeding `a`, then `b`** (full parser state, errors included),
    unless the whole input ends inside a close-delimited response body -/
theorem parse_append (cfg : Cfg) {p : Parser} (a b : Bytes) (hw : WF p)
    (hg : ∀ q, parse cfg p (a ++ b) = .ok q → closeDelimited q = false) :
    parse cfg p (a ++ b) = (parse cfg p a).bind (fun p' => parse cfg p' b) := by
  by_cases ha : a = []
  · subst ha
    rw [parse_nil cfg hw.2]; rfl
  by_cases hb : b = []
  · subst hb
    rw [List.append_nil]
    cases hp : parse cfg p a with
    | error e => rfl
    | ok p' =>
      have := parse_wf cfg hw hp
      simp only [Except.bind]
      rw [parse_nil cfg this.2]
  have hab : a ++ b ≠ [] := by simp [ha]
  have hu : bufBytes p ++ a ≠ [] := by simp [ha]
  have hI0 : Inv (setTB 0 none p) := inv_setTB 0 none hw.1
  have hga : ∀ Q r, go cfg (setTB 0 none p) (bufBytes p ++ a ++ b) = .ok (Q, r) →
      closeDelimited Q = false := by
    intro Q r h
    have := hg (finish (setTB (p.totalSize + (a ++ b).length) none Q, r))
      (by rw [parse_nonempty cfg p hab, ← List.append_assoc, h]; rfl)
    rwa [closeDelimited_finish] at this
  have happ := go_append cfg hI0 hu hb hga
  rw [parse_nonempty cfg p hab, ← List.append_assoc, happ, parse_nonempty cfg p ha]
  cases hgo : go cfg (setTB 0 none p) (bufBytes p ++ a) with
  | error e => rfl
  | ok R =>
    obtain ⟨Q, r⟩ := R
    simp only [Except.map, Except.bind, resume_ok]
    rw [parse_nonempty cfg _ hb, bufBytes_finish]
    have hQ : Q = setTB 0 none Q := loop_keeps cfg _ hgo
    have h1 : setTB 0 none (finish (setTB (p.totalSize + a.length) none Q, r)) = Q := by
      rw [hQ]; rfl
    have h2 : (finish (setTB (p.totalSize + a.length) none Q, r)).totalSize + b.length =
        p.totalSize + (a ++ b).length := by
      simp only [finish, setTB, List.length_append]; omega
    rw [h1, h2]
    cases go cfg Q (r ++ b) <;> rfl

/-- feeding any number of pieces -/
theorem parseAll_flatten (cfg : Cfg) {p : Parser} (segs : List Bytes) (hw : WF p)
    (hg : ∀ q, parse cfg p segs.flatten = .ok q → closeDelimited q = false) :
    parseAll cfg p segs = parse cfg p segs.flatten := by
  induction segs generalizing p with
  | nil => rw [List.flatten_nil, parse_nil cfg hw.2]; rfl
  | cons a rest ih =>
    rw [List.flatten_cons] at hg ⊢
    have happ := parse_append cfg a rest.flatten hw hg
    rw [happ, parseAll]
    cases hp : parse cfg p a with
    | error e => rfl
    | ok p' =>
      simp only [Except.bind]
      apply ih (parse_wf cfg hw hp)
      intro q hq
      apply hg q
      rw [happ, hp]; exact hq

/-! ### the parser type never changes (so request parsers are never close-delimited) -/

theorem hdrStep_ty {p q : Parser} {line : Bytes} (h : hdrStep p line = .ok q) : q.ty = p.ty := by
  unfold hdrStep at h
  split at h
  · split at h
    · simp only [Except.ok.injEq] at h; subst h; rfl
    · exact (processHeader_spec h).2.1
  · simp only [Except.ok.injEq] at h; subst h; rfl

theorem processHeaders_ty (f : Nat) {p q : Parser} {u r : Bytes} {m : Bool}
    (h : processHeaders f p u = .ok (q, m, r)) : q.ty = p.ty := by
  induction f generalizing p u with
  | zero => simp only [processHeaders, Except.ok.injEq, Prod.mk.injEq] at h; rw [← h.1]
  | succ f ih =>
    rw [processHeaders_succ] at h
    cases hsp : splitCRLF u with
    | none => simp only [hsp, Except.ok.injEq, Prod.mk.injEq] at h; rw [← h.1]
    | some pr =>
      obtain ⟨line, rest⟩ := pr
      simp only [hsp] at h
      cases hh : hdrStep p line with
      | error e => simp [hh] at h
      | ok q1 =>
        simp only [hh] at h
        split at h
        · simp only [Except.ok.injEq, Prod.mk.injEq] at h; rw [← h.1]; exact hdrStep_ty hh
        · exact (ih h).trans (hdrStep_ty hh)

theorem processBody_ty {p q : Parser} {u r : Bytes} {m : Bool}
    (h : processBody p u = .ok (q, m, r)) : q.ty = p.ty := by
  by_cases hch : p.isChunked = true
  · rw [processBody_chunked hch] at h
    cases hp : Px.Chunk.parse (p.chunk.getD Px.Chunk.init) u with
    | error e => simp [hp] at h
    | ok t =>
      simp only [hp, Except.ok.injEq, Prod.mk.injEq] at h
      rw [← h.1]; split <;> rfl
  · simp only [Bool.not_eq_true] at hch
    unfold processBody at h
    simp only [hch, Bool.false_eq_true, if_false] at h
    split at h
    · split at h
      · simp at h
      · split at h
        · simp at h
        · simp only [Except.ok.injEq, Prod.mk.injEq] at h; rw [← h.1]
    · simp only [Except.ok.injEq, Prod.mk.injEq] at h; rw [← h.1]

theorem post_ty (t : Parser × Bool × Bytes) : (post t).1.ty = t.1.ty := by
  unfold post; split
  · rfl
  · split <;> rfl

theorem stepOnce_ty (cfg : Cfg) {p q : Parser} {u r : Bytes} {m : Bool}
    (h : stepOnce cfg p u = .ok (q, m, r)) : q.ty = p.ty := by
  rw [stepOnce_eq] at h
  cases hc : core cfg p u with
  | error e => simp [hc, Except.map] at h
  | ok t =>
    simp only [hc, Except.map, Except.ok.injEq] at h
    have h1 : q.ty = t.1.ty := by rw [← post_ty t, h]
    rw [h1]
    obtain ⟨q1, m1, r1⟩ := t
    unfold core at hc
    split at hc
    · exact processBody_ty hc
    · split at hc
      · rw [processLine_eq] at hc
        cases hsp : splitCRLF u with
        | none => simp only [hsp, Except.ok.injEq, Prod.mk.injEq] at hc; rw [← hc.1]
        | some pr =>
          simp only [hsp] at hc
          cases hl : lineStep cfg p pr.1 with
          | error e => simp [hl, Except.map] at hc
          | ok q2 =>
            simp only [hl, Except.map, Except.ok.injEq, Prod.mk.injEq] at hc
            rw [← hc.1]; exact (lineStep_spec hl).2.1
      · exact processHeaders_ty _ hc

theorem loop_ty (cfg : Cfg) (f : Nat) {p q : Parser} {more : Bool} {u r : Bytes}
    (h : loop cfg f p more u = .ok (q, r)) : q.ty = p.ty := by
  induction f generalizing p more u with
  | zero => simp only [loop, Except.ok.injEq, Prod.mk.injEq] at h; rw [← h.1]
  | succ f ih =>
    rw [loop] at h
    split at h
    · simp only [Except.ok.injEq, Prod.mk.injEq] at h; rw [← h.1]
    · cases hs : stepOnce cfg p u with
      | error e => simp [hs] at h
      | ok t =>
        obtain ⟨q1, m1, r1⟩ := t
        simp only [hs] at h
        exact (ih h).trans (stepOnce_ty cfg hs)

theorem parse_ty (cfg : Cfg) {p q : Parser} {x : Bytes} (h : parse cfg p x = .ok q) : q.ty = p.ty := by
  rw [parse_eq] at h
  cases hl : loop cfg ((bufBytes p ++ x).length + 8)
      { p with totalSize := p.totalSize + x.length, buffer := none } (decide (x.length > 0))
      (bufBytes p ++ x) with
  | error e => rw [hl] at h; simp [Except.map] at h
  | ok R =>
    rw [hl] at h
    simp only [Except.map, Except.ok.injEq] at h
    subst h
    have := loop_ty cfg _ hl
    exact this

theorem closeDelimited_request {q : Parser} (h : q.ty = .request) : closeDelimited q = false := by
  simp [closeDelimited, h]
end Px.Parser
