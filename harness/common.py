"""Shared plumbing for the per-property correspondence harnesses.

Every property module `harness/cXX.py` exposes

    PROPERTY      = 'CXX'
    THEOREMS      = ['Px.….C16_roundtrip', …]      # audited with #print axioms
    LEAN_TARGETS  = ['PxProofs.C16']               # lake targets of the property
    def corpus() -> list[case]                     # hand-written / minimised past failures, run first
    def generate(rng, tier) -> iterable[case]      # every random choice from `rng`
    def impl(case) -> list[str]                    # REAL code from /repo, canonicalised lines
    def model_lines(case) -> list[str]             # driver input lines (same count as impl lines)
    def oracle(case) -> None | str                 # property evaluated on the implementation:
                                                   #   None = holds, str = failure signature
    def neighbours(case) -> iterable[case]         # (optional) cases near a disagreeing one
    def describe(case) -> hashable                 # (optional) histogram bucket of a case
    def nontrivial(case) -> bool                   # (optional)
    def classify(case, signature) -> str | None    # (optional) id of the known finding covering it
    def finding_witnesses() -> {id: case}          # (optional) concrete witness per open finding

A `case` is a JSON-serialisable dict.
"""
import os
import re
import sys
import json
import time
import random
import subprocess
import importlib
import collections

VERIF = os.path.dirname(os.path.dirname(os.path.abspath(__file__)))
REPO = os.environ.get('VERIF_REPO', '/repo')
LEAN = os.path.join(VERIF, 'lean')
DRIVER = os.path.join(LEAN, '.lake', 'build', 'bin', 'pxdriver')
ALLOWED_AXIOMS = {'propext', 'Classical.choice', 'Quot.sound'}
FORBIDDEN = re.compile(
    r'\bsorry\b|\badmit\b|^\s*axiom\s|native_decide|bv_decide|implemented_by|\bunsafe\s|maxHeartbeats\s+0',
)

TRUSTED_BASE = [
    'Lean 4.33.0 kernel; axioms limited to propext, Classical.choice, Quot.sound (audited with #print axioms on every run)',
    'Lean compiler/runtime for the model driver executable (pxdriver)',
    'correspondence harness (generators, canonicalisers, scripted sockets / virtual clock) ties model to /repo for the inputs run',
    'constants translator harness/gen_constants.py',
    'CPython semantics of the operations the model mirrors',
]


def hx(x):
    if x is None:
        return 'None'
    x = bytes(x)
    return x.hex() if x else '-'


def unhx(s):
    if s == 'None':
        return None
    return b'' if s == '-' else bytes.fromhex(s)


def exc_name(e):
    """Map a Python exception onto the small enum used by the models."""
    import struct
    n = type(e).__name__
    table = {
        'error': 'structError' if isinstance(e, struct.error) else 'error',
        'IndexError': 'indexError', 'AssertionError': 'assertion',
        'ValueError': 'valueError', 'KeyError': 'keyError',
        'UnicodeDecodeError': 'valueError', 'TypeError': 'typeError',
        'HttpProtocolException': 'httpProtocol',
        'OverflowError': 'overflowError',
    }
    return table.get(n, n)


def run(cmd, cwd=None, timeout=3600, input=None):
    p = subprocess.run(
        cmd, cwd=cwd, input=input, stdout=subprocess.PIPE, stderr=subprocess.STDOUT,
        timeout=timeout, text=True,
    )
    return p.returncode, p.stdout


def model_eval(lines):
    """Pipe `lines` through the compiled Lean driver; one output line per input line."""
    if not lines:
        return []
    data = '\n'.join(lines) + '\n'
    p = subprocess.run(
        [DRIVER], input=data.encode(), stdout=subprocess.PIPE, stderr=subprocess.PIPE, timeout=3600,
    )
    if p.returncode != 0:
        raise RuntimeError('driver failed: %r' % p.stderr[-2000:])
    out = p.stdout.decode().split('\n')
    if out and out[-1] == '':
        out.pop()
    if len(out) != len(lines):
        raise RuntimeError('driver returned %d lines for %d inputs' % (len(out), len(lines)))
    return out


def strip_comments(src):
    # remove /- … -/ (nested) and -- … comments
    out = []
    i, depth, n = 0, 0, len(src)
    while i < n:
        if src.startswith('/-', i):
            depth += 1
            i += 2
        elif depth and src.startswith('-/', i):
            depth -= 1
            i += 2
        elif depth:
            if src[i] == '\n':
                out.append('\n')
            i += 1
        elif src.startswith('--', i):
            while i < n and src[i] != '\n':
                i += 1
        else:
            out.append(src[i])
            i += 1
    return ''.join(out)


def grep_forbidden():
    hits = []
    for root in ('PxModel', 'PxProofs'):
        for dp, _, fns in os.walk(os.path.join(LEAN, root)):
            for fn in fns:
                if fn.endswith('.lean'):
                    p = os.path.join(dp, fn)
                    for k, line in enumerate(strip_comments(open(p).read()).split('\n'), 1):
                        if FORBIDDEN.search(line):
                            hits.append('%s:%d: %s' % (os.path.relpath(p, LEAN), k, line.strip()))
    p = os.path.join(LEAN, 'Driver.lean')
    return hits


def audit_axioms(prop, targets, theorems):
    """`#print axioms` for every property theorem; returns (ok, report, per-theorem axioms)."""
    os.makedirs(os.path.join(LEAN, '.lake', 'audit'), exist_ok=True)
    f = os.path.join(LEAN, '.lake', 'audit', 'Audit_%s.lean' % prop)
    with open(f, 'w') as fh:
        for t in targets:
            fh.write('import %s\n' % t)
        for t in theorems:
            fh.write('#print axioms %s\n' % t)
    rc, out = run(['lake', 'env', 'lean', f], cwd=LEAN, timeout=1800)
    per = {}
    bad = []
    # output may wrap long axiom lists over several lines
    flat = re.sub(r'\n\s+', ' ', out)
    for line in flat.split('\n'):
        m = re.match(r"'([^']+)' depends on axioms: \[(.*)\]", line)
        if m:
            per[m.group(1)] = [a.strip() for a in m.group(2).split(',') if a.strip()]
            continue
        m = re.match(r"'([^']+)' does not depend on any axioms", line)
        if m:
            per[m.group(1)] = []
    for t in theorems:
        short = t
        if short not in per:
            bad.append('theorem %s: not found / not checked' % t)
        else:
            extra = [a for a in per[short] if a not in ALLOWED_AXIOMS]
            if extra:
                bad.append('theorem %s depends on %s' % (t, extra))
    if rc != 0:
        bad.append('audit file failed to elaborate: ' + out[-1500:])
    return (not bad), bad, per


class Result:
    def __init__(self):
        self.violations = []     # (signature, replay_path, found_input: bool)
        self.known = []          # text lines
        self.infra = []          # infrastructure failures (exit 2)


def canonical(case):
    return json.dumps(case, sort_keys=True)


def import_closure(targets):
    """Project-local (PxModel.* / PxProofs.*) import closure of the given Lean modules."""
    seen, todo = [], list(targets)
    while todo:
        m = todo.pop()
        if m in seen:
            continue
        f = os.path.join(LEAN, *m.split('.')) + '.lean'
        if not os.path.exists(f):
            continue
        seen.append(m)
        for line in open(f):
            mm = re.match(r'\s*import\s+((?:PxModel|PxProofs)[\w.]*)', line)
            if mm:
                todo.append(mm.group(1))
    return sorted(seen)
