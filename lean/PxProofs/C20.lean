import PxModel.Idle
import PxProofs.IdleLemmas
/-!
# C20 — idle connections are reaped after the timeout and active ones never are

Property theorems only; helper lemmas and the trace predicates (`Mono`, `Quiet`,
`Paced`, `ioTimes`, `lastIter`) are in `PxProofs/IdleLemmas.lean`.  The model
(`PxModel/Idle.lean`) is tied to `proxy/http/handler.py`,
`proxy/core/connection/connection.py` and `proxy/core/work/threadless.py` by the
correspondence check `harness/c20.py` (real `HttpProtocolHandler`, real
`Threadless._run_forever`, real `HttpProtocolHandler.run`, virtual clock).

Time is in integer clock units, `cfg.timeout : Int` is arbitrary (the flag accepts
negative numbers), traces are unbounded lists of timed events.  A trace that stops
describes a connection that went away for another reason (or has not got further
yet), so statements about all traces cover every moment of every lifetime.
-/
namespace Px.Idle

/-! ## Safety: the reaper only closes connections that really are idle -/

/-- **C20 safety.**  For every configuration (either mode, any cadence constants, any
timeout) and every timed trace with non-decreasing times starting when the handler
is created at `t0`: if the connection ends up closed by the reaper at time `t`, then
the closing happened in a loop iteration at `t` before which the connection was
open and had **no pending output**, the handler had existed for longer than the
timeout, and **every client-side read or write ever handled is older than the
timeout** (`u + timeout < t`, i.e. none in `[t − timeout, t]`). -/
theorem C20_safety (cfg : Cfg) (t0 t : Int) (tr : List Ev) (hm : Mono t0 tr)
    (h : (run cfg (init t0) tr).status = .reaped t) :
    ∃ pre rest, tr = pre ++ .loopIter t :: rest ∧
      (run cfg (init t0) pre).status = .open ∧
      (run cfg (init t0) pre).numBuffer = 0 ∧
      t0 + cfg.timeout < t ∧
      ∀ u ∈ ioTimes cfg (init t0) pre, u + cfg.timeout < t := by
  obtain ⟨pre, rest, h1, h2, _, h4⟩ := reaped_split cfg tr (init t0) t rfl h
  have ⟨hnb, hlt⟩ := (isInactive_iff cfg _ t).1 h4
  have ⟨d1, d2⟩ := la_dominates cfg pre (init t0) t0 (Mono_append_left pre _ t0 (h1 ▸ hm)) (Int.le_refl _)
  refine ⟨pre, rest, h1, h2, hnb, ?_, ?_⟩
  · have : (init t0).lastActivity = t0 := rfl
    omega
  · intro u hu
    have := d2 u hu
    omega

/-- **C20 safety, "never" form.**  A connection that has output pending, or on which a
client-side read or write was handled within the timeout (`t ≤ u + timeout`), or that
was created within the timeout, is not closed by a loop iteration at `t` — in either
mode, whatever the tick counter says. -/
theorem C20_active_never_reaped (cfg : Cfg) (t0 t : Int) (pre : List Ev) (hm : Mono t0 pre)
    (hopen : (run cfg (init t0) pre).status = .open)
    (hact : (run cfg (init t0) pre).numBuffer ≠ 0 ∨ t ≤ t0 + cfg.timeout ∨
      ∃ u ∈ ioTimes cfg (init t0) pre, t ≤ u + cfg.timeout) :
    (run cfg (init t0) (pre ++ [.loopIter t])).status = .open := by
  rw [run_append, run_cons, run_nil, step_loop_open cfg _ t hopen, if_neg]
  intro ⟨_, hi⟩
  have ⟨hnb, hlt⟩ := (isInactive_iff cfg _ t).1 hi
  have ⟨d1, d2⟩ := la_dominates cfg pre (init t0) t0 hm (Int.le_refl _)
  have h0 : (init t0).lastActivity = t0 := rfl
  rcases hact with h | h | ⟨u, hu, h⟩
  · exact h hnb
  · omega
  · have := d2 u hu; omega

/-- only the reaper's loop iteration ever reaps: every other event (client I/O of any
    outcome, upstream activity) leaves an open connection open or tears it down for its
    own reason (`handle_events` returned `True`), which is not an idle reaping -/
theorem C20_only_loop_closes (cfg : Cfg) (s : St) (e : Ev) (h : ∀ t, e ≠ .loopIter t)
    (ho : s.status = .open) :
    (step cfg s e).status = .open ∨ ∃ t, (step cfg s e).status = .torn t :=
  step_status_nonloop cfg s e h ho

/-! ## Cadence of the threadless reaper -/

/-- a threadless configuration whose `select + wait` is positive, or the threaded loop -/
def Cfg.Live (cfg : Cfg) : Prop := cfg.threaded = true ∨ 0 < cfg.sel + cfg.wait

instance (cfg : Cfg) : Decidable cfg.Live := by unfold Cfg.Live; infer_instance

/-- **cadence, general.**  For arbitrary cadence constants with `select + wait > 0`
the tick test `tick * (select + wait) ≥ cleanup` is `tick ≥ period`, with
`period = ⌈cleanup / (select + wait)⌉`. -/
theorem C20_due_iff (cfg : Cfg) (h : cfg.Live) (k : Nat) : due cfg k = true ↔ period cfg ≤ k :=
  due_iff cfg h k

/-- **cadence, general.**  Among consecutive iterations of `_run_forever` starting with
`tick = 0` the reaper first runs in iteration `period + 1`; after a run (`tick = 1`) it
runs again exactly `period` iterations later (for `period ≥ 1`). -/
theorem C20_cadence (cfg : Cfg) (h : cfg.Live) (n i : Nat) :
    reaperIters cfg (period cfg + 1 + n) 0 i
      = (i + period cfg + 1) :: reaperIters cfg n 1 (i + period cfg + 1) ∧
    (1 ≤ period cfg →
      reaperIters cfg (period cfg + n) 1 i = (i + period cfg) :: reaperIters cfg n 1 (i + period cfg)) := by
  refine ⟨reaperIters_skip cfg (period cfg) (due_iff cfg h) (period cfg) n 0 i (by omega), ?_⟩
  intro h1
  have := reaperIters_skip cfg (period cfg) (due_iff cfg h) (period cfg - 1) n 1 i (by omega)
  have e1 : period cfg - 1 + 1 + n = period cfg + n := by omega
  have e2 : i + (period cfg - 1) + 1 = i + period cfg := by omega
  rw [e1, e2] at this; exact this

/-- **cadence, concrete** (re-checked against the generated constants): with
`select = 25 ms`, `wait = 1 ms`, `cleanup = 1000 ms` the period is 39 iterations … -/
theorem C20_period_impl (timeout : Int) : period (implCfg timeout false) = 39 :=
  (by decide : period (implCfg 0 false) = 39)

/-- … the first three reaper runs are iterations 40, 79 and 118 … -/
theorem C20_cadence_impl : reaperIters (implCfg 0 false) 120 0 0 = [40, 79, 118] := by decide

/-- … and the threshold is crossed with a margin of ≥ 12 ms on either side
(`38·26 = 988 < 1000 ≤ 1014 = 39·26`), so evaluating the test in binary floating
point as the implementation does cannot change which iteration is due. -/
theorem C20_cadence_margin_impl :
    let c := implCfg 0 false
    (period c - 1) * (c.sel + c.wait) + 12 ≤ c.cleanup ∧ c.cleanup + 12 ≤ period c * (c.sel + c.wait) := by
  decide

theorem C20_period_threaded (cfg : Cfg) (h : cfg.threaded = true) : period cfg = 0 := by
  simp [period, h]

example : (implCfg 10240 false).Live := by decide
example : (implCfg 10240 true).Live := by decide
example : ¬ ({ timeout := 1, threaded := false, sel := 0, wait := 0, cleanup := 5 } : Cfg).Live := by decide

/-! ## Liveness with a deadline -/

/-- **C20 bound, general form** (both modes, arbitrary positive cadence constants).
Let the connection be open with nothing queued and its last client-side I/O at `t0`
(`IdleAt`), let the timeout be non-negative, let the following events be quiet (no
client read, nothing queued) and let every loop iteration come at most `D` after the
previous one (the first at most `D` after `t0`).  Then either the trace ends with the
connection reaped at some `t ≤ t0 + timeout + (period + 1)·D`, or the trace simply
stops early: its last iteration is still at least one `D` before that deadline. -/
theorem C20_bound (cfg : Cfg) (hl : cfg.Live) (hT : 0 ≤ cfg.timeout) (D : Int) (hD : 0 ≤ D)
    (s : St) (t0 : Int) (hi : IdleAt s t0) (suf : List Ev)
    (hq : ∀ e ∈ suf, Quiet e) (hp : Paced D t0 suf) :
    (∃ t, (run cfg s suf).status = .reaped t ∧ t ≤ t0 + cfg.timeout + ((period cfg + 1 : Nat) : Int) * D) ∨
    ((run cfg s suf).status = .open ∧
      lastIter t0 suf + D ≤ t0 + cfg.timeout + ((period cfg + 1 : Nat) : Int) * D) := by
  have h := phaseA cfg (period cfg) D t0 (due_iff cfg hl) hD suf s t0 hi (by omega) hq hp
  have hc := succ_mul_cast (period cfg) D
  rcases h with ⟨t, h1, h2⟩ | ⟨h1, h2⟩
  · exact .inl ⟨t, h1, by omega⟩
  · exact .inr ⟨h1, by omega⟩

/-- **C20 bound, threadless.**  With iterations at most `D` apart, a connection that
stays idle with an empty buffer from `t0` is closed no later than
`t0 + timeout + (N + 1)·D`, `N = period cfg = ⌈cleanup / (select + wait)⌉`, provided
the loop keeps running that long (some iteration of the trace lies within `D` of the
deadline or beyond it).  Stated after an arbitrary earlier history `pre`. -/
theorem C20_bound_threadless (cfg : Cfg) (hmode : cfg.threaded = false) (hpos : 0 < cfg.sel + cfg.wait)
    (hT : 0 ≤ cfg.timeout) (D : Int) (hD : 0 ≤ D) (start : Int) (pre suf : List Ev)
    (hi : IdleAt (run cfg (init start) pre) t0)
    (hq : ∀ e ∈ suf, Quiet e) (hp : Paced D t0 suf)
    (hrun : ∃ t, Ev.loopIter t ∈ suf ∧ t0 + cfg.timeout + ((period cfg + 1 : Nat) : Int) * D < t + D) :
    ∃ t, (run cfg (init start) (pre ++ suf)).status = .reaped t ∧
      t ≤ t0 + cfg.timeout + ((period cfg + 1 : Nat) : Int) * D := by
  have _ := hmode
  rw [run_append]
  rcases C20_bound cfg (.inr hpos) hT D hD _ t0 hi suf hq hp with h | ⟨_, h2⟩
  · exact h
  · obtain ⟨t, ht, hlt⟩ := hrun
    have := (le_lastIter D suf t0 hp).2 t ht
    omega

/-- **C20 bound, threadless, for the constants of the implementation:**
closed no later than `t0 + timeout + 40·D`. -/
theorem C20_bound_threadless_impl (timeout : Int) (hT : 0 ≤ timeout) (D : Int) (hD : 0 ≤ D)
    (start : Int) (pre suf : List Ev)
    (hi : IdleAt (run (implCfg timeout false) (init start) pre) t0)
    (hq : ∀ e ∈ suf, Quiet e) (hp : Paced D t0 suf)
    (hrun : ∃ t, Ev.loopIter t ∈ suf ∧ t0 + timeout + 40 * D < t + D) :
    ∃ t, (run (implCfg timeout false) (init start) (pre ++ suf)).status = .reaped t ∧
      t ≤ t0 + timeout + 40 * D := by
  have hN := C20_period_impl timeout
  have := C20_bound_threadless (t0 := t0) (implCfg timeout false) rfl (by decide : 0 < Px.Gen.selectTimeoutMs + Px.Gen.waitTimeoutMs) hT D hD start pre suf hi hq hp
  rw [hN] at this
  exact this hrun

/-- **C20 bound, threaded.**  `run()` checks at the top of every iteration, so the
connection is closed no later than `t0 + timeout + D`. -/
theorem C20_bound_threaded (cfg : Cfg) (hmode : cfg.threaded = true)
    (hT : 0 ≤ cfg.timeout) (D : Int) (hD : 0 ≤ D) (start : Int) (pre suf : List Ev)
    (hi : IdleAt (run cfg (init start) pre) t0)
    (hq : ∀ e ∈ suf, Quiet e) (hp : Paced D t0 suf)
    (hrun : ∃ t, Ev.loopIter t ∈ suf ∧ t0 + cfg.timeout < t) :
    ∃ t, (run cfg (init start) (pre ++ suf)).status = .reaped t ∧ t ≤ t0 + cfg.timeout + D := by
  rw [run_append]
  have hN := C20_period_threaded cfg hmode
  have h := C20_bound cfg (.inl hmode) hT D hD _ t0 hi suf hq hp
  rw [hN] at h
  have e : ((0 + 1 : Nat) : Int) * D = D := by simp
  rw [e] at h
  rcases h with h | ⟨_, h2⟩
  · exact h
  · obtain ⟨t, ht, hlt⟩ := hrun
    have := (le_lastIter D suf t0 hp).2 t ht
    omega

/-! ## Queued output drains — empty pieces included -/

/-- **C20: an empty queued piece is popped** by the first flush whose `send()` returns
(`sent == len(mv)` is `0 == 0`), whatever is queued behind it. -/
theorem C20_empty_piece_popped (maxSend a : Nat) (r : List Nat) :
    flushPieces maxSend (some a) (0 :: r) = r := flush_empty_head maxSend a r

/-- the trace model's `_num_buffer` is the number of queued pieces, along every piece-level trace -/
theorem C20_counter_is_pieces (cfg : Cfg) (maxSend : Nat) (t0 : Int) (tr : List PEv) :
    (prun cfg maxSend (pinit t0) tr).st.numBuffer = (prun cfg maxSend (pinit t0) tr).pieces.length :=
  pinv_run cfg maxSend tr (pinit t0) (pinv_init t0)

/-- **C20: queued output drains after finitely many writable events.**  However the
output was cut into pieces — empty pieces alone, first, in between or last — on an open
connection that is still being read, `weight pieces = Σ (len + 1)` writable reports in
each of which the socket takes at least one byte leave the connection open with no piece
queued and `has_buffer() = False`; from then on it is `IdleAt` its last flush and the
bound theorems apply. -/
theorem C20_empty_piece_drains (cfg : Cfg) (maxSend : Nat) (ws : List (Int × Nat)) :
    ∀ (ps : PSt), PInv ps → ps.st.status = .open → ps.st.readsTorn = false →
    (∀ w ∈ ws, 1 ≤ w.2) → weight ps.pieces ≤ ws.length →
    (prun cfg maxSend ps (ws.map fun w => .clientWrite w.1 (some w.2))).st.status = .open ∧
    (prun cfg maxSend ps (ws.map fun w => .clientWrite w.1 (some w.2))).pieces = [] ∧
    (prun cfg maxSend ps (ws.map fun w => .clientWrite w.1 (some w.2))).st.hasBuffer = false := by
  have key : ∀ (ws : List (Int × Nat)) (ps : PSt), ps.st.status = .open → ps.st.readsTorn = false →
      (prun cfg maxSend ps (ws.map fun w => .clientWrite w.1 (some w.2))).st.status = .open ∧
      (prun cfg maxSend ps (ws.map fun w => .clientWrite w.1 (some w.2))).pieces =
        (ws.map (·.2)).foldl (fun ps a => flushPieces maxSend (some a) ps) ps.pieces := by
    intro ws
    induction ws with
    | nil => intro ps ho _; exact ⟨ho, rfl⟩
    | cons w r ih =>
      intro ps ho hr
      obtain ⟨h1, h2, h3⟩ := pstep_write cfg maxSend ps w.1 (some w.2) ho hr
      have := ih _ h1 h2
      simp only [List.map_cons, prun, List.foldl_cons] at this ⊢
      rw [h3] at this
      exact this
  intro ps hinv ho hr ha hn
  obtain ⟨k1, k2⟩ := key ws ps ho hr
  have hd := flush_drains maxSend (ws.map (·.2)) ps.pieces
    (by intro a h; obtain ⟨w, hw, rfl⟩ := List.mem_map.1 h; exact ha w hw) (by simpa using hn)
  have hp : (prun cfg maxSend ps (ws.map fun w => .clientWrite w.1 (some w.2))).pieces = [] := by
    rw [k2, hd]
  refine ⟨k1, hp, ?_⟩
  have := pinv_run cfg maxSend (ws.map fun w => PEv.clientWrite w.1 (some w.2)) ps hinv
  unfold PInv at this
  rw [hp] at this
  simp [St.hasBuffer, this]

/-- header block, empty body, more output, a trailing empty piece; 4-byte sends: it drains, and
    2049 units after the last flush the threaded loop reaps the connection -/
example : (prun (implCfg 2048 true) 4 (pinit 0)
    ([.upstream 10 [5, 0, 3, 0]] ++ (List.range 5).map (fun (i : Nat) => PEv.clientWrite (20 + Int.ofNat i) (some 100))
      ++ [.loopIter 2072, .loopIter 2073])) =
    { st := { lastActivity := 24, numBuffer := 0, tick := 1, reaperRuns := 2, readsTorn := false,
              status := .reaped 2073 }, pieces := [] } := by decide
example : weight [5, 0, 3, 0] = 12 := by decide
/-- had the empty piece not been popped, nothing behind it would ever go out -/
example : flushPieces 4 (some 100) [0, 3] = [3] := by decide

/-! ## Non-vacuity: every hypothesis has non-trivial inhabitants, and the conclusions fire -/

/-- a session with timeout 2048 units: request bytes at 5200, a response queued by
upstream activity at 5300 and flushed in two writes, then silence -/
def exPre : List Ev :=
  [.loopIter 5100, .clientRead 5200 0, .upstream 5300 2, .loopIter 5310,
   .clientWrite 5400 true, .clientWrite 5500 true]

/-- afterwards: 61 quiet loop iterations 100 units apart, with a spurious writable report -/
def exSuf : List Ev :=
  .clientWrite 5550 false :: .upstream 5560 0 :: (List.range 61).map (fun (i : Nat) => Ev.loopIter (5600 + 100 * Int.ofNat i))

example : Mono 5000 (exPre ++ exSuf) := by decide
example : IdleAt (run (implCfg 2048 false) (init 5000) exPre) 5500 := by
  constructor <;> decide
example : ∀ e ∈ exSuf, Quiet e := by decide
set_option maxRecDepth 8000 in
example : Paced 100 5500 exSuf := by decide
example : ∃ t, Ev.loopIter t ∈ exSuf ∧ (5500 : Int) + 2048 + 40 * 100 < t + 100 :=
  ⟨11600, by decide, by decide⟩
set_option maxRecDepth 8000 in
/-- the threadless reaper closes it at 9300 ≤ 5500 + 2048 + 40·100 (the threshold passed at 7548) -/
example : (run (implCfg 2048 false) (init 5000) (exPre ++ exSuf)).status = .reaped 9300 := by decide
/-- the threaded loop closes it at the first iteration past the threshold -/
example : (run (implCfg 2048 true) (init 5000) (exPre ++ exSuf)).status = .reaped 7600 := by decide
example : ∃ t, Ev.loopIter t ∈ exSuf ∧ (5500 : Int) + 2048 < t := ⟨7600, by decide, by decide⟩
/-- the ghost list really records the I/O (read at 5200, two flushes) -/
example : ioTimes (implCfg 2048 false) (init 5000) exPre = [5200, 5400, 5500] := by decide
/-- a read attempt that ends in `ssl.SSLWantReadError` (`clientRead t 0`) or that ends reading while
    output is still pending (`clientReadEnd`) is client-side activity: 2048 later the connection is kept -/
example : (run (implCfg 2048 true) (init 0) [.clientRead 3000 0, .loopIter 5048]).status = .open := by decide
example : ioTimes (implCfg 2048 true) (init 0) [.upstream 10 1, .clientReadEnd 3000, .clientRead 3001 0] = [3000] := by
  decide
/-- reads ended and the last chunk flushed: torn down by `handle_events`, not by the reaper -/
example : (run (implCfg 2048 true) (init 0)
    [.upstream 10 1, .clientReadEnd 20, .clientWrite 30 true, .loopIter 99999]).status = .torn 30 := by decide
/-- pending output blocks the reaper however old the last activity is (threaded mode) -/
example : (run (implCfg 2048 true) (init 0) [.upstream 10 1, .loopIter 100000]).status = .open := by decide
/-- exactly at the threshold (`now − last_activity = timeout`) the connection stays, one unit later it goes -/
example : (run (implCfg 2048 true) (init 0) [.loopIter 2048]).status = .open := by decide
example : (run (implCfg 2048 true) (init 0) [.loopIter 2049]).status = .reaped 2049 := by decide

end Px.Idle
