import PxModel.Modes
import PxModel.DrvRelay
/-
  Driver glue for the execution-mode model (C17).

    modes run <mode> <kind> <maxSend> <mustFlush> <readsTeared> <cbuf> <ubuf> <flush> <round>…
        <mode>   threaded | local | remote
        <flush>  `.` or `,`-joined  t | y<send>          (select / send outcomes inside `_flush`)
        <round>  threaded:  <0|1>@<tick>      (clock comparison of `is_inactive()` at the top of the iteration)
                 executor:  <n|0|1>@<tick>    (reaper after the round: not due / outcome of the comparison)
        <tick>, <buf>, <send>: as for `relay run` (PxModel/DrvRelay.lean); ticks are always masked
    modes fds <mode> <finished 0|1>
    modes queue <spec>                           (NonBlockingQueue: p<n> = n puts, g<m> = m gets, `,`-joined)
    modes framing <unix flag 0|1> <kinds>        (kinds: string of t (TCP listener) / u (unix listener), `.` = none)
    modes handoff <sched>                        (`,`-joined thread ids, `.` = empty; the locked protocol of
                                                 delegate_work_to_pool under that schedule)
    modes live                                   (prediction of the model for a live differential run)

  Output of `run`: one observation per `handle_events` call (same format as
  `relay run`), then the end of the loop, `shutdown()` and the transcript.
-/
namespace Px.Modes
open Px Px.Relay

def parseMode : String → Option Mode
  | "threaded" => some .threaded | "local" => some .local | "remote" => some .remote | _ => none

def parseFlush (s : String) : Option (List SelEv) :=
  if s == "." then some [] else (s.splitOn ",").mapM parseSel

def parseBoolTok (s : String) : Option Bool :=
  if s == "1" then some true else if s == "0" then some false else none

def parseTRound (s : String) : Option TRound :=
  match s.splitOn "@" with
  | [e, t] => do
    let e ← parseBoolTok e
    let (_, t) ← parseTick t
    some ⟨e, t⟩
  | _ => none

def parseERound (s : String) : Option ERound :=
  match s.splitOn "@" with
  | [e, t] => do
    let r ← if e == "n" then some none else (parseBoolTok e).map some
    let (_, t) ← parseTick t
    some ⟨t, r⟩
  | _ => none

def endStr : LoopEnd → String
  | .teardown => "teardown" | .raised => "raised" | .inactive => "inactive" | .scriptEnd => "script"

def descStr : Desc → String
  | .accepted => "accepted" | .received => "received" | .dup => "dup"

def fdsStr (x : FdState) : String :=
  s!"open={if x.openNow.isEmpty then "." else ",".intercalate (x.openNow.map descStr)} bad={b01 x.bad}"

def modeStr : Mode → String
  | .threaded => "threaded" | .local => "local" | .remote => "remote"

def runStr (s0 : St) (r : RunRes) : String :=
  let obs := runObs s0 (r.loop.calls.map (fun t => (true, t)))
  let tr := transcript r
  let sh := match r.shut with
    | none => "shut=-"
    | some x => s!"shut={feStr x.flushEnd}"
  modeStr r.mode ++ " " ++ " | ".intercalate (s!"init {stStr s0}" :: obs) ++
    s!" || end={endStr r.loop.stop} calls={r.loop.calls.length} {sh} closed={b01 tr.closed} rel={b01 tr.upstreamReleased} toC={digest tr.toClient} toU={digest tr.toUpstream} frC={digest tr.fromClient} frU={digest tr.fromUpstream} lost={digest tr.lost} fds={b01 tr.fdsReleased}"

def drv (args : List String) : String :=
  match args with
  | "run" :: mode :: kind :: maxSend :: mf :: rt :: cbuf :: ubuf :: flush :: rounds =>
    match parseMode mode, parseKind kind, maxSend.toNat?, parseBuf cbuf, parseBuf ubuf, parseFlush flush with
    | some m, some k, some mx, some cb, some ub, some fl =>
      let s := st0 k mx cb ub (mf == "1") (rt == "1")
      match m with
      | .threaded =>
        match rounds.mapM parseTRound with
        | some rs => runStr s (threadedRun s rs fl)
        | none => "bad-op"
      | .local =>
        match rounds.mapM parseERound with
        | some rs => runStr s (localRun s rs)
        | none => "bad-op"
      | .remote =>
        match rounds.mapM parseERound with
        | some rs => runStr s (remoteRun s rs)
        | none => "bad-op"
    | _, _, _, _, _, _ => "bad-op"
  | ["fds", mode, fin] =>
    match parseMode mode with
    | some m => "fds " ++ fdsStr (fdRun (fdOps m (fin == "1")))
    | none => "bad-op"
  | ["handoff", sched] =>
    let ids := if sched == "." then some [] else (sched.splitOn ",").mapM String.toNat?
    match ids with
    | some ids =>
      let s := hrun lockedProg ids
      let it : Item → String := fun x => match x with | .addr i => s!"a{i}" | .fd i => s!"f{i}"
      let csv : List String → String := fun l => if l.isEmpty then "." else ",".intercalate l
      let rc := match recvAll s.pipe with
        | none => "exc"
        | some ps => csv (ps.map (fun (p : Nat × Nat) => s!"{p.1}:{p.2}"))
      s!"handoff pipe={csv (s.pipe.map it)} acq={csv (s.acq.map toString)} lock={b01 s.lock.isSome} recv={rc}"
    | none => "bad-op"
  | ["framing", u, kinds] =>
    let ks : List ConnKind := if kinds == "." then [] else kinds.toList.map (fun c => if c == 't' then .tcp else .unix)
    let hs := (List.range ks.length).zip ks
    let flag := u == "1"
    let pipe := framedPipe senderSends flag hs
    let it : Item → String := fun x => match x with | .addr i => s!"a{i}" | .fd i => s!"f{i}"
    let csv : List String → String := fun l => if l.isEmpty then "." else ",".intercalate l
    let rc := match recvFramed (receiverExpects flag) pipe with
      | none => "exc"
      | some ps => csv (ps.map (fun (p : Option Nat × Nat) =>
          (match p.1 with | none => "-" | some a => toString a) ++ ":" ++ toString p.2))
    s!"framing pipe={csv (pipe.map it)} recv={rc}"
  | ["queue", spec] =>
    -- spec: `,`-joined  p<n> (n puts, numbered consecutively) | g<m> (m gets)
    let rec build (toks : List String) (next : Nat) (acc : List QOp) : Option (List QOp) :=
      match toks with
      | [] => some acc
      | t :: r =>
        match t.toList with
        | 'p' :: d => match (String.ofList d).toNat? with
          | some n => build r (next + n) (acc ++ (List.range n).map (fun i => QOp.put (next + i)))
          | none => none
        | 'g' :: d => match (String.ofList d).toNat? with
          | some m => build r next (acc ++ List.replicate m QOp.get)
          | none => none
        | _ => none
    match build (spec.splitOn ",") 0 [] with
    | some ops =>
      let s := qrun ops
      let got := s.got.filterMap id
      s!"queue got={got.length} inorder={b01 (got == List.range got.length)} empty={(s.got.filter (·.isNone)).length} left={s.q.length}"
    | none => "bad-op"
  | ["live"] =>
    -- `C17_same_transcript_partial` / `C17_local_remote_identical`: the three transcripts coincide
    "live modes-equal=1"
  | _ => "bad-op"

end Px.Modes
