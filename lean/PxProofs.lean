import PxProofs.C16
import PxProofs.C20
import PxProofs.C18
