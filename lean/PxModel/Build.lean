import PxModel.Parser
/-
  Model of the packet builders in proxy/common/utils.py
  (build_http_pkt / build_http_request / build_http_response / build_http_header)
  and of HttpParser.build / build_response / _get_body_or_chunks.
  A Python `Dict[bytes, bytes]` of headers is an insertion-ordered list.
-/
namespace Px.Build

open Px.Parser

abbrev HDict := List (Bytes × Bytes)

def dSet (h : HDict) (k v : Bytes) : HDict :=
  if h.any (·.1 == k) then h.map (fun e => if e.1 == k then (k, v) else e) else h ++ [(k, v)]

/-- `build_http_header(k, v)` -/
def buildHeader (k v : Bytes) : Bytes := k ++ [COLON] ++ [SP] ++ v

/-- `build_http_pkt(line, headers, body, conn_close)` -/
def buildPkt (line : List Bytes) (headers : HDict) (body : Option Bytes) (connClose : Bool) : Bytes :=
  let headers := if connClose then dSet headers (b "Connection") (b "close") else headers
  join [SP] line ++ CRLF ++
    (headers.map (fun (k, v) => buildHeader k v ++ CRLF)).flatten ++ CRLF ++
    (match body with | some x => x | none => [])

/-- `build_http_request(method, url, protocol_version, content_type, headers, body, conn_close, no_ua)` -/
def buildRequest (ua : Bytes) (method url version : Bytes) (contentType : Option Bytes)
    (headers : HDict) (body : Option Bytes) (connClose noUa : Bool) : Bytes :=
  let headers := match contentType with
    | some ct => dSet headers (b "Content-Type") ct
    | none => headers
  let hasTE := headers.any (fun e => lower e.1 == b "transfer-encoding")
  let hasUA := headers.any (fun e => lower e.1 == b "user-agent")
  let bodyTruthy := match body with | some x => !x.isEmpty | none => false
  let headers := if bodyTruthy && !hasTE then dSet headers (b "Content-Length") (natToDec (body.getD []).length) else headers
  let headers := if !hasUA && !noUa then dSet headers (b "User-Agent") ua else headers
  buildPkt [method, url, version] headers body connClose

/-- `build_http_response(status_code, protocol_version, reason, headers, body, conn_close, no_cl)` -/
def intToDec (i : Int) : Bytes := if i < 0 then 45 :: natToDec (-i).toNat else natToDec i.toNat

def buildResponse (status : Int) (version : Bytes) (reason : Option Bytes)
    (headers : HDict) (body : Option Bytes) (connClose noCl : Bool) : Bytes :=
  let line := [version, intToDec status] ++
    (match reason with | some r => if r.isEmpty then [] else [r] | none => [])
  let hasTE := headers.any (fun e => lower e.1 == b "transfer-encoding")
  let bodyTruthy := match body with | some x => !x.isEmpty | none => false
  let headers := if !hasTE && !noCl then
      dSet headers (b "Content-Length") (if bodyTruthy then natToDec (body.getD []).length else b "0")
    else headers
  buildPkt line headers body connClose

inductive Err | assertion | valueError
  deriving DecidableEq, Repr

/-- `_get_body_or_chunks()` -/
def bodyOrChunks (bufSize : Nat) (p : Parser) : Except Err (Option Bytes) :=
  match p.body with
  | some bd =>
    if p.isChunked then
      match Px.Chunk.toChunks bd bufSize with
      | .ok x => .ok (some x)
      | .error _ => .error .valueError
    else .ok (some bd)
  | none => .ok none

/-- the header dict comprehension of `HttpParser.build`: original-case name ↦ value,
    minus disabled names, Host optionally overridden.  Later entries with the same
    original-case name overwrite earlier ones (dict comprehension). -/
def rebuildHeaders (h : Headers) (disable : List Bytes) (host : Option Bytes) : HDict :=
  h.foldl (fun acc (k, (name, value)) =>
    if disable.contains (lower k) then acc
    else
      let v := match host with
        | some hv => if lower name == b "host" then hv else value
        | none => value
      dSet acc name v) []

/-- `HttpParser.build(disable_headers, for_proxy=False, host)` -/
def build (bufSize : Nat) (defaultDisable : List Bytes) (p : Parser)
    (disable : Option (List Bytes)) (host : Option Bytes) : Except Err Bytes :=
  let methodOk := match p.method with | some m => !m.isEmpty | none => false
  let versionOk := match p.version with | some v => !v.isEmpty | none => false
  if !(methodOk && versionOk && p.ty == .request) then .error .assertion
  else
    let disable := disable.getD defaultDisable
    match bodyOrChunks bufSize p with
    | .error e => .error e
    | .ok body =>
      let path := match p.path with
        | some x => if x.isEmpty then [SLASH] else x
        | none => [SLASH]
      let headers := match p.headers with
        | some h => if h.isEmpty then [] else rebuildHeaders h disable host
        | none => []
      .ok (buildRequest [] (p.method.getD []) path (p.version.getD []) none headers body false true)

/-- `HttpParser.build_response()` -/
def buildResponseOf (bufSize : Nat) (p : Parser) : Except Err Bytes :=
  let codeOk := match p.code with | some c => !c.isEmpty | none => false
  let versionOk := match p.version with | some v => !v.isEmpty | none => false
  if !(codeOk && versionOk && p.ty == .response) then .error .assertion
  else
    match pyInt 10 (p.code.getD []) with
    | none => .error .valueError
    | some code =>
      match bodyOrChunks bufSize p with
      | .error e => .error e
      | .ok body =>
        let headers := match p.headers with
          | some h => if h.isEmpty then [] else h.foldl (fun acc (_, (name, value)) => dSet acc name value) []
          | none => []
        .ok (buildResponse code (p.version.getD []) p.reason headers body false false)

end Px.Build
