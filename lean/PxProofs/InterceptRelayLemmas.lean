import PxModel.Intercept
/-! Helper lemmas for C11: the relay (`Px.Relay`) started in the state a refused
    upstream leaves behind (`must_flush_before_shutdown`, acknowledgement queued).
    Self-contained on purpose (imports the models only). -/
namespace Px.Intercept
open Px Px.Relay

/-- the bytes put on the wire followed by what is still queued is what was queued -/
theorem flush_wire_append' (m : Nat) (c : Conn) (o : SendOut) :
    (Conn.flush m c o).wire ++ (Conn.flush m c o).conn.buffer.flatten = c.buffer.flatten := by
  unfold Conn.flush FlushRes.wire
  cases hb : c.buffer with
  | nil => simp [hb]
  | cons mv rest =>
    cases o with
    | sent k =>
      simp only
      split
      · rename_i h
        simp only [Option.getD_some, List.flatten_cons]
        have : min k (List.take (Conn.effMax m) mv).length = mv.length := h
        rw [List.take_take]
        have h2 : min (min k (List.take (Conn.effMax m) mv).length) (Conn.effMax m) ≥ mv.length := by
          rw [this]; simp [List.length_take] at this; omega
        rw [List.take_of_length_le h2]
      · simp only [Option.getD_some, List.flatten_cons]
        rw [List.take_take, ← List.append_assoc]
        congr 1
        have : min (min k (List.take (Conn.effMax m) mv).length) (Conn.effMax m) =
            min k (List.take (Conn.effMax m) mv).length := by
          simp [List.length_take]
        rw [this]
        exact List.take_append_drop _ _
    | blocking => simp [hb]
    | brokenPipe => simp [hb]
    | osError => simp [hb]
    | sslWantWrite => simp [hb]

/-- nothing was read from the client, nothing was sent to or is queued for the
    upstream, and what the client got or will get is `p0` (what was pending when the
    upstream was refused) followed by whatever was read raw off the upstream socket -/
structure Quiet (p0 : Bytes) (s : St) : Prop where
  recvC : s.recvC = []
  sentU : s.sentU = []
  ubuf : s.upstream.buffer = []
  acct : s.sentC ++ s.client.buffer.flatten = p0 ++ s.recvU

theorem phaseCW_q (s : St) (t : Tick) :
    (phaseCW s t).1.recvC = s.recvC ∧ (phaseCW s t).1.sentU = s.sentU ∧
    (phaseCW s t).1.upstream = s.upstream ∧ (phaseCW s t).1.recvU = s.recvU ∧
    (phaseCW s t).1.kind = s.kind ∧ (phaseCW s t).1.readsTeared = s.readsTeared ∧
    (phaseCW s t).1.sentC ++ (phaseCW s t).1.client.buffer.flatten = s.sentC ++ s.client.buffer.flatten ∧
    ((phaseCW s t).2 = false → (phaseCW s t).1.mustFlush = s.mustFlush) := by
  unfold phaseCW
  split
  · have hw := flush_wire_append' s.maxSend s.client t.cSend
    generalize Conn.flush s.maxSend s.client t.cSend = r at hw
    obtain ⟨conn, off, acc, exc⟩ := r
    unfold afterCW
    cases exc with
    | some e => simp_all [List.append_assoc]
    | none =>
      simp only
      split <;> simp_all [List.append_assoc]
  · simp

theorem phaseUW_nobuf (s : St) (t : Tick) (h : s.upstream.buffer = []) : phaseUW s t = (s, false) := by
  unfold phaseUW
  simp [Conn.hasBuffer, h]

theorem phaseUR_q (s : St) (t : Tick) :
    (phaseUR s t).1.recvC = s.recvC ∧ (phaseUR s t).1.sentU = s.sentU ∧
    (phaseUR s t).1.upstream = s.upstream ∧ (phaseUR s t).1.mustFlush = s.mustFlush ∧
    (phaseUR s t).1.sentC = s.sentC ∧ (phaseUR s t).1.kind = s.kind ∧
    ∃ x, (phaseUR s t).1.recvU = s.recvU ++ x ∧
      (phaseUR s t).1.client.buffer.flatten = s.client.buffer.flatten ++ x ∧ (t.uR = false → x = []) := by
  unfold phaseUR
  split
  · rename_i hu
    cases hr : Conn.recv t.uRecv with
    | none_ => simp
    | exc o => cases o <;> simp
    | seg b =>
      refine ⟨?_, ?_, ?_, ?_, ?_, ?_, b, ?_, ?_, ?_⟩ <;> simp_all [Conn.queue]
  · simp

theorem readHalf_q (s : St) (t : Tick) (hc : t.cR = false) :
    (readHalf s t).1.recvC = s.recvC ∧ (readHalf s t).1.sentU = s.sentU ∧
    (readHalf s t).1.upstream = s.upstream ∧ (readHalf s t).1.mustFlush = s.mustFlush ∧
    (readHalf s t).1.sentC = s.sentC ∧ (readHalf s t).1.kind = s.kind ∧
    ∃ x, (readHalf s t).1.recvU = s.recvU ++ x ∧
      (readHalf s t).1.client.buffer.flatten = s.client.buffer.flatten ++ x ∧ (t.uR = false → x = []) := by
  unfold readHalf
  split
  · simp [finish]
  · have hcr : phaseCR s t = (s, .no) := by unfold phaseCR; simp [hc]
    rw [hcr]
    simp only [finish]
    exact phaseUR_q s t

/-- `handle_events` from a quiet state that is flushing before shutdown, the client not reported readable -/
theorem tick_quiet (p0 : Bytes) (s : St) (t : Tick) (hm : s.mustFlush = true) (hq : Quiet p0 s)
    (hcR : t.cR = false) :
    Quiet p0 (tick s t).1 ∧ ((tick s t).2 = .cont → (tick s t).1.mustFlush = true) ∧
    (t.uR = false → (tick s t).1.recvU = s.recvU) ∧ (tick s t).1.kind = s.kind := by
  unfold tick
  simp only
  have hcw := phaseCW_q { s with trC := none, trU := none } t
  rcases heq : phaseCW { s with trC := none, trU := none } t with ⟨s1, w⟩
  rw [heq] at hcw
  simp only at hcw
  obtain ⟨a1, a2, a3, a4, a5, a6, a7, a8⟩ := hcw
  obtain ⟨h1, h2, h3, h4⟩ := hq
  cases w with
  | true =>
    simp only
    refine ⟨⟨by simp [a1, h1], by simp [a2, h2], by simp [a3, h3], ?_⟩, by simp, ?_, by simp [a5]⟩
    · simp only [a7, a4]; exact h4
    · intro _; simp [a4]
  | false =>
    simp only
    have hub : ({ s1 with writesTeared := false } : St).upstream.buffer = [] := by simp [a3, h3]
    rw [phaseUW_nobuf _ t hub]
    simp only
    obtain ⟨b1, b2, b3, b4, b5, b6, x, b7, b8, b9⟩ :=
      readHalf_q { s1 with writesTeared := false, readsTeared := s1.readsTeared || false } t hcR
    refine ⟨⟨?_, ?_, ?_, ?_⟩, ?_, ?_, ?_⟩
    · rw [b1]; simp [a1, h1]
    · rw [b2]; simp [a2, h2]
    · rw [b3]; simp [a3, h3]
    · rw [b5, b8, b7]
      simp only
      rw [← List.append_assoc, a7, a4, ← List.append_assoc, h4]
    · intro _; rw [b4]; simp only; rw [a8 rfl]; exact hm
    · intro hu; rw [b7, b9 hu]; simp [a4]
    · rw [b6]; simp [a5]

/-- one executor round (`get_events`, select, `handle_events`) from such a state -/
theorem step_quiet (p0 : Bytes) (s : St) (t : Tick) (hm : s.mustFlush = true) (hq : Quiet p0 s) :
    Quiet p0 (step s t).1 ∧ ((step s t).2 = .cont → (step s t).1.mustFlush = true) ∧
    (t.uR = false → (step s t).1.recvU = s.recvU) ∧ (step s t).1.kind = s.kind := by
  have hcR : (mask (events s) t).cR = false := by simp [mask, events, hm]
  obtain ⟨q, m, r, k⟩ := tick_quiet p0 s (mask (events s) t) hm hq hcR
  refine ⟨q, m, ?_, k⟩
  intro hu
  exact r (by simp [mask, hu])

theorem run_quiet (p0 : Bytes) (ticks : List Tick) (s : St) (hm : s.mustFlush = true) (hq : Quiet p0 s) :
    Quiet p0 (run s ticks).1 ∧ ((∀ t ∈ ticks, t.uR = false) → (run s ticks).1.recvU = s.recvU) ∧
    (run s ticks).1.kind = s.kind := by
  induction ticks generalizing s with
  | nil => exact ⟨hq, fun _ => rfl, rfl⟩
  | cons t ts ih =>
    obtain ⟨q1, m1, r1, k1⟩ := step_quiet p0 s t hm hq
    unfold run
    cases hst : step s t with
    | mk s1 ret =>
      rw [hst] at q1 m1 r1 k1
      simp only at q1 m1 r1 k1
      cases ret with
      | cont =>
        simp only
        obtain ⟨q2, r2, k2⟩ := ih s1 (m1 rfl) q1
        refine ⟨q2, ?_, by rw [k2, k1]⟩
        intro hall
        rw [r2 (fun t ht => hall t (List.mem_cons_of_mem _ ht)), r1 (hall t (List.mem_cons_self ..))]
      | teardown =>
        simp only
        exact ⟨q1, fun hall => r1 (hall t (List.mem_cons_self ..)), k1⟩
      | raised =>
        simp only
        exact ⟨q1, fun hall => r1 (hall t (List.mem_cons_self ..)), k1⟩

end Px.Intercept
