import PxModel.DrvParser
import PxProofs.ChunkLemmas
import PxProofs.ParserLemmas
/-!
# C03 — incremental HTTP parsing does not depend on how input is segmented

Property theorems; helper lemmas are in `PxProofs/BytesLemmas.lean`,
`PxProofs/ChunkLemmas.lean`, `PxProofs/ParserLemmas.lean`.  The models
(`PxModel/Chunk.lean`, `PxModel/Parser.lean`) are tied to
`proxy/http/parser/chunk.py` / `parser.py` by the correspondence check
`harness/c03.py`.

## Part 1 — the chunked-transfer decoder used on its own
-/
namespace Px.Chunk

/-- the standalone decoder fed one piece: `(state, remainder returned so far)` -/
def feed (s : Chunk × Bytes) (x : Bytes) : Except Err (Chunk × Bytes) :=
  match parse s.1 x with
  | .error e => .error e
  | .ok (c, r) => .ok (c, s.2 ++ r)

/-- … fed several pieces in order -/
def feedAll (s : Chunk × Bytes) : List Bytes → Except Err (Chunk × Bytes)
  | [] => .ok s
  | x :: xs => match feed s x with
    | .error e => .error e
    | .ok s' => feedAll s' xs

/-- `feedAll` is the function the correspondence harness runs against the real `ChunkParser` -/
theorem feedAll_eq_chunkFeed (c : Chunk) (acc : Bytes) (segs : List Bytes) :
    Px.Parser.chunkFeed c acc segs = feedAll (c, acc) segs := by
  induction segs generalizing c acc with
  | nil => rfl
  | cons x xs ih =>
    simp only [Px.Parser.chunkFeed, feedAll, feed]
    cases parse c x with
    | error e => rfl
    | ok p => exact ih p.1 (acc ++ p.2)

/-- **C03, chunk decoder, two pieces.**  From every well-formed decoder state
(`Chunk.WF`: every state reachable from `init`, see `C03_chunk_wf`), feeding
`a ++ b` in one piece gives the same state and the same returned remainder as
feeding `a` and then `b` — including errors: one side raises iff the other does. -/
theorem C03_chunk_feed_append (c : Chunk) (acc a b : Bytes) (h : c.WF) :
    feed (c, acc) (a ++ b) = (feed (c, acc) a).bind (fun s => feed s b) := by
  simp only [feed, parse_append (h.live a) b, andThen]
  cases parse c a with
  | error e => rfl
  | ok p =>
    obtain ⟨c', r⟩ := p
    simp only [Except.bind]
    cases parse c' b with
    | error e => rfl
    | ok q => simp [List.append_assoc]

/-- well-formedness is an invariant: it holds initially and after every successful feed;
    bytes are handed back only by a decoder that is complete -/
theorem C03_chunk_wf : init.WF ∧ ∀ (c : Chunk) (acc x : Bytes) (c' : Chunk) (acc' : Bytes), c.WF →
    feed (c, acc) x = .ok (c', acc') → c'.WF ∧ (acc' ≠ acc → c'.state = .complete) := by
  refine ⟨wf_init, ?_⟩
  intro c acc x c' acc' h hf
  simp only [feed] at hf
  cases hp : parse c x with
  | error e => simp [hp] at hf
  | ok p =>
    obtain ⟨c1, r⟩ := p
    simp only [hp, Except.ok.injEq, Prod.mk.injEq] at hf
    obtain ⟨rfl, rfl⟩ := hf
    obtain ⟨h1, h2⟩ := parse_wf (h.live x) hp
    exact ⟨h1, fun hne => h2 (fun hr => hne (by simp [hr]))⟩

/-- **C03, chunk decoder, any segmentation.**  Cutting the input into any number
of pieces at any positions (empty pieces included) does not change the outcome. -/
theorem C03_chunk_segmentation (c : Chunk) (acc : Bytes) (segs : List Bytes) (x : Bytes) (h : c.WF)
    (hx : segs.flatten = x) : feedAll (c, acc) segs = feed (c, acc) x := by
  subst hx
  induction segs generalizing c acc with
  | nil => simp [feedAll, feed, parse_done]
  | cons a rest ih =>
    rw [List.flatten_cons, C03_chunk_feed_append c acc a _ h, feedAll]
    cases hf : feed (c, acc) a with
    | error e => rfl
    | ok s' =>
      obtain ⟨c', acc'⟩ := s'
      exact ih c' acc' (C03_chunk_wf.2 c acc a c' acc' h hf).1

/-- **C03, chunk decoder, exact completion.**  For every valid chunked body `s`
(`ChunkedStream`: size lines whose size text is anything `int(·, 16)` accepts,
optional `;extension`, data, CRLFs, last chunk `0 CRLF CRLF`; trailer fields
are *not* part of the grammar — the decoder does not support them) and every
tail `t`: the decoder fed `render s ++ t` is complete, holds exactly the
decoded body, and hands back exactly `t`; and after any strict prefix of
`render s` it has not raised and is not complete. -/
theorem C03_chunk_exact_completion (s : ChunkedStream) (hv : s.Valid) (t : Bytes) :
    feed (init, []) (s.render ++ t) =
      .ok ({ state := .complete, body := s.decoded, chunk := [], size := none }, t) ∧
    ∀ p q, s.render = p ++ q → q ≠ [] →
      ∃ c r, feed (init, []) p = .ok (c, r) ∧ c.state ≠ .complete := by
  constructor
  · simp only [feed, parse_stream s hv init rfl rfl t]
    simp [init]
  · intro p q hpq hq
    have hw := parse_stream s hv init rfl rfl []
    rw [List.append_nil, hpq, parse_append (wf_init.live p) q] at hw
    simp only [feed]
    cases hp : parse init p with
    | error e => simp [hp, andThen] at hw
    | ok pr =>
      obtain ⟨c', r⟩ := pr
      refine ⟨c', [] ++ r, rfl, ?_⟩
      intro hc
      rw [hp, andThen_complete hc] at hw
      simp only [Except.ok.injEq, Prod.mk.injEq, List.append_eq_nil_iff] at hw
      exact hq hw.2.2

/-! non-vacuity of the hypotheses -/

/-- a reachable, non-initial well-formed state (2 of 5 data bytes received) -/
example : ({ state := .waitingForData, size := some 5, chunk := [104, 105], body := [120] } : Chunk).WF :=
  fun _ => ⟨5, rfl, by decide⟩
/-- a held-back stash is well-formed too -/
example : ({ state := .waitingForSize, chunk := [48, 13] } : Chunk).WF := fun h => by simp at h

/-- `5\r\nhello\r\nA;x=1\r\n0123456789\r\n0\r\n\r\n` -/
example : (ChunkedStream.chunk [53] [] [104, 101, 108, 108, 111]
    (.chunk [65] [59, 120, 61, 49] [48, 49, 50, 51, 52, 53, 54, 55, 56, 57] (.last [48] []))).Valid := by
  refine ⟨⟨by decide, by decide, by decide, .inl rfl⟩, by decide,
    ⟨by decide, by decide, by decide, .inr (by decide)⟩, by decide,
    ⟨by decide, by decide, by decide, .inl rfl⟩⟩

end Px.Chunk

/-! ## Part 2 — `HttpParser` -/
namespace Px.Parser

/-- **C03, carried-over bytes are unread input.**  A parser holding unparsed
bytes `bf` in its buffer, fed a non-empty piece `x`, behaves exactly like the
same parser with an empty buffer fed `bf ++ x` — same result or same error —
up to the byte counter `total_size` (which counts `x` only). -/
theorem C03_buffer_carry (cfg : Cfg) (p : Parser) (bf x : Bytes) (hb : p.buffer = some bf) (hx : x ≠ []) :
    parse cfg p x =
      (parse cfg { p with buffer := none } (bf ++ x)).map (setTotal (p.totalSize + x.length)) :=
  buffer_carry cfg p bf x hb hx

/-- non-vacuity: a request parser that has buffered `GE` -/
example : ({ ty := .request, buffer := some [71, 69], totalSize := 2 } : Parser).buffer = some [71, 69] ∧
    ([84] : Bytes) ≠ [] := ⟨rfl, by decide⟩

end Px.Parser
