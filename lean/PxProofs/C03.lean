import PxModel.DrvParser
import PxProofs.ChunkLemmas
import PxProofs.ParserLemmasF
/-!
# C03 — incremental HTTP parsing does not depend on how input is segmented

Property theorems; helper lemmas are in `PxProofs/BytesLemmas.lean`,
`PxProofs/ChunkLemmas.lean`, `PxProofs/ParserLemmas.lean` (+ parts `B`–`F`).  The models
(`PxModel/Chunk.lean`, `PxModel/Parser.lean`) are tied to
`proxy/http/parser/chunk.py` / `parser.py` by the correspondence check
`harness/c03.py`.

## Part 1 — the chunked-transfer decoder used on its own
-/
namespace Px.Chunk

/-- the standalone decoder fed one piece: `(state, remainder returned so far)` -/
def feed (s : Chunk × Bytes) (x : Bytes) : Except Err (Chunk × Bytes) :=
  match parse s.1 x with
  | .error e => .error e
  | .ok (c, r) => .ok (c, s.2 ++ r)

/-- … fed several pieces in order -/
def feedAll (s : Chunk × Bytes) : List Bytes → Except Err (Chunk × Bytes)
  | [] => .ok s
  | x :: xs => match feed s x with
    | .error e => .error e
    | .ok s' => feedAll s' xs

/-- `feedAll` is the function the correspondence harness runs against the real `ChunkParser` -/
theorem feedAll_eq_chunkFeed (c : Chunk) (acc : Bytes) (segs : List Bytes) :
    Px.Parser.chunkFeed c acc segs = feedAll (c, acc) segs := by
  induction segs generalizing c acc with
  | nil => rfl
  | cons x xs ih =>
    simp only [Px.Parser.chunkFeed, feedAll, feed]
    cases parse c x with
    | error e => rfl
    | ok p => exact ih p.1 (acc ++ p.2)

/-- **C03, chunk decoder, two pieces.**  From every well-formed decoder state
(`Chunk.WF`: every state reachable from `init`, see `C03_chunk_wf`), feeding
`a ++ b` in one piece gives the same state and the same returned remainder as
feeding `a` and then `b` — including errors: one side raises iff the other does. -/
theorem C03_chunk_feed_append (c : Chunk) (acc a b : Bytes) (h : c.WF) :
    feed (c, acc) (a ++ b) = (feed (c, acc) a).bind (fun s => feed s b) := by
  simp only [feed, parse_append (h.live a) b, andThen]
  cases parse c a with
  | error e => rfl
  | ok p =>
    obtain ⟨c', r⟩ := p
    simp only [Except.bind]
    cases parse c' b with
    | error e => rfl
    | ok q => simp [List.append_assoc]

/-- well-formedness is an invariant: it holds initially and after every successful feed;
    bytes are handed back only by a decoder that is complete -/
theorem C03_chunk_wf : init.WF ∧ ∀ (c : Chunk) (acc x : Bytes) (c' : Chunk) (acc' : Bytes), c.WF →
    feed (c, acc) x = .ok (c', acc') → c'.WF ∧ (acc' ≠ acc → c'.state = .complete) := by
  refine ⟨wf_init, ?_⟩
  intro c acc x c' acc' h hf
  simp only [feed] at hf
  cases hp : parse c x with
  | error e => simp [hp] at hf
  | ok p =>
    obtain ⟨c1, r⟩ := p
    simp only [hp, Except.ok.injEq, Prod.mk.injEq] at hf
    obtain ⟨rfl, rfl⟩ := hf
    obtain ⟨h1, h2⟩ := parse_wf (h.live x) hp
    exact ⟨h1, fun hne => h2 (fun hr => hne (by simp [hr]))⟩

/-- **C03, chunk decoder, any segmentation.**  Cutting the input into any number
of pieces at any positions (empty pieces included) does not change the outcome. -/
theorem C03_chunk_segmentation (c : Chunk) (acc : Bytes) (segs : List Bytes) (x : Bytes) (h : c.WF)
    (hx : segs.flatten = x) : feedAll (c, acc) segs = feed (c, acc) x := by
  subst hx
  induction segs generalizing c acc with
  | nil => simp [feedAll, feed, parse_done]
  | cons a rest ih =>
    rw [List.flatten_cons, C03_chunk_feed_append c acc a _ h, feedAll]
    cases hf : feed (c, acc) a with
    | error e => rfl
    | ok s' =>
      obtain ⟨c', acc'⟩ := s'
      exact ih c' acc' (C03_chunk_wf.2 c acc a c' acc' h hf).1

/-- **C03, chunk decoder, exact completion.**  For every valid chunked body `s`
(`ChunkedStream`: size lines whose size text is anything `int(·, 16)` accepts,
optional `;extension`, data, CRLFs, last chunk `0 CRLF CRLF`; trailer fields
are *not* part of the grammar — the decoder does not support them) and every
tail `t`: the decoder fed `render s ++ t` is complete, holds exactly the
decoded body, and hands back exactly `t`; and after any strict prefix of
`render s` it has not raised and is not complete. -/
theorem C03_chunk_exact_completion (s : ChunkedStream) (hv : s.Valid) (t : Bytes) :
    feed (init, []) (s.render ++ t) =
      .ok ({ state := .complete, body := s.decoded, chunk := [], size := none }, t) ∧
    ∀ p q, s.render = p ++ q → q ≠ [] →
      ∃ c r, feed (init, []) p = .ok (c, r) ∧ c.state ≠ .complete := by
  constructor
  · simp only [feed, parse_stream s hv init rfl rfl t]
    simp [init]
  · intro p q hpq hq
    have hw := parse_stream s hv init rfl rfl []
    rw [List.append_nil, hpq, parse_append (wf_init.live p) q] at hw
    simp only [feed]
    cases hp : parse init p with
    | error e => simp [hp, andThen] at hw
    | ok pr =>
      obtain ⟨c', r⟩ := pr
      refine ⟨c', [] ++ r, rfl, ?_⟩
      intro hc
      rw [hp, andThen_complete hc] at hw
      simp only [Except.ok.injEq, Prod.mk.injEq, List.append_eq_nil_iff] at hw
      exact hq hw.2.2

/-! non-vacuity of the hypotheses -/

/-- a reachable, non-initial well-formed state (2 of 5 data bytes received) -/
example : ({ state := .waitingForData, size := some 5, chunk := [104, 105], body := [120] } : Chunk).WF :=
  fun _ => ⟨5, rfl, by decide⟩
/-- a held-back stash is well-formed too -/
example : ({ state := .waitingForSize, chunk := [48, 13] } : Chunk).WF := fun h => by simp at h

/-- `5\r\nhello\r\nA;x=1\r\n0123456789\r\n0\r\n\r\n` -/
example : (ChunkedStream.chunk [53] [] [104, 101, 108, 108, 111]
    (.chunk [65] [59, 120, 61, 49] [48, 49, 50, 51, 52, 53, 54, 55, 56, 57] (.last [48] []))).Valid := by
  refine ⟨⟨by decide, by decide, by decide, .inl rfl⟩, by decide,
    ⟨by decide, by decide, by decide, .inr (by decide)⟩, by decide,
    ⟨by decide, by decide, by decide, .inl rfl⟩⟩

/-- the sizes written by `'{:x}'.format(n)` (`natToHex`, used by `ChunkParser.to_chunks`) are size lines -/
example : SizeLine (natToHex 0) [] 0 ∧ SizeLine (natToHex 10) [] 10 ∧ SizeLine (natToHex 255) [] 255 ∧
    SizeLine (natToHex 4096) [] 4096 ∧ SizeLine (natToHex 1048575) [59, 97] 1048575 := by
  refine ⟨⟨?_, ?_, ?_, .inl rfl⟩, ⟨?_, ?_, ?_, .inl rfl⟩, ⟨?_, ?_, ?_, .inl rfl⟩, ⟨?_, ?_, ?_, .inl rfl⟩,
    ⟨?_, ?_, ?_, .inr rfl⟩⟩ <;> decide +kernel

end Px.Chunk

/-! ## Part 2 — `HttpParser` -/
namespace Px.Parser

/-- **C03, carried-over bytes are unread input.**  A parser holding unparsed
bytes `bf` in its buffer, fed a non-empty piece `x`, behaves exactly like the
same parser with an empty buffer fed `bf ++ x` — same result or same error —
up to the byte counter `total_size` (which counts `x` only). -/
theorem C03_buffer_carry (cfg : Cfg) (p : Parser) (bf x : Bytes) (hb : p.buffer = some bf) (hx : x ≠ []) :
    parse cfg p x =
      (parse cfg { p with buffer := none } (bf ++ x)).map (setTotal (p.totalSize + x.length)) :=
  buffer_carry cfg p bf x hb hx

/-- non-vacuity: a request parser that has buffered `GE` -/
example : ({ ty := .request, buffer := some [71, 69], totalSize := 2 } : Parser).buffer = some [71, 69] ∧
    ([84] : Bytes) ≠ [] := ⟨rfl, by decide⟩


/-- `HTTP/1.1 200 OK\r\nContent-Length: 2\r\n\r\nhi` -/
def exampleResponse : Bytes :=
  [72, 84, 84, 80, 47, 49, 46, 49, 32, 50, 48, 48, 32, 79, 75, 13, 10, 67, 111, 110, 116, 101, 110, 116, 45,
   76, 101, 110, 103, 116, 104, 58, 32, 50, 13, 10, 13, 10, 104, 105]

/-- **C03, well-formed parser states.**  `Parser.WF` (the invariant `Inv` of
`ParserLemmasB.lean`: chunk sub-decoder well-formed, `contentExpected` backed by
a positive Content-Length larger than the body received so far, no body/framing
flags before the headers, framing known in the body phase; plus: a present
buffer is non-empty) holds for fresh parsers and is kept by every successful
`parse`. -/
theorem C03_wf (cfg : Cfg) : (∀ ty, WF (init ty)) ∧
    ∀ (p p' : Parser) (x : Bytes), WF p → parse cfg p x = .ok p' → WF p' :=
  ⟨wf_init, fun _ _ _ hw h => parse_wf cfg hw h⟩

/-- **C03, two pieces (full parser state).**  From every well-formed parser
state — request or response, whatever phase it is in, whatever it has buffered —
feeding `a ++ b` in one piece gives exactly the same parser (every field:
state, start-line fields, headers, body, chunk sub-decoder, buffer, byte
counter) as feeding `a` and then `b`, and raises exactly when the two-piece
feed raises (so the converse direction holds as well: if the whole is `ok q`
then the first piece is `ok p'` and the second is `ok q`).
Excluded (`closeDelimited`): inputs after which the whole feed is inside the
body of a response that has neither `Transfer-Encoding: chunked` nor a
`Content-Length` header — there the real parser's answer legitimately depends on
where the input was cut (the body is delimited by connection close). -/
theorem C03_feed_append (cfg : Cfg) (p : Parser) (a b : Bytes) (hw : WF p)
    (hg : ∀ q, parse cfg p (a ++ b) = .ok q → closeDelimited q = false) :
    parse cfg p (a ++ b) = (parse cfg p a).bind (fun p' => parse cfg p' b) :=
  parse_append cfg a b hw hg

/-- **C03, any segmentation.**  Cutting the input of a fresh (or any
well-formed) parser into any number of pieces at any positions — empty pieces
included — does not change the resulting parser state or the error raised. -/
theorem C03_segmentation (cfg : Cfg) (ty : PType) (segs : List Bytes) (x : Bytes) (hx : segs.flatten = x)
    (hg : ∀ q, parse cfg (init ty) x = .ok q → closeDelimited q = false) :
    parseAll cfg (init ty) segs = parse cfg (init ty) x := by
  subst hx; exact parseAll_flatten cfg segs (wf_init ty) hg

/-- non-vacuity of `WF`: the state after `HTTP/1.1 200 OK\r\nContent-` is well-formed, is in the
    header phase and carries a non-empty buffer -/
example : ∀ p, parse {} (init .response) (exampleResponse.take 25) = .ok p → WF p :=
  fun _ h => parse_wf {} (wf_init _) h
example : (match parse {} (init .response) (exampleResponse.take 25) with
    | .ok p => p.state == .lineRcvd && p.buffer == some (exampleResponse.take 25 |>.drop 17)
    | .error _ => false) = true := by decide +kernel

/-- non-vacuity of the guard: a Content-Length response is not close-delimited (and complete) -/
example : ∀ q, parse {} (init .response) exampleResponse = .ok q → closeDelimited q = false := by
  have h : (match parse {} (init .response) exampleResponse with
      | .ok q => q.state == .complete && !closeDelimited q
      | .error _ => false) = true := by decide +kernel
  intro q hq
  rw [hq] at h
  simp only [Bool.and_eq_true, Bool.not_eq_true'] at h
  exact h.2

/-- for request parsers no input is excluded -/
theorem C03_segmentation_request (cfg : Cfg) (segs : List Bytes) (x : Bytes) (hx : segs.flatten = x) :
    parseAll cfg (init .request) segs = parse cfg (init .request) x :=
  C03_segmentation cfg .request segs x hx
    (fun _ hq => closeDelimited_request ((parse_ty cfg hq).trans rfl))

/-- … from any well-formed state -/
theorem C03_segmentation_from (cfg : Cfg) (p : Parser) (segs : List Bytes) (hw : WF p)
    (hg : ∀ q, parse cfg p segs.flatten = .ok q → closeDelimited q = false) :
    parseAll cfg p segs = parse cfg p segs.flatten :=
  parseAll_flatten cfg segs hw hg

/-- **C03, exact completion.**  For every well-formed self-delimiting message `m`
(`Msg.Valid`: request line `method SP target SP version` whose target
`Url.from_bytes` accepts, or status line `version SP code SP reason`; any
number of clean header fields `name: value` other than the framing headers;
framing by `Content-Length: n` + `n` body bytes (`n ≥ 0`, the text of `n` being
anything `int()` reads as `n`), by `Transfer-Encoding: chunked` + a valid
chunked stream (no trailers), or — requests only — no body) and every tail `t`:
a fresh parser fed `render m ++ t` in one piece is `COMPLETE`, holds the decoded
body, and keeps exactly `t` as unconsumed remainder; and fed any strict prefix
of `render m` it neither raises nor is `COMPLETE`.  (With `C03_segmentation`
the same holds for every way of cutting the input.) -/
theorem C03_exact_completion (cfg : Cfg) (m : Msg) (hv : m.Valid cfg) (t : Bytes) :
    (∃ q, parse cfg (init m.ty) (m.render ++ t) = .ok q ∧ q.state = .complete ∧
      q.body = m.body.decoded ∧ q.buffer = (if t.isEmpty then none else some t)) ∧
    ∀ p s, m.render = p ++ s → s ≠ [] →
      ∃ q', parse cfg (init m.ty) p = .ok q' ∧ q'.state ≠ .complete := by
  have hne : ∀ t, m.render ++ t ≠ [] := fun t => by simp [Msg.render, CRLF]
  have key : ∀ t, ∃ q, parse cfg (init m.ty) (m.render ++ t) = .ok q ∧ q.state = .complete ∧
      q.body = m.body.decoded ∧ q.buffer = (if t.isEmpty then none else some t) := by
    intro t
    obtain ⟨Q, hgo, hst, hbd⟩ := go_msg cfg m hv t
    refine ⟨finish (setTB (m.render ++ t).length none Q, t), ?_, hst, hbd, rfl⟩
    rw [parse_init_nonempty cfg _ (hne t), hgo]; rfl
  refine ⟨key t, ?_⟩
  obtain ⟨q, hq, hst, _, hbuf⟩ := key []
  rw [List.append_nil] at hq
  exact no_prefix_complete cfg (wf_init m.ty) hq hst (by simpa using hbuf)

/-- **C03, exact completion, header-less status line.**  `version SP code SP reason CRLF CRLF`
(e.g. `HTTP/1.1 200 Connection established`) completes a response parser exactly at its
last byte (no trailing bytes: what would follow is a close-delimited body). -/
theorem C03_exact_completion_statusline (cfg : Cfg) (line : Bytes) (hsl : StartLine cfg .response line) :
    (∃ q, parse cfg (init .response) (line ++ CRLF ++ CRLF) = .ok q ∧ q.state = .complete ∧
      q.buffer = none) ∧
    ∀ p s, line ++ CRLF ++ CRLF = p ++ s → s ≠ [] →
      ∃ q', parse cfg (init .response) p = .ok q' ∧ q'.state ≠ .complete := by
  obtain ⟨Q, hgo, hst⟩ := go_statusLine cfg hsl
  have hq : parse cfg (init .response) (line ++ CRLF ++ CRLF) =
      .ok (finish (setTB (line ++ CRLF ++ CRLF).length none Q, [])) := by
    rw [parse_init_nonempty cfg _ (by simp [CRLF]), hgo]; rfl
  exact ⟨⟨_, hq, hst, rfl⟩, no_prefix_complete cfg (wf_init _) hq hst rfl⟩

/-! non-vacuity: `POST /u HTTP/1.1`, `Host: a`, chunked body `1\r\nX\r\n0\r\n\r\n`
    (the target is accepted by `Url.fromBytes`: it starts with a single `/`) -/
example : (Msg.mk .request [80, 79, 83, 84, 32, 47, 117, 32, 72, 84, 84, 80, 47, 49, 46, 49]
    [([72, 111, 115, 116], [97])] (.chunked (.chunk [49] [] [88] (.last [48] [])))).Valid {} := by
  refine ⟨⟨by decide, [80, 79, 83, 84], [47, 117], [72, 84, 84, 80, 47, 49, 46, 49], rfl, by decide,
    by decide, fun _ => ⟨by decide, _, rfl⟩⟩, ?_, ?_⟩
  · intro kv hkv
    simp only [List.mem_singleton] at hkv
    subst hkv
    exact ⟨⟨by decide, by decide, by decide, by decide, by decide⟩, by decide +kernel, by decide +kernel⟩
  · exact ⟨⟨by decide, by decide, by decide, .inl rfl⟩, by decide, ⟨by decide, by decide, by decide, .inl rfl⟩⟩

/-- `HTTP/1.1 200 OK`, `Content-Length: 2`, body `hi` -/
example : (Msg.mk .response [72, 84, 84, 80, 47, 49, 46, 49, 32, 50, 48, 48, 32, 79, 75] []
    (.cl [50] [104, 105])).Valid {} := by
  refine ⟨⟨by decide, [72, 84, 84, 80, 47, 49, 46, 49], [50, 48, 48], [79, 75], rfl, by decide, by decide,
    fun h => by simp at h⟩, fun kv h => by simp at h, ?_, by decide⟩
  exact ⟨by decide +kernel, by decide +kernel, by decide, by decide +kernel, by decide +kernel⟩

/-- `HTTP/1.1 200 Connection established` is a status line -/
example : StartLine {} .response ([72, 84, 84, 80, 47, 49, 46, 49, 32, 50, 48, 48, 32] ++
    [67, 111, 110, 110, 101, 99, 116, 105, 111, 110, 32, 101, 115, 116, 97, 98, 108, 105, 115, 104, 101, 100]) :=
  ⟨by decide, [72, 84, 84, 80, 47, 49, 46, 49], [50, 48, 48], _, rfl, by decide, by decide, fun h => by simp at h⟩

end Px.Parser
