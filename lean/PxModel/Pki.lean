import PxModel.Bytes
import PxModel.Generated
/-
  Model of proxy/common/pki.py — `get_ext_config`, `ssl_config`, `ext_file`,
  `gen_public_key`, `gen_csr`, `sign_csr` (the argv handed to
  `run_openssl_command` and the bytes of the temporary config / ext file) —
  and of the certificate-cache path functions of proxy/http/proxy/server.py
  (`generated_cert_file_path`, the `.pub` / `.csr` paths of
  `gen_ca_signed_certificate`) with CPython's `posixpath.join`.

  A Python `str` is modelled by its UTF-8 bytes (`bytes_` / `text_` are then the
  identity).  The `openssl` CLI itself is not modelled: what it does with the
  argv is trusted.
-/
namespace Px.Pki
open Px

abbrev Str := Bytes

/-- `posixpath.join(a, p)` for two components -/
def pathJoin (a p : Str) : Str :=
  if p.head? == some 47 then p
  else if a.isEmpty || a.getLast? == some 47 then a ++ p
  else a ++ [47] ++ p

/-- `os.path.join(ca_cert_dir, '{0}.{1}'.format(host, ext))` -/
def cachePath (dir host ext : Str) : Str := pathJoin dir (host ++ [46] ++ ext)

/-- `HttpProxyPlugin.generated_cert_file_path(ca_cert_dir, host)` = `join(dir, '%s.pem' % host)` -/
def certFilePath (dir host : Str) : Str := cachePath dir host (b "pem")
def pubKeyPath (dir host : Str) : Str := cachePath dir host (b "pub")
def csrPath (dir host : Str) : Str := cachePath dir host (b "csr")

/-- kinds of subjectAltName entries (RFC 5280 GeneralName choices used for server identity) -/
inductive SanKind | dns | ip
  deriving DecidableEq, Repr

/-- `s[1:-1] if s.startswith('[') and s.endswith(']') else s`: IPv6 literals carry their
    brackets in `request.host` -/
def isBracketed (h : Str) : Bool := h.head? == some 91 && h.getLast? == some 93
def stripBrackets (h : Str) : Str := if isBracketed h then (h.drop 1).dropLast else h

/-- the kind of entry `get_ext_config` writes for a name; `isIp n` ⇔ `ipaddress.ip_address(n)`
    accepts `n` (a parameter: the `ipaddress` module is not modelled) -/
def kindOf (isIp : Str → Bool) (n : Str) : SanKind := if isIp n then .ip else .dns

/-- one entry per name: `IP:` for address literals, `DNS:` otherwise -/
def sanEntries (isIp : Str → Bool) (names : List Str) : List (SanKind × Str) :=
  names.map (fun n => (kindOf isIp n, n))

def kindPrefix : SanKind → Bytes
  | .dns => Gen.pkiSanEntryPrefix
  | .ip => Gen.pkiSanIpEntryPrefix

/-- `b'\nsubjectAltName=' + COMMA.join([b'IP:%s' % n if is_ip(n) else b'DNS:%s' % n for n in alt_subj_names])` -/
def sanLine (isIp : Str → Bool) (names : List Str) : Bytes :=
  Gen.pkiSanHeader ++ join Gen.comma ((sanEntries isIp names).map (fun e => kindPrefix e.1 ++ e.2))

/-- `alt_subj_names is not None and len(alt_subj_names) > 0` -/
def hasNames : Option (List Str) → Bool
  | some (_ :: _) => true
  | _ => false

/-- `get_ext_config(alt_subj_names, extended_key_usage)` -/
def extConfig (isIp : Str → Bool) (alt : Option (List Str)) (eku : Option Str) : Bytes :=
  (if hasNames alt then sanLine isIp (alt.getD []) else []) ++
  (match eku with
   | some e => Gen.pkiEkuHeader ++ e
   | none => [])

/-- `has_extension` of `ssl_config` -/
def hasExtension (alt : Option (List Str)) (eku : Option Str) : Bool := hasNames alt || eku.isSome

/-- content of the temporary file written by `ssl_config` -/
def sslConfig (isIp : Str → Bool) (alt : Option (List Str)) (eku : Option Str) : Bytes :=
  Gen.pkiDefaultConfig ++ (if hasExtension alt eku then Gen.pkiProxySection else []) ++ extConfig isIp alt eku

/-- one `run_openssl_command`: the argv, the temporary file that exists while it
    runs (path, content) and the file the command is asked to create (`-out`) -/
structure Call where
  argv : List Str
  file : Option (Str × Bytes)
  out : Str
  deriving DecidableEq, Repr

/-- `gen_public_key(...)`; `tmp` is the `uuid4` temp path of `ssl_config` -/
def genPublicKey (isIp : Str → Bool) (openssl pubPath keyPath pw subject : Str) (alt : Option (List Str))
    (eku : Option Str) (days : Nat) (tmp : Str) : Call :=
  { argv := [openssl, b "req", b "-new", b "-x509", b "-sha256", b "-days", natToDec days, b "-subj", subject,
             b "-passin", b "pass:" ++ pw, b "-config", tmp, b "-key", keyPath, b "-out", pubPath] ++
            (if hasExtension alt eku then [b "-extensions", b "PROXY"] else []),
    file := some (tmp, sslConfig isIp alt eku), out := pubPath }

/-- `gen_csr(csr_path, key_path, password, crt_path)` -/
def genCsr (openssl csrP keyPath pw crtPath : Str) : Call :=
  { argv := [openssl, b "x509", b "-x509toreq", b "-passin", b "pass:" ++ pw, b "-in", crtPath,
             b "-signkey", keyPath, b "-out", csrP],
    file := none, out := csrP }

/-- `sign_csr(...)`; `tmp` is the temp path of `ext_file` -/
def signCsr (isIp : Str → Bool) (openssl csrP crtPath caKey caPw caCrt serial : Str) (alt : Option (List Str))
    (eku : Option Str) (days : Nat) (tmp : Str) : Call :=
  { argv := [openssl, b "x509", b "-req", b "-sha256", b "-CA", caCrt, b "-CAkey", caKey,
             b "-passin", b "pass:" ++ caPw, b "-set_serial", serial, b "-days", natToDec days,
             b "-extfile", tmp, b "-in", csrP, b "-out", crtPath],
    file := some (tmp, extConfig isIp alt eku), out := crtPath }

/-! ### certificate subject copied from the upstream leaf (`gen_ca_signed_certificate`) -/

/-- `keys` in iteration order: short name, key of `upstream_subject` -/
def subjectKeys : List (Str × Str) :=
  [(b "CN", b "commonName"), (b "C", b "countryName"), (b "ST", b "stateOrProvinceName"),
   (b "L", b "localityName"), (b "O", b "organizationName"), (b "OU", b "organizationalUnitName")]

/-- `{s[0][0]: s[0][1] for s in certificate['subject']}.get(k)`: the last RDN of that type wins -/
def dictGet (d : List (Str × Str)) (k : Str) : Option Str :=
  (d.reverse.find? (fun e => e.1 == k)).map (·.2)

/-- `subject += '/{0}={1}'.format(key, value)` for every key with a truthy value -/
def buildSubject (up : List (Str × Str)) : Str :=
  subjectKeys.foldl (fun acc kl =>
    match dictGet up kl.2 with
    | some v => if v.isEmpty then acc else acc ++ [47] ++ kl.1 ++ [61] ++ v
    | none => acc) []

end Px.Pki
