import PxModel.Bytes
import PxModel.Generated
/-
  Model of proxy/core/connection/connection.py (`TcpConnection`): the FIFO of
  not-yet-sent byte strings of one peer and `queue` / `flush` / `has_buffer` /
  `recv`, statement by statement.  Syscall outcomes are inputs.
-/
namespace Px

/-- outcome of one `socket.send(data)` made by the proxy.  `sent k`: the kernel
    accepted `min k (len data)` bytes (a `send` never reports more than it was
    offered — the kernel's contract, built into `Conn.flush`); the others are the
    exceptions `BlockingIOError`, `BrokenPipeError`, any other `OSError`,
    `ssl.SSLWantWriteError`. -/
inductive SendOut
  | sent (k : Nat) | blocking | brokenPipe | osError | sslWantWrite
  deriving DecidableEq, Repr

/-- outcome of one `socket.recv(n)`: a segment, end of stream (`b''`),
    `ConnectionResetError`, `TimeoutError(ETIMEDOUT)`, any other `OSError`,
    `BlockingIOError`, `ssl.SSLWantReadError`. -/
inductive RecvOut
  | data (b : Bytes) | eof | reset | timedOut | osError | blocking | sslWantRead
  deriving DecidableEq, Repr

/-- exceptions that escape `TcpConnection.flush` (`BlockingIOError` does not) -/
inductive FlushExc | brokenPipe | osError | sslWantWrite
  deriving DecidableEq, Repr

/-- `TcpConnection`: `buffer` (the list of memoryviews; `_num_buffer` is its
    length) and `closed`. -/
structure Conn where
  buffer : List Bytes := []
  closed : Bool := false
  deriving DecidableEq, Repr

/-- what one `flush()` call did -/
structure FlushRes where
  conn : Conn
  /-- argument of the `send` call, if one was made -/
  offered : Option Bytes
  /-- bytes accepted by that `send` (the return value of `flush`; 0 on would-block) -/
  accepted : Nat
  exc : Option FlushExc
  deriving DecidableEq, Repr

namespace Conn

/-- `has_buffer()`: `_num_buffer != 0` -/
def hasBuffer (c : Conn) : Bool := !c.buffer.isEmpty

/-- `queue(mv)`: `buffer.append(mv); _num_buffer += 1` -/
def queue (c : Conn) (mv : Bytes) : Conn := { c with buffer := c.buffer ++ [mv] }

/-- `max_send_size or DEFAULT_MAX_SEND_SIZE` -/
def effMax (maxSend : Nat) : Nat := if maxSend = 0 then Gen.defaultMaxSendSize else maxSend

/-- `flush(max_send_size)`:
    ```
    if not self.has_buffer(): return 0
    mv = self.buffer[0]
    try: sent = self.send(mv[:max_send_size])
    except BlockingIOError: return 0
    if sent == len(mv): self.buffer.pop(0)
    else: self.buffer[0] = mv[sent:]
    return sent
    ``` -/
def flush (maxSend : Nat) (c : Conn) (o : SendOut) : FlushRes :=
  match c.buffer with
  | [] => ⟨c, none, 0, none⟩
  | mv :: rest =>
    let off := mv.take (effMax maxSend)
    match o with
    | .blocking => ⟨c, some off, 0, none⟩
    | .brokenPipe => ⟨c, some off, 0, some .brokenPipe⟩
    | .osError => ⟨c, some off, 0, some .osError⟩
    | .sslWantWrite => ⟨c, some off, 0, some .sslWantWrite⟩
    | .sent k =>
      let sent := min k off.length
      if sent = mv.length then ⟨{ c with buffer := rest }, some off, sent, none⟩
      else ⟨{ c with buffer := mv.drop sent :: rest }, some off, sent, none⟩

/-- all bytes still queued -/
def pendingBytes (c : Conn) : Bytes := c.buffer.flatten

/-- progress measure: queued bytes plus queued elements (an element may be the
    empty byte string; popping it is progress too) -/
def pending (c : Conn) : Nat := c.buffer.flatten.length + c.buffer.length

end Conn

/-- the bytes a flush actually put on the wire -/
def FlushRes.wire (r : FlushRes) : Bytes := (r.offered.getD []).take r.accepted

/-- `TcpConnection.recv`: `None` for an empty read, else the segment; exceptions
    pass through. -/
inductive Recvd | none_ | seg (b : Bytes) | exc (o : RecvOut)
  deriving DecidableEq, Repr

def Conn.recv (o : RecvOut) : Recvd :=
  match o with
  | .data b => if b.isEmpty then .none_ else .seg b
  | .eof => .none_
  | e => .exc e

end Px
