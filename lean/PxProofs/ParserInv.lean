import PxModel.Parser
import PxProofs.BuildLemmas
/-!
# The header map of any parser reached from a fresh one (C15)

`KeysInv`: keys are unique and each key is the lower-cased original name stored with it.
`parseAll_keysInv`: it holds after any sequence of `parse` calls on a fresh parser — so the
"case-insensitively unique names" part of the rebuild guard (`hdrInvB`) is automatic.
-/
namespace Px.Codec

open Px.Parser

def KeysInv (h : Headers) : Prop := (h.map (·.1)).Nodup ∧ ∀ e ∈ h, e.1 = lower e.2.1

def PInv (p : Parser) : Prop := ∀ h, p.headers = some h → KeysInv h

theorem keysInv_nil : KeysInv [] := ⟨by simp, by simp⟩

theorem keysInv_hdrSet {h : Headers} (hi : KeysInv h) (k v : Bytes) : KeysInv (hdrSet h (lower k) (k, v)) := by
  obtain ⟨hnd, hk⟩ := hi
  unfold hdrSet
  split
  · constructor
    · have : (h.map (fun e => if (e.1 == lower k) = true then (lower k, (k, v)) else e)).map (·.1) = h.map (·.1) := by
        rw [List.map_map]
        apply List.map_congr_left
        intro a _
        simp only [Function.comp]
        by_cases hak : (a.1 == lower k) = true
        · simp only [hak, if_true]; exact (by simpa using hak : a.1 = lower k).symm
        · simp [hak]
      rw [this]; exact hnd
    · intro e he
      simp only [List.mem_map] at he
      obtain ⟨a, ha, rfl⟩ := he
      by_cases hak : (a.1 == lower k) = true
      · simp [hak]
      · simp only [hak, Bool.false_eq_true, if_false]; exact hk a ha
  · rename_i hno
    constructor
    · simp only [List.map_append, List.map_cons, List.map_nil]
      rw [List.nodup_append]
      refine ⟨hnd, by simp, ?_⟩
      intro x hx y hy
      simp only [List.mem_singleton] at hy
      subst hy
      simp only [List.mem_map] at hx
      obtain ⟨a, ha, rfl⟩ := hx
      intro heq
      exact hno (List.any_eq_true.2 ⟨a, ha, by simp [heq]⟩)
    · intro e he
      simp only [List.mem_append, List.mem_singleton] at he
      rcases he with he | rfl
      · exact hk e he
      · rfl

theorem pinv_addHeader {p : Parser} (hi : PInv p) (k v : Bytes) : PInv (addHeader p k v) := by
  intro h hh
  simp only [addHeader, Option.some.injEq] at hh
  subst hh
  apply keysInv_hdrSet
  cases hp : p.headers with
  | none => exact keysInv_nil
  | some h0 => exact hi h0 hp

theorem pinv_of_headers_eq {p q : Parser} (hi : PInv p) (h : q.headers = p.headers) : PInv q :=
  fun x hx => hi x (h ▸ hx)

theorem processHeader_headers {p q : Parser} {line : Bytes} (h : processHeader p line = .ok q) :
    ∃ k v, q.headers = (addHeader p k v).headers := by
  unfold processHeader at h
  split at h
  rename_i key value _
  refine ⟨key, value, ?_⟩
  simp only at h
  split at h
  · split at h
    · simp at h
    · simp only [Except.ok.injEq] at h; subst h; rfl
  · split at h <;> (simp only [Except.ok.injEq] at h; subst h; rfl)

theorem pinv_processHeader {p q : Parser} {line : Bytes} (hi : PInv p) (h : processHeader p line = .ok q) :
    PInv q := by
  obtain ⟨k, v, hq⟩ := processHeader_headers h
  exact pinv_of_headers_eq (pinv_addHeader hi k v) hq

theorem pinv_processHeaders (fuel : Nat) {p q : Parser} {raw : Bytes} {m : Bool} {r : Bytes} (hi : PInv p)
    (h : processHeaders fuel p raw = .ok (q, m, r)) : PInv q := by
  induction fuel generalizing p raw with
  | zero => simp only [processHeaders, Except.ok.injEq, Prod.mk.injEq] at h; rw [← h.1]; exact hi
  | succ fuel ih =>
    rw [processHeaders] at h
    split at h
    · simp only [Except.ok.injEq, Prod.mk.injEq] at h; rw [← h.1]; exact hi
    · rename_i line rest _
      simp only at h
      split at h
      · simp at h
      · rename_i p1 hstep
        have hp1 : PInv p1 := by
          split at hstep
          · split at hstep
            · simp only [Except.ok.injEq] at hstep; subst hstep
              exact pinv_of_headers_eq hi rfl
            · exact pinv_processHeader (p := { p with state := .rcvingHeaders }) (pinv_of_headers_eq hi rfl) hstep
          · simp only [Except.ok.injEq] at hstep; subst hstep; exact hi
        split at h
        · simp only [Except.ok.injEq, Prod.mk.injEq] at h; rw [← h.1]; exact hp1
        · exact ih hp1 h

theorem setLineAttributes_headers (cfg : Cfg) (p : Parser) (u : Px.Url.Url) :
    (setLineAttributes cfg p u).headers = p.headers := by
  unfold setLineAttributes; split <;> rfl

theorem pinv_processLine (cfg : Cfg) {p q : Parser} {raw : Bytes} {m : Bool} {r : Bytes} (hi : PInv p)
    (h : processLine cfg p raw = .ok (q, m, r)) : PInv q := by
  unfold processLine at h
  split at h
  · simp only [Except.ok.injEq, Prod.mk.injEq] at h; rw [← h.1]; exact hi
  · split at h
    · split at h
      · split at h
        · simp at h
        · split at h
          · simp at h
          · simp only [Except.ok.injEq, Prod.mk.injEq] at h
            rw [← h.1]
            apply pinv_of_headers_eq hi
            simp only [setLineAttributes_headers]
      · simp at h
    · split at h
      · simp only [Except.ok.injEq, Prod.mk.injEq] at h; rw [← h.1]; exact pinv_of_headers_eq hi rfl
      · simp only [Except.ok.injEq, Prod.mk.injEq] at h; rw [← h.1]; exact pinv_of_headers_eq hi rfl
      · simp at h

theorem pinv_processBody {p q : Parser} {raw : Bytes} {m : Bool} {r : Bytes} (hi : PInv p)
    (h : processBody p raw = .ok (q, m, r)) : PInv q := by
  by_cases hch : p.isChunked = true
  · simp only [processBody, hch, if_true] at h
    cases hcp : Px.Chunk.parse (p.chunk.getD Px.Chunk.init) raw with
    | error e => simp [hcp] at h
    | ok t =>
      obtain ⟨c, rest⟩ := t
      simp only [hcp, Except.ok.injEq, Prod.mk.injEq] at h
      rw [← h.1]
      split <;> exact pinv_of_headers_eq hi rfl
  · have hch' : p.isChunked = false := by simpa using hch
    by_cases hce : p.contentExpected = true
    · simp only [processBody, hch', Bool.false_eq_true, if_false, hce, if_true] at h
      cases hhd : header p (b "content-length") with
      | error e => simp [hhd] at h
      | ok clv =>
        simp only [hhd] at h
        cases hint : pyInt 10 clv with
        | none => simp [hint] at h
        | some cl =>
          simp only [hint, Except.ok.injEq, Prod.mk.injEq] at h
          rw [← h.1]; exact pinv_of_headers_eq hi rfl
    · have hce' : p.contentExpected = false := by simpa using hce
      simp only [processBody, hch', hce', Bool.false_eq_true, if_false, Except.ok.injEq, Prod.mk.injEq] at h
      rw [← h.1]; exact pinv_of_headers_eq hi rfl

theorem pinv_stepOnce (cfg : Cfg) {p q : Parser} {raw : Bytes} {m : Bool} {r : Bytes} (hi : PInv p)
    (h : stepOnce cfg p raw = .ok (q, m, r)) : PInv q := by
  -- the sub-automaton that ran
  have hsub : ∀ res, (if p.state.num ≥ PState.headersComplete.num then processBody p raw
      else if p.state == .initialized then processLine cfg p raw
      else processHeaders (raw.length + 1) p raw) = .ok res → PInv res.1 := by
    intro res hres
    obtain ⟨p1, m1, r1⟩ := res
    by_cases h1 : p.state.num ≥ PState.headersComplete.num
    · rw [if_pos h1] at hres; exact pinv_processBody hi hres
    · rw [if_neg h1] at hres
      by_cases h2 : (p.state == PState.initialized) = true
      · rw [if_pos h2] at hres; exact pinv_processLine cfg hi hres
      · rw [if_neg h2] at hres; exact pinv_processHeaders _ hi hres
  unfold stepOnce at h
  simp only at h
  generalize hr : (if p.state.num ≥ PState.headersComplete.num then processBody p raw
      else if (p.state == PState.initialized) = true then processLine cfg p raw
      else processHeaders (raw.length + 1) p raw) = res at h
  cases res with
  | error e => simp at h
  | ok t =>
    have hp1 := hsub t hr
    obtain ⟨p1, m1, r1⟩ := t
    simp only at h hp1
    by_cases c1 : (p1.ty == PType.response && p1.state == PState.lineRcvd && r1 == CRLF) = true
    · rw [if_pos c1] at h
      simp only [Except.ok.injEq, Prod.mk.injEq] at h; rw [← h.1]; exact pinv_of_headers_eq hp1 rfl
    · rw [if_neg c1] at h
      by_cases c2 : (p1.state == PState.headersComplete && !(p1.contentExpected || p1.isChunked) &&
          (r1.isEmpty || p1.ty == PType.request || hasHeader p1 (b "content-length"))) = true
      · rw [if_pos c2] at h
        simp only [Except.ok.injEq, Prod.mk.injEq] at h; rw [← h.1]; exact pinv_of_headers_eq hp1 rfl
      · rw [if_neg c2] at h
        simp only [Except.ok.injEq, Prod.mk.injEq] at h; rw [← h.1]; exact hp1

theorem pinv_loop (cfg : Cfg) (fuel : Nat) {p q : Parser} {more : Bool} {raw r : Bytes} (hi : PInv p)
    (h : loop cfg fuel p more raw = .ok (q, r)) : PInv q := by
  induction fuel generalizing p more raw with
  | zero => simp only [loop, Except.ok.injEq, Prod.mk.injEq] at h; rw [← h.1]; exact hi
  | succ fuel ih =>
    rw [loop] at h
    by_cases c : (!more || p.state == PState.complete) = true
    · rw [if_pos c] at h
      simp only [Except.ok.injEq, Prod.mk.injEq] at h; rw [← h.1]; exact hi
    · rw [if_neg c] at h
      cases hs : stepOnce cfg p raw with
      | error e => simp [hs] at h
      | ok t =>
        obtain ⟨p1, m1, r1⟩ := t
        simp only [hs] at h
        exact ih (pinv_stepOnce cfg hi hs) h

theorem pinv_parse (cfg : Cfg) {p q : Parser} {raw : Bytes} (hi : PInv p) (h : parse cfg p raw = .ok q) : PInv q := by
  unfold parse at h
  simp only at h
  generalize hl : loop cfg _ _ _ _ = res at h
  cases res with
  | error e => simp at h
  | ok t =>
    obtain ⟨p1, r1⟩ := t
    simp only [Except.ok.injEq] at h
    rw [← h]
    have hp1 : PInv p1 := pinv_loop cfg _ (p := { p with totalSize := p.totalSize + raw.length, buffer := none })
      (pinv_of_headers_eq hi rfl) hl
    exact pinv_of_headers_eq hp1 rfl

/-- **the header map of every parser reached from a fresh one has unique keys, each the lower-cased
    form of the name stored with it** — whatever bytes were fed, in however many pieces -/
theorem parseAll_keysInv (cfg : Cfg) (ty : PType) (segs : List Bytes) {q : Parser}
    (h : parseAll cfg (init ty) segs = .ok q) : PInv q := by
  have hinit : PInv (init ty) := fun x hx => by simp [init] at hx
  generalize init ty = p at h hinit
  induction segs generalizing p with
  | nil => simp only [parseAll, Except.ok.injEq] at h; rw [← h]; exact hinit
  | cons x xs ih =>
    rw [parseAll] at h
    cases hp : parse cfg p x with
    | error e => simp [hp] at h
    | ok p1 =>
      simp only [hp] at h
      exact ih p1 h (pinv_parse cfg hinit hp)

end Px.Codec
