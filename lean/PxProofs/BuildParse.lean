import PxModel.Parser
import PxModel.Build
import PxProofs.BytesLemmas
import PxProofs.ChunkLemmas
import PxProofs.ParserLemmas
import PxProofs.HexLemmas
import PxProofs.BuildLemmas
/-!
# The builders' output read back by the parser, part 2: whole messages (C15)

`parse` run on `start-line CRLF header-block CRLF payload` (one piece, fresh parser):
* `processLine_request` / `processLine_response*` : the start line;
* `parse_request_pkt` / `parse_response_pkt` : start line + header block consumed, what is left to do
  is `bodyPhase` (the framing decision of `HttpParser.parse` and the body automaton);
* `bodyPhase_nobody`, `bodyPhase_cl`, `bodyPhase_chunked` : the three framings.
-/
namespace Px.Codec

open Px.Parser Px.Build
open Px.Url (Url)

/-! ### the loop -/

theorem loop_step (cfg : Cfg) (f : Nat) (p : Parser) (raw : Bytes) (hc : p.state ≠ .complete) :
    loop cfg (f + 1) p true raw = match stepOnce cfg p raw with
      | .error e => .error e
      | .ok (p, more, raw) => loop cfg f p more raw := by
  rw [loop]
  have : (p.state == PState.complete) = false := by simpa using hc
  simp only [Bool.not_true, this, Bool.or_self, Bool.false_eq_true, if_false]
  cases stepOnce cfg p raw with
  | error e => rfl
  | ok r => rfl

theorem loop_complete (cfg : Cfg) (f : Nat) (p : Parser) (more : Bool) (raw : Bytes)
    (h : p.state = .complete) : loop cfg f p more raw = .ok (p, raw) := by
  cases f with
  | zero => rfl
  | succ f => rw [loop]; simp [h]

theorem loop_nomore (cfg : Cfg) (f : Nat) (p : Parser) (raw : Bytes) :
    loop cfg f p false raw = .ok (p, raw) := by
  cases f with
  | zero => rfl
  | succ f => rw [loop]; simp

/-! ### start lines -/

theorem splitN1_three {m u v : Bytes} (hm : SP ∉ m) (hu : SP ∉ u) :
    splitN1 SP 2 (m ++ SP :: (u ++ SP :: v)) = [m, u, v] := by
  simp only [splitN1, splitOnce1_render SP m _ hm, splitOnce1_render SP u _ hu]

theorem splitN1_two {v c : Bytes} (hv : SP ∉ v) (hc : SP ∉ c) :
    splitN1 SP 2 (v ++ SP :: c) = [v, c] := by
  simp only [splitN1, splitOnce1_render SP v _ hv, splitOnce1_of_not_mem SP c hc]

theorem setLineAttributes_same (cfg : Cfg) (p : Parser) (u : Url) :
    (setLineAttributes cfg p u).ty = p.ty ∧ (setLineAttributes cfg p u).state = p.state ∧
    (setLineAttributes cfg p u).method = p.method ∧ (setLineAttributes cfg p u).headers = p.headers ∧
    (setLineAttributes cfg p u).body = p.body ∧ (setLineAttributes cfg p u).chunk = p.chunk ∧
    (setLineAttributes cfg p u).isChunked = p.isChunked ∧
    (setLineAttributes cfg p u).contentExpected = p.contentExpected ∧
    (setLineAttributes cfg p u).url = some u ∧ (setLineAttributes cfg p u).path = u.remainder ∧
    (setLineAttributes cfg p u).host = u.hostname ∧ (setLineAttributes cfg p u).code = p.code ∧
    (setLineAttributes cfg p u).reason = p.reason ∧ (setLineAttributes cfg p u).totalSize = p.totalSize ∧
    (setLineAttributes cfg p u).buffer = p.buffer ∧ (setLineAttributes cfg p u).isTunnel = p.isTunnel := by
  unfold setLineAttributes
  split <;> simp

/-- the parser after a request line `m SP u SP v` (fresh parser, `total` bytes counted) -/
def reqLineParser (cfg : Cfg) (total : Nat) (m v : Bytes) (url : Url) : Parser :=
  let p0 : Parser := { (init .request) with totalSize := total, method := some m, isTunnel := m == cfg.connectMethod }
  let p1 : Parser := setLineAttributes cfg p0 url
  { p1 with version := some v, state := .lineRcvd }

/-- the parser after a status line `v SP code [SP reason]` -/
def resLineParser (total : Nat) (v code : Bytes) (reason : Option Bytes) : Parser :=
  { (init .response) with
    totalSize := total, version := some v, code := some code, reason := reason, state := .lineRcvd }

theorem processLine_request (cfg : Cfg) (total : Nat) {m u v : Bytes} {url : Url} (rest : Bytes)
    (hne : m ≠ []) (hm : SP ∉ m) (hu : SP ∉ u) (hl : splitCRLF (m ++ SP :: (u ++ SP :: v)) = none)
    (hurl : Px.Url.fromBytes cfg.allowedSchemes u = .ok url) :
    processLine cfg { (init .request) with totalSize := total } (m ++ SP :: (u ++ SP :: v) ++ CRLF ++ rest) =
      .ok (reqLineParser cfg total m v url, !rest.isEmpty, rest) := by
  unfold processLine
  rw [splitCRLF_render hl rest]
  have hme : m.isEmpty = false := by cases m with
    | nil => exact absurd rfl hne
    | cons _ _ => rfl
  simp only [init, splitN1_three hm hu, hme, Bool.false_eq_true, if_false, hurl, reqLineParser, Bool.false_or]

/-- response status line with a reason phrase (which may contain spaces) -/
theorem processLine_response3 (cfg : Cfg) (total : Nat) {v c r : Bytes} (rest : Bytes)
    (hv : SP ∉ v) (hc : SP ∉ c) (hl : splitCRLF (v ++ SP :: (c ++ SP :: r)) = none) :
    processLine cfg { (init .response) with totalSize := total } (v ++ SP :: (c ++ SP :: r) ++ CRLF ++ rest) =
      .ok (resLineParser total v c (some r), !rest.isEmpty, rest) := by
  unfold processLine
  rw [splitCRLF_render hl rest]
  simp only [init, splitN1_three hv hc, resLineParser]

/-- response status line without a reason phrase -/
theorem processLine_response2 (cfg : Cfg) (total : Nat) {v c : Bytes} (rest : Bytes)
    (hv : SP ∉ v) (hc : SP ∉ c) (hl : splitCRLF (v ++ SP :: c) = none) :
    processLine cfg { (init .response) with totalSize := total } (v ++ SP :: c ++ CRLF ++ rest) =
      .ok (resLineParser total v c none, !rest.isEmpty, rest) := by
  unfold processLine
  rw [splitCRLF_render hl rest]
  simp only [init, splitN1_two hv hc, resLineParser]

/-! ### header block inside `stepOnce` -/

theorem length_le_renderHdrs (H : HDict) : H.length ≤ (renderHdrs H).length := by
  induction H with
  | nil => simp
  | cons e H ih =>
    obtain ⟨k, v⟩ := e
    rw [renderHdrs_cons]
    simp only [List.length_cons, List.length_append, buildHeader, CRLF]
    omega

/-- the framing decision taken when the blank line is reached (`HttpParser.parse`) -/
def afterHeaders (q : Parser) (B : Bytes) : Parser × Bool × Bytes :=
  if !(q.contentExpected || q.isChunked) &&
      (B.isEmpty || q.ty == .request || hasHeader q (b "content-length")) then
    ({ q with state := .complete }, !B.isEmpty, B)
  else ({ q with state := .headersComplete }, !B.isEmpty, B)

theorem stepOnce_headers (cfg : Cfg) (p : Parser) (hp : p.state = .lineRcvd) (H : HDict)
    (hH : ∀ e ∈ H, HdrOK e.1 e.2) (B : Bytes) {q : Parser} (hq : foldHdrs p H = .ok q) :
    stepOnce cfg p (renderHdrs H ++ CRLF ++ B) = .ok (afterHeaders q B) := by
  unfold stepOnce
  have h1 : ¬ (p.state.num ≥ PState.headersComplete.num) := by rw [hp]; decide
  have h2 : (p.state == PState.initialized) = false := by rw [hp]; decide
  have hf : H.length < (renderHdrs H ++ CRLF ++ B).length + 1 := by
    have := length_le_renderHdrs H
    simp only [List.length_append]; omega
  simp only [h1, h2, if_false, Bool.false_eq_true,
    processHeaders_render H hH p (.inl hp) B _ hf, hq]
  have h3 : (PState.headersComplete == PState.lineRcvd) = false := by decide
  simp only [h3, Bool.and_false, Bool.false_and, Bool.false_eq_true, if_false, beq_self_eq_true,
    Bool.true_and, afterHeaders, hasHeader]
  split
  · rename_i hc; simp only [hc, if_true]
  · rename_i hc; simp only [hc, if_false, Bool.false_eq_true]

/-- what remains to be done after the header block: run the loop on the payload -/
def bodyPhase (cfg : Cfg) (fuel : Nat) (q : Parser) (B : Bytes) : Except Px.Parser.Err Parser :=
  (loop cfg fuel (afterHeaders q B).1 (afterHeaders q B).2.1 (afterHeaders q B).2.2).map finish

theorem bufBytes_init (ty : PType) : bufBytes (init ty) = [] := rfl

/-- first loop iteration on a request: the request line -/
theorem stepOnce_line_request (cfg : Cfg) (total : Nat) {m u v : Bytes} {url : Url} (rest : Bytes)
    (hne : m ≠ []) (hm : SP ∉ m) (hu : SP ∉ u) (hl : splitCRLF (m ++ SP :: (u ++ SP :: v)) = none)
    (hurl : Px.Url.fromBytes cfg.allowedSchemes u = .ok url) :
    stepOnce cfg { (init .request) with totalSize := total } (m ++ SP :: (u ++ SP :: v) ++ CRLF ++ rest) =
      .ok (reqLineParser cfg total m v url, !rest.isEmpty, rest) := by
  unfold stepOnce
  have h1 : ¬ (({ (init .request) with totalSize := total } : Parser).state.num ≥ PState.headersComplete.num) := by
    simp only [init]; decide
  have h2 : (({ (init .request) with totalSize := total } : Parser).state == PState.initialized) = true := by
    simp only [init]; decide
  simp only [h1, if_false, h2, if_true, processLine_request cfg total rest hne hm hu hl hurl]
  have hty : (reqLineParser cfg total m v url).ty = .request := by
    simp only [reqLineParser]
    exact (setLineAttributes_same cfg _ url).1
  have hst : (reqLineParser cfg total m v url).state = .lineRcvd := rfl
  have e1 : (PType.request == PType.response) = false := by decide
  have e2 : (PState.lineRcvd == PState.headersComplete) = false := by decide
  simp only [hty, hst, e1, e2, Bool.false_and, Bool.false_eq_true, if_false]

/-- start line consumed by the first iteration, header block by the second: generic form -/
theorem parse_pkt_of_line (cfg : Cfg) (ty : PType) (p1 : Parser) (H : HDict) (B : Bytes) (pkt : Bytes)
    (hlen : 0 < pkt.length)
    (hstep : stepOnce cfg { (init ty) with totalSize := pkt.length } pkt =
      .ok (p1, true, renderHdrs H ++ CRLF ++ B))
    (hls : p1.state = .lineRcvd) (hH : ∀ e ∈ H, HdrOK e.1 e.2) :
    parse cfg (init ty) pkt =
      match foldHdrs p1 H with
      | .error e => .error e
      | .ok q => bodyPhase cfg (pkt.length + 6) q B := by
  have hpos : decide (pkt.length > 0) = true := by simpa using hlen
  rw [parse_eq, bufBytes_init, List.nil_append, hpos]
  have e8 : pkt.length + 8 = (pkt.length + 7) + 1 := rfl
  have hinit : ({ (init ty) with totalSize := (init ty).totalSize + pkt.length, buffer := none } : Parser)
      = { (init ty) with totalSize := pkt.length } := by simp [init]
  rw [e8, hinit, loop_step _ _ _ _ (by simp [init]), hstep]
  simp only
  have e7 : pkt.length + 7 = (pkt.length + 6) + 1 := rfl
  rw [e7, loop_step _ _ _ _ (by rw [hls]; decide)]
  cases hq : foldHdrs p1 H with
  | error e =>
    -- the header loop raised (a `content-length` value that is not an integer literal)
    unfold stepOnce
    have h1 : ¬ (p1.state.num ≥ PState.headersComplete.num) := by rw [hls]; decide
    have h2 : (p1.state == PState.initialized) = false := by rw [hls]; decide
    have hf : H.length < (renderHdrs H ++ CRLF ++ B).length + 1 := by
      have := length_le_renderHdrs H
      simp only [List.length_append]; omega
    simp only [h1, h2, if_false, Bool.false_eq_true,
      processHeaders_render H hH _ (.inl hls) B _ hf, hq]
    rfl
  | ok q =>
    rw [stepOnce_headers cfg _ hls H hH B hq]
    rfl

/-- **request packet**: start line and header block of a rendered request are consumed by the
    first two loop iterations; the rest is the body phase -/
theorem parse_request_pkt (cfg : Cfg) {m u v : Bytes} {url : Url} (H : HDict) (B : Bytes)
    (hmne : m ≠ []) (hm : SP ∉ m) (hu : SP ∉ u) (hl : splitCRLF (m ++ SP :: (u ++ SP :: v)) = none)
    (hurl : Px.Url.fromBytes cfg.allowedSchemes u = .ok url)
    (hH : ∀ e ∈ H, HdrOK e.1 e.2) (pkt : Bytes)
    (hpkt : pkt = m ++ SP :: (u ++ SP :: v) ++ CRLF ++ (renderHdrs H ++ CRLF ++ B)) :
    parse cfg (init .request) pkt =
      match foldHdrs (reqLineParser cfg pkt.length m v url) H with
      | .error e => .error e
      | .ok q => bodyPhase cfg (pkt.length + 6) q B := by
  have hne : (renderHdrs H ++ CRLF ++ B).isEmpty = false := by simp [CRLF]
  have hlen : 0 < pkt.length := by
    simp only [hpkt, List.length_append, List.length_cons, CRLF]; omega
  have hstep1 := stepOnce_line_request cfg pkt.length (renderHdrs H ++ CRLF ++ B) hmne hm hu hl hurl
  rw [← hpkt, hne] at hstep1
  exact parse_pkt_of_line cfg .request _ H B pkt hlen hstep1 rfl hH

/-- first loop iteration on a response whose status line is followed by more than the bare CRLF -/
theorem stepOnce_line_response (cfg : Cfg) (total : Nat) (line rest : Bytes) (p1 : Parser)
    (hpl : processLine cfg { (init .response) with totalSize := total } (line ++ CRLF ++ rest) =
      .ok (p1, !rest.isEmpty, rest))
    (hst : p1.state = .lineRcvd) (hr : rest ≠ CRLF) :
    stepOnce cfg { (init .response) with totalSize := total } (line ++ CRLF ++ rest) =
      .ok (p1, !rest.isEmpty, rest) := by
  unfold stepOnce
  have h1 : ¬ (({ (init .response) with totalSize := total } : Parser).state.num ≥ PState.headersComplete.num) := by
    simp only [init]; decide
  have h2 : (({ (init .response) with totalSize := total } : Parser).state == PState.initialized) = true := by
    simp only [init]; decide
  simp only [h1, if_false, h2, if_true, hpl]
  have e2 : (PState.lineRcvd == PState.headersComplete) = false := by decide
  have e3 : (rest == CRLF) = false := by simpa using hr
  simp only [hst, e2, e3, Bool.and_false, Bool.false_and, Bool.false_eq_true, if_false]

theorem rest_ne_crlf (H : HDict) (B : Bytes) (h : H ≠ [] ∨ B ≠ []) : renderHdrs H ++ CRLF ++ B ≠ CRLF := by
  intro e
  have hl := congrArg List.length e
  simp only [List.length_append, CRLF, List.length_cons, List.length_nil] at hl
  rcases h with h | h
  · obtain ⟨⟨k, v⟩, H', rfl⟩ := List.exists_cons_of_ne_nil h
    rw [renderHdrs_cons] at hl
    simp only [List.length_append, buildHeader, CRLF, List.length_cons, List.length_nil] at hl
    omega
  · have := List.length_pos_iff.2 h; omega

/-- **response packet** with a reason phrase -/
theorem parse_response_pkt3 (cfg : Cfg) {v c r : Bytes} (H : HDict) (B : Bytes)
    (hv : SP ∉ v) (hc : SP ∉ c) (hl : splitCRLF (v ++ SP :: (c ++ SP :: r)) = none)
    (hnh : H ≠ [] ∨ B ≠ []) (hH : ∀ e ∈ H, HdrOK e.1 e.2) (pkt : Bytes)
    (hpkt : pkt = v ++ SP :: (c ++ SP :: r) ++ CRLF ++ (renderHdrs H ++ CRLF ++ B)) :
    parse cfg (init .response) pkt =
      match foldHdrs (resLineParser pkt.length v c (some r)) H with
      | .error e => .error e
      | .ok q => bodyPhase cfg (pkt.length + 6) q B := by
  have hne : (renderHdrs H ++ CRLF ++ B).isEmpty = false := by simp [CRLF]
  have hlen : 0 < pkt.length := by
    simp only [hpkt, List.length_append, List.length_cons, CRLF]; omega
  have hstep1 := stepOnce_line_response cfg pkt.length _ (renderHdrs H ++ CRLF ++ B) _
    (processLine_response3 cfg pkt.length _ hv hc hl) rfl (rest_ne_crlf H B hnh)
  rw [← hpkt, hne] at hstep1
  exact parse_pkt_of_line cfg .response _ H B pkt hlen hstep1 rfl hH

/-- **response packet** without a reason phrase -/
theorem parse_response_pkt2 (cfg : Cfg) {v c : Bytes} (H : HDict) (B : Bytes)
    (hv : SP ∉ v) (hc : SP ∉ c) (hl : splitCRLF (v ++ SP :: c) = none)
    (hnh : H ≠ [] ∨ B ≠ []) (hH : ∀ e ∈ H, HdrOK e.1 e.2) (pkt : Bytes)
    (hpkt : pkt = v ++ SP :: c ++ CRLF ++ (renderHdrs H ++ CRLF ++ B)) :
    parse cfg (init .response) pkt =
      match foldHdrs (resLineParser pkt.length v c none) H with
      | .error e => .error e
      | .ok q => bodyPhase cfg (pkt.length + 6) q B := by
  have hne : (renderHdrs H ++ CRLF ++ B).isEmpty = false := by simp [CRLF]
  have hlen : 0 < pkt.length := by
    simp only [hpkt, List.length_append, List.length_cons, CRLF]; omega
  have hstep1 := stepOnce_line_response cfg pkt.length _ (renderHdrs H ++ CRLF ++ B) _
    (processLine_response2 cfg pkt.length _ hv hc hl) rfl (rest_ne_crlf H B hnh)
  rw [← hpkt, hne] at hstep1
  exact parse_pkt_of_line cfg .response _ H B pkt hlen hstep1 rfl hH

/-- **header-less response** `version SP code [SP reason] CRLF CRLF`: complete at once, no headers,
    no body, nothing left over -/
theorem parse_headerless_response (cfg : Cfg) (line : Bytes) (p1 : Parser) (pkt : Bytes)
    (hpkt : pkt = line ++ CRLF ++ CRLF)
    (hpl : processLine cfg { (init .response) with totalSize := pkt.length } (line ++ CRLF ++ CRLF) =
      .ok (p1, !CRLF.isEmpty, CRLF))
    (hty : p1.ty = .response) (hst : p1.state = .lineRcvd) :
    parse cfg (init .response) pkt = .ok { p1 with state := .complete, buffer := none } := by
  have hlen : 0 < pkt.length := by simp only [hpkt, List.length_append, CRLF, List.length_cons]; omega
  have hpos : decide (pkt.length > 0) = true := by simpa using hlen
  rw [parse_eq, bufBytes_init, List.nil_append, hpos]
  have e8 : pkt.length + 8 = (pkt.length + 7) + 1 := rfl
  have hinit : ({ (init .response) with totalSize := (init .response).totalSize + pkt.length, buffer := none } : Parser)
      = { (init .response) with totalSize := pkt.length } := by simp [init]
  rw [e8, hinit, loop_step _ _ _ _ (by simp [init])]
  have hstep : stepOnce cfg { (init .response) with totalSize := pkt.length } pkt =
      .ok ({ p1 with state := .complete }, !CRLF.isEmpty, []) := by
    rw [hpkt] at hpl ⊢
    unfold stepOnce
    have h1 : ¬ (({ (init .response) with totalSize := (line ++ CRLF ++ CRLF).length } : Parser).state.num ≥
        PState.headersComplete.num) := by simp only [init]; decide
    have h2 : (({ (init .response) with totalSize := (line ++ CRLF ++ CRLF).length } : Parser).state ==
        PState.initialized) = true := by simp only [init]; decide
    simp only [h1, if_false, h2, if_true, hpl, hty, hst, beq_self_eq_true, Bool.and_self, if_true]
  rw [hstep]
  simp only
  rw [loop_complete _ _ _ _ _ rfl]
  simp [Except.map, finish]

/-! ### the three framings -/

theorem afterHeaders_body (q : Parser) (B : Bytes) (h : q.contentExpected = true ∨ q.isChunked = true) :
    afterHeaders q B = ({ q with state := .headersComplete }, !B.isEmpty, B) := by
  unfold afterHeaders
  have : (!(q.contentExpected || q.isChunked) &&
      (B.isEmpty || q.ty == .request || hasHeader q (b "content-length"))) = false := by
    rcases h with h | h <;> simp [h]
  simp only [this, Bool.false_eq_true, if_false]

theorem afterHeaders_done (q : Parser) (B : Bytes) (hce : q.contentExpected = false) (hch : q.isChunked = false)
    (hB : B = [] ∨ q.ty = .request ∨ hasHeader q (b "content-length") = true) :
    afterHeaders q B = ({ q with state := .complete }, !B.isEmpty, B) := by
  unfold afterHeaders
  have : (!(q.contentExpected || q.isChunked) &&
      (B.isEmpty || q.ty == .request || hasHeader q (b "content-length"))) = true := by
    rw [hce, hch]
    rcases hB with h | h | h <;> simp [h]
  rw [if_pos this]

/-- no body expected: complete when the blank line is read; what follows stays in the buffer -/
theorem bodyPhase_nobody (cfg : Cfg) (fuel : Nat) (q : Parser) (B : Bytes)
    (hce : q.contentExpected = false) (hch : q.isChunked = false)
    (hB : B = [] ∨ q.ty = .request ∨ hasHeader q (b "content-length") = true) :
    bodyPhase cfg fuel q B =
      .ok { q with state := .complete, buffer := if B.isEmpty then none else some B } := by
  unfold bodyPhase
  rw [afterHeaders_done q B hce hch hB]
  simp only
  rw [loop_complete _ _ _ _ _ rfl]
  simp [Except.map, finish]

/-- chunked framing: the payload is a valid chunked stream followed by `tail` -/
theorem bodyPhase_chunked (cfg : Cfg) (fuel : Nat) (q : Parser) (s : Px.Chunk.ChunkedStream) (tail : Bytes)
    (hch : q.isChunked = true) (hck : q.chunk = none) (hv : s.Valid) :
    bodyPhase cfg (fuel + 2) q (s.render ++ tail) =
      .ok { q with state := .complete, body := some s.decoded,
                   chunk := some { state := .complete, body := s.decoded, chunk := [], size := none },
                   buffer := if tail.isEmpty then none else some tail } := by
  have hne : (s.render ++ tail).isEmpty = false := by
    have := Px.Chunk.render_ne_nil s
    simp [this]
  unfold bodyPhase
  rw [afterHeaders_body q _ (.inr hch)]
  simp only [hne, Bool.not_false]
  rw [loop_step _ _ _ _ (by simp)]
  have hstep : stepOnce cfg { q with state := .headersComplete } (s.render ++ tail) =
      .ok ({ q with state := .complete, body := some s.decoded,
                    chunk := some { state := .complete, body := s.decoded, chunk := [], size := none } },
           false, tail) := by
    unfold stepOnce
    have h1 : (({ q with state := .headersComplete } : Parser).state.num ≥ PState.headersComplete.num) :=
      Nat.le_refl _
    simp only [h1, if_true]
    unfold processBody
    have hps := Px.Chunk.parse_stream s hv Px.Chunk.init rfl rfl tail
    simp only [hch, if_true, hck, Option.getD_none, hps]
    simp [Px.Chunk.init]
  rw [hstep]
  simp only
  rw [loop_nomore]
  simp [Except.map, finish]

/-- Content-Length framing: the payload is `body ++ tail` with `len(body)` the announced length -/
theorem bodyPhase_cl (cfg : Cfg) (fuel : Nat) (q : Parser) (body tail clv : Bytes)
    (hch : q.isChunked = false) (hce : q.contentExpected = true) (hbd : q.body = none)
    (hcl : header q (b "content-length") = .ok clv)
    (hint : pyInt 10 clv = some (Int.ofNat body.length)) (hne : body ≠ []) :
    bodyPhase cfg (fuel + 2) q (body ++ tail) =
      .ok { q with state := .complete, body := some body,
                   buffer := if tail.isEmpty then none else some tail } := by
  have hne' : (body ++ tail).isEmpty = false := by simp [hne]
  unfold bodyPhase
  rw [afterHeaders_body q _ (.inl hce)]
  simp only [hne', Bool.not_false]
  rw [loop_step _ _ _ _ (by simp)]
  have hstep : stepOnce cfg { q with state := .headersComplete } (body ++ tail) =
      .ok ({ q with state := .complete, body := some body }, true, tail) := by
    unfold stepOnce
    have h1 : (({ q with state := .headersComplete } : Parser).state.num ≥ PState.headersComplete.num) :=
      Nat.le_refl _
    simp only [h1, if_true]
    unfold processBody
    unfold header at hcl ⊢
    simp only [hch, Bool.false_eq_true, if_false, hce, if_true, hbd, Option.getD_none, hcl, hint]
    have hge : (Int.ofNat body.length - Int.ofNat ([] : Bytes).length ≥ 0) := by simp
    simp only [hge, if_true]
    have htk : (Int.ofNat body.length - Int.ofNat ([] : Bytes).length).toNat = body.length := by simp
    simp only [htk, List.nil_append, List.take_left', List.drop_left', hne']
    have hb : body.isEmpty = false := by simpa using hne
    simp [hb]
  rw [hstep]
  simp only
  rw [loop_complete _ _ _ _ _ rfl]
  simp [Except.map, finish]

end Px.Codec
