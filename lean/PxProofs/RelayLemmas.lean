import PxModel.Relay
import PxProofs.ConnLemmas
/-! Lemmas about the relay tick (C01, C07): per-phase frame facts and the
    byte-accounting equalities every phase preserves. -/
namespace Px.Relay
open Px Px.Conn

/-- delivered ++ pending, client side -/
def D (s : St) : Bytes := s.sentC ++ s.client.buffer.flatten
/-- delivered ++ pending, upstream side -/
def U (s : St) : Bytes := s.sentU ++ s.upstream.buffer.flatten

/-! ### phase facts -/

theorem afterCW_frame (s : St) (r : FlushRes)
    (hw : r.wire ++ r.conn.buffer.flatten = s.client.buffer.flatten) :
    (afterCW s r).1.kind = s.kind ∧ (afterCW s r).1.maxSend = s.maxSend ∧
    (afterCW s r).1.upstream = s.upstream ∧ (afterCW s r).1.recvU = s.recvU ∧
    (afterCW s r).1.recvC = s.recvC ∧ (afterCW s r).1.sentU = s.sentU ∧
    (afterCW s r).1.queuedC = s.queuedC ∧ (afterCW s r).1.readsTeared = s.readsTeared ∧
    D (afterCW s r).1 = D s := by
  obtain ⟨conn, off, acc, exc⟩ := r
  unfold afterCW D
  cases exc with
  | some e => simp_all [List.append_assoc]
  | none =>
    simp only
    split <;> simp_all [List.append_assoc]

theorem phaseCW_frame (s : St) (t : Tick) :
    (phaseCW s t).1.kind = s.kind ∧ (phaseCW s t).1.maxSend = s.maxSend ∧
    (phaseCW s t).1.upstream = s.upstream ∧ (phaseCW s t).1.recvU = s.recvU ∧
    (phaseCW s t).1.recvC = s.recvC ∧ (phaseCW s t).1.sentU = s.sentU ∧
    (phaseCW s t).1.queuedC = s.queuedC ∧ (phaseCW s t).1.readsTeared = s.readsTeared ∧
    D (phaseCW s t).1 = D s := by
  unfold phaseCW
  split
  · exact afterCW_frame s _ (flush_wire_append s.maxSend s.client t.cSend)
  · simp

theorem afterUW_frame (s : St) (r : FlushRes)
    (hw : r.wire ++ r.conn.buffer.flatten = s.upstream.buffer.flatten)
    (hc : r.conn.closed = s.upstream.closed) :
    (afterUW s r).1.kind = s.kind ∧ (afterUW s r).1.maxSend = s.maxSend ∧
    (afterUW s r).1.client = s.client ∧ (afterUW s r).1.recvU = s.recvU ∧
    (afterUW s r).1.recvC = s.recvC ∧ (afterUW s r).1.sentC = s.sentC ∧
    (afterUW s r).1.queuedC = s.queuedC ∧ (afterUW s r).1.readsTeared = s.readsTeared ∧
    (afterUW s r).1.mustFlush = s.mustFlush ∧
    (afterUW s r).1.upstream.closed = s.upstream.closed ∧
    U (afterUW s r).1 = U s := by
  obtain ⟨conn, off, acc, exc⟩ := r
  unfold afterUW U
  cases exc with
  | some e => cases e <;> simp_all [List.append_assoc]
  | none => simp_all [List.append_assoc]

theorem phaseUW_frame (s : St) (t : Tick) :
    (phaseUW s t).1.kind = s.kind ∧ (phaseUW s t).1.maxSend = s.maxSend ∧
    (phaseUW s t).1.client = s.client ∧ (phaseUW s t).1.recvU = s.recvU ∧
    (phaseUW s t).1.recvC = s.recvC ∧ (phaseUW s t).1.sentC = s.sentC ∧
    (phaseUW s t).1.queuedC = s.queuedC ∧ (phaseUW s t).1.readsTeared = s.readsTeared ∧
    (phaseUW s t).1.mustFlush = s.mustFlush ∧
    (phaseUW s t).1.upstream.closed = s.upstream.closed ∧
    U (phaseUW s t).1 = U s := by
  unfold phaseUW
  split
  · exact afterUW_frame s _ (flush_wire_append s.maxSend s.upstream t.uSend)
      (flush_closed s.maxSend s.upstream t.uSend)
  · simp

theorem afterHD_state (s : St) (hd : HD) :
    (afterHD s hd).1 = s ∨ (afterHD s hd).1 = { s with mustFlush := true } := by
  unfold afterHD
  cases hd with
  | raised => simp
  | ret c => cases c <;> simp <;> split <;> simp

theorem onClientData_frame (s : St) (b : Bytes) (a : AppOut) (hk : s.kind ≠ .local) :
    (onClientData s b a).1.kind = s.kind ∧ (onClientData s b a).1.maxSend = s.maxSend ∧
    (onClientData s b a).1.client = s.client ∧ (onClientData s b a).1.recvU = s.recvU ∧
    (onClientData s b a).1.recvC = s.recvC ∧
    (onClientData s b a).1.sentC = s.sentC ∧ (onClientData s b a).1.sentU = s.sentU ∧
    (onClientData s b a).1.queuedC = s.queuedC ∧
    (onClientData s b a).1.upstream.closed = s.upstream.closed := by
  unfold onClientData
  cases hkind : s.kind with
  | «local» => exact absurd hkind hk
  | tunnel => simp only; split <;> simp [hkind, Conn.queue]
  | http =>
    simp only
    split
    · simp [hkind]
    · cases a with
      | raised => simp [hkind]
      | ok toUp toCl close => cases toUp <;> simp [hkind, Conn.queue]

/-- client read phase on a tunnel / plain-HTTP exchange: the client side of the
    state is untouched -/
theorem phaseCR_frame (s : St) (t : Tick) (hk : s.kind ≠ .local) :
    (phaseCR s t).1.kind = s.kind ∧ (phaseCR s t).1.maxSend = s.maxSend ∧
    (phaseCR s t).1.client = s.client ∧ (phaseCR s t).1.recvU = s.recvU ∧
    (phaseCR s t).1.sentC = s.sentC ∧ (phaseCR s t).1.sentU = s.sentU ∧
    (phaseCR s t).1.queuedC = s.queuedC ∧
    (phaseCR s t).1.upstream.closed = s.upstream.closed := by
  unfold phaseCR
  split
  · cases hr : Conn.recv t.cRecv with
    | none_ => simp
    | exc o => cases o <;> simp
    | seg b =>
      simp only
      have hf := onClientData_frame { s with recvC := s.recvC ++ b } b t.app (by simpa using hk)
      rcases afterHD_state (onClientData { s with recvC := s.recvC ++ b } b t.app).1
          (onClientData { s with recvC := s.recvC ++ b } b t.app).2 with h | h <;>
        rw [h] <;> simp_all
  · simp

/-- client read phase of a tunnel: every byte read goes to the upstream queue -/
theorem phaseCR_tunnel (s : St) (t : Tick) (hk : s.kind = .tunnel) (hc : s.upstream.closed = false) :
    ∃ seg, (phaseCR s t).1.recvC = s.recvC ++ seg ∧ U (phaseCR s t).1 = U s ++ seg ∧
      (phaseCR s t).2 ≠ .raised := by
  unfold phaseCR
  split
  · cases hr : Conn.recv t.cRecv with
    | none_ => exact ⟨[], by simp⟩
    | exc o => cases o <;> exact ⟨[], by simp⟩
    | seg b =>
      refine ⟨b, ?_⟩
      simp [onClientData, afterHD, hk, hc, U, Conn.queue]
  · exact ⟨[], by simp⟩

theorem phaseUR_frame (s : St) (t : Tick) :
    (phaseUR s t).1.kind = s.kind ∧ (phaseUR s t).1.maxSend = s.maxSend ∧
    (phaseUR s t).1.upstream = s.upstream ∧ (phaseUR s t).1.recvC = s.recvC ∧
    (phaseUR s t).1.sentC = s.sentC ∧ (phaseUR s t).1.sentU = s.sentU ∧
    (phaseUR s t).1.mustFlush = s.mustFlush := by
  unfold phaseUR
  split
  · cases hr : Conn.recv t.uRecv with
    | none_ => simp
    | exc o => cases o <;> simp
    | seg b => simp
  · simp

/-- upstream read phase: the segment read (if any) is appended to the received
    history and to the client queue, as received -/
theorem phaseUR_seg (s : St) (t : Tick) :
    ∃ seg, (phaseUR s t).1.recvU = s.recvU ++ seg ∧ D (phaseUR s t).1 = D s ++ seg ∧
      (phaseUR s t).1.queuedC.flatten = s.queuedC.flatten ++ seg ∧
      (((phaseUR s t).1.queuedC = s.queuedC ∧ (phaseUR s t).1.client = s.client) ∨
        (t.uRecv = .data seg ∧ seg ≠ [] ∧ (phaseUR s t).1.queuedC = s.queuedC ++ [seg] ∧
          (phaseUR s t).1.client = s.client.queue seg)) := by
  unfold phaseUR
  split
  · cases hu : t.uRecv with
    | data d =>
      cases hd : d.isEmpty with
      | false =>
        refine ⟨d, ?_⟩
        have : d ≠ [] := by intro h; simp [h] at hd
        simp [Conn.recv, hd, D, Conn.queue, this]
      | true => exact ⟨[], by simp [Conn.recv, hd, D]⟩
    | eof => exact ⟨[], by simp [Conn.recv, D]⟩
    | reset => exact ⟨[], by simp [Conn.recv, D]⟩
    | timedOut => exact ⟨[], by simp [Conn.recv, D]⟩
    | osError => exact ⟨[], by simp [Conn.recv, D]⟩
    | blocking => exact ⟨[], by simp [Conn.recv, D]⟩
    | sslWantRead => exact ⟨[], by simp [Conn.recv, D]⟩
  · exact ⟨[], by simp [D]⟩

end Px.Relay
